package main

// Loading of the two analysis universes (DESIGN §1.2).
//
// U1: generated go.work (under /verif/build, never inside /repo) using /repo/go/appencryption and
//     /repo/go/securememory, so that cross-module calls resolve to /repo sources.
// U2: /repo/server/go in module mode.
//
// Nothing is cached between runs: go/packages re-reads /repo's working tree on every invocation.

import (
	"fmt"
	"go/token"
	"go/types"
	"os"
	"os/exec"
	"path/filepath"
	"sort"
	"strings"

	"golang.org/x/tools/go/packages"
	"golang.org/x/tools/go/ssa"
	"golang.org/x/tools/go/ssa/ssautil"
)

// repoRoot is /repo; VERIF_REPO may point the checker at a scratch worktree of the repository (used only to try the
// checks against seeded changes without touching /repo; the registered commands never set it).
var repoRoot = func() string {
	if v := os.Getenv("VERIF_REPO"); v != "" {
		return v
	}
	return "/repo"
}()

const (
	modApp     = "github.com/godaddy/asherah/go/appencryption"
	modSec     = "github.com/godaddy/asherah/go/securememory"
	modServer  = "github.com/godaddy/asherah/server/go"
	pkgApp     = modApp
	pkgInt     = modApp + "/internal"
	pkgCache   = modApp + "/pkg/cache"
	pkgCacheIn = modApp + "/pkg/cache/internal"
	pkgAead    = modApp + "/pkg/crypto/aead"
	pkgKms     = modApp + "/pkg/kms"
	pkgPersist = modApp + "/pkg/persistence"
	pkgKmsV1   = modApp + "/plugins/aws-v1/kms"
	pkgDynV1   = modApp + "/plugins/aws-v1/persistence"
	pkgKmsV2   = modApp + "/plugins/aws-v2/kms"
	pkgDynV2   = modApp + "/plugins/aws-v2/dynamodb/metastore"
	pkgSec     = modSec
	pkgMemg    = modSec + "/memguard"
	pkgProt    = modSec + "/protectedmemory"
	pkgMemcall = modSec + "/internal/memcall"
	pkgSecrets = modSec + "/internal/secrets"
	pkgServer  = modServer + "/pkg/server"
)

// BuildConfig is one build configuration under which a universe is loaded.
type BuildConfig struct {
	Name   string
	Tags   string
	GOARCH string
}

// Universe is a loaded, type-checked set of packages with SSA.
type Universe struct {
	Name    string
	Config  BuildConfig
	Fset    *token.FileSet
	Pkgs    []*packages.Package          // root packages (repo sources only)
	ByPath  map[string]*packages.Package // all packages, by import path
	Prog    *ssa.Program
	SSAPkgs map[string]*ssa.Package
	// RepoFuncs are all SSA functions (incl. anonymous and generic bodies) whose source is under /repo.
	RepoFuncs []*ssa.Function
	AllDeps   bool
	// Renames: declarations analysed under their pinned names (normalise.go)
	Renames []string
}

func verifRoot() string {
	if v := os.Getenv("VERIF_ROOT"); v != "" {
		return v
	}
	exe, err := os.Executable()
	if err == nil {
		d := filepath.Dir(filepath.Dir(exe)) // <root>/bin/asherah-verif
		if _, err := os.Stat(filepath.Join(d, "properties.jsonl")); err == nil {
			return d
		}
	}
	return "/verif"
}

func baseEnv() []string {
	var env []string
	for _, kv := range os.Environ() {
		k := strings.SplitN(kv, "=", 2)[0]
		switch k {
		case "GOWORK", "GOFLAGS", "GOPROXY", "GOSUMDB", "GOTOOLCHAIN", "GOARCH", "GOOS", "CGO_ENABLED":
			continue
		}
		env = append(env, kv)
	}
	env = append(env, "GOPROXY=off", "GOSUMDB=off", "GOTOOLCHAIN=local")
	return env
}

// writeWorkspace generates the go.work for U1 outside /repo.
func writeWorkspace() (string, error) {
	dir := filepath.Join(verifRoot(), "build", "u1")
	if err := os.MkdirAll(dir, 0o755); err != nil {
		return "", err
	}
	work := "go 1.23.0\n\nuse (\n\t" + repoRoot + "/go/appencryption\n\t" + repoRoot + "/go/securememory\n)\n"
	if err := writeFileAtomic(filepath.Join(dir, "go.work"), []byte(work)); err != nil {
		return "", err
	}
	seen := map[string]bool{}
	var lines []string
	for _, f := range []string{"go/appencryption/go.sum", "go/securememory/go.sum", "go/appencryption/go.work.sum"} {
		b, err := os.ReadFile(filepath.Join(repoRoot, f))
		if err != nil {
			continue
		}
		for _, l := range strings.Split(string(b), "\n") {
			l = strings.TrimSpace(l)
			if l != "" && !seen[l] {
				seen[l] = true
				lines = append(lines, l)
			}
		}
	}
	sort.Strings(lines)
	if err := writeFileAtomic(filepath.Join(dir, "go.work.sum"), []byte(strings.Join(lines, "\n")+"\n")); err != nil {
		return "", err
	}
	return filepath.Join(dir, "go.work"), nil
}

// writeFileAtomic leaves the file untouched when it already has the content, and otherwise replaces it by rename, so
// that checks running concurrently (several properties at once) never see a truncated go.work.
func writeFileAtomic(path string, content []byte) error {
	if old, err := os.ReadFile(path); err == nil && string(old) == string(content) {
		return nil
	}
	tmp, err := os.CreateTemp(filepath.Dir(path), filepath.Base(path)+".tmp*")
	if err != nil {
		return err
	}
	if _, err := tmp.Write(content); err != nil {
		tmp.Close()
		os.Remove(tmp.Name())
		return err
	}
	if err := tmp.Close(); err != nil {
		os.Remove(tmp.Name())
		return err
	}
	if err := os.Chmod(tmp.Name(), 0o644); err != nil {
		os.Remove(tmp.Name())
		return err
	}
	return os.Rename(tmp.Name(), path)
}

func loadUniverse(name string, bc BuildConfig, allDeps bool) (*Universe, error) {
	return loadUniverseOverlay(name, bc, allDeps, nil)
}

// loadUniverseOverlay loads with in-memory replacements for some files (thorough tier's kill matrix; nothing is
// written to the repository).
func loadUniverseOverlay(name string, bc BuildConfig, allDeps bool, overlay map[string][]byte) (*Universe, error) {
	if overlay == nil {
		overlay = overlayFromEnv() // mutation sweep only; never set by the registered commands
	}
	env := baseEnv()
	var dir string
	var patterns []string
	switch name {
	case "U1":
		work, err := writeWorkspace()
		if err != nil {
			return nil, err
		}
		env = append(env, "GOWORK="+work, "GOFLAGS=-mod=readonly")
		dir = repoRoot + "/go/appencryption"
		patterns = []string{modApp + "/...", modSec + "/..."}
	case "U2":
		env = append(env, "GOWORK=off", "GOFLAGS=-mod=mod")
		dir = repoRoot + "/server/go"
		patterns = []string{"./..."}
	default:
		return nil, fmt.Errorf("unknown universe %s", name)
	}
	if bc.GOARCH != "" {
		env = append(env, "GOARCH="+bc.GOARCH, "CGO_ENABLED=0")
	}
	mode := packages.NeedName | packages.NeedFiles | packages.NeedCompiledGoFiles | packages.NeedImports |
		packages.NeedTypes | packages.NeedSyntax | packages.NeedTypesInfo | packages.NeedTypesSizes | packages.NeedModule
	if allDeps {
		mode |= packages.NeedDeps // LoadAllSyntax: dependencies from source, with SSA bodies
	}
	cfg := &packages.Config{Mode: mode, Dir: dir, Env: env, Tests: false, Fset: token.NewFileSet(), Overlay: overlay}
	if bc.Tags != "" {
		cfg.BuildFlags = []string{"-tags=" + bc.Tags}
	}
	pkgs, err := packages.Load(cfg, patterns...)
	if err != nil {
		return nil, fmt.Errorf("%s: packages.Load: %w", name, err)
	}
	if len(pkgs) == 0 {
		return nil, fmt.Errorf("%s: no packages loaded", name)
	}
	u := &Universe{Name: name, Config: bc, Fset: cfg.Fset, ByPath: map[string]*packages.Package{}, SSAPkgs: map[string]*ssa.Package{}, AllDeps: allDeps}
	var errs []string
	packages.Visit(pkgs, nil, func(p *packages.Package) {
		u.ByPath[p.PkgPath] = p
		if isRepoPkg(p) {
			for _, e := range p.Errors {
				errs = append(errs, e.Error())
			}
		}
	})
	if len(errs) > 0 {
		if len(errs) > 8 {
			errs = errs[:8]
		}
		return nil, fmt.Errorf("%s: type-check/load errors: %s", name, strings.Join(errs, "; "))
	}
	// renamed functions / fields / parameters get their pinned names back, in memory (normalise.go)
	if os.Getenv("VERIF_NO_NORMALISE") == "" && !genPinnedMode {
		var repo []*packages.Package
		packages.Visit(pkgs, nil, func(p *packages.Package) {
			if isRepoPkg(p) {
				repo = append(repo, p)
			}
		})
		if ov, notes := normaliseNames(repo, cfg.Fset, overlay); ov != nil {
			cfg2 := &packages.Config{Mode: mode, Dir: dir, Env: env, Tests: false, Fset: token.NewFileSet(), Overlay: ov, BuildFlags: cfg.BuildFlags}
			pkgs2, err2 := packages.Load(cfg2, patterns...)
			clean := err2 == nil && len(pkgs2) > 0
			if clean {
				packages.Visit(pkgs2, nil, func(p *packages.Package) {
					if isRepoPkg(p) && len(p.Errors) > 0 {
						clean = false
					}
				})
			}
			if clean {
				pkgs = pkgs2
				u.Fset = cfg2.Fset
				u.ByPath = map[string]*packages.Package{}
				packages.Visit(pkgs, nil, func(p *packages.Package) { u.ByPath[p.PkgPath] = p })
				u.Renames = notes
			} else {
				u.Renames = []string{"renamed declarations were found but the tree does not type-check under the pinned names (a name is taken): analysed as it is"}
			}
		}
	}
	for _, p := range pkgs {
		if isRepoPkg(p) {
			u.Pkgs = append(u.Pkgs, p)
		}
	}
	sort.Slice(u.Pkgs, func(i, j int) bool { return u.Pkgs[i].PkgPath < u.Pkgs[j].PkgPath })
	if len(u.Pkgs) == 0 {
		return nil, fmt.Errorf("%s: zero repository packages loaded", name)
	}
	bmode := ssa.BuilderMode(0) // keep generic bodies uninstantiated; rules use the generic bodies (DESIGN §1.2)
	var prog *ssa.Program
	if allDeps {
		var sp []*ssa.Package
		prog, sp = ssautil.AllPackages(pkgs, bmode)
		_ = sp
	} else {
		prog, _ = ssautil.Packages(pkgs, bmode)
		// Packages() only creates function bodies for the initial packages; cross-module repo packages
		// (securememory when reached from appencryption) are initial packages too, since both modules are listed.
	}
	prog.Build()
	u.Prog = prog
	for _, sp := range prog.AllPackages() {
		u.SSAPkgs[sp.Pkg.Path()] = sp
	}
	// collect repo functions
	seen := map[*ssa.Function]bool{}
	var add func(f *ssa.Function)
	add = func(f *ssa.Function) {
		if f == nil || seen[f] {
			return
		}
		seen[f] = true
		if f.Blocks != nil {
			u.RepoFuncs = append(u.RepoFuncs, f)
		}
		for _, a := range f.AnonFuncs {
			add(a)
		}
	}
	for _, p := range u.Pkgs {
		sp := u.SSAPkgs[p.PkgPath]
		if sp == nil {
			continue
		}
		for _, m := range sp.Members {
			switch m := m.(type) {
			case *ssa.Function:
				add(m)
			case *ssa.Type:
				t := m.Type()
				for _, tt := range []types.Type{t, types.NewPointer(t)} {
					ms := prog.MethodSets.MethodSet(tt)
					for i := 0; i < ms.Len(); i++ {
						fn := prog.MethodValue(ms.At(i))
						if fn != nil && fn.Pkg == sp && fn.Synthetic == "" {
							add(fn)
						}
					}
				}
				// generic named types: methods are reachable through the declared funcs
				if n, ok := t.(*types.Named); ok {
					for i := 0; i < n.NumMethods(); i++ {
						add(prog.FuncValue(n.Method(i)))
					}
				}
			}
		}
	}
	sort.Slice(u.RepoFuncs, func(i, j int) bool { return u.RepoFuncs[i].String() < u.RepoFuncs[j].String() })
	return u, nil
}

func isRepoPkg(p *packages.Package) bool {
	if !(strings.HasPrefix(p.PkgPath, "github.com/godaddy/asherah/")) {
		return false
	}
	for _, f := range p.GoFiles {
		return strings.HasPrefix(f, repoRoot+"/")
	}
	return false
}

// goVersion returns `go version` output (for evidence).
func goVersion() string {
	out, err := exec.Command("go", "version").Output()
	if err != nil {
		return "unknown"
	}
	return strings.TrimSpace(string(out))
}
