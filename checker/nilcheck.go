package main

// E-NIL: targeted nil-guard analysis (DESIGN §1.3). For *declared nullable sources* every dereference must be
// dominated by a non-nil test of the same value (by access path). Values are traced back through helper parameters
// (every call site must pass a safe value), closure captures (evaluated where the closure is created), call results
// (the callee must not return a nullable value together with a nil error, and the caller must know err == nil) and
// phis. Anything that does not trace back to a declared source is assumed non-nil (stated assumption).

import (
	"fmt"
	"go/token"
	"go/types"

	"golang.org/x/tools/go/ssa"
)

type nilChecker struct {
	u *Universe
	// isSourceCall: the call's result #0 may be nil with a nil error (declared)
	isSourceCall func(*ssa.Call) bool
	// isSourceField: loading this field yields a possibly-nil pointer (declared)
	isSourceField func(base types.Type, field string) bool
	// callers of unexported helpers
	cg       *callGraph
	visiting map[string]bool
}

type nilVerdict struct {
	Safe bool
	Why  string
}

func safeV(why string) nilVerdict   { return nilVerdict{true, why} }
func unsafeV(why string) nilVerdict { return nilVerdict{false, why} }

// safeAt: is v known non-nil when control is at block `at` (of v's function, or of the closure-creating function)?
func (n *nilChecker) safeAt(v ssa.Value, at *ssa.BasicBlock, depth int) nilVerdict {
	if depth > 10 {
		return safeV("depth bound reached (assumed)")
	}
	if at != nil && knownNonNil(v, at) {
		return safeV("dominated by a non-nil test of " + accessPath(v))
	}
	sv := strip(v)
	switch x := sv.(type) {
	case *ssa.Alloc:
		// pointer to a local/heap variable: itself never nil
		return safeV("address of a variable")
	case *ssa.Const:
		if x.Value == nil {
			return unsafeV("the nil constant")
		}
		return safeV("constant")
	case *ssa.Phi:
		for k, e := range x.Edges {
			if e == v || strip(e) == sv {
				continue
			}
			// an incoming edge is fine if the value is safe at the predecessor or the edge is infeasible at `at`
			if at != nil && !phiEdgeFeasible(x, k, at) {
				continue
			}
			if r := n.safeAt(e, x.Block().Preds[k], depth+1); !r.Safe {
				return r
			}
		}
		return safeV("all feasible phi edges non-nil")
	case *ssa.UnOp:
		if x.Op != token.MUL {
			return safeV("not a pointer load")
		}
		switch a := x.X.(type) {
		case *ssa.Alloc:
			if s := reachingStoreInBlock(x); s != nil {
				return n.safeAt(s, at, depth+1)
			}
			st := localStores(a)
			if len(st) == 0 {
				return unsafeV("zero-valued local pointer")
			}
			for _, s := range st {
				if r := n.safeAt(s, blockOf(s), depth+1); !r.Safe {
					// the store may be of a nullable value; but a later test on the variable itself counts (handled above)
					return unsafeV("local variable may hold " + r.Why)
				}
			}
			return safeV("all stores non-nil")
		case *ssa.FieldAddr:
			fld := fieldName(a.X.Type(), a.Field)
			if n.isSourceField(a.X.Type(), fld) {
				// field of a struct literal built in this function with a non-nil value?
				if al := allocOf(a.X); al != nil {
					if fv, ok := litFields(al)[fld]; ok {
						return n.safeAt(fv, at, depth+1)
					}
				}
				if r, ok := n.paramPathSafe(x, depth); ok {
					return r
				}
				return unsafeV("field " + fld + " of a record (nil when absent from the stored/received data)")
			}
			return safeV("field not declared nullable (assumed)")
		case *ssa.FreeVar:
			return n.freeVarSafe(a, depth, true)
		}
		return safeV("load (assumed)")
	case *ssa.Field:
		fld := fieldName(x.X.Type(), x.Field)
		if n.isSourceField(x.X.Type(), fld) {
			return unsafeV("field " + fld + " of a record (nil when absent from the stored/received data)")
		}
		return safeV("field not declared nullable (assumed)")
	case *ssa.Extract:
		call, ok := x.Tuple.(*ssa.Call)
		if !ok {
			return safeV("extract (assumed)")
		}
		if n.isSourceCall(call) {
			return unsafeV("result of " + calleeLabel(call) + " (nil when the record does not exist)")
		}
		if g := staticCallee(call); g != nil && g.Blocks != nil && x.Index == 0 {
			// callee may return a nullable value with a nil error?
			if bad := n.calleeMayReturnNil(g, depth); bad != "" {
				return unsafeV("result of " + trimPkgDirs(shortName(g)) + ": " + bad)
			}
			// fine if err is known nil here
			if e := pairedError(x); e != nil {
				if at != nil && knownNil(e, at) {
					return safeV("callee returns non-nil with a nil error; err known nil")
				}
				return unsafeV("result of " + trimPkgDirs(shortName(g)) + " used where its error is not known to be nil")
			}
		}
		return safeV("call result (assumed)")
	case *ssa.Call:
		if n.isSourceCall(x) {
			return unsafeV("result of " + calleeLabel(x))
		}
		return safeV("call result (assumed)")
	case *ssa.Parameter:
		return n.paramSafe(x, depth)
	case *ssa.FreeVar:
		return n.freeVarSafe(x, depth, false)
	case *ssa.MakeInterface, *ssa.MakeClosure, *ssa.MakeMap, *ssa.MakeSlice, *ssa.MakeChan, *ssa.Function, *ssa.Global, *ssa.FieldAddr, *ssa.IndexAddr:
		return safeV("never nil")
	}
	return safeV("not traceable to a declared nullable source (assumed)")
}

// calleeMayReturnNil: "" if every return of g with a (possibly) nil error returns a safe result #0.
func (n *nilChecker) calleeMayReturnNil(g *ssa.Function, depth int) string {
	key := "ret:" + g.String()
	if n.visiting[key] {
		return ""
	}
	n.visiting[key] = true
	defer delete(n.visiting, key)
	res := g.Signature.Results()
	errIdx := -1
	if res.Len() > 0 && isErrorType(res.At(res.Len()-1).Type()) {
		errIdx = res.Len() - 1
	}
	for _, r := range returnsOf(g) {
		if errIdx >= 0 {
			ev := returnedValue(r, errIdx)
			if !isNilConst(strip(ev)) && !knownNil(ev, r.Block()) {
				// error may be non-nil; if it may also be nil we cannot tell: only skip when it is definitely non-nil
				if knownNonNil(ev, r.Block()) {
					continue
				}
				if _, isCall := strip(ev).(*ssa.Call); isCall {
					continue // freshly created error (errors.New / fmt.Errorf)
				}
			}
		}
		rv := returnedValue(r, 0)
		if v := n.safeAt(rv, r.Block(), depth+1); !v.Safe {
			return "may return " + v.Why + " with a nil error"
		}
	}
	return ""
}

// freeVarSafe: content=true asks about the value stored in a by-reference captured variable (*fv); content=false about
// fv itself (the address of a captured variable is never nil).
func (n *nilChecker) freeVarSafe(fv *ssa.FreeVar, depth int, content bool) nilVerdict {
	fn := fv.Parent()
	idx := -1
	for i, x := range fn.FreeVars {
		if x == fv {
			idx = i
		}
	}
	mcs := makeClosuresOf(fn)
	if idx < 0 || len(mcs) == 0 {
		return safeV("free variable (assumed)")
	}
	for _, mc := range mcs {
		b := mc.Bindings[idx]
		// captured by reference: the binding is the variable's address; its content is what matters
		if a, ok := b.(*ssa.Alloc); ok {
			if !content {
				continue // address of the captured variable
			}
			for _, s := range localStores(a) {
				if r := n.safeAt(s, mc.Block(), depth+1); !r.Safe {
					return unsafeV("captured variable " + fv.Name() + " may hold " + r.Why)
				}
			}
			continue
		}
		if r := n.safeAt(b, mc.Block(), depth+1); !r.Safe {
			return unsafeV("captured " + fv.Name() + ": " + r.Why)
		}
	}
	return safeV("captured value non-nil where the closure is created")
}

func (n *nilChecker) paramSafe(p *ssa.Parameter, depth int) nilVerdict {
	f := p.Parent()
	key := "param:" + f.String() + ":" + p.Name()
	if n.visiting[key] {
		return safeV("recursive")
	}
	n.visiting[key] = true
	defer delete(n.visiting, key)
	idx := -1
	for i, q := range f.Params {
		if q == p {
			idx = i
		}
	}
	if idx < 0 {
		return safeV("parameter (assumed)")
	}
	callers := n.cg.callersOf(f)
	if len(callers) == 0 {
		return safeV("parameter of an entry point (assumed non-nil)")
	}
	for _, e := range callers {
		cc := callOf(e.Site)
		args := callArgs(cc)
		if idx >= len(args) {
			continue
		}
		if r := n.safeAt(args[idx], e.Site.Block(), depth+1); !r.Safe {
			return unsafeV(fmt.Sprintf("parameter %s receives, at %s in %s, %s", p.Name(), n.u.ipos(e.Site), trimPkgDirs(shortName(e.From)), r.Why))
		}
	}
	return safeV("non-nil at every call site")
}

type derefSite struct {
	Instr ssa.Instruction
	Ptr   ssa.Value
}

// derefSites: instructions in f that dereference a pointer whose pointee type satisfies pred.
func derefSites(f *ssa.Function, pred func(types.Type) bool) []derefSite {
	var out []derefSite
	isPtrTo := func(v ssa.Value) bool {
		p, ok := types.Unalias(v.Type()).Underlying().(*types.Pointer)
		return ok && pred(p.Elem())
	}
	allInstrs(f, func(i ssa.Instruction) {
		switch x := i.(type) {
		case *ssa.FieldAddr:
			if isPtrTo(x.X) {
				if _, isAlloc := x.X.(*ssa.Alloc); !isAlloc {
					out = append(out, derefSite{x, x.X})
				}
			}
		case *ssa.UnOp:
			if x.Op == token.MUL && isPtrTo(x.X) {
				if _, isAlloc := x.X.(*ssa.Alloc); !isAlloc {
					out = append(out, derefSite{x, x.X})
				}
			}
		}
	})
	return out
}

func blockOf(v ssa.Value) *ssa.BasicBlock {
	if i, ok := v.(ssa.Instruction); ok {
		return i.Block()
	}
	return nil
}

// knownNonNilPath: a dominating branch fact at block b says that the value with this access path is non-nil.
func knownNonNilPath(path string, b *ssa.BasicBlock) bool {
	if b == nil {
		return false
	}
	path = trimAddr(path)
	for _, f := range factsAt(b) {
		if x, isNil, ok := nilTest(f); ok && !isNil && trimAddr(f.pathOf(x)) == path {
			return true
		}
	}
	return false
}

// paramPathSafe handles a nullable field reached from a helper's parameter (possibly through a closure capture):
// "P:<param>.<fields>". The helper is safe if, at every call site (and where an enclosing closure was created), the
// same field path on the argument is known non-nil. ok=false when the value is not rooted at a helper parameter.
func (n *nilChecker) paramPathSafe(v ssa.Value, depth int) (nilVerdict, bool) {
	path := accessPath(v)
	if len(path) < 3 || path[:2] != "P:" {
		return nilVerdict{}, false
	}
	dot := -1
	for i := 2; i < len(path); i++ {
		if path[i] == '.' {
			dot = i
			break
		}
	}
	if dot < 0 {
		return nilVerdict{}, false
	}
	pname, suffix := path[2:dot], path[dot:]
	in, isI := v.(ssa.Instruction)
	if !isI {
		return nilVerdict{}, false
	}
	// closures on the way up: facts where each closure is created count
	fn := in.Parent()
	var owner *ssa.Function
	pidx := -1
	for g := fn; g != nil; g = g.Parent() {
		for k, p := range g.Params {
			if p.Name() == pname {
				owner, pidx = g, k
			}
		}
		if owner != nil {
			break
		}
		for _, mc := range makeClosuresOf(g) {
			if knownNonNilPath(path, mc.Block()) {
				return safeV("non-nil test of " + path + " dominates the creation of the closure"), true
			}
		}
	}
	if owner == nil {
		return nilVerdict{}, false
	}
	key := "ppath:" + owner.String() + ":" + path
	if n.visiting[key] {
		return safeV("recursive"), true
	}
	n.visiting[key] = true
	defer delete(n.visiting, key)
	callers := n.cg.callersOf(owner)
	if len(callers) == 0 {
		return nilVerdict{}, false // entry point: the declared-source verdict stands
	}
	for _, e := range callers {
		args := callArgs(callOf(e.Site))
		if pidx >= len(args) {
			continue
		}
		arg := args[pidx]
		ap := accessPath(arg) + suffix
		if knownNonNilPath(ap, e.Site.Block()) {
			continue
		}
		// argument built from a literal in the caller with that field set non-nil?
		if al := allocOf(arg); al != nil && len(suffix) > 1 {
			if fv, ok := litFields(al)[suffix[1:]]; ok {
				if r := n.safeAt(fv, e.Site.Block(), depth+1); r.Safe {
					continue
				}
			}
		}
		// the caller's own parameter path: recurse
		if len(ap) > 2 && ap[:2] == "P:" {
			if r, ok := n.callerPathSafe(e.From, ap, e.Site.Block(), depth+1); ok && r.Safe {
				continue
			}
		}
		return unsafeV(fmt.Sprintf("%s is not known non-nil at the call in %s (%s)", ap, trimPkgDirs(shortName(e.From)), n.u.ipos(e.Site))), true
	}
	return safeV("the field is known non-nil at every call site of " + trimPkgDirs(shortName(owner))), true
}

// callerPathSafe: path "P:x.f" in function f — safe if f is a helper and all its callers guarantee it.
func (n *nilChecker) callerPathSafe(f *ssa.Function, path string, at *ssa.BasicBlock, depth int) (nilVerdict, bool) {
	if depth > 6 {
		return nilVerdict{}, false
	}
	dot := -1
	for i := 2; i < len(path); i++ {
		if path[i] == '.' {
			dot = i
			break
		}
	}
	if dot < 0 {
		return nilVerdict{}, false
	}
	pname, suffix := path[2:dot], path[dot:]
	var owner *ssa.Function
	pidx := -1
	for g := f; g != nil && owner == nil; g = g.Parent() {
		for k, p := range g.Params {
			if p.Name() == pname {
				owner, pidx = g, k
			}
		}
	}
	if owner == nil {
		return nilVerdict{}, false
	}
	callers := n.cg.callersOf(owner)
	if len(callers) == 0 {
		return nilVerdict{}, false
	}
	for _, e := range callers {
		args := callArgs(callOf(e.Site))
		if pidx >= len(args) {
			continue
		}
		ap := accessPath(args[pidx]) + suffix
		if knownNonNilPath(ap, e.Site.Block()) {
			continue
		}
		if r, ok := n.callerPathSafe(e.From, ap, e.Site.Block(), depth+1); ok && r.Safe {
			continue
		}
		return unsafeV(ap + " not known non-nil in " + trimPkgDirs(shortName(e.From))), true
	}
	return safeV("guaranteed by all callers"), true
}
