package main

// C19 — gRPC sidecar (DESIGN §3 C19). Universe U2 (server/go). E-NIL + E-DOM.

import (
	"fmt"
	"go/types"
	"strings"

	"golang.org/x/tools/go/ssa"
)

const pkgAPI = modServer + "/api"

func init() {
	register(&propSpec{
		ID:    "C19",
		Title: "gRPC sidecar: one reply per request, protocol enforced, no request can crash it",
		Explanation: "Structural necessary conditions of C19 in server/go (U2): (one-reply-per-request) in streamer.Stream every path from a successful Recv to the next Recv or return passes exactly one Send; " +
			"(protocol-state) handleRequest calls the handler's Encrypt/Decrypt only on the handler != nil edge and answers with an error response otherwise, and creates a handler only on the handler == nil edge; " +
			"(session-nil) defaultHandler.session is not set by its constructor and only on GetSession's success edge, so every method call on it must be dominated by a non-nil test; " +
			"(nil-safe-decoding) incoming protobuf messages are read only through generated getters; (close-on-exit) Stream defers handler.Close guarded by handler != nil. " +
			"Equivalence of encrypt/decrypt with the SDK is not decided here (U2 links the released SDK; the SDK rules run on /repo's sources in U1).",
		NotDecided:  []string{"that encrypt/decrypt behave exactly like the SDK for the partition (U2 links appencryption v0.7.1 from the module cache)", "request sequences at run time, concurrency across streams", "panics inside grpc / protobuf"},
		Assumptions: []string{"generated protobuf getters are nil-safe", "stream.Send of a typed-nil response is an (empty) reply, not a panic"},
		Tech:        "static analysis: path counting between Recv and Send, guarded-by-condition, field typestate nil-guard on SSA (server/go)",
		NeedU2:      true,
		Rules:       []func(*Ctx){ruleC19OneReply, ruleC19ProtocolState, ruleC19HandlerPublished, ruleC19SDKResultForwarded, ruleC19OneSessionFactory, ruleC19FreshStreamer, ruleC18ProtoMapping, ruleC19SessionNil, ruleC19NilSafeDecoding, ruleC19CloseOnExit, ruleC19PartitionVerbatim, ruleC19FreshHandler, nilContradictionRule("C19", true, "github.com/godaddy/asherah/server/go"), ruleC19HandlerClosedOnlyByStream, ruleC19NoSendLimit, ruleC19OptionDefaults, ruleC19NilableResultsChecked, ruleC19OptionComparedToItsOwnChoices, ruleC18SidecarNamesVerbatim, ruleC19ShutdownIsGraceful},
	})
}

func isStreamCall(i ssa.Instruction, name string) bool {
	cc := callOf(i)
	return cc != nil && cc.IsInvoke() && cc.Method.Name() == name && typeIsNamed(cc.Value.Type(), pkgAPI, "AppEncryption_SessionServer")
}

func ruleC19OneReply(c *Ctx) {
	u := c.U2
	c.rule("C19.one-reply-per-request", "in streamer.Stream every path from a successful stream.Recv to the next Recv or return passes exactly one stream.Send", 2)
	f := u.Method(pkgServer, "streamer", "Stream")
	if f == nil {
		c.unresolved("Stream", "(*streamer).Stream")
		return
	}
	c.FuncsAnalysed[shortName(f)] = true
	n := 0
	allInstrs(f, func(i ssa.Instruction) {
		if !isStreamCall(i, "Recv") {
			return
		}
		n++
		var errV ssa.Value
		for _, pr := range resultsOfType(i, isErrorType) {
			errV = pr[0]
		}
		// zero sends?
		found, tr := pathSearch(i, func(j ssa.Instruction) pathAction {
			if isStreamCall(j, "Send") {
				return pathStop
			}
			if isStreamCall(j, "Recv") || isReturn(j) {
				return pathFound
			}
			return pathContinue
		}, func(from, to *ssa.BasicBlock) bool {
			for _, fct := range edgeFacts(from, to) {
				// failure edges of Recv: errors.Is(err, EOF) == true, err != nil
				if cv, ok := strip(fct.V).(*ssa.Call); ok && staticIs(cv, "errors.Is") && errV != nil && strip(cv.Call.Args[0]) == errV && fct.True {
					return false
				}
				if x, isNil, ok := nilTest(fct); ok && !isNil && errV != nil && strip(x) == errV {
					return false
				}
			}
			return true
		})
		if found {
			c.bad(shortName(f)+"/reply-after-recv", u.ipos(i), "a successfully received request can be left without a response (next Recv or return reached without Send)", u.tracePositions(tr)...)
		} else {
			c.ok(shortName(f)+"/reply-after-recv", u.ipos(i), "every success path from Recv passes Send before the next Recv/return")
		}
	})
	ns := 0
	allInstrs(f, func(i ssa.Instruction) {
		if !isStreamCall(i, "Send") {
			return
		}
		ns++
		found, tr := pathSearch(i, func(j ssa.Instruction) pathAction {
			if isStreamCall(j, "Recv") || isReturn(j) {
				return pathStop
			}
			if isStreamCall(j, "Send") {
				return pathFound
			}
			return pathContinue
		}, nil)
		if found {
			c.bad(shortName(f)+"/single-send", u.ipos(i), "a second Send is reachable before the next Recv: more than one response for one request", u.tracePositions(tr)...)
		} else {
			c.ok(shortName(f)+"/single-send", u.ipos(i), "no second Send before the next Recv")
		}
	})
	if n == 0 || ns == 0 {
		c.bad(shortName(f)+"/loop", u.pos(f.Pos()), fmt.Sprintf("expected Recv and Send calls in Stream (found %d/%d)", n, ns))
	}
}

func isHandlerInvoke(i ssa.Instruction, name string) bool {
	cc := callOf(i)
	return cc != nil && cc.IsInvoke() && cc.Method.Name() == name && typeIsNamed(cc.Value.Type(), pkgServer, "requestHandler")
}

func ruleC19ProtocolState(c *Ctx) {
	u := c.U2
	c.rule("C19.protocol-state", "handleRequest: handler.Encrypt/Decrypt only where s.handler is known non-nil, the nil edge returns an error response; a handler is created (and GetSession called) only where s.handler is known nil, the non-nil edge returns an error response", 5)
	root := u.Method(pkgServer, "streamer", "handleRequest")
	if root == nil {
		c.unresolved("handleRequest", "(*streamer).handleRequest")
		return
	}
	// handleRequest and the streamer methods it delegates to (a branch may live in a helper)
	var fns []*ssa.Function
	seenFn := map[*ssa.Function]bool{}
	var collect func(g *ssa.Function, depth int)
	collect = func(g *ssa.Function, depth int) {
		if g == nil || g.Blocks == nil || seenFn[g] || depth > 2 {
			return
		}
		seenFn[g] = true
		fns = append(fns, g)
		allInstrs(g, func(i ssa.Instruction) {
			if h := staticCallee(i); h != nil && h.Signature.Recv() != nil && typeIsNamed(h.Signature.Recv().Type(), pkgServer, "streamer") && h.Name() != "NewHandler" {
				collect(h, depth+1)
			}
		})
	}
	collect(root, 0)
	counts := map[string]int{}
	for _, f := range fns {
		c.FuncsAnalysed[shortName(f)] = true
		handlerPath := "P:" + f.Params[0].Name() + ".handler"
		isErrResp := func(v ssa.Value) bool {
			v = resolve(v)
			if ld, ok := v.(*ssa.UnOp); ok {
				if g, isG := ld.X.(*ssa.Global); isG {
					return errorResponseGlobal(u, g)
				}
			}
			if cv, ok := v.(*ssa.Call); ok {
				if g := staticCallee(cv); g != nil && g.Name() == "newErrorResponse" {
					return true
				}
			}
			return false
		}
		for _, meth := range []string{"Encrypt", "Decrypt"} {
			n := 0
			allInstrs(f, func(i ssa.Instruction) {
				if !isHandlerInvoke(i, meth) {
					return
				}
				n++
				cc := callOf(i)
				ok := accessPath(cc.Value) == handlerPath && knownNonNilPath(handlerPath, i.Block())
				c.check(ok, shortName(f)+"/handler."+meth, u.ipos(i), "called only where s.handler != nil", meth+" is dispatched to the handler on a path where s.handler may be nil (request before get-session → nil interface call panic)")
			})
			counts[meth] += n
		}
		// nil edges return an error response
		for _, b := range f.Blocks {
			for _, s := range b.Succs {
				for _, fct := range edgeFacts(b, s) {
					x, isNil, ok := nilTest(fct)
					if !ok || accessPath(x) != handlerPath {
						continue
					}
					// on this edge: if a Return is reached before any handler invoke/creation, it must be an error response
					first := true
					_, _ = pathSearchAt(s, 0, func(j ssa.Instruction) pathAction {
						if cc := callOf(j); cc != nil && (cc.IsInvoke() && typeIsNamed(cc.Value.Type(), pkgServer, "requestHandler")) {
							return pathStop
						}
						if g := staticCallee(j); g != nil && g.Name() == "NewHandler" {
							return pathStop
						}
						if r, isR := j.(*ssa.Return); isR && first {
							construct := shortName(f) + "/" + map[bool]string{true: "uninitialised", false: "already-initialised"}[isNil] + "-reply"
							c.check(isErrResp(r.Results[0]), construct, u.ipos(r), "answers with an error response", "a request in the wrong protocol state is not answered with an error response")
							return pathStop
						}
						return pathContinue
					}, nil)
				}
			}
		}
		// creation + GetSession only on handler == nil
		n := 0
		allInstrs(f, func(i ssa.Instruction) {
			isNew := staticCallee(i) != nil && staticCallee(i).Name() == "NewHandler"
			if !isNew && !isHandlerInvoke(i, "GetSession") {
				return
			}
			n++
			nilHere := false
			for _, fct := range factsAt(i.Block()) {
				if x, isNil, ok := nilTest(fct); ok && isNil && accessPath(x) == handlerPath {
					nilHere = true
				}
			}
			c.check(nilHere, shortName(f)+"/"+calleeLabel(i), u.ipos(i), "only where s.handler == nil", "a second get-session can replace the handler (the first session would leak / protocol violated)")
		})
		counts["get-session"] += n
	}
	for _, k := range []string{"Encrypt", "Decrypt", "get-session"} {
		if counts[k] == 0 {
			c.bad(shortName(root)+"/"+k, u.pos(root.Pos()), "no handling of "+k+" requests found in handleRequest or the streamer methods it calls")
		}
	}
}

// errorResponseGlobal: the package-level variable is initialised with newErrorResponse(...).
func errorResponseGlobal(u *Universe, g *ssa.Global) bool {
	ok := false
	for _, f := range u.RepoFuncs {
		allInstrs(f, func(i ssa.Instruction) {
			if st, isSt := i.(*ssa.Store); isSt && st.Addr == g {
				if cv, isC := resolve(st.Val).(*ssa.Call); isC {
					if gf := staticCallee(cv); gf != nil && gf.Name() == "newErrorResponse" {
						ok = true
					}
				}
			}
		})
	}
	return ok
}

func ruleC19SessionNil(c *Ctx) {
	u := c.U2
	c.rule("C19.session-nil", "defaultHandler.session may be nil (not set by the constructor; the handler is published before GetSession succeeds), so every method call on h.session is dominated by a non-nil test of h.session", 3)
	dh := u.Named(pkgServer, "defaultHandler")
	if dh == nil {
		c.unresolved("defaultHandler", "server.defaultHandler")
		return
	}
	// is the field set by every constructor literal?
	alwaysSet := true
	lits := 0
	for _, f := range u.RepoFuncs {
		allInstrs(f, func(i ssa.Instruction) {
			if a, ok := i.(*ssa.Alloc); ok && a.Comment == "complit" && typeIsNamed(a.Type(), pkgServer, "defaultHandler") {
				lits++
				if v, has := litFields(a)["session"]; !has || isNilConst(strip(v)) {
					alwaysSet = false
				}
			}
		})
	}
	if lits > 0 && alwaysSet {
		c.ok("defaultHandler.session", "", "every constructor sets the session: the field is never nil")
		return
	}
	n := 0
	for _, f := range u.RepoFuncs {
		if f.Signature.Recv() == nil || !typeIsNamed(f.Signature.Recv().Type(), pkgServer, "defaultHandler") {
			continue
		}
		c.FuncsAnalysed[shortName(f)] = true
		allInstrs(f, func(i ssa.Instruction) {
			cc := callOf(i)
			if cc == nil || !cc.IsInvoke() {
				return
			}
			base, fld, ok := fieldAccess(cc.Value)
			if !ok || fld != "session" || !typeIsNamed(base.Type(), pkgServer, "defaultHandler") {
				return
			}
			n++
			c.CallSites++
			ok2 := knownNonNil(cc.Value, i.Block())
			c.check(ok2, shortName(f)+"/session."+cc.Method.Name(), u.ipos(i), "dominated by h.session != nil", "h.session."+cc.Method.Name()+"() can run with a nil session (after a rejected get-session): nil interface call panics and takes the sidecar down")
		})
	}
	if n == 0 {
		c.bad("defaultHandler.session/uses", "", "no uses of h.session found")
	}
	// the nil guards only work if a typed-nil pointer is never stored into the interface-typed field: every store of a
	// factory result must be on that call's err == nil edge
	ns := 0
	for _, f := range u.RepoFuncs {
		allInstrs(f, func(i ssa.Instruction) {
			st, ok := i.(*ssa.Store)
			if !ok {
				return
			}
			base, fld, isF := fieldAccess(st.Addr)
			if !isF || fld != "session" || !typeIsNamed(base.Type(), pkgServer, "defaultHandler") {
				return
			}
			ns++
			c.CallSites++
			construct := shortName(f) + "/session-store"
			v := st.Val
			if mi, isMI := v.(*ssa.MakeInterface); isMI {
				v = mi.X
			}
			if isNilConst(strip(st.Val)) {
				c.ok(construct, u.ipos(i), "stores the nil interface")
				return
			}
			ex, isEx := resolve(v).(*ssa.Extract)
			good := false
			if isEx {
				if e := pairedError(ex); e != nil && knownNil(e, i.Block()) {
					good = true
				}
			} else if _, isAlloc := resolve(v).(*ssa.Alloc); isAlloc {
				good = true
			}
			c.check(good, construct, u.ipos(i), "session stored only where the factory's error is known nil", "a (possibly nil) *Session is stored into the interface-typed session field without the factory call being known to have succeeded: a typed-nil pointer defeats the `h.session == nil` guards and the next request or end of stream panics")
		})
	}
	if ns == 0 {
		c.bad("defaultHandler.session/stores", "", "h.session is never assigned")
	}
}

func ruleC19NilSafeDecoding(c *Ctx) {
	u := c.U2
	c.rule("C19.nil-safe-decoding", "package server reads incoming protobuf messages only through generated getters: no direct field access on api.* message pointers other than on messages it builds itself", 1)
	bad := 0
	total := 0
	for _, f := range u.RepoFuncs {
		if f.Pkg == nil || f.Pkg.Pkg.Path() != pkgServer {
			continue
		}
		allInstrs(f, func(i ssa.Instruction) {
			fa, ok := i.(*ssa.FieldAddr)
			if !ok {
				return
			}
			p, isP := types.Unalias(fa.X.Type()).Underlying().(*types.Pointer)
			if !isP {
				return
			}
			n, isN := types.Unalias(p.Elem()).(*types.Named)
			if !isN || n.Obj().Pkg() == nil || n.Obj().Pkg().Path() != pkgAPI {
				return
			}
			total++
			if _, fresh := fa.X.(*ssa.Alloc); fresh {
				return
			}
			bad++
			c.bad(shortName(f)+"/direct-field "+fieldName(fa.X.Type(), fa.Field), u.ipos(i), "direct field access on a received protobuf message (nil for absent sub-messages): use the generated getter")
		})
	}
	getters := 0
	for _, f := range u.RepoFuncs {
		if f.Pkg == nil || f.Pkg.Pkg.Path() != pkgServer {
			continue
		}
		allInstrs(f, func(i ssa.Instruction) {
			if g := staticCallee(i); g != nil && g.Pkg != nil && g.Pkg.Pkg.Path() == pkgAPI && strings.HasPrefix(g.Name(), "Get") {
				getters++
			}
		})
	}
	if bad == 0 {
		c.check(getters >= 8, "server/proto-reads", "", fmt.Sprintf("%d getter calls, %d field accesses all on locally built messages", getters, total), fmt.Sprintf("expected the request decoding to use generated getters (found %d)", getters))
	}
}

func ruleC19CloseOnExit(c *Ctx) {
	u := c.U2
	c.rule("C19.close-on-exit", "streamer.Stream defers, before the receive loop, a closure that calls handler.Close() only where the handler is non-nil", 1)
	f := u.Method(pkgServer, "streamer", "Stream")
	if f == nil {
		c.unresolved("Stream", "(*streamer).Stream")
		return
	}
	good := false
	why := "no deferred closure closing the handler in the entry block of Stream"
	for _, i := range f.Blocks[0].Instrs {
		d, ok := i.(*ssa.Defer)
		if !ok {
			continue
		}
		var cl *ssa.Function
		if mc, ok := d.Call.Value.(*ssa.MakeClosure); ok {
			cl = mc.Fn.(*ssa.Function)
		} else if g := staticCallee(d); g != nil && g.Blocks != nil && g.Pkg != nil && g.Pkg.Pkg.Path() == pkgServer {
			cl = g // a deferred method/function of this package
		}
		if cl == nil {
			continue
		}
		allInstrs(cl, func(j ssa.Instruction) {
			if isHandlerInvoke(j, "Close") {
				if knownNonNil(callOf(j).Value, j.Block()) {
					good = true
				} else {
					why = "deferred handler.Close() is not guarded by handler != nil (end of stream before get-session panics)"
				}
			}
		})
	}
	c.check(good, shortName(f)+"/deferred-close", u.pos(f.Pos()), "defer func(){ if s.handler != nil { s.handler.Close() } }()", why)
	// exactly once: the deferred close is the only close — no other call in Stream (directly or through a helper of this
	// package) closes the handler as well (a second Close gives away a reference of another stream's shared session)
	closes := func(g *ssa.Function) bool {
		hit := false
		if g == nil || g.Blocks == nil {
			return false
		}
		for _, h := range withAnon(g) {
			allInstrs(h, func(j ssa.Instruction) {
				if isHandlerInvoke(j, "Close") {
					hit = true
				}
			})
		}
		return hit
	}
	extra := ""
	for _, g := range withAnon(f) {
		allInstrs(g, func(j ssa.Instruction) {
			if _, isDefer := j.(*ssa.Defer); isDefer && g == f {
				return
			}
			if g != f {
				return // the deferred closure itself
			}
			if isHandlerInvoke(j, "Close") {
				extra = u.ipos(j)
			}
			if _, isCall := j.(*ssa.Call); isCall {
				if h := staticCallee(j); h != nil && h.Pkg != nil && h.Pkg.Pkg.Path() == pkgServer && closes(h) {
					extra = u.ipos(j)
				}
			}
		})
	}
	c.check(extra == "", shortName(f)+"/close-exactly-once", u.pos(f.Pos()), "the deferred close is the only close of the handler", "the handler is also closed at "+extra+" although the deferred close runs on every exit: the session is closed twice — with the SDK's session cache the second Close releases a reference that belongs to another stream sharing the session, which is then torn down under it")
}

// ruleC19PartitionVerbatim: the partition id of the get-session request reaches SessionFactory.GetSession unmodified.
func ruleC19PartitionVerbatim(c *Ctx) {
	u := c.U2
	c.rule("C19.partition-verbatim", "the partition id handed to SessionFactory.GetSession is the request's GetPartitionId() value itself (directly, or through a field that is assigned exactly that value): the sidecar addresses the same partition as the SDK would for that id", 1)
	n := 0
	raw := func(v ssa.Value) bool {
		cv, ok := resolve(v).(*ssa.Call)
		if !ok {
			return false
		}
		g := staticCallee(cv)
		return g != nil && g.Name() == "GetPartitionId"
	}
	for _, f := range u.RepoFuncs {
		if f.Pkg == nil || f.Pkg.Pkg.Path() != pkgServer || f.Blocks == nil {
			continue
		}
		allInstrs(f, func(i ssa.Instruction) {
			cc := callOf(i)
			if cc == nil || !cc.IsInvoke() || cc.Method.Name() != "GetSession" || len(cc.Args) != 1 || cc.Args[0].Type().String() != "string" {
				return
			}
			n++
			c.FuncsAnalysed[shortName(f)] = true
			arg := cc.Args[0]
			ok := raw(arg)
			if !ok {
				// a field load: every store to that field in this package stores the raw id
				if _, fld, isF := fieldAccess(resolve(arg)); isF {
					stores, good := 0, 0
					for _, g := range u.RepoFuncs {
						if g.Pkg == nil || g.Pkg.Pkg.Path() != pkgServer {
							continue
						}
						allInstrs(g, func(j ssa.Instruction) {
							if st, isS := j.(*ssa.Store); isS {
								if _, f2, isF2 := fieldAccess(st.Addr); isF2 && f2 == fld && st.Val.Type().String() == "string" {
									stores++
									if raw(st.Val) {
										good++
									}
								}
							}
						})
					}
					ok = stores > 0 && stores == good
				}
			}
			c.check(ok, trimPkgDirs(shortName(f))+"/GetSession(id)", u.ipos(i), "id = request.GetPartitionId()", "the partition id is transformed before it reaches the SDK (trimmed, case-folded, …): the sidecar then serves another partition than the one requested — foreign records decrypt, and the SDK cannot read what the sidecar wrote for that id")
		})
	}
	if n == 0 {
		c.bad("server/GetSession-calls", "", "no SessionFactory.GetSession(id) call found in the sidecar")
	}
}

// ruleC19FreshHandler: each stream gets a handler of its own with no session yet: streamer.NewHandler returns either the
// injected factory's handler or a composite literal built in that call whose session field is not set. A handler taken
// from a pool or a package-level variable carries the previous stream's session into a stream whose get-session was
// rejected (or never sent).
func ruleC19FreshHandler(c *Ctx) {
	u := c.U2
	c.rule("C19.fresh-handler", "streamer.NewHandler returns, on every path, the injected handlerFactory's handler or a defaultHandler literal allocated in that call with its session field unset; package server keeps no handler in a pool or package-level variable", 1)
	f := u.Method(pkgServer, "streamer", "NewHandler")
	if f == nil {
		c.unresolved("streamer.NewHandler", "method")
		return
	}
	c.FuncsAnalysed[shortName(f)] = true
	for _, r := range returnsOf(f) {
		if len(r.Results) != 1 {
			continue
		}
		v := unwrapIface(resolve(returnedValue(r, 0)))
		ok, why := false, "the handler is "+describeOperand(v)+", not a literal allocated here"
		switch x := v.(type) {
		case *ssa.Alloc:
			if x.Parent() == f && x.Heap {
				fl := litFields(x)
				if _, has := fl["session"]; has {
					why = "the new handler is created with a session already set"
				} else {
					ok = true
				}
			}
		case *ssa.Call:
			if x.Call.IsInvoke() && x.Call.Method.Name() == "NewHandler" {
				ok = true // injected factory (tests)
			}
		}
		c.check(ok, shortName(f)+"/return", u.ipos(r), "fresh defaultHandler{…} without a session, or the injected factory's handler", why+": a recycled handler keeps the previous stream's session, so a stream whose get-session was rejected encrypts and decrypts as the previous stream's partition")
	}
}
