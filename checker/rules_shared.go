package main

// Rules shared by several properties (lock balance; contradiction: dereference of a value known nil).

import (
	"fmt"
	"go/token"
	"go/types"
	"strings"

	"golang.org/x/tools/go/ssa"
)

type lockDomSpec struct{ pkg, typ, mutex string }

// lockBalancedRule builds a rule `<id>.lock-balanced` over the given domains.
func lockBalancedRule(id string, floor int, doms ...lockDomSpec) func(*Ctx) {
	return func(c *Ctx) {
		var names []string
		for _, d := range doms {
			names = append(names, d.typ+"."+d.mutex)
		}
		c.rule(id+".lock-balanced", "for "+strings.Join(names, ", ")+": Unlock only when write-locked, RUnlock only when read-locked, Lock/RLock only when unlocked, and every return leaves the mutex as the method was entered (deferred unlocks applied); no path leaks or mismatches a lock", floor)
		for _, ds := range doms {
			d := newLockDomain(c.U1, ds.pkg, ds.typ, ds.mutex)
			if len(d.funcs) == 0 {
				c.unresolved(ds.pkg+"."+ds.typ, "methods")
				continue
			}
			ruleLockBalance(c, d, ds.typ+"."+ds.mutex)
		}
	}
}

// ---------------------------------------------------------------------------------------------
// contradiction rule: a value is dereferenced where a dominating test has established that it is nil

// nilContradictionRule builds `<id>.no-deref-of-known-nil` over all functions of the packages with the given prefixes.
func nilContradictionRule(id string, useU2 bool, prefixes ...string) func(*Ctx) {
	return func(c *Ctx) {
		u := c.U1
		if useU2 {
			u = c.U2
		}
		c.rule(id+".no-deref-of-known-nil", "no method call, field access, index or load goes through a pointer/interface/map/slice value on an edge where a dominating comparison has established that the value is nil (a certain panic on that path: typically an inverted error or nil test)", 1)
		n, bad := 0, 0
		for _, f := range u.RepoFuncs {
			if f.Blocks == nil || f.Pkg == nil {
				continue
			}
			in := false
			for _, p := range prefixes {
				if strings.HasPrefix(f.Pkg.Pkg.Path(), p) {
					in = true
				}
			}
			if !in || strings.HasSuffix(f.Pkg.Pkg.Path(), "/mocks") {
				continue
			}
			n++
			for _, s := range knownNilDerefs(f) {
				bad++
				c.bad(trimPkgDirs(shortName(f))+"/"+strings.Fields(s.What)[0]+"-of-nil", u.ipos(s.Instr), s.What+" "+accessPath(s.V)+", which is known to be nil here (a dominating test took the `== nil` edge): this path panics")
			}
		}
		if bad == 0 {
			c.ok("functions", "", "no dereference of a value known nil in the analysed functions")
		}
		c.note("%s.no-deref-of-known-nil: %d functions analysed", id, n)
	}
}

// knownNilValue: a dominating edge tested this very SSA value (identity, not access path) and took the nil side.
func knownNilValue(v ssa.Value, b *ssa.BasicBlock) bool {
	for _, f := range factsAt(b) {
		if f.Sub != nil {
			continue
		}
		if x, isNil, ok := nilTest(f); ok && isNil && x == v {
			return true
		}
	}
	return false
}

// ruleSecretFlagsMonotonic: closing/closed of both secure-memory back ends only ever become true.
func ruleSecretFlagsMonotonic(c *Ctx) {
	u := c.U1
	c.rule("C11.flags-monotonic", "in both secure-memory back ends the closing and closed flags are only ever set to the constant true (never reset): once a Close has started — even one that failed half-way, after the pages were wiped or made writable — no reader is admitted again", 2)
	n := 0
	for _, be := range secBackends {
		for _, f := range u.RepoFuncs {
			if f.Pkg == nil || f.Pkg.Pkg.Path() != be.pkg || f.Blocks == nil {
				continue
			}
			allInstrs(f, func(i ssa.Instruction) {
				st, ok := i.(*ssa.Store)
				if !ok {
					return
				}
				fa, isF := st.Addr.(*ssa.FieldAddr)
				if !isF {
					return
				}
				fld := fieldName(fa.X.Type(), fa.Field)
				if fld != "closing" && fld != "closed" {
					return
				}
				if !typeIsNamed(fa.X.Type(), be.pkg, be.typ) {
					return
				}
				n++
				k, isC := constOf(st.Val)
				c.check(isC && k.ExactString() == "true", trimPkgDirs(shortName(f))+"/"+fld+"=", u.ipos(i), fld+" = true", fld+" is assigned something other than the constant true: a secret whose Close has begun (pages possibly already wiped, writable or unlocked) becomes readable again — WithBytes then hands out zeroed or unprotected memory as the secret")
			})
		}
	}
	if n < 2 {
		c.bad("secret/flags", "", "fewer closing/closed assignments than expected")
	}
}

type nilDeref struct {
	Instr ssa.Instruction
	V     ssa.Value
	What  string
}

// knownNilDerefs: dereferences in f of an SSA value that a dominating edge established to be nil.
func knownNilDerefs(f *ssa.Function) []nilDeref {
	var out []nilDeref
	allInstrs(f, func(i ssa.Instruction) {
		var v ssa.Value
		what := ""
		switch x := i.(type) {
		case *ssa.Call:
			if x.Call.IsInvoke() {
				v, what = x.Call.Value, "method call "+x.Call.Method.Name()+" on"
			}
		case *ssa.FieldAddr:
			v, what = x.X, "field access through"
		case *ssa.IndexAddr:
			if _, isP := x.X.Type().Underlying().(*types.Pointer); isP {
				v, what = x.X, "index through"
			}
		case *ssa.UnOp:
			if x.Op == token.MUL {
				v, what = x.X, "load through"
			}
		case *ssa.Store:
			v, what = x.Addr, "store through"
		case *ssa.MapUpdate:
			v, what = x.Map, "write to map"
		}
		if v == nil {
			return
		}
		switch v.(type) {
		case *ssa.Alloc, *ssa.Global, *ssa.FieldAddr, *ssa.IndexAddr, *ssa.Const:
			return
		}
		if knownNilValue(v, i.Block()) {
			out = append(out, nilDeref{i, v, what})
		}
	})
	return out
}

// ---------------------------------------------------------------------------------------------
// lost update through a copy: a method with a VALUE receiver that assigns to a field of that receiver only changes its
// private copy (go vet does not report this when the struct holds its mutex by pointer).

type lostUpdate struct {
	Instr ssa.Instruction
	Field string
}

func lostUpdatesThroughValueReceiver(f *ssa.Function) []lostUpdate {
	var out []lostUpdate
	if f.Signature.Recv() == nil || len(f.Params) == 0 || f.Blocks == nil {
		return nil
	}
	if _, isPtr := f.Signature.Recv().Type().Underlying().(*types.Pointer); isPtr {
		return nil
	}
	if _, isStruct := f.Signature.Recv().Type().Underlying().(*types.Struct); !isStruct {
		return nil
	}
	recv := f.Params[0]
	// the local slot holding the receiver copy
	var slots []*ssa.Alloc
	if recv.Referrers() != nil {
		for _, r := range *recv.Referrers() {
			if st, ok := r.(*ssa.Store); ok && st.Val == ssa.Value(recv) {
				if a, isA := st.Addr.(*ssa.Alloc); isA {
					slots = append(slots, a)
				}
			}
		}
	}
	for _, g := range withAnon(f) {
		allInstrs(g, func(i ssa.Instruction) {
			st, ok := i.(*ssa.Store)
			if !ok {
				return
			}
			fa, isF := st.Addr.(*ssa.FieldAddr)
			if !isF {
				return
			}
			for _, a := range slots {
				if fa.X == ssa.Value(a) {
					out = append(out, lostUpdate{i, fieldName(fa.X.Type(), fa.Field)})
				}
			}
		})
	}
	return out
}

// lostUpdateRule builds `<id>.no-lost-update-through-copy` over the packages with the given prefixes.
func lostUpdateRule(id string, prefixes ...string) func(*Ctx) {
	return func(c *Ctx) {
		u := c.U1
		c.rule(id+".no-lost-update-through-copy", "no method with a value (non-pointer) struct receiver assigns to a field of its receiver: the assignment changes a private copy and is lost (a counter or flag that other methods rely on never changes)", 1)
		n, bad := 0, 0
		for _, f := range u.RepoFuncs {
			if f.Pkg == nil || f.Parent() != nil {
				continue
			}
			in := false
			for _, p := range prefixes {
				if strings.HasPrefix(f.Pkg.Pkg.Path(), p) {
					in = true
				}
			}
			if !in {
				continue
			}
			n++
			for _, lu := range lostUpdatesThroughValueReceiver(f) {
				bad++
				c.bad(trimPkgDirs(shortName(f))+"/"+lu.Field+"=", u.ipos(lu.Instr), "field "+lu.Field+" is assigned through a value receiver: the update is made on a copy of the object and never reaches the shared one")
			}
		}
		if bad == 0 {
			c.ok("methods", "", "no receiver-field assignment through a value receiver")
		}
		c.note("%s.no-lost-update-through-copy: %d methods/functions scanned", id, n)
	}
}

// ruleC11PageStateUnderLock: every change of the pages' state made by a method of a secret — memcall Protect/Unlock/Free,
// core.Wipe, the memguard buffer's Destroy — runs with the secret's rw held in write mode, so that it is atomic with the
// reader count / closing flags it depends on (a protection flip outside the lock lands under a reader that entered in
// between, which then faults).
func ruleC11PageStateUnderLock(c *Ctx) {
	u := c.U1
	c.rule("C11.page-state-under-lock", "in the methods of both secrets every memcall Protect/Unlock/Free, core.Wipe and LockedBuffer.Destroy runs with rw write-locked (helpers inherit the state of their call sites)", 6)
	n := 0
	for _, be := range secBackends {
		d := newLockDomain(u, be.pkg, be.typ, "rw")
		for _, f := range d.funcs {
			if f.Blocks == nil || d.entry[f] == 0 {
				continue
			}
			allInstrs(f, func(i ssa.Instruction) {
				if _, isCall := i.(*ssa.Call); !isCall {
					return
				}
				what := ""
				switch op := mcOp(i); op {
				case "Protect", "Unlock", "Free":
					what = "memcall." + op
				}
				if g := staticCallee(i); g != nil {
					switch funcFullName(g) {
					case fnCoreWipe:
						what = "core.Wipe"
					case "(*github.com/awnumar/memguard.LockedBuffer).Destroy":
						what = "LockedBuffer.Destroy"
					}
				}
				if what == "" {
					return
				}
				n++
				st := d.stateAt(i)
				c.check(st == lsW, trimPkgDirs(shortName(f))+"/"+what, u.ipos(i), "rw write-locked", what+" runs while rw may be "+st.String()+": the page-state change is not atomic with the reader count — a reader that enters in between finds its pages flipped to no-access (SIGSEGV) or unmapped under it")
			})
		}
	}
	if n < 6 {
		c.bad("secrets/page-ops", "", fmt.Sprintf("expected at least 6 page-state operations in the secrets' methods, found %d", n))
	}
}

// condOnSameLock: wherever a struct with a mutex field and a sync.Cond field is built, the Cond is created on that very
// mutex (sync.NewCond(<the value stored in the mutex field>)). Cond.Wait unlocks the Cond's own Locker: if that is another
// lock, or the read side of the RWMutex (rw.RLocker()), Wait unlocks a lock that is not held (fatal error) or never
// releases the one that is.
func condOnSameLockRule(id string, specs ...[4]string) func(*Ctx) { // pkg, type, mutex field, cond field
	return func(c *Ctx) {
		u := c.U1
		c.rule(id+".cond-on-same-lock", "every composite literal of a type that pairs a mutex with a sync.Cond creates the Cond with sync.NewCond(<the mutex stored in the same literal>) — not another lock, not its RLocker()", len(specs))
		for _, sp := range specs {
			n := 0
			for _, f := range u.RepoFuncs {
				if f.Pkg == nil || f.Pkg.Pkg.Path() != sp[0] || f.Blocks == nil {
					continue
				}
				allInstrs(f, func(i ssa.Instruction) {
					a, ok := i.(*ssa.Alloc)
					if !ok || namedTypeName(a.Type()) != sp[1] {
						return
					}
					fl := litFields(a)
					cv, has := fl[sp[3]]
					if !has {
						return
					}
					n++
					good := false
					why := "the Cond field is not initialised with sync.NewCond(...)"
					if call, isC := resolve(cv).(*ssa.Call); isC && staticIs(call, "sync.NewCond") {
						lk := unwrapIface(call.Call.Args[0])
						mv, hasM := fl[sp[2]]
						switch {
						case hasM && (resolve(lk) == resolve(mv) || lk == mv):
							good = true
						case !hasM:
							// mutex embedded by value: NewCond(&lit.mutex)
							if fa, isFA := lk.(*ssa.FieldAddr); isFA && fa.X == ssa.Value(a) && fieldName(fa.X.Type(), fa.Field) == sp[2] {
								good = true
							}
						}
						if !good {
							why = "sync.NewCond is given " + describeOperand(lk) + ", not the mutex stored in field " + sp[2]
						}
					}
					c.check(good, trimPkgDirs(shortName(f))+"/"+sp[1]+"."+sp[3], u.ipos(a), "sync.NewCond(<field "+sp[2]+">)", why+": Wait() would unlock a lock its caller does not hold (fatal \"unlock of unlocked mutex\") or sleep while still holding the real one")
				})
			}
			if n == 0 {
				c.bad(sp[1]+"/literal", "", "no composite literal of "+sp[1]+" with a Cond field found")
			}
		}
	}
}

// ruleC11SyscallWrapperDirect: the default memcall implementation is a transparent wrapper: each of its five methods
// calls the namesake function of github.com/awnumar/memcall on every path, with its own parameters, and returns that
// call's results. A wrapper that sometimes answers from remembered state (e.g. "already NoAccess") skips a real
// mprotect/mlock/munmap whenever its memory of the page state is wrong — which it is as soon as anything else (memguard's
// own buffer teardown, the kernel reusing an address) changes the pages behind its back.
func ruleC11SyscallWrapperDirect(c *Ctx) {
	u := c.U1
	c.rule("C11.syscall-wrapper-direct", "memcall.Default's Alloc/Lock/Protect/Unlock/Free each call the namesake github.com/awnumar/memcall function with their own parameters on every path to return (no remembered page state decides whether the system call is made)", 5)
	n := u.Named(pkgMemcall, "wrapper")
	if n == nil {
		c.unresolved("memcall.wrapper", "type")
		return
	}
	for _, m := range []string{"Alloc", "Lock", "Protect", "Unlock", "Free"} {
		f := u.MethodOf(n, m)
		if f == nil || f.Blocks == nil {
			c.unresolved("memcall.wrapper."+m, "method")
			continue
		}
		c.FuncsAnalysed[shortName(f)] = true
		ok, tr := mustPass(f.Blocks[0], 0, func(i ssa.Instruction) bool {
			cv, isCall := i.(*ssa.Call)
			if !isCall {
				return false
			}
			g := staticCallee(cv)
			if g == nil || g.Pkg == nil || g.Pkg.Pkg.Path() != "github.com/awnumar/memcall" || g.Name() != m {
				return false
			}
			// first argument is the method's own first parameter (after the receiver)
			return len(cv.Call.Args) > 0 && len(f.Params) > 1 && resolve(cv.Call.Args[0]) == ssa.Value(f.Params[1])
		}, nil)
		if ok {
			c.ok("memcall.wrapper."+m, u.pos(f.Pos()), "calls memcall."+m+" on every path")
		} else {
			c.bad("memcall.wrapper."+m, u.pos(f.Pos()), "the default memcall "+m+" has a path that returns without calling memcall."+m+" on its argument: a skipped "+map[string]string{"Protect": "mprotect leaves pages readable while idle (or inaccessible under a reader)", "Lock": "mlock leaves secret pages swappable", "Unlock": "munlock leaks locked pages", "Free": "munmap leaves secret pages mapped", "Alloc": "mmap hands out no/foreign pages"}[m], u.tracePositions(tr)...)
		}
	}
}

// ruleC11AccessorsOnFinalizerOwner: the object that carries the finalizer's target must be what every access path holds
// on to. The accessor methods of a secret whose struct has a `dummy` finalizer anchor are therefore declared on that outer
// type itself — not promoted from the embedded inner struct: a Reader or a bound method value created through a promoted
// method references only the inner struct, the outer object becomes unreachable, and the finalizer closes (wipes, unmaps)
// the secret under a live reader.
func ruleC11AccessorsOnFinalizerOwner(c *Ctx) {
	u := c.U1
	c.rule("C11.accessors-on-finalizer-owner", "protectedmemory: WithBytes, WithBytesFunc and NewReader are declared directly on the type that owns the finalizer anchor (field dummy), not promoted from an embedded struct", 3)
	p := u.ByPath[pkgProt]
	if p == nil {
		c.unresolved("protectedmemory", "package")
		return
	}
	var owner *types.Named
	sc := p.Types.Scope()
	for _, nm := range sc.Names() {
		tn, ok := sc.Lookup(nm).(*types.TypeName)
		if !ok {
			continue
		}
		nt, ok := tn.Type().(*types.Named)
		if !ok {
			continue
		}
		if st, isS := nt.Underlying().(*types.Struct); isS {
			for k := 0; k < st.NumFields(); k++ {
				if st.Field(k).Name() == "dummy" {
					owner = nt
				}
			}
		}
	}
	if owner == nil {
		c.unresolved("protectedmemory/finalizer-owner", "no struct with a `dummy` finalizer anchor")
		return
	}
	ms := types.NewMethodSet(types.NewPointer(owner))
	for _, m := range []string{"WithBytes", "WithBytesFunc", "NewReader"} {
		sel := ms.Lookup(p.Types, m)
		if sel == nil {
			c.bad("protectedmemory."+owner.Obj().Name()+"."+m, "", "the secret type has no method "+m)
			continue
		}
		direct := len(sel.Index()) == 1
		c.check(direct, "protectedmemory."+owner.Obj().Name()+"."+m, u.pos(sel.Obj().Pos()), "declared on the finalizer owner", m+" is promoted from an embedded struct: a Reader / bound method value made through it keeps only the inner struct alive, the outer object (whose dummy field anchors the finalizer) becomes garbage, and the finalizer wipes and unmaps the secret while it is still being read")
	}
}
