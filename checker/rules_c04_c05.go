package main

// C04 — expired keys never protect new data; C05 — revocation takes effect within the check interval (DESIGN §3).

import (
	"fmt"
	"go/token"
	"sort"
	"strings"

	"golang.org/x/tools/go/ssa"
)

func init() {
	register(&propSpec{
		ID:    "C04",
		Title: "Expired keys are never used to protect new data (inline rotation)",
		Explanation: "Structural necessary conditions of C04 on every path: (latest-revalidated) every key returned by keyCache.GetOrLoadLatest passed the " +
			"IsInvalid gate on its false edge or is the freshly loaded replacement made on the true edge; IsInvalid/IsKeyInvalid consult Policy.ExpireKeyAfter and the revoked flag; " +
			"(loader-rejects-invalid) a key built from a LoadLatest record is used only under !isEnvelopeInvalid(record) and, for an IK, only under !IsKeyInvalid(parent SK); " +
			"isEnvelopeInvalid is a disjunction containing both expiry and the Revoked flag; (new-keys-stamped-now) generated keys are stamped from time.Now() (truncation only); " +
			"(merge-identity, shared with C05) a reloaded key replaces the cached one unless it is the same key version; loadedAt is written only by the entry constructor and by load() after its loader call. Wall-clock behaviour is not decided.",
		NotDecided:  []string{"wall-clock timelines, long-session behaviour", "IsKeyExpired's arithmetic direction (pinned by unit tests)", "the duplicate-fallback returns after a refused store (property is conditional on 'metastore accepts writes')"},
		Assumptions: []string{"Metastore.LoadLatest returns the newest record (C13)", "time.Now is the process clock"},
		Tech:        "static analysis: guarded-by-condition (dominating branch facts) on SSA, boolean-disjunct structure, value provenance",
		NeedU1:      true,
		NeedU2:      true,
		Rules:       []func(*Ctx){ruleC04LatestRevalidated, ruleC04LoaderRejectsInvalid, ruleC04ExpiryArithmeticExact, ruleC05PolicyDurationsVerbatim, ruleC04NewKeysStampedNow, ruleC05MergeIdentity, ruleC04FreshnessRenewal, ruleC04LatestMapMonotonic, ruleC05FreshnessWriters, ruleC05StaleMeansReload, ruleC13ConsistentReads, ruleC02SuccessIsStoreBool, ruleC01OldKeysAddressable, ruleC04EntryStampedNow, ruleC05SidecarPolicyVerbatim, ruleC04CallersContextReachesTheStore},
	})
	register(&propSpec{
		ID:            "C05",
		UsesCallGraph: true,
		Title:         "Revocation in the metastore takes effect within the revoke-check interval",
		Explanation: "Structural necessary conditions of C05 on every path: (stale-means-reload) getFresh reports fresh only on the false edge of isReloadRequired(entry, Policy.RevokeCheckInterval), " +
			"a cached key is returned without a load only when getFresh said fresh, isReloadRequired short-circuits only for already-revoked keys and consults loadedAt, the interval and the clock; " +
			"(reload-refreshes) the retain-cached-entry path of load copies the reloaded Revoked flag, resets loadedAt from time.Now() and writes the entry back; " +
			"(merge-identity) that path is guarded by equality of the cached and reloaded key's Created; (invalid-latest-replaced) = C04.latest-revalidated; " +
			"(old-records-readable) no validity gate is reachable on the decrypt path, and the cache never drops its own reference to a key that stays cached (C08.refcount-protocol), so superseded keys stay usable for reads. Elapsed-time bounds are not decided.",
		NotDecided:  []string{"elapsed-time bounds ('within N intervals')", "behaviour when no key with a later creation stamp can be created", "cross-process timing"},
		Assumptions: []string{"the loader passed to the cache re-reads the metastore (checked by C20.external-only-via-cache / C01 provenance rules)"},
		Tech:        "static analysis: guarded-by-condition and must-pass-through on SSA over key_cache.go/envelope.go",
		NeedU1:      true,
		NeedU2:      true,
		Rules:       []func(*Ctx){ruleC05StaleMeansReload, ruleC05ReloadRefreshes, ruleC05ReloadResultUsed, ruleC05PolicyDurationsVerbatim, ruleC13ProjectionCoversRecord, ruleC13RecordLiteralsComplete, ruleC01LatestLookupUsesMarker, ruleC05MergeIdentity, ruleC04LatestRevalidated, ruleC01NoValidityGateOnRead, ruleC08RefcountProtocol, ruleC04FreshnessRenewal, ruleC05FreshnessWriters, ruleC13FieldFidelity, ruleC15SetStoresValue, ruleC13ConsistentReads, ruleC04LatestMapMonotonic, ruleC13ReadsHitBackend, ruleC02SuccessIsStoreBool, ruleC02FreshKeyOnlyIfStored, ruleC04ExpiryArithmeticExact, ruleC13DecodedRecordComplete, ruleC05SidecarPolicyVerbatim, ruleC01ProvenanceDecrypt, ruleC04CallersContextReachesTheStore},
	})
}

// keyValueOf: strips `.CryptoKey` embedded-field loads so that c.IsInvalid(key.CryptoKey) and tracked(key) compare equal.
func cachedKeyBase(v ssa.Value) ssa.Value {
	v = strip(v)
	if base, fld, ok := fieldAccess(v); ok && fld == "CryptoKey" && isCachedKeyPtr(base.Type()) {
		return strip(base)
	}
	return v
}

func ruleC04LatestRevalidated(c *Ctx) {
	u := c.U1
	c.rule("C04.latest-revalidated", "every non-nil key returned by keyCache.GetOrLoadLatest is either guarded by the false edge of c.IsInvalid(thatKey) or is the entry built from a loader call made on the true edge; IsInvalid = internal.IsKeyInvalid(key, policy.ExpireKeyAfter) = Revoked() || IsKeyExpired(Created(), expireAfter)", 3)
	f := u.Method(pkgApp, "keyCache", "GetOrLoadLatest")
	isInv := u.Method(pkgApp, "keyCache", "IsInvalid")
	if f == nil || isInv == nil {
		c.unresolved("GetOrLoadLatest", "(*keyCache).GetOrLoadLatest / IsInvalid")
		return
	}
	c.FuncsAnalysed[shortName(f)] = true
	for _, r := range returnsOf(f) {
		if len(r.Results) == 0 || isNilValue(r.Results[0]) {
			continue
		}
		construct := shortName(f) + "/return"
		res := resolve(r.Results[0])
		// unwrap tracked(x)
		if cv, ok := res.(*ssa.Call); ok {
			if g := staticCallee(cv); g != nil && g.Name() == "tracked" {
				res = resolve(cv.Call.Args[0])
			}
		}
		resPath := accessPath(res)
		// case 1: guarded by IsInvalid(res.CryptoKey) == false
		valid := guardedBy(r, false, func(v ssa.Value) bool {
			cv, ok := strip(v).(*ssa.Call)
			if !ok || staticCallee(cv) != isInv {
				return false
			}
			return accessPath(cachedKeyBase(cv.Call.Args[1])) == resPath
		})
		if valid {
			c.ok(construct, u.ipos(r), "returned key passed c.IsInvalid(key) == false on this path")
			continue
		}
		// case 2: replacement: key of newCacheEntry(loader(...)) where the loader call is on the IsInvalid true edge
		repl := false
		if fromNewEntry(res) {
			allInstrs(f, func(i ssa.Instruction) {
				if dynamicCallOfParam(i, "loader") && instrDominates(i, r) &&
					guardedBy(i, true, func(v ssa.Value) bool { cv, ok := strip(v).(*ssa.Call); return ok && staticCallee(cv) == isInv }) {
					repl = true
				}
			})
		}
		if repl {
			c.ok(construct, u.ipos(r), "returned key is the replacement loaded on the IsInvalid == true edge")
			continue
		}
		// case 3: the replacement is produced by a helper called on the IsInvalid == true edge: every key the helper
		// returns is the entry built from a loader call it makes itself
		viaHelper := false
		if ex, isEx := resolve(r.Results[0]).(*ssa.Extract); isEx && ex.Index == 0 {
			if call, isCall := ex.Tuple.(*ssa.Call); isCall {
				h := staticCallee(call)
				onInvalid := guardedBy(call, true, func(v ssa.Value) bool { cv, ok := strip(v).(*ssa.Call); return ok && staticCallee(cv) == isInv })
				if h != nil && h.Blocks != nil && h.Pkg != nil && h.Pkg.Pkg.Path() == pkgApp && onInvalid {
					all, n := true, 0
					for _, hr := range returnsOf(h) {
						if len(hr.Results) == 0 || isNilValue(hr.Results[0]) {
							continue
						}
						n++
						hres := resolve(hr.Results[0])
						if cv, ok := hres.(*ssa.Call); ok {
							if g := staticCallee(cv); g != nil && g.Name() == "tracked" {
								hres = resolve(cv.Call.Args[0])
							}
						}
						okr := false
						if fromNewEntry(hres) {
							allInstrs(h, func(i ssa.Instruction) {
								if cc := callOf(i); cc != nil && !cc.IsInvoke() && cc.StaticCallee() == nil && instrDominates(i, hr) {
									if p, isP := cc.Value.(*ssa.Parameter); isP && strings.Contains(p.Type().String(), "func(") {
										okr = true
									}
								}
							})
						}
						if !okr {
							all = false
						}
					}
					viaHelper = all && n > 0
					if viaHelper {
						c.FuncsAnalysed[shortName(h)] = true
					}
				}
			}
		}
		if viaHelper {
			c.ok(construct, u.ipos(r), "returned key is the replacement a helper loads on the IsInvalid == true edge")
			continue
		}
		c.bad(construct, u.ipos(r), "a key is returned for new writes without having passed the validity gate (c.IsInvalid false edge) and without being its freshly loaded replacement")
	}
	// IsInvalid consults the policy and both conditions
	c.FuncsAnalysed[shortName(isInv)] = true
	ik := u.Func(pkgInt, "IsKeyInvalid")
	ike := u.Func(pkgInt, "IsKeyExpired")
	if ik == nil || ike == nil {
		c.unresolved("IsKeyInvalid", "internal.IsKeyInvalid / IsKeyExpired")
		return
	}
	good := false
	allInstrs(isInv, func(i ssa.Instruction) {
		if staticCallee(i) == ik {
			cc := callOf(i)
			if policyField(cc.Args[1]) == "ExpireKeyAfter" && strip(cc.Args[0]) != nil && isParamNamed(cc.Args[0], isInv, 1) {
				for _, r := range returnsOf(isInv) {
					if strip(r.Results[0]) == ssa.Value(i.(*ssa.Call)) {
						good = true
					}
				}
			}
		}
	})
	c.check(good, "keyCache.IsInvalid", u.pos(isInv.Pos()), "returns internal.IsKeyInvalid(key, policy.ExpireKeyAfter)", "IsInvalid no longer returns internal.IsKeyInvalid(key, c.policy.ExpireKeyAfter)")
	c.FuncsAnalysed[shortName(ik)] = true
	// IsKeyInvalid: Revoked() || IsKeyExpired(Created(), expireAfter)
	var expiredCall ssa.Value
	allInstrs(ik, func(i ssa.Instruction) {
		if staticCallee(i) == ike {
			cc := callOf(i)
			if cr, ok := strip(cc.Args[0]).(*ssa.Call); ok && cr.Call.IsInvoke() && cr.Call.Method.Name() == "Created" && isParamNamed(cr.Call.Value, ik, 0) && isParamNamed(cc.Args[1], ik, 1) {
				expiredCall = i.(*ssa.Call)
			}
		}
	})
	h1, s1 := boolResultTrueWhen(ik, func(v ssa.Value) bool {
		cv, ok := v.(*ssa.Call)
		return ok && cv.Call.IsInvoke() && cv.Call.Method.Name() == "Revoked" && isParamNamed(cv.Call.Value, ik, 0)
	})
	h2, s2 := boolResultTrueWhen(ik, func(v ssa.Value) bool { return expiredCall != nil && v == expiredCall })
	c.check(expiredCall != nil && h1 && s1 && h2 && s2, "internal.IsKeyInvalid", u.pos(ik.Pos()), "true whenever key.Revoked() or IsKeyExpired(key.Created(), expireAfter)",
		"IsKeyInvalid is no longer the disjunction of key.Revoked() and IsKeyExpired(key.Created(), expireAfter)")
}

// isParamNamed: v is parameter #idx of f.
func isParamNamed(v ssa.Value, f *ssa.Function, idx int) bool {
	p, ok := strip(v).(*ssa.Parameter)
	return ok && idx < len(f.Params) && f.Params[idx] == p
}

func ruleC04LoaderRejectsInvalid(c *Ctx) {
	u := c.U1
	c.rule("C04.loader-rejects-invalid", "a key built from a Metastore.LoadLatest record (systemKeyFromEKR / getValidIntermediateKey / intermediateKeyFromEKR) is only built under record != nil and !isEnvelopeInvalid(record); getValidIntermediateKey unwraps only under !IsKeyInvalid(sk, Policy.ExpireKeyAfter); isEnvelopeInvalid contains expiry and Revoked", 3)
	inv := u.Method(pkgApp, "envelopeEncryption", "isEnvelopeInvalid")
	if inv == nil {
		c.unresolved("isEnvelopeInvalid", "(*envelopeEncryption).isEnvelopeInvalid")
		return
	}
	builders := map[string]int{"systemKeyFromEKR": 2, "getValidIntermediateKey": 2, "intermediateKeyFromEKR": 2}
	n := 0
	for _, f := range u.RepoFuncs {
		if f.Pkg == nil || f.Pkg.Pkg.Path() != pkgApp {
			continue
		}
		allInstrs(f, func(i ssa.Instruction) {
			g := staticCallee(i)
			if g == nil {
				return
			}
			idx, ok := builders[g.Name()]
			if !ok || g.Signature.Recv() == nil {
				return
			}
			rec := callOf(i).Args[idx]
			src, ok := strip(rec).(*ssa.Extract)
			if !ok {
				return
			}
			call, ok := src.Tuple.(*ssa.Call)
			if _, isLL := invokeOrForwarder(call, pkgApp, "Metastore", "LoadLatest"); !ok || !isLL {
				return // records from mustLoadLatest (duplicate fallback) or parameters: not this rule
			}
			n++
			c.CallSites++
			c.FuncsAnalysed[shortName(f)] = true
			construct := shortName(f) + "/" + g.Name()
			recPath := accessPath(rec)
			nonNil := knownNonNil(rec, i.Block())
			validated := guardedBy(i, false, func(v ssa.Value) bool {
				cv, ok := strip(v).(*ssa.Call)
				return ok && staticCallee(cv) == inv && accessPath(cv.Call.Args[1]) == recPath
			})
			switch {
			case !nonNil:
				c.bad(construct, u.ipos(i), "key built from a LoadLatest record that is not known non-nil here")
			case !validated:
				c.bad(construct, u.ipos(i), "key built from the latest stored record without the !isEnvelopeInvalid(record) gate: an expired or revoked key would protect new data")
			default:
				c.ok(construct, u.ipos(i), "guarded by record != nil and isEnvelopeInvalid(record) == false")
			}
		})
	}
	// getValidIntermediateKey: unwrap only under !IsKeyInvalid(sk, Policy.ExpireKeyAfter)
	gv := u.Method(pkgApp, "envelopeEncryption", "getValidIntermediateKey")
	ik := u.Func(pkgInt, "IsKeyInvalid")
	if gv == nil || ik == nil {
		c.unresolved("getValidIntermediateKey", "(*envelopeEncryption).getValidIntermediateKey")
	} else {
		c.FuncsAnalysed[shortName(gv)] = true
		found := false
		allInstrs(gv, func(i ssa.Instruction) {
			g := staticCallee(i)
			if g == nil || g.Name() != "intermediateKeyFromEKR" {
				return
			}
			found = true
			skArg := callOf(i).Args[1]
			ok := guardedBy(i, false, func(v ssa.Value) bool {
				cv, isC := strip(v).(*ssa.Call)
				return isC && staticCallee(cv) == ik && accessPath(cv.Call.Args[0]) == accessPath(skArg) && policyField(cv.Call.Args[1]) == "ExpireKeyAfter"
			})
			c.check(ok, shortName(gv)+"/parent-valid", u.ipos(i), "IK unwrapped only on the IsKeyInvalid(sk, Policy.ExpireKeyAfter) == false edge",
				"the stored IK is adopted without checking that its parent system key is still valid (unexpired, unrevoked)")
		})
		if !found {
			c.unresolved(shortName(gv)+"/parent-valid", "call of intermediateKeyFromEKR in getValidIntermediateKey")
		}
	}
	// isEnvelopeInvalid: contains IsKeyExpired(ekr.Created, Policy.ExpireKeyAfter) and ekr.Revoked
	c.FuncsAnalysed[shortName(inv)] = true
	ike := u.Func(pkgInt, "IsKeyExpired")
	var exp ssa.Value
	allInstrs(inv, func(i ssa.Instruction) {
		if staticCallee(i) == ike {
			cc := callOf(i)
			if hasSuffixPath(cc.Args[0], "P:ekr.Created") && policyField(cc.Args[1]) == "ExpireKeyAfter" {
				exp = i.(*ssa.Call)
			}
		}
	})
	h1, s1 := boolResultTrueWhen(inv, func(v ssa.Value) bool { return exp != nil && v == exp })
	h2, s2 := boolResultTrueWhen(inv, fieldLoadPred(pkgApp, "EnvelopeKeyRecord", "Revoked"))
	c.check(exp != nil && h1 && s1 && h2 && s2, "envelopeEncryption.isEnvelopeInvalid", u.pos(inv.Pos()),
		"true whenever IsKeyExpired(ekr.Created, Policy.ExpireKeyAfter) or ekr.Revoked", "isEnvelopeInvalid no longer reports both expired (per Policy.ExpireKeyAfter) and revoked records as invalid")
	_ = n
}

func ruleC04NewKeysStampedNow(c *Ctx) {
	u := c.U1
	c.rule("C04.new-keys-stamped-now", "generateKey passes newKeyTimestamp(Policy.CreateDatePrecision) as the created stamp of internal.GenerateKey, and newKeyTimestamp derives every result from time.Now() by Truncate/Unix only", 2)
	gk := u.Method(pkgApp, "envelopeEncryption", "generateKey")
	nts := u.Func(pkgApp, "newKeyTimestamp")
	gen := u.Func(pkgInt, "GenerateKey")
	if gk == nil || nts == nil || gen == nil {
		c.unresolved("generateKey", "generateKey / newKeyTimestamp / internal.GenerateKey")
		return
	}
	c.FuncsAnalysed[shortName(gk)] = true
	c.FuncsAnalysed[shortName(nts)] = true
	good := false
	allInstrs(gk, func(i ssa.Instruction) {
		if staticCallee(i) == gen {
			if cv, ok := strip(callOf(i).Args[1]).(*ssa.Call); ok && staticCallee(cv) == nts && policyField(cv.Call.Args[0]) == "CreateDatePrecision" {
				good = true
			}
		}
	})
	c.check(good, shortName(gk)+"/created", u.pos(gk.Pos()), "created = newKeyTimestamp(Policy.CreateDatePrecision)", "system/intermediate keys are no longer stamped with newKeyTimestamp(Policy.CreateDatePrecision) (racing creators would not collide on one row; stamps may not be 'now')")
	allNow := true
	cnt := 0
	for _, r := range returnsOf(nts) {
		cnt++
		if !derivesFromNow(r.Results[0]) {
			allNow = false
		}
	}
	c.check(allNow && cnt > 0, shortName(nts)+"/now", u.pos(nts.Pos()), "every result is time.Now()[.Truncate(d)].Unix()", "newKeyTimestamp returns a value not derived from time.Now() by truncation only")
}

func derivesFromNow(v ssa.Value) bool {
	cv, ok := resolve(v).(*ssa.Call)
	if !ok || !staticIs(cv, "(time.Time).Unix") {
		return false
	}
	return instantFromNow(cv.Call.Args[0], map[ssa.Value]bool{}, 0)
}

// instantFromNow: the time.Time value is time.Now(), possibly truncated / converted to UTC, on every way it can be
// assigned (phis and multiply-assigned locals included).
func instantFromNow(x ssa.Value, seen map[ssa.Value]bool, depth int) bool {
	if depth > 8 {
		return false
	}
	if seen[x] {
		return true
	}
	seen[x] = true
	switch y := x.(type) {
	case *ssa.Phi:
		for _, e := range y.Edges {
			if !instantFromNow(e, seen, depth+1) {
				return false
			}
		}
		return len(y.Edges) > 0
	case *ssa.UnOp:
		if y.Op == token.MUL {
			if a, isA := y.X.(*ssa.Alloc); isA {
				st := localStores(a)
				for _, sv := range st {
					if !instantFromNow(sv, seen, depth+1) {
						return false
					}
				}
				return len(st) > 0
			}
		}
	case *ssa.Call:
		switch {
		case staticIs(y, "time.Now"):
			return true
		case staticIs(y, "(time.Time).Truncate"), staticIs(y, "(time.Time).UTC"):
			return instantFromNow(y.Call.Args[0], seen, depth+1)
		}
		return false
	}
	if r := resolve(x); r != x {
		return instantFromNow(r, seen, depth+1)
	}
	return false
}

// ---------------------------------------------------------------------------------------------

func ruleC05StaleMeansReload(c *Ctx) {
	u := c.U1
	c.rule("C05.stale-means-reload", "getFresh returns fresh=true only on the false edge of isReloadRequired(entry, policy.RevokeCheckInterval); GetOrLoad/GetOrLoadLatest return a cached key without load() only on getFresh's fresh edge; isReloadRequired returns false early only for revoked keys and consults loadedAt, the interval and time.Now", 6)
	gf := u.Method(pkgApp, "keyCache", "getFresh")
	irr := u.Func(pkgApp, "isReloadRequired")
	ld := u.Method(pkgApp, "keyCache", "load")
	if gf == nil || irr == nil || ld == nil {
		c.unresolved("getFresh", "getFresh / isReloadRequired / load")
		return
	}
	c.FuncsAnalysed[shortName(gf)] = true
	for _, r := range returnsOf(gf) {
		if len(r.Results) < 2 {
			continue
		}
		k, isC := constOf(r.Results[1])
		if isC && k.ExactString() == "false" {
			continue
		}
		construct := shortName(gf) + "/fresh-return"
		if !isC {
			c.undecided(construct, u.ipos(r), "fresh flag is not a constant; cannot relate it to isReloadRequired")
			continue
		}
		ok := guardedBy(r, false, func(v ssa.Value) bool {
			cv, isCall := strip(v).(*ssa.Call)
			return isCall && staticCallee(cv) == irr && policyField(cv.Call.Args[1]) == "RevokeCheckInterval"
		})
		c.check(ok, construct, u.ipos(r), "fresh=true only where isReloadRequired(entry, policy.RevokeCheckInterval) is false",
			"getFresh reports a cached key as fresh without the isReloadRequired(entry, policy.RevokeCheckInterval) == false guard: revocation would never be re-checked")
	}
	for _, m := range []string{"GetOrLoad", "GetOrLoadLatest"} {
		f := u.Method(pkgApp, "keyCache", m)
		if f == nil {
			c.unresolved(m, "(*keyCache)."+m)
			continue
		}
		c.FuncsAnalysed[shortName(f)] = true
		for _, r := range returnsOf(f) {
			if len(r.Results) == 0 || isNilValue(r.Results[0]) {
				continue
			}
			construct := shortName(f) + "/cached-return"
			// every path from a getFresh call to this return takes the fresh edge or passes load()/loader()
			bad := false
			var trace []ssa.Instruction
			nGF := 0
			allInstrs(f, func(i ssa.Instruction) {
				if staticCallee(i) != gf {
					return
				}
				if _, isCall := i.(*ssa.Call); !isCall {
					return
				}
				nGF++
				found, tr := pathSearch(i, func(j ssa.Instruction) pathAction {
					if j == ssa.Instruction(r) {
						return pathFound
					}
					if staticCallee(j) == gf && j != i {
						return pathStop // a later lookup supersedes this one
					}
					return pathContinue
				}, func(from, to *ssa.BasicBlock) bool {
					for _, fct := range edgeFacts(from, to) {
						if ex, ok := strip(fct.V).(*ssa.Extract); ok && ex.Index == 1 && ex.Tuple == ssa.Value(i.(*ssa.Call)) && fct.True {
							return false // fresh edge: fine
						}
						// the success edge of a (re)load: fine. A failed load does not count: the path goes on.
						if x, isNil, ok := nilTest(fct); ok && isNil {
							if ex, isEx := strip(x).(*ssa.Extract); isEx {
								if lc, isCall := ex.Tuple.(*ssa.Call); isCall && (staticCallee(lc) == ld || dynamicCallOfParam(lc, "loader")) {
									return false
								}
							}
						}
					}
					return true
				})
				if found {
					bad = true
					trace = tr
				}
			})
			switch {
			case nGF == 0:
				c.undecided(construct, u.ipos(r), "no getFresh lookup in a method that returns cached keys")
			case bad:
				c.bad(construct, u.ipos(r), "a cached key can be returned although getFresh did not report it fresh and no (re)load succeeded on that path (a stale or failed-to-refresh key keeps being used: revocation is not seen within the interval)", u.tracePositions(trace)...)
			default:
				c.ok(construct, u.ipos(r), "every path to this return takes getFresh's fresh edge or the success edge of load()/loader()")
			}
		}
	}
	// isReloadRequired structure
	c.FuncsAnalysed[shortName(irr)] = true
	usesLoadedAt, usesInterval, usesClock := false, false, false
	allInstrs(irr, func(i ssa.Instruction) {
		for _, op := range i.Operands(nil) {
			if *op == nil {
				continue
			}
			if _, fld, ok := fieldAccess(*op); ok && fld == "loadedAt" {
				usesLoadedAt = true
			}
			if isParamNamed(*op, irr, 1) {
				usesInterval = true
			}
		}
		if staticIs(i, "time.Now") || staticIs(i, "time.Since") {
			usesClock = true
		}
	})
	earlyOK := true
	for _, r := range returnsOf(irr) {
		k, isC := constOf(r.Results[0])
		if isC && k.ExactString() == "false" {
			// only allowed under Revoked() == true
			if !guardedBy(r, true, func(v ssa.Value) bool {
				cv, ok := strip(v).(*ssa.Call)
				return ok && (staticIs(cv, "(*"+pkgInt+".CryptoKey).Revoked") || (cv.Call.IsInvoke() && cv.Call.Method.Name() == "Revoked"))
			}) {
				earlyOK = false
			}
		}
		if isC && k.ExactString() == "true" {
			earlyOK = earlyOK && true
		}
	}
	c.check(usesLoadedAt && usesInterval && usesClock && earlyOK, shortName(irr), u.pos(irr.Pos()), "consults entry.loadedAt, checkInterval and the clock; constant false only for already-revoked keys",
		"isReloadRequired no longer depends on loadedAt/checkInterval/clock, or returns 'no reload' unconditionally for keys that are not revoked")
	// the staleness verdict is exactly `loadedAt + checkInterval < now`, with the interval parameter itself: no slack, jitter
	// or scaling (the bound "within one revoke-check interval" is the property)
	isLoadedAt := func(v ssa.Value) bool {
		_, fld, ok := fieldAccess(resolve(v))
		if !ok {
			_, fld, ok = fieldAccess(v)
		}
		return ok && fld == "loadedAt"
	}
	isInterval := func(v ssa.Value) bool { return isParamNamed(v, irr, 1) }
	isNow := func(v ssa.Value) bool {
		cv, ok := resolve(v).(*ssa.Call)
		return ok && staticIs(cv, "time.Now")
	}
	callIs := func(v ssa.Value, full string) *ssa.Call {
		cv, ok := resolve(v).(*ssa.Call)
		if ok && staticIs(cv, full) {
			return cv
		}
		return nil
	}
	deadline := func(v ssa.Value) bool { // loadedAt.Add(interval)
		cv := callIs(v, "(time.Time).Add")
		return cv != nil && isLoadedAt(cv.Call.Args[0]) && isInterval(cv.Call.Args[1])
	}
	elapsed := func(v ssa.Value) bool { // time.Since(loadedAt) / time.Now().Sub(loadedAt)
		if cv := callIs(v, "time.Since"); cv != nil {
			return isLoadedAt(cv.Call.Args[0])
		}
		if cv := callIs(v, "(time.Time).Sub"); cv != nil {
			return isNow(cv.Call.Args[0]) && isLoadedAt(cv.Call.Args[1])
		}
		return false
	}
	exact := func(v ssa.Value) bool {
		v = resolve(v)
		if cv := callIs(v, "(time.Time).Before"); cv != nil {
			return deadline(cv.Call.Args[0]) && isNow(cv.Call.Args[1])
		}
		if cv := callIs(v, "(time.Time).After"); cv != nil {
			return isNow(cv.Call.Args[0]) && deadline(cv.Call.Args[1])
		}
		if bo, ok := v.(*ssa.BinOp); ok {
			switch bo.Op {
			case token.GTR, token.GEQ:
				return elapsed(bo.X) && isInterval(bo.Y)
			case token.LSS, token.LEQ:
				return isInterval(bo.X) && elapsed(bo.Y)
			}
		}
		return false
	}
	for _, r := range returnsOf(irr) {
		if _, isC := constOf(r.Results[0]); isC {
			continue
		}
		c.check(exact(returnedValue(r, 0)), shortName(irr)+"/exact-interval", u.ipos(r), "stale ⇔ loadedAt + checkInterval < now (the interval parameter itself)",
			"the staleness verdict is not `entry.loadedAt + checkInterval < now` with the raw interval parameter (slack, jitter, scaling or another clock base): keys stay in use beyond one revoke-check interval after revocation / parent expiry")
	}
}

func ruleC05ReloadRefreshes(c *Ctx) {
	u := c.U1
	c.rule("C05.reload-refreshes", "on the path of keyCache.load that keeps the cached entry and discards the reloaded key: SetRevoked(reloaded.Revoked()) on the cached key, loadedAt = time.Now(), and the entry is written back; keyCache.write stores the entry it is given (keys.Set) on every path", 3)
	f := u.Method(pkgApp, "keyCache", "load")
	wr := u.Method(pkgApp, "keyCache", "write")
	if f == nil || wr == nil {
		c.unresolved("load", "(*keyCache).load / write")
		return
	}
	// write(meta, e) must store e on every path: load() refreshes loadedAt on a copy and relies on write to persist it
	{
		c.FuncsAnalysed[shortName(wr)] = true
		ok, tr := mustPass(wr.Blocks[0], 0, func(i ssa.Instruction) bool {
			return isKeysCall(i, "Set") && strings.HasSuffix(accessPath(callOf(i).Args[1]), "P:e")
		}, nil)
		if ok {
			c.ok(shortName(wr)+"/always-sets", u.pos(wr.Pos()), "keys.Set(id, e) on every path")
		} else {
			c.bad(shortName(wr)+"/always-sets", u.pos(wr.Pos()), "write can return without storing the entry it was given: a refreshed loadedAt / revoked flag is dropped and the key stays stale (reloaded on every call after the first interval)", u.tracePositions(tr)...)
		}
	}
	c.FuncsAnalysed[shortName(f)] = true
	// the loader result
	var loaderRes ssa.Value
	allInstrs(f, func(i ssa.Instruction) {
		if dynamicCallOfParam(i, "loader") {
			for _, pr := range resultsOfType(i, isCryptoKeyPtr) {
				loaderRes = pr[0]
			}
		}
	})
	if loaderRes == nil {
		c.unresolved(shortName(f)+"/loader", "call of the loader parameter")
		return
	}
	// the discard: Close on the loader result
	var discards []ssa.Instruction
	allInstrs(f, func(i ssa.Instruction) {
		if cc := callOf(i); cc != nil && methodNameOf(cc) == "Close" {
			if rv := receiverOf(cc); rv != nil && strip(rv) == loaderRes {
				discards = append(discards, i)
			}
		}
	})
	if len(discards) == 0 {
		c.ok(shortName(f)+"/no-retain-path", u.pos(f.Pos()), "load never discards the reloaded key: it always becomes the entry")
		return
	}
	for _, d := range discards {
		construct := shortName(f) + "/retain-path"
		// SetRevoked(cachedKey, reloaded.Revoked()) dominating-or-same-block
		setOK, timeOK := false, false
		allInstrs(f, func(i ssa.Instruction) {
			if !(instrDominates(i, d) && i.Block().Dominates(d.Block())) {
				return
			}
			if !sameRegion(i, d) {
				return
			}
			if staticIs(i, "(*"+pkgInt+".CryptoKey).SetRevoked") {
				cc := callOf(i)
				if rv, ok := strip(cc.Args[1]).(*ssa.Call); ok && methodNameOf(&rv.Call) == "Revoked" && strip(receiverOf(&rv.Call)) == loaderRes {
					if len(lookupOrigins(cc.Args[0])) > 0 {
						setOK = true
					}
				}
			}
			if st, ok := i.(*ssa.Store); ok {
				if _, fld, isF := fieldAccess(st.Addr); isF && fld == "loadedAt" {
					if cv, ok := strip(st.Val).(*ssa.Call); ok && staticIs(cv, "time.Now") {
						timeOK = true
					}
				}
			}
		})
		wb, tr := mustPass(d.Block(), indexOf(d)+1, func(i ssa.Instruction) bool { return staticCallee(i) == wr }, nil)
		switch {
		case !setOK:
			c.bad(construct+"/revoked", u.ipos(d), "the reloaded key is discarded without copying its Revoked flag onto the cached key: revocation in the metastore is never seen")
		default:
			c.ok(construct+"/revoked", u.ipos(d), "cached key gets SetRevoked(reloaded.Revoked())")
		}
		c.check(timeOK, construct+"/loadedAt", u.ipos(d), "loadedAt reset from time.Now()", "loadedAt is not reset on reload: the entry stays stale and is reloaded on every call (or never)")
		if wb {
			c.ok(construct+"/written-back", u.ipos(d), "entry written back on every path")
		} else {
			c.bad(construct+"/written-back", u.ipos(d), "the refreshed entry is not written back to the cache on some path", u.tracePositions(tr)...)
		}
	}
}

// sameRegion: i executes on every path to d under the same branch decisions that lead to d (i's block dominates d's and
// d's block post-dominates... approximated: i is in d's block, or i's block's facts are a subset of d's block facts and
// i's block dominates d's block).
func sameRegion(i, d ssa.Instruction) bool {
	return i.Block() == d.Block() || i.Block().Dominates(d.Block())
}

func ruleC05MergeIdentity(c *Ctx) {
	u := c.U1
	c.rule("C05.merge-identity", "in keyCache.load the path that keeps the cached entry and closes the reloaded key is guarded by equality of cached.Created() and reloaded.Created(); otherwise the reloaded key becomes the entry", 1)
	f := u.Method(pkgApp, "keyCache", "load")
	if f == nil {
		c.unresolved("load", "(*keyCache).load")
		return
	}
	c.FuncsAnalysed[shortName(f)] = true
	var loaderRes ssa.Value
	allInstrs(f, func(i ssa.Instruction) {
		if dynamicCallOfParam(i, "loader") {
			for _, pr := range resultsOfType(i, isCryptoKeyPtr) {
				loaderRes = pr[0]
			}
		}
	})
	if loaderRes == nil {
		c.unresolved(shortName(f)+"/loader", "call of the loader parameter")
		return
	}
	n := 0
	allInstrs(f, func(i ssa.Instruction) {
		cc := callOf(i)
		if cc == nil || methodNameOf(cc) != "Close" {
			return
		}
		rv := receiverOf(cc)
		if rv == nil || strip(rv) != loaderRes {
			return
		}
		n++
		construct := shortName(f) + "/discard-reloaded"
		same := false
		for _, fct := range factsAt(i.Block()) {
			b, ok := fct.V.(*ssa.BinOp)
			if !ok || !((b.Op == token.EQL && fct.True) || (b.Op == token.NEQ && !fct.True)) {
				continue
			}
			x, y := createdOf(b.X), createdOf(b.Y)
			if x == nil || y == nil {
				continue
			}
			xr, yr := strip(x) == loaderRes, strip(y) == loaderRes
			xc, yc := len(lookupOrigins(x)) > 0, len(lookupOrigins(y)) > 0
			if (xr && yc) || (yr && xc) {
				same = true
			}
		}
		c.check(same, construct, u.ipos(i), "reloaded key discarded only where cached.Created() == reloaded.Created()",
			"the reloaded key is discarded in favour of the cached entry without comparing Created: after rotation/revocation the replacement is never adopted and the stale key is used forever")
	})
	if n == 0 {
		c.ok(shortName(f)+"/no-discard", u.pos(f.Pos()), "load never discards the reloaded key")
	}
}

// createdOf: if v is a call of Created() returns its receiver.
func createdOf(v ssa.Value) ssa.Value {
	cv, ok := strip(v).(*ssa.Call)
	if !ok || methodNameOf(&cv.Call) != "Created" {
		return nil
	}
	return receiverOf(&cv.Call)
}

// ruleC01NoValidityGateOnRead (shared: C01, C05): none of the validity predicates is reachable from
// DecryptDataRowRecord under closure-binding-sensitive reachability.
func ruleC01NoValidityGateOnRead(c *Ctx) {
	u := c.U1
	c.rule("C01.no-validity-gate-on-read", "internal.IsKeyExpired, internal.IsKeyInvalid, isEnvelopeInvalid and keyCache.IsInvalid are not reachable from DecryptDataRowRecord (closure-binding-sensitive call graph); old data stays readable after expiry/revocation", 1)
	start := u.Method(pkgApp, "envelopeEncryption", "DecryptDataRowRecord")
	if start == nil {
		c.unresolved("DecryptDataRowRecord", "(*envelopeEncryption).DecryptDataRowRecord")
		return
	}
	gates := map[*ssa.Function]bool{}
	for _, g := range []*ssa.Function{u.Func(pkgInt, "IsKeyExpired"), u.Func(pkgInt, "IsKeyInvalid"), u.Method(pkgApp, "envelopeEncryption", "isEnvelopeInvalid"), u.Method(pkgApp, "keyCache", "IsInvalid")} {
		if g == nil {
			c.unresolved("gates", "validity predicates")
			return
		}
		gates[g] = true
	}
	cg := newCallGraph(u)
	reach := cg.reachableFrom(start)
	var hit []string
	for g := range gates {
		if p := reach[g]; p != nil {
			hit = append(hit, shortName(g)+" via "+strings.Join(cg.pathTo(reach, g), " → "))
		}
	}
	c.note("C01.no-validity-gate-on-read: %d functions reachable from DecryptDataRowRecord", len(reach))
	for f := range reach {
		c.FuncsAnalysed[shortName(f)] = true
	}
	if len(hit) > 0 {
		c.bad("DecryptDataRowRecord/validity-gates", u.pos(start.Pos()), "a key-validity predicate is reachable on the decrypt path: "+strings.Join(hit, "; "))
	} else {
		c.ok("DecryptDataRowRecord/validity-gates", u.pos(start.Pos()), "no validity predicate reachable from the decrypt path")
	}
	// no branch on a revoked flag / creation stamp rejects a read: an edge whose condition reads Revoked and from which
	// only error returns are reachable
	isRevokedRead := func(v ssa.Value) bool {
		v = strip(v)
		if _, fld, ok := fieldAccess(v); ok && fld == "Revoked" {
			return true
		}
		if cv, ok := v.(*ssa.Call); ok && methodNameOf(&cv.Call) == "Revoked" {
			return true
		}
		return false
	}
	var revGates []string
	for f := range reach {
		if f.Blocks == nil || f.Pkg == nil || f.Pkg.Pkg.Path() != pkgApp {
			continue
		}
		res := f.Signature.Results()
		if res.Len() == 0 || !isErrorType(res.At(res.Len()-1).Type()) {
			continue
		}
		errIdx := res.Len() - 1
		for _, b := range f.Blocks {
			for _, s := range b.Succs {
				hasRev := false
				for _, fct := range edgeFacts(b, s) {
					if isRevokedRead(fct.V) {
						hasRev = true
					}
				}
				if !hasRev {
					continue
				}
				// is a success return reachable from this edge?
				succ, _ := pathSearchAt(s, 0, func(j ssa.Instruction) pathAction {
					if r, ok := j.(*ssa.Return); ok {
						if isNilValue(returnedValue(r, errIdx)) {
							return pathFound
						}
						if _, isC := strip(returnedValue(r, errIdx)).(*ssa.Const); !isC {
							if _, isCall := resolve(returnedValue(r, errIdx)).(*ssa.Call); !isCall {
								return pathFound // error value passed along from a callee: may be nil
							}
						}
						return pathStop
					}
					return pathContinue
				}, nil)
				if !succ {
					revGates = append(revGates, trimPkgDirs(shortName(f))+" at "+u.ipos(b.Instrs[len(b.Instrs)-1]))
				}
			}
		}
	}
	sort.Strings(revGates)
	c.check(len(revGates) == 0, "DecryptDataRowRecord/revocation-rejects-read", u.pos(start.Pos()), "no branch on a Revoked flag leads only to error returns on the decrypt path",
		"on the decrypt path a branch on a revoked flag leads only to error returns: records written under a since-revoked key can no longer be read: "+strings.Join(revGates, "; "))
}

// ruleC04FreshnessRenewal: the freshness stamp (loadedAt) that lets GetOrLoadLatest skip its loader — the only place
// where the parent system key of a cached intermediate key is re-validated — must be renewed only by loads that went
// through that validating (latest) loader. If an exact-version load (decrypt path, whose loader must NOT gate on
// validity: C01) renews it too, a session that decrypts at least once per interval never re-validates the parent.
func ruleC04FreshnessRenewal(c *Ctx) {
	u := c.U1
	c.rule("C04.freshness-renewed-only-with-parent-validation", "in keyCache.load the retained entry's loadedAt is reset only where the load is a latest-lookup (meta.IsLatest()), i.e. went through the loader that re-validates the parent key", 1)
	f := u.Method(pkgApp, "keyCache", "load")
	if f == nil {
		c.unresolved("load", "(*keyCache).load")
		return
	}
	c.FuncsAnalysed[shortName(f)] = true
	n := 0
	allInstrs(f, func(i ssa.Instruction) {
		st, ok := i.(*ssa.Store)
		if !ok {
			return
		}
		if _, fld, isF := fieldAccess(st.Addr); !isF || fld != "loadedAt" {
			return
		}
		// only the retain path (entry came from a cache lookup), not the creation of a new entry
		if base, _, _ := fieldAccess(st.Addr); len(lookupOrigins(base)) == 0 && !fromNewEntry(base) {
			return
		}
		if fromNewEntry(st.Addr) && len(lookupOrigins(st.Addr)) == 0 {
			return
		}
		n++
		latestOnly := guardedBy(i, true, func(v ssa.Value) bool {
			cv, isC := strip(v).(*ssa.Call)
			return isC && methodNameOf(&cv.Call) == "IsLatest"
		})
		c.check(latestOnly, shortName(f)+"/retained-entry-freshness", u.ipos(i), "loadedAt renewed only for latest-lookups",
			"any load — including the exact-version loads of the decrypt path, whose loader does not (and must not) validate the parent key — renews the freshness of the cached entry that GetOrLoadLatest serves to encrypts: a session that decrypts at least once per revoke-check interval keeps using an intermediate key whose parent system key has expired or been revoked beyond the interval")
	})
	if n == 0 {
		c.ok(shortName(f)+"/retained-entry-freshness", u.pos(f.Pos()), "load never renews the freshness of a retained entry")
	}
}

// ruleC04LatestMapMonotonic: the cache's "latest key for this id" pointer may be moved by an exact-version load (decrypt
// path) only forward: when nothing is mapped yet or the loaded key is strictly newer than the mapped one. Otherwise a
// decrypt of an old record turns a superseded key into the key new records are written under.
func ruleC04LatestMapMonotonic(c *Ctx) {
	u := c.U1
	c.rule("C04.latest-map-monotonic", "in keyCache.write every mapLatestKeyMeta call is made for a latest-lookup (meta.IsLatest()), or where no latest is mapped yet, or where the mapped latest's Created is strictly less than the entry's key Created()", 2)
	f := u.Method(pkgApp, "keyCache", "write")
	m := u.Method(pkgApp, "keyCache", "mapLatestKeyMeta")
	gl := u.Method(pkgApp, "keyCache", "getLatestKeyMeta")
	if f == nil || m == nil || gl == nil {
		c.unresolved("write", "(*keyCache).write / mapLatestKeyMeta / getLatestKeyMeta")
		return
	}
	n := 0
	for _, g := range u.RepoFuncs {
		if rootFunc(g).Signature.Recv() == nil || namedTypeName(rootFunc(g).Signature.Recv().Type()) != "keyCache" {
			continue
		}
		allInstrs(g, func(i ssa.Instruction) {
			if staticCallee(i) != m {
				return
			}
			n++
			c.CallSites++
			c.FuncsAnalysed[shortName(g)] = true
			ok := holdsOnAllEntries(i.Block(), func(facts []Fact) bool {
				ok := false
				for _, fct := range facts {
					if cv, isC := strip(fct.V).(*ssa.Call); isC && methodNameOf(&cv.Call) == "IsLatest" && fct.True {
						ok = true
					}
					if ex, isEx := strip(fct.V).(*ssa.Extract); isEx && ex.Index == 1 && !fct.True {
						if call, isCall := ex.Tuple.(*ssa.Call); isCall && staticCallee(call) == gl {
							ok = true // nothing mapped yet
						}
					}
					if b, isB := fct.V.(*ssa.BinOp); isB {
						isMapped := func(v ssa.Value) bool {
							p := accessPath(v)
							return strings.HasSuffix(p, ".Created") && strings.Contains(p, "X:") // field of getLatestKeyMeta's result
						}
						isNew := func(v ssa.Value) bool { return createdOf(v) != nil }
						if (b.Op == token.LSS && isMapped(b.X) && isNew(b.Y) && fct.True) || (b.Op == token.GTR && isNew(b.X) && isMapped(b.Y) && fct.True) ||
							(b.Op == token.GEQ && isMapped(b.X) && isNew(b.Y) && !fct.True) || (b.Op == token.LEQ && isNew(b.X) && isMapped(b.Y) && !fct.True) {
							ok = true
						}
					}
				}
				return ok
			})
			c.check(ok, shortName(g)+"/mapLatestKeyMeta", u.ipos(i), "latest pointer moves only for latest-lookups, first mappings or strictly newer keys",
				"the cache's latest-key pointer can be moved to a key that is not newer than the mapped one by an exact-version load: decrypting an old record makes a superseded (possibly parent-expired) key the one new records are written under")
		})
	}
	if n == 0 {
		c.bad("keyCache/mapLatestKeyMeta", "", "latest mapping is never updated")
	}
}

// ruleC05FreshnessWriters: who may stamp an entry fresh. The revoke-check interval is measured from cacheEntry.loadedAt,
// so the bound of C05/C04/C20 ("within one interval") holds only if loadedAt is set exclusively when the key's record
// was just (re)read: by the entry constructor and by keyCache.load after its loader call. A stamp anywhere else (e.g. on
// a cache hit) turns the interval into a sliding idle timeout: a busy session never re-reads the record.
func ruleC05FreshnessWriters(c *Ctx) {
	u := c.U1
	c.rule("C05.freshness-only-from-reload", "cacheEntry.loadedAt is written only by newCacheEntry and by keyCache.load (after the loader call); no other function of the SDK renews or forges an entry's freshness, and isReloadRequired reads that field", 2)
	load := u.Method(pkgApp, "keyCache", "load")
	n := 0
	for _, f := range u.RepoFuncs {
		if f.Pkg == nil || f.Pkg.Pkg.Path() != pkgApp || f.Blocks == nil {
			continue
		}
		allInstrs(f, func(i ssa.Instruction) {
			st, ok := i.(*ssa.Store)
			if !ok {
				return
			}
			fa, isF := st.Addr.(*ssa.FieldAddr)
			if !isF || fieldName(fa.X.Type(), fa.Field) != "loadedAt" {
				return
			}
			n++
			root := rootFunc(f)
			construct := trimPkgDirs(shortName(f)) + "/loadedAt="
			switch {
			case root.Name() == "newCacheEntry":
				c.ok(construct, u.ipos(i), "entry constructor")
			case load != nil && root == load:
				// after the loader call of load()
				after := false
				allInstrs(f, func(j ssa.Instruction) {
					if cc := callOf(j); cc != nil && !cc.IsInvoke() && staticCallee(j) == nil {
						if _, isCall := j.(*ssa.Call); isCall && instrDominates(j, i) {
							if p, isP := cc.Value.(*ssa.Parameter); isP && strings.Contains(p.Type().String(), "func(") {
								after = true
							}
						}
					}
				})
				c.check(after, construct, u.ipos(i), "stamped after the loader call of load()", "load() stamps the entry fresh on a path that has not invoked the loader: the record was not re-read")
			default:
				c.bad(construct, u.ipos(i), "an entry's freshness stamp is written outside newCacheEntry/keyCache.load: the entry is declared fresh without its record having been re-read, so the revoke-check interval no longer bounds how long a revoked (or parent-expired) key keeps being used — e.g. stamping on every hit makes the interval a sliding idle timeout that a busy session never reaches")
			}
		})
	}
	if n < 2 {
		c.bad("loadedAt/writers", "", fmt.Sprintf("expected at least 2 writers of cacheEntry.loadedAt (constructor, load), found %d", n))
	}
}
