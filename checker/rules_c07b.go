package main

// C07 — additional rules (round-2 seeds): success returns carry decrypted data; results are used only after their error
// was checked.

import (
	"go/types"
	"strings"

	"golang.org/x/tools/go/ssa"
)

func decryptPathFuncs(c *Ctx) map[*ssa.Function]bool {
	u := c.U1
	cg := newCallGraph(u)
	funcs := map[*ssa.Function]bool{}
	for _, start := range []*ssa.Function{u.Method(pkgApp, "envelopeEncryption", "DecryptDataRowRecord"), u.Method(pkgApp, "Session", "Load"), u.Method(pkgApp, "Session", "Decrypt")} {
		if start == nil {
			c.unresolved("decrypt entry points", "DecryptDataRowRecord / Session.Load / Session.Decrypt")
			return nil
		}
		for f := range cg.reachableFrom(start) {
			if f.Blocks != nil && f.Pkg != nil && strings.HasPrefix(f.Pkg.Pkg.Path(), "github.com/godaddy/asherah/go/appencryption") {
				funcs[f] = true
			}
		}
	}
	return funcs
}

func isByteSliceErrSig(sig *types.Signature) bool {
	r := sig.Results()
	return r.Len() == 2 && isByteSlice(r.At(0).Type()) && isErrorType(r.At(1).Type())
}

func isByteSliceBoolSig(sig *types.Signature) bool {
	r := sig.Results()
	if r.Len() != 2 || !isByteSlice(r.At(0).Type()) {
		return false
	}
	b, ok := r.At(1).Type().Underlying().(*types.Basic)
	return ok && b.Kind() == types.Bool
}

// errKnownNilOnSomeEntry: the error value is known nil at b, or on one of the edges entering b.
func errKnownNilOnSomeEntry(v ssa.Value, b *ssa.BasicBlock) bool {
	has := func(facts []Fact) bool {
		for _, f := range facts {
			if f.Sub != nil {
				continue
			}
			if x, isNil, ok := nilTest(f); ok && isNil && (x == v || resolve(x) == resolve(v)) {
				return true
			}
		}
		return false
	}
	if has(factsAt(b)) {
		return true
	}
	for _, p := range b.Preds {
		if has(append(append([]Fact{}, factsAt(p)...), edgeFacts(p, b)...)) {
			return true
		}
	}
	return false
}

func ruleC07SuccessCarriesData(c *Ctx) {
	u := c.U1
	c.rule("C07.success-carries-decrypted-data", "in every ([]byte, error) function on the decrypt/load path a return with a nil error carries the data result of the next decrypt step (a call's result, with that call's error known nil) — never nil, an empty literal or a freshly made slice, and never `nil, err` on an edge where err is known nil", 6)
	funcs := decryptPathFuncs(c)
	n := 0
	var names []*ssa.Function
	for f := range funcs {
		names = append(names, f)
	}
	sortFuncs(names)
	for _, f := range names {
		boolSig := isByteSliceBoolSig(f.Signature)
		if !isByteSliceErrSig(f.Signature) && !boolSig {
			continue
		}
		c.FuncsAnalysed[shortName(f)] = true
		for _, r := range returnsOf(f) {
			if len(r.Results) != 2 {
				continue
			}
			data, errv := returnedValue(r, 0), returnedValue(r, 1)
			construct := trimPkgDirs(shortName(f)) + "/return"
			errConstNil := isNilConst(strip(errv))
			if boolSig {
				// (data, ok): success is the constant true; a computed flag is treated as a possible success
				k, isC := constOf(strip(errv))
				if isC && k.ExactString() == "false" {
					continue
				}
				errConstNil = true
			}
			dv := resolve(data)
			fabricated := ""
			switch x := dv.(type) {
			case *ssa.Const:
				fabricated = "nil"
			case *ssa.MakeSlice:
				fabricated = "a freshly made slice"
			case *ssa.Slice:
				if a, ok := x.X.(*ssa.Alloc); ok && (a.Comment == "slicelit" || a.Comment == "makeslice") {
					fabricated = "an empty/literal slice"
				}
			}
			if !errConstNil {
				// `return nil, err`: fine unless err is known nil on a way in
				if fabricated != "" {
					n++
					if _, isC := errv.(*ssa.Const); !isC && errKnownNilOnSomeEntry(errv, r.Block()) {
						c.bad(construct, u.ipos(r), "returns ("+fabricated+", err) on a path where err is known to be nil: the caller gets no data and no error (e.g. a missing record is reported as a successful empty result)")
					} else {
						c.ok(construct, u.ipos(r), "error return")
					}
				}
				continue
			}
			n++
			if fabricated != "" {
				c.bad(construct, u.ipos(r), "returns "+fabricated+" with a nil error: bytes that were not produced by an authenticated decryption are reported as the plaintext")
				continue
			}
			// data must be a call result whose error is known nil here (or an accessor-style call without error)
			okData := false
			switch x := dv.(type) {
			case *ssa.Extract:
				if call, isC := x.Tuple.(*ssa.Call); isC && x.Index == 0 {
					for _, pr := range resultsOfType(call, isErrorType) {
						if pr[0] != nil && (knownNil(pr[0], r.Block()) || errKnownNilOnSomeEntry(pr[0], r.Block())) {
							okData = true
						}
					}
					// a ([]byte, bool) step of the same package (itself checked by this rule): its flag known true
					if g := staticCallee(call); g != nil && g.Blocks != nil && isByteSliceBoolSig(g.Signature) && funcs[g] {
						for _, pr := range resultsOfType(call, func(t types.Type) bool {
							b, isB := t.Underlying().(*types.Basic)
							return isB && b.Kind() == types.Bool
						}) {
							if pr[0] == nil {
								continue
							}
							if v, known := knownBool(pr[0], r.Block()); known && v {
								okData = true
							}
							for _, p := range r.Block().Preds {
								for _, fct := range edgeFacts(p, r.Block()) {
									if fct.Sub == nil && strip(fct.V) == strip(pr[0]) && fct.True {
										okData = true
									}
								}
							}
						}
					}
				}
			case *ssa.Call:
				okData = true
			case *ssa.Parameter, *ssa.FreeVar:
				okData = false
			default:
				// a variable assigned from such a call on every path (phi) — accept values that are not parameters
				okData = true
			}
			c.check(okData, construct, u.ipos(r), "data is the result of the next decrypt step, its error known nil", "a success return carries data that is not the checked result of a decrypt step")
		}
	}
	if n < 6 {
		c.bad("decrypt-path/returns", "", "fewer ([]byte, error) returns than expected on the decrypt path")
	}
}

// ruleC07UseAfterErrorCheck: v, err := g(...) with v a pointer/interface: v is not dereferenced (method call, deferred
// method call, field access) before err has been tested.
func ruleC07UseAfterErrorCheck(c *Ctx) {
	u := c.U1
	c.rule("C07.result-used-only-after-error-check", "on the decrypt/load path, the pointer/interface result of a call that also returns an error is used as a receiver (call, defer, go) or dereferenced only where that error is known nil or the result known non-nil — a `defer v.Close()` registered before the error test runs on the error path with a nil v", 10)
	funcs := decryptPathFuncs(c)
	var names []*ssa.Function
	for f := range funcs {
		names = append(names, f)
	}
	sortFuncs(names)
	n := 0
	for _, f := range names {
		allInstrs(f, func(i ssa.Instruction) {
			call, ok := i.(*ssa.Call)
			if !ok {
				return
			}
			tup, isT := call.Type().(*types.Tuple)
			if !isT || tup.Len() < 2 || !isErrorType(tup.At(tup.Len()-1).Type()) {
				return
			}
			// only repo callees / repo interfaces (their contract: nil result with a non-nil error)
			if g := staticCallee(call); g != nil {
				if g.Pkg == nil || !strings.HasPrefix(g.Pkg.Pkg.Path(), "github.com/godaddy/asherah/") {
					return
				}
			} else if !call.Call.IsInvoke() {
				// dynamic call of a function value (loader closures): repo-defined as well
			}
			var errv ssa.Value
			var vals []ssa.Value
			for _, r := range *call.Referrers() {
				ex, isE := r.(*ssa.Extract)
				if !isE {
					continue
				}
				if ex.Index == tup.Len()-1 {
					errv = ex
				} else {
					switch ex.Type().Underlying().(type) {
					case *types.Pointer, *types.Interface:
						vals = append(vals, ex)
					}
				}
			}
			if errv == nil {
				return
			}
			for _, v := range vals {
				for _, use := range derefUsesOf(v) {
					n++
					b := use.Block()
					construct := trimPkgDirs(shortName(f)) + "/" + trimPkgDirs(calleeLabel(call)) + "→use"
					if knownNil(errv, b) || knownNonNilValue(v, b) || knownNonNil(v, b) {
						c.ok(construct, u.ipos(use), "error known nil / value known non-nil at the use")
					} else {
						c.bad(construct, u.ipos(use), "the result of "+trimPkgDirs(calleeLabel(call))+" is used ("+instrText(use)+") where its error has not been tested: on the error path the result is nil and this panics (a deferred method call still runs on the error return)")
					}
				}
			}
		})
	}
	if n < 10 {
		c.bad("decrypt-path/uses", "", "fewer checked result uses than expected on the decrypt path")
	}
}

// derefUsesOf: instructions that use v as a method receiver (call/defer/go), or access a field through it, following
// stores into a local slot and its loads (v, err := …; later uses read the slot).
func derefUsesOf(v ssa.Value) []ssa.Instruction {
	var out []ssa.Instruction
	seen := map[ssa.Value]bool{}
	var walk func(x ssa.Value)
	walk = func(x ssa.Value) {
		if seen[x] || x.Referrers() == nil {
			return
		}
		seen[x] = true
		for _, r := range *x.Referrers() {
			switch y := r.(type) {
			case *ssa.FieldAddr:
				if y.X == x {
					out = append(out, y)
				}
			case *ssa.Store:
				if y.Val == x {
					if a, ok := y.Addr.(*ssa.Alloc); ok && !a.Heap {
						for _, rr := range *a.Referrers() {
							if ld, isL := rr.(*ssa.UnOp); isL {
								walk(ld)
							}
						}
					}
				}
			case *ssa.ChangeInterface:
				walk(y)
			case *ssa.MakeInterface:
				walk(y)
			case ssa.CallInstruction:
				cc := y.Common()
				if cc.IsInvoke() {
					if cc.Value == x {
						out = append(out, y)
					}
				} else if g := cc.StaticCallee(); g != nil && g.Signature.Recv() != nil && len(cc.Args) > 0 && cc.Args[0] == x {
					out = append(out, y)
				}
			}
		}
	}
	walk(v)
	return out
}
