package main

// C12 — secure memory under syscall failure (DESIGN §3 C12). E-OWN + E-DOM; both back ends.

import (
	"fmt"
	"go/token"
	"go/types"
	"strings"

	"golang.org/x/tools/go/ssa"
)

func init() {
	register(&propSpec{
		ID:    "C12",
		Title: "Secure memory survives syscall failures without leaking or exposing secrets",
		Explanation: "Structural necessary conditions of C12 on every CFG path (each fault position is the err != nil edge of one memcall call): (errors-surface) every error of a memcall.Interface method and of the random " +
			"reader is tested and its non-nil edge reaches only non-nil error returns (named exception: Finalize); (failed-creation-cleans) from a successful Alloc every path to an error return frees the pages, " +
			"and unlocks them first if Lock had succeeded (directly or through memcall.Clean, whose body calls both unconditionally); (wipe-before-release) pages that hold a caller's secret are wiped before Unlock/Free/Clean; " +
			"(failed-access-neutral) the reader count is not incremented on the Protect-failed edge; (close-retryable-and-balanced) closed=true and InUseCounter.Dec only after all three primitives succeeded, Close has no " +
			"early exit on `closing`, InUseCounter.Inc happens exactly once before each success return of creation and on no error path; a failed release still wakes a waiting Close and a failed Close never re-admits readers (C11.close-waits-and-orders, " +
			"C11.flags-monotonic); no error value is dereferenced on its nil edge (inverted error tests in cleanup paths). Run-time fault pairs are not executed.",
		NotDecided:  []string{"pairs of faults at run time / after-effect faults", "memguard's own failure handling (LockedBuffer.Destroy panics on failure)", "what the kernel does with the pages"},
		Assumptions: []string{"a failed Protect leaves the previous protection in place", "buffers that only ever held discarded random fill (createRandom failure paths) need no wipe: nobody was given that key"},
		Tech:        "static analysis: must-release ownership of mapped/locked pages on SSA over all error exits, error-discipline, dominance ordering; both SecretFactory back ends",
		NeedU1:      true,
		Rules:       []func(*Ctx){ruleC12ErrorsSurface, ruleC12FailedCreationCleans, ruleC12WipeBeforeRelease, ruleC12FailedAccessNeutral, ruleC12CloseRetryableBalanced, ruleC12TeardownOnce, ruleC12FailedCreationReleasesOnce, ruleC11Bracket, ruleC11ProtectionTransitions, ruleC03FreshNonce, ruleC12FailedCreationDisarms, nilContradictionRule("C12", false, "github.com/godaddy/asherah/go/securememory"), ruleC11CloseWaitsAndOrders, ruleSecretFlagsMonotonic, lockBalancedRule("C11", 10, lockDomSpec{pkgProt, "secretInternal", "rw"}, lockDomSpec{pkgMemg, "secret", "rw"}), ruleC12ReaderReportsAccessErrors, ruleC11NoStaleCounterDecision},
	})
}

func inSecmemPkg(f *ssa.Function) bool {
	r := rootFunc(f)
	if r.Pkg == nil {
		return false
	}
	p := r.Pkg.Pkg.Path()
	return p == pkgProt || p == pkgMemg || p == pkgMemcall
}

func ruleC12ErrorsSurface(c *Ctx) {
	u := c.U1
	c.rule("C12.errors-surface", "in protectedmemory, memguard and memcall.Clean every error of a memcall.Interface method, of the random reader and of the internal helpers is tested/returned and its non-nil edge reaches only non-nil error returns (exception: Finalize)", 20)
	for _, f := range u.RepoFuncs {
		if !inSecmemPkg(f) {
			continue
		}
		c.FuncsAnalysed[shortName(f)] = true
		sites := errorDiscipline(f, func(i ssa.Instruction) bool {
			if mcOp(i) != "" || dynamicCallOfParam(i, "readFunc") {
				return true
			}
			if g := staticCallee(i); g != nil && inSecmemPkg(g) {
				return true
			}
			return false
		}, func(i ssa.Instruction) string {
			if rootFunc(f).Name() == "Finalize" {
				return "finalizer goroutine: there is no caller to report a Close error to (DESIGN §1.4)"
			}
			if rootFunc(f).Name() == "newSecret" && f.Parent() != nil {
				return "finalizer closure"
			}
			// cleanup after a failure: the cleanup error is merged into the (already non-nil) error being returned
			return ""
		})
		for _, s := range sites {
			c.CallSites++
			construct := trimPkgDirs(shortName(f)) + "/" + calleeLabel(s.Call)
			if s.Problem != "" {
				// cleanup calls on a failure path (err2 pattern) are tested; a remaining problem is real
				c.bad(construct, u.ipos(s.Call), s.Problem, u.tracePositions(s.Trace)...)
			} else {
				c.ok(construct, u.ipos(s.Call), s.How)
			}
		}
	}
}

// pagesRules: ownership of mapped pages. release = Free(x) / Clean(_, x) on an alias of the buffer (or of a field
// `bytes` / Inner() of an alias of the secret object).
func ruleC12FailedCreationCleans(c *Ctx) {
	u := c.U1
	c.rule("C12.failed-creation-cleans", "protectedmemory: from a successful Alloc (and from a successfully created secret) every path to an error return passes Free of those pages (Clean, or Unlock+Free); Free of locked pages is preceded by Unlock; memcall.Clean calls Unlock and Free on every path; memguard: a failed Protect in newFromBuffer passes Clean", 5)
	isFreeOf := func(i ssa.Instruction, match func(ssa.Value) bool) bool {
		if _, isGo := i.(*ssa.Go); isGo {
			return false
		}
		if mcOp(i) == "Free" {
			return match(callOf(i).Args[0])
		}
		if staticIs(i, pkgMemcall+".Clean") {
			return match(callOf(i).Args[1])
		}
		return false
	}
	// (1) newSecret: Alloc result
	if ns := u.Func(pkgProt, "newSecret"); ns == nil {
		c.unresolved("protectedmemory.newSecret", "function")
	} else {
		c.FuncsAnalysed[shortName(ns)] = true
		allInstrs(ns, func(i ssa.Instruction) {
			if mcOp(i) != "Alloc" {
				return
			}
			for _, pr := range resultsOfType(i, isByteSlice) {
				r := &ownRules{
					isRelease: func(j ssa.Instruction, al valueSet) bool {
						return isFreeOf(j, func(v ssa.Value) bool { return al[v] || al[strip(v)] })
					},
					consumeFields: map[string]bool{"secretInternal.bytes": true},
				}
				out := checkOwned(i, pr[0], pr[1], r)
				if out.OK {
					c.ok("protectedmemory.newSecret/Alloc", u.ipos(i), fmt.Sprintf("pages freed or handed to the secret on all paths: %v", out.How))
				} else {
					c.bad("protectedmemory.newSecret/Alloc", u.ipos(i), "a path returns with the mapped pages neither freed nor owned by the returned secret", u.tracePositions(out.Trace)...)
				}
			}
		})
	}
	// (2) New / createRandom: the secret from newSecret
	for _, m := range []string{"New", "createRandom"} {
		f := u.Method(pkgProt, "SecretFactory", m)
		if f == nil {
			c.unresolved("protectedmemory.SecretFactory."+m, "method")
			continue
		}
		c.FuncsAnalysed[shortName(f)] = true
		allInstrs(f, func(i ssa.Instruction) {
			g := staticCallee(i)
			if g == nil || g.Name() != "newSecret" {
				return
			}
			if _, isCall := i.(*ssa.Call); !isCall {
				return
			}
			for _, pr := range resultsOfType(i, func(t types.Type) bool { return isPtr(t) && typeIsNamed(t, pkgProt, "secret") }) {
				bytesOf := func(v ssa.Value, al valueSet) bool {
					base, fld, ok := fieldAccess(strip(v))
					if !ok || fld != "bytes" {
						return false
					}
					// s.bytes goes through the embedded *secretInternal
					if b2, f2, ok2 := fieldAccess(strip(base)); ok2 && f2 == "secretInternal" {
						base = b2
					}
					return al[base] || al[strip(base)]
				}
				r := &ownRules{isRelease: func(j ssa.Instruction, al valueSet) bool {
					if isFreeOf(j, func(v ssa.Value) bool { return bytesOf(v, al) }) {
						return true
					}
					// a helper of the package that is handed the secret and frees its pages on all of its paths
					if call, isCall := j.(*ssa.Call); isCall {
						if h := staticCallee(call); h != nil && h.Blocks != nil && h.Pkg == f.Pkg {
							for k, a := range call.Call.Args {
								if (al[a] || al[strip(a)]) && k < len(h.Params) {
									inner := aliasClosure(h.Params[k], nil)
									okh, _ := mustPass(h.Blocks[0], 0, func(x ssa.Instruction) bool {
										return isFreeOf(x, func(v ssa.Value) bool { return bytesOf(v, inner) })
									}, nil)
									if okh {
										return true
									}
								}
							}
						}
					}
					return false
				}}
				out := checkOwned(i, pr[0], pr[1], r)
				construct := "protectedmemory.SecretFactory." + m + "/newSecret"
				if out.OK {
					c.ok(construct, u.ipos(i), fmt.Sprintf("secret returned or its pages freed on all paths: %v", out.How))
				} else {
					c.bad(construct, u.ipos(i), "a failed creation returns an error while the locked pages stay mapped (neither Clean nor Free of secret.bytes on that path)", u.tracePositions(out.Trace)...)
				}
				// Free of locked pages preceded by Unlock
				al := aliasClosure(pr[0], nil)
				allInstrs(f, func(j ssa.Instruction) {
					if mcOp(j) != "Free" || !bytesOf(callOf(j).Args[0], al) {
						return
					}
					ok := false
					allInstrs(f, func(k ssa.Instruction) {
						if mcOp(k) == "Unlock" && bytesOf(callOf(k).Args[0], al) && instrDominates(k, j) {
							ok = true
						}
					})
					c.check(ok, construct+"/unlock-before-free", u.ipos(j), "Unlock dominates Free of the locked pages", "locked pages are freed without being unlocked first on a failure path")
				})
			}
		})
	}
	// (3) memcall.Clean body
	if cl := u.Func(pkgMemcall, "Clean"); cl == nil {
		c.unresolved("memcall.Clean", "function")
	} else {
		c.FuncsAnalysed[shortName(cl)] = true
		for _, op := range []string{"Unlock", "Free"} {
			ok, tr := mustPass(cl.Blocks[0], 0, func(i ssa.Instruction) bool {
				cc := callOf(i)
				return cc != nil && cc.IsInvoke() && cc.Method.Name() == op && isParamNamed(cc.Args[0], cl, 1)
			}, nil)
			if ok {
				c.ok("memcall.Clean/"+op, u.pos(cl.Pos()), op+"(b) on every path")
			} else {
				c.bad("memcall.Clean/"+op, u.pos(cl.Pos()), "Clean can return without calling "+op+" on the buffer (e.g. after an earlier step failed)", u.tracePositions(tr)...)
			}
		}
	}
	// (4) memguard newFromBuffer: Protect failure edge passes Clean(lb.Inner())
	if f := u.Method(pkgMemg, "SecretFactory", "newFromBuffer"); f == nil {
		c.unresolved("memguard.SecretFactory.newFromBuffer", "method")
	} else {
		c.FuncsAnalysed[shortName(f)] = true
		allInstrs(f, func(i ssa.Instruction) {
			if mcOp(i) != "Protect" {
				return
			}
			e := errOfCall(i)
			bad := false
			for _, b := range f.Blocks {
				for _, s := range b.Succs {
					for _, fct := range edgeFacts(b, s) {
						if x, isNil, ok := nilTest(fct); ok && !isNil && e != nil && strip(x) == e {
							// the region cleaned is the region that was being protected (same accessor on the same buffer: the
							// page-aligned Inner() region, not the unaligned Bytes() view whose munmap/mprotect fail)
							region := regionKey(callOf(i).Args[0])
							ok2, _ := mustPass(s, 0, func(j ssa.Instruction) bool {
								if staticIs(j, pkgMemcall+".Clean") {
									return regionKey(callOf(j).Args[1]) == region
								}
								return mcOp(j) == "Free" && regionKey(callOf(j).Args[0]) == region
							}, nil)
							if !ok2 {
								bad = true
							}
						}
					}
				}
			}
			c.check(!bad, "memguard.SecretFactory.newFromBuffer/Protect-failed", u.ipos(i), "failed Protect → Clean(<the same region>) before returning the error", "a failed Protect returns an error while the locked buffer stays mapped (no Clean/Free of the region that was being protected on that path — e.g. the unaligned Bytes() view is passed instead of Inner(): munmap fails and the secret stays mapped and un-wiped)")
		})
	}
}

func ruleC12WipeBeforeRelease(c *Ctx) {
	u := c.U1
	c.rule("C12.wipe-before-release", "wherever pages hold a caller's secret (after the copy in New / NewBufferFromBytes, and in close()) a wipe of those pages dominates Unlock/Free/Clean", 3)
	// protectedmemory.New: releases of secret.bytes after the copy
	if f := u.Method(pkgProt, "SecretFactory", "New"); f == nil {
		c.unresolved("protectedmemory.SecretFactory.New", "method")
	} else {
		c.FuncsAnalysed[shortName(f)] = true
		var cp ssa.Instruction
		allInstrs(f, func(i ssa.Instruction) {
			if staticIs(i, "crypto/subtle.ConstantTimeCopy") {
				cp = i
			}
			if cc := callOf(i); cc != nil {
				if b, ok := cc.Value.(*ssa.Builtin); ok && b.Name() == "copy" {
					cp = i
				}
			}
		})
		if cp == nil {
			c.undecided("protectedmemory.SecretFactory.New/copy", u.pos(f.Pos()), "cannot find where the caller's secret is copied into the pages")
		} else {
			n := 0
			allInstrs(f, func(i ssa.Instruction) {
				isRel := mcOp(i) == "Unlock" || mcOp(i) == "Free" || staticIs(i, pkgMemcall+".Clean")
				if !isRel || !instrDominates(cp, i) {
					return
				}
				n++
				var buf ssa.Value
				if staticIs(i, pkgMemcall+".Clean") {
					buf = callOf(i).Args[1]
				} else {
					buf = callOf(i).Args[0]
				}
				bp := accessPath(buf)
				ok := false
				allInstrs(f, func(j ssa.Instruction) {
					if a, isW := wipeArg(j); isW && accessPath(a) == bp && instrDominates(cp, j) && instrDominates(j, i) {
						ok = true
					}
				})
				c.check(ok, "protectedmemory.SecretFactory.New/"+calleeLabel(i), u.ipos(i), "core.Wipe of the pages dominates their release", "pages holding a copy of the caller's secret are unlocked/freed without being wiped first (failed creation exposes the secret)")
			})
			if n == 0 {
				c.ok("protectedmemory.SecretFactory.New/no-release", u.pos(f.Pos()), "no release of pages after the copy")
			}
		}
	}
	// memguard.newFromBuffer (reached from New with the caller's secret inside lb): Clean(lb.Inner()) must be preceded by a wipe
	if f := u.Method(pkgMemg, "SecretFactory", "newFromBuffer"); f == nil {
		c.unresolved("memguard.SecretFactory.newFromBuffer", "method")
	} else {
		c.FuncsAnalysed[shortName(f)] = true
		allInstrs(f, func(i ssa.Instruction) {
			isRel := mcOp(i) == "Unlock" || mcOp(i) == "Free" || staticIs(i, pkgMemcall+".Clean")
			if !isRel {
				return
			}
			ok := false
			allInstrs(f, func(j ssa.Instruction) {
				if !instrDominates(j, i) {
					return
				}
				if _, isW := wipeArg(j); isW {
					ok = true
				}
				if g := staticCallee(j); g != nil && (g.Name() == "Wipe" || g.Name() == "Melt" || g.Name() == "Destroy") {
					ok = true
				}
			})
			c.check(ok, "(*memguard.SecretFactory).newFromBuffer/"+calleeLabel(i), u.ipos(i), "a wipe of the buffer dominates its release", "the memguard buffer (which holds the caller's secret when reached from New) is unlocked and freed without being wiped first")
		})
	}
	// close(): covered by C11.close-waits-and-orders ordering; restated here as a separate obligation
	if f := u.Method(pkgProt, "secretInternal", "close"); f != nil {
		var wipe ssa.Instruction
		allInstrs(f, func(i ssa.Instruction) {
			if a, ok := wipeArg(i); ok && strings.HasSuffix(accessPath(a), ".bytes") {
				wipe = i
			}
		})
		bad := wipe == nil
		allInstrs(f, func(i ssa.Instruction) {
			if (mcOp(i) == "Unlock" || mcOp(i) == "Free") && (wipe == nil || !instrDominates(wipe, i)) {
				bad = true
			}
		})
		c.check(!bad, "protectedmemory.secretInternal.close/wipe-first", u.pos(f.Pos()), "core.Wipe(s.bytes) dominates Unlock and Free", "close() unlocks or frees the pages before wiping them")
	}
}

func ruleC12FailedAccessNeutral(c *Ctx) {
	u := c.U1
	c.rule("C12.failed-access-neutral", "in access() of both back ends the reader count is not incremented on the Protect-failed edge", 2)
	for _, be := range secBackends {
		f := u.Method(be.pkg, be.typ, "access")
		name := trimPkgDirs(be.pkg) + "." + be.typ + ".access"
		if f == nil {
			c.unresolved(name, "method")
			continue
		}
		f = bodyWith(f, func(i ssa.Instruction) bool { return mcOp(i) == "Protect" })
		inc := counterStores(f, token.ADD)
		n := 0
		allInstrs(f, func(i ssa.Instruction) {
			if mcOp(i) != "Protect" {
				return
			}
			n++
			e := errOfCall(i)
			bad := false
			for _, b := range f.Blocks {
				for _, s := range b.Succs {
					for _, fct := range edgeFacts(b, s) {
						if x, isNil, ok := nilTest(fct); ok && !isNil && e != nil && strip(x) == e {
							found, _ := pathSearchAt(s, 0, func(j ssa.Instruction) pathAction {
								for _, k := range inc {
									if j == k {
										return pathFound
									}
								}
								return pathContinue
							}, nil)
							if found {
								bad = true
							}
						}
					}
				}
			}
			// an increment that happens before the Protect call must be undone on the failed edge
			for _, k := range inc {
				if reaches(k, i) {
					undone := false
					for _, b := range f.Blocks {
						for _, s := range b.Succs {
							for _, fct := range edgeFacts(b, s) {
								if x, isNil, ok := nilTest(fct); ok && !isNil && e != nil && strip(x) == e {
									okp, _ := mustPass(s, 0, func(j ssa.Instruction) bool {
										for _, d := range counterStores(f, token.SUB) {
											if j == d {
												return true
											}
										}
										return false
									}, nil)
									if okp {
										undone = true
									}
								}
							}
						}
					}
					if !undone {
						bad = true
					}
				}
			}
			c.check(!bad && e != nil, name+"/Protect-failed", u.ipos(i), "increment unreachable on the Protect-failed edge", "a failed attempt to open the secret still counts a reader: Close waits forever and later readers skip Protect(ReadOnly)")
		})
		if n == 0 {
			c.bad(name+"/Protect-failed", u.pos(f.Pos()), "access never changes protection")
		}
	}
}

func ruleC12CloseRetryableBalanced(c *Ctx) {
	u := c.U1
	c.rule("C12.close-retryable-and-balanced", "close(): closed=true and InUseCounter.Dec only where Protect, Unlock and Free all succeeded; Close does not return early because closing is already set; InUseCounter.Inc exactly once before every success return of creation and never before an error return", 6)
	isInUse := func(i ssa.Instruction, meth string) bool {
		cc := callOf(i)
		if cc == nil || !cc.IsInvoke() || cc.Method.Name() != meth {
			return false
		}
		ld, ok := cc.Value.(*ssa.UnOp)
		if !ok {
			return false
		}
		g, ok := ld.X.(*ssa.Global)
		return ok && g.Name() == "InUseCounter"
	}
	if f := u.Method(pkgProt, "secretInternal", "close"); f == nil {
		c.unresolved("protectedmemory.secretInternal.close", "method")
	} else {
		c.FuncsAnalysed[shortName(f)] = true
		var prims []ssa.Instruction
		allInstrs(f, func(i ssa.Instruction) {
			if op := mcOp(i); op == "Protect" || op == "Unlock" || op == "Free" {
				prims = append(prims, i)
			}
		})
		allInstrs(f, func(i ssa.Instruction) {
			isMark := false
			if st, ok := i.(*ssa.Store); ok {
				if _, fld, isF := fieldAccess(st.Addr); isF && fld == "closed" {
					isMark = true
				}
			}
			if !isMark && !isInUse(i, "Dec") {
				return
			}
			ok := len(prims) >= 3
			for _, p := range prims {
				e := errOfCall(p)
				if e == nil || !instrDominates(p, i) || !knownNil(e, i.Block()) {
					ok = false
				}
			}
			what := "closed=true"
			if !isMark {
				what = "InUseCounter.Dec"
			}
			c.check(ok, "protectedmemory.secretInternal.close/"+what, u.ipos(i), "only after Protect, Unlock and Free succeeded", what+" happens although a memory primitive may have failed: a failed Close cannot be retried / the in-use count drifts")
		})
	}
	for _, be := range secBackends {
		f := u.Method(be.pkg, be.typ, "Close")
		if f == nil {
			continue
		}
		bad := false
		for _, r := range returnsOf(f) {
			if guardedBy(r, true, func(v ssa.Value) bool { _, fld, ok := fieldAccess(v); return ok && fld == "closing" }) {
				bad = true
			}
		}
		c.check(!bad, trimPkgDirs(be.pkg)+"."+be.typ+".Close/no-early-exit", u.pos(f.Pos()), "no return guarded by closing == true", "Close returns early when closing is already set: after a failed Close the secret can never be closed")
	}
	// Inc accounting
	for _, spec := range []struct{ pkg, meth string }{{pkgProt, "New"}, {pkgProt, "createRandom"}, {pkgMemg, "newFromBuffer"}} {
		f := u.Method(spec.pkg, "SecretFactory", spec.meth)
		name := trimPkgDirs(spec.pkg) + ".SecretFactory." + spec.meth
		if f == nil {
			c.unresolved(name, "method")
			continue
		}
		var incs []ssa.Instruction
		allInstrs(f, func(i ssa.Instruction) {
			if isInUse(i, "Inc") {
				incs = append(incs, i)
			}
		})
		bad := ""
		for _, r := range returnsOf(f) {
			errV := returnedValue(r, len(r.Results)-1)
			n := 0
			for _, inc := range incs {
				if instrDominates(inc, r) {
					n++
				}
			}
			if isNilValue(errV) && !isNilValue(returnedValue(r, 0)) {
				if n != 1 {
					bad = fmt.Sprintf("success return at %s is preceded by %d InUseCounter.Inc calls", u.ipos(r), n)
				}
			} else {
				for _, inc := range incs {
					if reaches(inc, r) {
						bad = fmt.Sprintf("error return at %s is reachable after InUseCounter.Inc", u.ipos(r))
					}
				}
			}
		}
		c.check(bad == "" && len(incs) > 0, name+"/in-use-accounting", u.pos(f.Pos()), "InUseCounter.Inc exactly once on success, never on failure", "in-use accounting is unbalanced: "+bad)
	}
}

// ruleC12FailedCreationDisarms: newSecret arms a finalizer that runs the full teardown (Protect, wipe, Unlock, Free,
// InUseCounter.Dec) on the secret's pages. When a creation fails after newSecret succeeded, the pages are released by the
// cleanup — the abandoned object must then be marked closed (or its finalizer cleared), otherwise the garbage collector
// later tears the same address range down again (it may belong to another secret by then) and decrements the in-use
// counter for a secret that was never counted.
func ruleC12FailedCreationDisarms(c *Ctx) {
	u := c.U1
	c.rule("C12.failed-creation-disarms", "protectedmemory: every error return of a creation function that follows a successful newSecret passes a step that marks the abandoned secret closed (a method that sets closed = true on every path, or a direct store) or clears its finalizer", 3)
	var marksClosedD func(g *ssa.Function, depth int) bool
	marksClosed := func(g *ssa.Function) bool { return marksClosedD(g, 0) }
	marksClosedD = func(g *ssa.Function, depth int) bool {
		if g == nil || g.Blocks == nil || depth > 2 {
			return false
		}
		ok, _ := mustPass(g.Blocks[0], 0, func(j ssa.Instruction) bool {
			// a helper of the package that does it on all of its paths (and cleans up before, not after: see below)
			if call, isCall := j.(*ssa.Call); isCall {
				if h := staticCallee(call); h != nil && h != g && h.Pkg == g.Pkg && marksClosedD(h, depth+1) {
					late := false
					pathSearch(j, func(k ssa.Instruction) pathAction {
						if op := mcOp(k); op == "Unlock" || op == "Free" || staticIs(k, pkgMemcall+".Clean") {
							late = true
							return pathFound
						}
						return pathContinue
					}, nil)
					return !late
				}
			}
			st, isS := j.(*ssa.Store)
			if !isS {
				return false
			}
			fa, isF := st.Addr.(*ssa.FieldAddr)
			if !isF || fieldName(fa.X.Type(), fa.Field) != "closed" {
				return false
			}
			k, isC := constOf(st.Val)
			return isC && k.ExactString() == "true"
		}, nil)
		return ok
	}
	n := 0
	for _, f := range u.RepoFuncs {
		if f.Pkg == nil || f.Pkg.Pkg.Path() != pkgProt || f.Blocks == nil || f.Parent() != nil {
			continue
		}
		allInstrs(f, func(i ssa.Instruction) {
			cv, ok := i.(*ssa.Call)
			if !ok {
				return
			}
			if g := staticCallee(cv); g == nil || g.Name() != "newSecret" {
				return
			}
			var errv ssa.Value
			for _, pr := range resultsOfType(cv, isErrorType) {
				errv = pr[0]
			}
			c.FuncsAnalysed[shortName(f)] = true
			for _, r := range returnsOf(f) {
				if len(r.Results) == 0 || isNilValue(returnedValue(r, len(r.Results)-1)) {
					continue
				}
				// only error returns taken after newSecret succeeded
				if errv == nil || !knownNil(errv, r.Block()) {
					continue
				}
				n++
				found, tr := pathSearch(cv, func(j ssa.Instruction) pathAction {
					if j == ssa.Instruction(r) {
						return pathFound
					}
					if call, isCall := j.(*ssa.Call); isCall {
						if h := staticCallee(call); h != nil {
							if marksClosed(h) {
								return pathStop
							}
							if funcFullName(h) == "runtime.SetFinalizer" && isNilValue(call.Call.Args[1]) {
								return pathStop
							}
						}
					}
					if st, isS := j.(*ssa.Store); isS {
						if fa, isF := st.Addr.(*ssa.FieldAddr); isF && fieldName(fa.X.Type(), fa.Field) == "closed" {
							if k, isC := constOf(st.Val); isC && k.ExactString() == "true" {
								return pathStop
							}
						}
					}
					return pathContinue
				}, nil)
				construct := trimPkgDirs(shortName(f)) + "/error-return-after-newSecret"
				// and the disarming step (which drops the secret's reference to its pages) comes AFTER the pages were
				// released: no Unlock/Free/Clean may follow it on the way to this return (it would be handed a nil region)
				lateCleanup := ""
				allInstrs(f, func(j ssa.Instruction) {
					call, isCall := j.(*ssa.Call)
					if !isCall || !reaches(cv, j) || !reaches(j, r) {
						return
					}
					if h := staticCallee(call); h != nil && marksClosed(h) {
						bad, _ := pathSearch(j, func(k ssa.Instruction) pathAction {
							if k == ssa.Instruction(r) {
								return pathStop
							}
							if op := mcOp(k); op == "Unlock" || op == "Free" || staticIs(k, pkgMemcall+".Clean") {
								lateCleanup = u.ipos(k)
								return pathFound
							}
							return pathContinue
						}, nil)
						_ = bad
					}
				})
				if lateCleanup != "" {
					c.bad(construct, u.ipos(r), "the abandoned secret is disarmed (its bytes reference dropped) BEFORE the pages are unlocked and freed ("+lateCleanup+"): the cleanup then runs on a nil region, the real pages — still holding the secret — stay mapped and locked, and nothing will ever release them")
					continue
				}
				if found {
					c.bad(construct, u.ipos(r), "a failed creation releases the pages but leaves the abandoned secret open with its finalizer armed: the garbage collector later runs Close on it — Protect/wipe/Unlock/Free on pages that are no longer its own (possibly another secret's by then) and InUseCounter.Dec for a secret that was never counted", u.tracePositions(tr)...)
				} else {
					c.ok(construct, u.ipos(r), "abandoned secret marked closed / finalizer cleared before the error return")
				}
			}
		})
	}
	// the same obligation from the arming point itself: once runtime.SetFinalizer(x, f) has armed an object, every error
	// return that follows (in the arming function) disarms it or marks the secret closed — a finalizer armed before the
	// last step that can fail (mlock) outlives a failed creation whose pages were already given back
	for _, f := range u.RepoFuncs {
		if f.Pkg == nil || (f.Pkg.Pkg.Path() != pkgProt && f.Pkg.Pkg.Path() != pkgMemg) || f.Blocks == nil || f.Parent() != nil {
			continue
		}
		allInstrs(f, func(i ssa.Instruction) {
			cv, ok := i.(*ssa.Call)
			if !ok {
				return
			}
			if g := staticCallee(cv); g == nil || funcFullName(g) != "runtime.SetFinalizer" || isNilValue(cv.Call.Args[1]) {
				return
			}
			c.FuncsAnalysed[shortName(f)] = true
			armed := 0
			for _, r := range returnsOf(f) {
				if len(r.Results) == 0 || !isErrorType(r.Results[len(r.Results)-1].Type()) || isNilValue(returnedValue(r, len(r.Results)-1)) || !reaches(cv, r) {
					continue
				}
				armed++
				found, tr := pathSearch(cv, func(j ssa.Instruction) pathAction {
					if j == ssa.Instruction(r) {
						return pathFound
					}
					if call, isCall := j.(*ssa.Call); isCall {
						if h := staticCallee(call); h != nil {
							if marksClosed(h) || (funcFullName(h) == "runtime.SetFinalizer" && isNilValue(call.Call.Args[1])) {
								return pathStop
							}
						}
					}
					if st, isS := j.(*ssa.Store); isS {
						if fa, isF := st.Addr.(*ssa.FieldAddr); isF && fieldName(fa.X.Type(), fa.Field) == "closed" {
							if k, isC := constOf(st.Val); isC && k.ExactString() == "true" {
								return pathStop
							}
						}
					}
					return pathContinue
				}, nil)
				construct := trimPkgDirs(shortName(f)) + "/error-return-after-arming"
				if found {
					c.bad(construct, u.ipos(r), "the finalizer is armed before a step that can still fail, and this error return leaves it armed on a secret whose pages the failure path has released: the garbage collector later runs the whole Close sequence (Protect, wipe, Unlock, Free, InUseCounter.Dec) on an address range that is unmapped or already belongs to another secret", u.tracePositions(tr)...)
				} else {
					c.ok(construct, u.ipos(r), "disarmed / marked closed before the error return")
				}
			}
			if armed == 0 {
				c.ok(trimPkgDirs(shortName(f))+"/armed-last", u.ipos(i), "no error return follows the arming of the finalizer")
			}
		})
	}
	if n < 3 {
		c.bad("protectedmemory/creation-error-returns", "", fmt.Sprintf("expected at least 3 error returns after a successful newSecret (New, createRandom ×2), found %d", n))
	}
}

// regionKey names a memory region argument: "<method>(<buffer path>)" for accessor calls such as lb.Inner(), else the access path.
func regionKey(v ssa.Value) string {
	if cv, ok := resolve(v).(*ssa.Call); ok {
		if g := staticCallee(cv); g != nil && len(cv.Call.Args) > 0 {
			return g.Name() + "(" + trimAddr(accessPath(cv.Call.Args[0])) + ")"
		}
	}
	return trimAddr(accessPath(v))
}
