package main

import (
	"go/token"
	"go/types"
	"strings"

	"golang.org/x/tools/go/ssa"
)

// Rules added during seeding round 8 (refactoring mistakes).

// ---------------------------------------------------------------------------------------------
// C07: a pointer looked up in a map is nil for a missing key

// mapLookupPointerDerefs: v := m[k] (single-result lookup) with a pointer element type, dereferenced (field access / load)
// without a dominating non-nil test of v.
func mapLookupPointerDerefs(f *ssa.Function) []elemDeref {
	var out []elemDeref
	allInstrs(f, func(i ssa.Instruction) {
		var p ssa.Value
		switch x := i.(type) {
		case *ssa.FieldAddr:
			p = x.X
		case *ssa.UnOp:
			if x.Op == token.MUL {
				p = x.X
			}
		}
		if p == nil {
			return
		}
		isNilableLookup := func(v ssa.Value) bool {
			lk, ok := v.(*ssa.Lookup)
			if !ok || lk.CommaOk {
				return false
			}
			mt, isMap := lk.X.Type().Underlying().(*types.Map)
			if !isMap {
				return false
			}
			_, isPtr := mt.Elem().Underlying().(*types.Pointer)
			return isPtr
		}
		if !isNilableLookup(p) {
			// the pointer may be a parameter of an unexported helper that some caller feeds with such a lookup
			// (parseResult(res.Item[keyRecord])) without having tested it
			pp, isP := p.(*ssa.Parameter)
			if !isP || f.Parent() != nil || f.Object() == nil || f.Object().Exported() || knownNonNil(p, i.Block()) {
				return
			}
			idx := -1
			for k, q := range f.Params {
				if q == pp {
					idx = k
				}
			}
			buildCallSiteIndex(f)
			fed := false
			for _, site := range callSiteIndex[orig(f)] {
				args := site.Common().Args
				if idx >= 0 && idx < len(args) && isNilableLookup(args[idx]) && !knownNonNil(args[idx], site.Block()) {
					fed = true
				}
			}
			if fed {
				out = append(out, elemDeref{i, p})
			}
			return
		}
		if knownNonNil(p, i.Block()) {
			return
		}
		out = append(out, elemDeref{i, p})
	})
	return out
}

func ruleC07MapLookupPointerGuarded(c *Ctx) {
	u := c.U1
	c.rule("C07.map-lookup-pointer-guarded", "in the metastore back ends and KMS plugins a pointer obtained by a single-result map lookup (m[k] — nil when the key is absent, e.g. an item without the record attribute) is dereferenced only under a dominating non-nil test — expected count on the pinned tree: none; positive example in the self-test fixtures", 0)
	n := 0
	for _, f := range u.RepoFuncs {
		root := rootFunc(f)
		if root.Pkg == nil || f.Blocks == nil {
			continue
		}
		switch root.Pkg.Pkg.Path() {
		case pkgPersist, pkgDynV1, pkgDynV2, pkgKmsV1, pkgKmsV2:
		default:
			continue
		}
		for _, d := range mapLookupPointerDerefs(f) {
			n++
			c.CallSites++
			c.bad(trimPkgDirs(shortName(f))+"/lookup-deref", u.ipos(d.Instr), "the pointer looked up in a map is dereferenced without a nil test: an item that lacks the attribute (a stored row without its record, a corrupted or foreign item) yields a nil pointer and the process panics instead of returning an error")
		}
	}
	c.ok("backends/map-lookups", "", "no unguarded dereference of a looked-up pointer")
	_ = n
}

// ---------------------------------------------------------------------------------------------
// C17: KEK literals take each field from its namesake; goroutines of a loop do not share a mutated request

// ruleC17KEKFieldsFromNamesakes: wherever a regional KEK entry is put together, Region comes from a client's Region and
// ARN from its ARN / MasterKeyARN — through whatever helper builds the entry (two adjacent string parameters are easily
// passed in the wrong order: the envelope then records the ARN as the region and no reader finds the entry).
func ruleC17KEKFieldsFromNamesakes(c *Ctx) {
	u := c.U1
	c.rule("C17.kek-fields-from-namesakes", "in both KMS plugins every composite literal of a regional KEK (struct with Region and EncryptedKEK) takes Region from a value whose path ends in .Region and ARN from one ending in ARN — directly, or through a parameter that every call site feeds accordingly", 2)
	isKEK := func(t types.Type) bool {
		n, ok := namedOf(derefType(t))
		if !ok {
			return false
		}
		st, ok := n.Underlying().(*types.Struct)
		if !ok {
			return false
		}
		has := map[string]bool{}
		for i := 0; i < st.NumFields(); i++ {
			has[st.Field(i).Name()] = true
		}
		return has["Region"] && has["EncryptedKEK"]
	}
	var endsWith func(v ssa.Value, f *ssa.Function, want func(string) bool, depth int) bool
	endsWith = func(v ssa.Value, f *ssa.Function, want func(string) bool, depth int) bool {
		ap := trimAddr(accessPath(v))
		if k := strings.LastIndex(ap, "."); k >= 0 && want(ap[k+1:]) {
			return true
		}
		p, ok := resolve(v).(*ssa.Parameter)
		if !ok || depth > 2 {
			return false
		}
		idx := -1
		for k, q := range p.Parent().Params {
			if q == p {
				idx = k
			}
		}
		g := p.Parent()
		// a goroutine / closure body called with explicit arguments, or a named function
		buildCallSiteIndex(g)
		sites := callSiteIndex[orig(g)]
		if len(sites) == 0 || idx < 0 {
			return false
		}
		for _, ci := range sites {
			if idx >= len(ci.Common().Args) || !endsWith(ci.Common().Args[idx], ci.Parent(), want, depth+1) {
				return false
			}
		}
		return true
	}
	n := 0
	for _, f := range u.RepoFuncs {
		root := rootFunc(f)
		if root.Pkg == nil || (root.Pkg.Pkg.Path() != pkgKmsV1 && root.Pkg.Pkg.Path() != pkgKmsV2) || f.Blocks == nil {
			continue
		}
		allInstrs(f, func(i ssa.Instruction) {
			a, ok := i.(*ssa.Alloc)
			if !ok || !isKEK(a.Type()) {
				return
			}
			fl := litFields(a)
			if fl == nil || fl["Region"] == nil {
				return
			}
			n++
			c.CallSites++
			c.FuncsAnalysed[shortName(f)] = true
			var problems []string
			if !endsWith(fl["Region"], f, func(s string) bool { return s == "Region" }, 0) {
				problems = append(problems, "Region is filled from "+describeOperand(fl["Region"]))
			}
			if arn, has := fl["ARN"]; has && !endsWith(arn, f, func(s string) bool { return strings.HasSuffix(s, "ARN") }, 0) {
				problems = append(problems, "ARN is filled from "+describeOperand(arn))
			}
			c.check(len(problems) == 0, trimPkgDirs(shortName(f))+"/KEK-literal", u.ipos(i), "Region ← .Region, ARN ← .…ARN", strings.Join(problems, "; ")+": the envelope entry is recorded under the wrong region (e.g. region and ARN swapped in a helper call) — readers look entries up by region, so the entry is never found and the key cannot be unwrapped through that region")
		})
	}
	if n == 0 {
		c.bad("kms/KEK-literals", "", "no KEK literal found")
	}
}

// sharedMutatedCaptures: go statements inside a loop whose closure / arguments refer to an object that was allocated
// before the loop and is written inside it: every goroutine sees whatever the latest iteration wrote.
func sharedMutatedCaptures(f *ssa.Function) []ssa.Instruction {
	var out []ssa.Instruction
	allInstrs(f, func(i ssa.Instruction) {
		g, ok := i.(*ssa.Go)
		if !ok {
			return
		}
		head := loopHeadOf(g.Block())
		if head == nil {
			return
		}
		inLoop := func(b *ssa.BasicBlock) bool { return head.Dominates(b) && blockReaches(b, head) }
		var operands []ssa.Value
		operands = append(operands, g.Call.Args...)
		if mc, isMC := g.Call.Value.(*ssa.MakeClosure); isMC {
			operands = append(operands, mc.Bindings...)
		}
		for _, op := range operands {
			// a pointer to an object allocated before the loop
			var obj *ssa.Alloc
			switch x := op.(type) {
			case *ssa.Alloc:
				obj = x
				if st := localStores(x); len(st) == 1 {
					if a2, isA := resolve(st[0]).(*ssa.Alloc); isA {
						obj = a2
					}
				}
			case *ssa.UnOp:
				if x.Op == token.MUL {
					if a, isA := x.X.(*ssa.Alloc); isA {
						if st := localStores(a); len(st) == 1 {
							obj, _ = resolve(st[0]).(*ssa.Alloc)
						}
					}
				}
			}
			if obj == nil || obj.Block() == nil || inLoop(obj.Block()) {
				continue
			}
			if _, isPtr := obj.Type().Underlying().(*types.Pointer); !isPtr {
				continue
			}
			// written inside the loop?
			written := false
			var scan func(v ssa.Value, depth int)
			scan = func(v ssa.Value, depth int) {
				if v.Referrers() == nil || depth > 3 {
					return
				}
				for _, r := range *v.Referrers() {
					switch y := r.(type) {
					case *ssa.FieldAddr:
						scan(y, depth+1)
					case *ssa.Store:
						if y.Addr == v && y.Block() != nil && inLoop(y.Block()) && y.Parent() == f {
							written = true
						}
					case *ssa.UnOp:
						if y.Op == token.MUL {
							scan(y, depth+1)
						}
					}
				}
			}
			scan(obj, 0)
			// also through the local variable that holds the pointer
			for _, r := range *obj.Referrers() {
				if st, isS := r.(*ssa.Store); isS && st.Val == ssa.Value(obj) {
					if holder, isA := st.Addr.(*ssa.Alloc); isA {
						for _, r2 := range *holder.Referrers() {
							if ld, isL := r2.(*ssa.UnOp); isL && ld.Op == token.MUL {
								scan(ld, 0)
							}
						}
					}
				}
			}
			if written {
				out = append(out, i)
				return
			}
		}
	})
	return out
}

func ruleC17WorkersDoNotShareMutatedRequest(c *Ctx) {
	u := c.U1
	c.rule("C17.workers-do-not-share-a-mutated-request", "in both KMS plugins no goroutine started inside a loop refers to an object that was allocated before the loop and is assigned inside it (a request struct hoisted out of the loop \"because only one field differs\"): each regional worker gets its own request — expected count on the pinned tree: none; positive example in the self-test fixtures", 0)
	n := 0
	for _, f := range u.RepoFuncs {
		root := rootFunc(f)
		if root.Pkg == nil || (root.Pkg.Pkg.Path() != pkgKmsV1 && root.Pkg.Pkg.Path() != pkgKmsV2) || f.Blocks == nil {
			continue
		}
		for _, i := range sharedMutatedCaptures(f) {
			n++
			c.CallSites++
			c.bad(trimPkgDirs(shortName(f))+"/go-in-loop", u.ipos(i), "the regional workers share one request object that the loop rewrites for every region: by the time a worker sends it, it may carry another region's key id — that region's KMS rejects it, the error is dropped by design, and the envelope silently lacks entries for healthy regions")
		}
	}
	c.ok("kms/loop-workers", "", "no loop-started goroutine shares an object mutated by the loop")
	_ = n
}

// ---------------------------------------------------------------------------------------------
// C18: the region suffix is resolved on every construction path

func ruleC18RegionSuffixResolvedOnEveryPath(c *Ctx) {
	u := c.U1
	c.rule("C18.region-suffix-resolved-on-every-path", "aws-v2 NewDynamoDB: every path from entry to a return carrying a metastore evaluates the regionSuffixEnabled test (and, where it is true, stores the client's region into regionSuffix) — no early return (e.g. out of an extracted default-client helper) skips it", 1)
	f := u.Func(pkgDynV2, "NewDynamoDB")
	if f == nil || f.Blocks == nil {
		c.unresolved("metastore.NewDynamoDB", "function")
		return
	}
	c.FuncsAnalysed[shortName(f)] = true
	isEnabledTest := func(i ssa.Instruction) bool {
		iff, ok := i.(*ssa.If)
		if !ok {
			return false
		}
		cond := iff.Cond
		for {
			if un, isU := cond.(*ssa.UnOp); isU && un.Op == token.NOT {
				cond = un.X
				continue
			}
			break
		}
		return strings.HasSuffix(trimAddr(accessPath(cond)), ".regionSuffixEnabled")
	}
	// … or a helper of the package that evaluates the test on every path through it
	testsInHelper := func(i ssa.Instruction) bool {
		h := staticCallee(i)
		if h == nil || h.Blocks == nil || h.Pkg == nil || h.Pkg != f.Pkg || h == f {
			return false
		}
		ok, _ := mustPass(h.Blocks[0], 0, isEnabledTest, nil)
		return ok
	}
	n := 0
	for _, r := range returnsOf(f) {
		if len(r.Results) != 2 || isNilValue(returnedValue(r, 0)) {
			continue
		}
		n++
		c.CallSites++
		found, tr := pathSearchAt(f.Blocks[0], 0, func(i ssa.Instruction) pathAction {
			if isEnabledTest(i) || testsInHelper(i) {
				return pathStop
			}
			if i == ssa.Instruction(r) {
				return pathFound
			}
			return pathContinue
		}, nil)
		if found {
			c.bad("metastore.NewDynamoDB/success-return", u.ipos(r), "a metastore is returned on a path that never looks at regionSuffixEnabled: with WithRegionSuffix(true) and the default client the suffix stays empty, and every key id is written without its region — ids other than _IK_partition_service_product_region in a global table", u.tracePositions(tr)...)
		} else {
			c.ok("metastore.NewDynamoDB/success-return", u.ipos(r), "region suffix resolved before the metastore is handed out")
		}
	}
	if n == 0 {
		c.bad("metastore.NewDynamoDB/success-return", u.pos(f.Pos()), "no success return found")
	}
	// and the enabled edge stores the suffix
	stored := false
	isSuffixStore := func(i ssa.Instruction) bool {
		st, ok := i.(*ssa.Store)
		if !ok {
			return false
		}
		_, fld, isF := fieldAccess(st.Addr)
		return isF && fld == "regionSuffix"
	}
	allInstrs(f, func(i ssa.Instruction) {
		if isSuffixStore(i) {
			stored = true
		}
		if h := staticCallee(i); h != nil && h.Blocks != nil && h.Pkg == f.Pkg && containsInstr(h, isSuffixStore) {
			stored = true
		}
	})
	c.check(stored, "metastore.NewDynamoDB/suffix-store", u.pos(f.Pos()), "regionSuffix assigned in the constructor", "NewDynamoDB no longer assigns regionSuffix")
	// the suffix is read from the client the metastore ends up with: it is resolved after the client has been
	// defaulted, and under no other condition than the enabled flag
	var svcStores []ssa.Instruction
	allInstrs(f, func(i ssa.Instruction) {
		if st, ok := i.(*ssa.Store); ok {
			if _, fld, isF := fieldAccess(st.Addr); isF && fld == "svc" {
				svcStores = append(svcStores, i)
			}
		}
	})
	checkStore := func(site ssa.Instruction, st ssa.Instruction) {
		c.CallSites++
		late := ""
		for _, sv := range svcStores {
			if !instrDominates(sv, site) && blockReaches(site.Block(), sv.Block()) {
				late = u.ipos(sv)
			}
		}
		// conditions between the enabled test and the store (walking up the dominators until the enabled test is met)
		extra := ""
	walk:
		for d := st.Block().Idom(); d != nil; d = d.Idom() {
			for _, fct := range factsFromIf(d, st.Block()) {
				if strings.HasSuffix(trimAddr(accessPath(fct.V)), ".regionSuffixEnabled") && fct.True {
					break walk
				}
				extra = describeLeaf(fct.V)
			}
		}
		switch {
		case late != "":
			c.bad("metastore.NewDynamoDB/suffix-after-client", u.ipos(site), "the region suffix is resolved before the client is defaulted ("+late+"): with the default client the suffix is taken from a client that is not there yet — it stays empty (or panics), and two regions of a global table write the same un-suffixed key ids over each other")
		case extra != "":
			c.bad("metastore.NewDynamoDB/suffix-after-client", u.ipos(st), "the region suffix is resolved only under a further condition ("+extra+") besides the enabled flag: on the other branch an enabled suffix silently stays empty")
		default:
			c.ok("metastore.NewDynamoDB/suffix-after-client", u.ipos(site), "resolved from the final client, under the enabled flag alone")
		}
	}
	allInstrs(f, func(i ssa.Instruction) {
		if isSuffixStore(i) {
			checkStore(i, i)
			return
		}
		if _, isCall := i.(*ssa.Call); isCall {
			if h := staticCallee(i); h != nil && h.Blocks != nil && h.Pkg == f.Pkg {
				allInstrs(h, func(j ssa.Instruction) {
					if isSuffixStore(j) {
						checkStore(i, j)
					}
				})
			}
		}
	})
}

// ---------------------------------------------------------------------------------------------
// C19.fresh-streamer

func ruleC19FreshStreamer(c *Ctx) {
	u := c.U2
	c.rule("C19.fresh-streamer", "the streamer factory installed by NewAppEncryption returns, on every call, a streamer literal allocated in that call (every stream has its own handler slot and protocol state) — never the address of a variable captured from NewAppEncryption", 1)
	f := u.Func(pkgServer, "NewAppEncryption")
	if f == nil {
		c.unresolved("server.NewAppEncryption", "function")
		return
	}
	n := 0
	// every function of the server package that returns a *streamer (the closure in NewAppEncryption, or a factory helper it calls)
	for _, g := range u.RepoFuncs {
		if g.Pkg == nil || g.Pkg.Pkg.Path() != pkgServer {
			continue
		}
		res := g.Signature.Results()
		if res.Len() != 1 {
			continue
		}
		pt, ok := res.At(0).Type().Underlying().(*types.Pointer)
		if !ok || !typeIsNamed(pt.Elem(), pkgServer, "streamer") {
			continue
		}
		c.FuncsAnalysed[shortName(g)] = true
		for _, r := range returnsOf(g) {
			n++
			c.CallSites++
			v := resolve(returnedValue(r, 0))
			a, isA := v.(*ssa.Alloc)
			fresh := isA && a.Parent() == g
			if call, isCall := v.(*ssa.Call); isCall {
				// a forwarder: the result of calling its own func-typed receiver/parameter, or of another server function that is judged itself
				if _, isParam := strip(call.Call.Value).(*ssa.Parameter); isParam && !call.Call.IsInvoke() {
					fresh = true
				}
				if h := call.Call.StaticCallee(); h != nil && h.Pkg == g.Pkg {
					fresh = true
				}
			}
			c.check(fresh, trimPkgDirs(shortName(g))+"/streamer-factory", u.ipos(r), "a streamer allocated per call", "the streamer factory hands every stream the same streamer ("+describeOperand(v)+"): streams share one handler slot — a second stream's encrypt before its own get-session is served with the first stream's session, its get-session is refused as \"already initialized\", and one stream's end closes the session under the others")
		}
	}
	if n == 0 {
		c.bad("server.NewAppEncryption/streamer-factory", u.pos(f.Pos()), "no function returning *streamer found in the server package")
	}
}
