package main

// C02 — a record is handed out only once its key chain is durable (DESIGN §3 C02). E-DOM + error discipline.

import (
	"fmt"
	"strings"

	"golang.org/x/tools/go/ssa"
)

func init() {
	register(&propSpec{
		ID:    "C02",
		Title: "A record is handed out only once its whole key chain is durably in the metastore",
		Explanation: "Structural necessary conditions of C02 on every CFG path (each fault position is a CFG edge): (fresh-key-only-if-stored) a freshly generated SK/IK is returned " +
			"only on the true edge of the try-store boolean of the call made with that key; (success-is-the-store-bool) that boolean is, by backward slice, result #0 of Metastore.Store — never a " +
			"constant true, never derived from err == nil; (record-matches-key) the stored EnvelopeKeyRecord carries the ciphertext, Created and ids of exactly that key and its parent; " +
			"(nothing-cached-on-error) cache writes are dominated by the loader's err == nil; (error-means-no-record) every error on the encrypt/key-loading path is tested and its " +
			"non-nil edge reaches only non-nil error returns (frozen, named exceptions), and EncryptPayload returns a record only where every dominating error was nil. " +
			"(shared) the four repo metastores are insert-only with a truthful Store result (C13.insert-only / C13.store-result), and key references handed out by the caches are released exactly once (C09.handout-release: a double release destroys a cached system key, after which no operation succeeds although the faults have stopped). Whether a real database holds the rows at that instant is not decided here.",
		NotDecided:  []string{"that the metastore holds the rows at the instant of return (C13 covers the insert discipline)", "recovery 'once faults stop'", "process crash points", "error-after-write faults inside a Metastore implementation"},
		Assumptions: []string{"Metastore.Store returns true only if the row was inserted (checked for the four repo metastores by C13.store-result)", "design-intended error drops are listed by symbol: tryStore, loadLatestOrCreateIntermediateKey→createIntermediateKey fall-backs, getValidIntermediateKey"},
		Tech:        "static analysis: guarded-by-condition + backward value slice + error-discipline (every err tested, non-nil edge reaches non-nil returns) on SSA",
		NeedU1:      true,
		NeedU2:      true,
		Rules:       []func(*Ctx){ruleC02FreshKeyOnlyIfStored, ruleC02SuccessIsStoreBool, ruleC02RecordMatchesKey, ruleC02NothingCachedOnError, ruleC02ErrorsNotRemembered, ruleC02AcquireReleasePaired, ruleC01ProvenanceDecrypt, lockBalancedRule("C02", 3, lockDomSpec{pkgApp, "keyCache", "rw"}), ruleC08EveryHandoutCounted, ruleC02ErrorMeansNoRecord, ruleC13InsertOnly, ruleC13StoreResult, ruleC09HandoutRelease, ruleC13FieldFidelity, ruleC13KeyFidelity, ruleC01CallerBuffersImmutable, ruleC01LatestFetchedUnderOwnID, recoverReportsFailureRule("C02", pkgApp, pkgInt, pkgPersist, pkgKmsV1, pkgKmsV2, pkgDynV1, pkgDynV2), ruleC13SidecarMetastoreWiring, ruleC18RegionSuffixResolvedOnEveryPath, ruleC13KMSInputNotModified, ruleC02CryptoKeyAsGiven, ruleC06KeyCacheIndexExact, ruleC17KEKFieldsFromNamesakes},
	})
}

// storeClosure: functions of package appencryption that (transitively, statically) call Metastore.Store.
func storeClosure(u *Universe) map[*ssa.Function]bool {
	ts := map[*ssa.Function]bool{}
	for changed := true; changed; {
		changed = false
		for _, f := range u.RepoFuncs {
			if ts[f] || f.Pkg == nil || f.Pkg.Pkg.Path() != pkgApp {
				continue
			}
			hit := false
			allInstrs(f, func(i ssa.Instruction) {
				if invokeIs(i, pkgApp, "Metastore", "Store") {
					hit = true
				}
				if g := staticCallee(i); g != nil && ts[g] {
					hit = true
				}
			})
			if hit {
				ts[f] = true
				changed = true
			}
		}
	}
	return ts
}

func isKeyGenCall(u *Universe, i ssa.Instruction) bool {
	g := staticCallee(i)
	if g == nil {
		return false
	}
	return g == u.Func(pkgInt, "GenerateKey") || g == u.Method(pkgApp, "envelopeEncryption", "generateKey")
}

func ruleC02FreshKeyOnlyIfStored(c *Ctx) {
	u := c.U1
	c.rule("C02.fresh-key-only-if-stored", "in every function that generates a key and (transitively) stores it, a return of that fresh key is guarded by the true edge of result #0 of the try-store call made with that key", 2)
	ts := storeClosure(u)
	r := keyOwnRules()
	for f := range ts {
		allInstrs(f, func(i ssa.Instruction) {
			if _, ok := i.(*ssa.Call); !ok || !isKeyGenCall(u, i) {
				return
			}
			for _, pr := range resultsOfType(i, isCryptoKeyPtr) {
				if pr[0] == nil {
					continue
				}
				c.FuncsAnalysed[shortName(f)] = true
				c.CallSites++
				al := aliasClosure(pr[0], r)
				construct := shortName(f) + "/fresh-key"
				nret := 0
				for _, ret := range returnsOf(f) {
					if len(ret.Results) == 0 {
						continue
					}
					if rv := returnedValue(ret, 0); !(al[rv] || al[strip(rv)]) {
						continue
					}
					nret++
					ok := guardedBy(ret, true, func(v ssa.Value) bool {
						ex, isEx := strip(v).(*ssa.Extract)
						if !isEx || ex.Index != 0 {
							return false
						}
						cv, isC := ex.Tuple.(*ssa.Call)
						if !isC {
							return false
						}
						g := staticCallee(cv)
						if g == nil || !ts[g] {
							return false
						}
						for _, a := range cv.Call.Args {
							if al[a] || al[strip(a)] {
								return true
							}
						}
						return false
					})
					// a single-result bool try-store (not a tuple)
					if !ok {
						ok = guardedBy(ret, true, func(v ssa.Value) bool {
							cv, isC := strip(v).(*ssa.Call)
							if !isC {
								return false
							}
							g := staticCallee(cv)
							if g == nil || !ts[g] {
								return false
							}
							for _, a := range cv.Call.Args {
								if al[a] || al[strip(a)] {
									return true
								}
							}
							return false
						})
					}
					c.check(ok, construct, u.ipos(ret), "fresh key returned only on the store-succeeded edge of the try-store call made with it",
						"a freshly generated key is returned without the try-store call for that key having reported success: records would name a key that is not in the metastore")
				}
				if nret == 0 {
					c.ok(construct, u.ipos(i), "the fresh key is never returned from this function")
				}
			}
		})
	}
}

func ruleC02SuccessIsStoreBool(c *Ctx) {
	u := c.U1
	c.rule("C02.success-is-the-store-bool", "the boolean result #0 of every try-store helper is, on every return, the constant false or result #0 of Metastore.Store (possibly through another try-store helper)", 3)
	ts := storeClosure(u)
	for f := range ts {
		res := f.Signature.Results()
		if res.Len() == 0 || res.At(0).Type().String() != "bool" {
			continue
		}
		c.FuncsAnalysed[shortName(f)] = true
		for _, ret := range returnsOf(f) {
			construct := shortName(f) + "/success"
			v := resolve(ret.Results[0])
			okv, why := storeBoolOrigin(v, ts, 0)
			c.check(okv, construct, u.ipos(ret), why, "the 'stored' flag is not Metastore.Store's own boolean result: "+why)
		}
	}
}

func storeBoolOrigin(v ssa.Value, ts map[*ssa.Function]bool, depth int) (bool, string) {
	v = resolve(v)
	if depth > 8 {
		return false, "too deep"
	}
	switch x := v.(type) {
	case *ssa.Const:
		if x.Value != nil && x.Value.ExactString() == "false" {
			return true, "constant false"
		}
		return false, "constant " + x.String()
	case *ssa.Extract:
		if x.Index != 0 {
			return false, "result #" + fmt.Sprint(x.Index) + " of a call"
		}
		if cv, ok := x.Tuple.(*ssa.Call); ok {
			if invokeIs(cv, pkgApp, "Metastore", "Store") {
				return true, "result #0 of Metastore.Store"
			}
			if g := staticCallee(cv); g != nil && ts[g] {
				return true, "result #0 of " + trimPkgDirs(shortName(g))
			}
		}
		return false, "result of " + instrTextV(x.Tuple)
	case *ssa.Call:
		if g := staticCallee(x); g != nil && ts[g] {
			return true, "result of " + trimPkgDirs(shortName(g))
		}
		return false, "result of " + instrText(x)
	case *ssa.Phi:
		for _, e := range x.Edges {
			if ok, why := storeBoolOrigin(e, ts, depth+1); !ok {
				return false, why
			}
		}
		return true, "phi of store results / false"
	case *ssa.BinOp:
		return false, "computed from " + x.String()
	}
	return false, "value " + v.String()
}

func ruleC02RecordMatchesKey(c *Ctx) {
	u := c.U1
	c.rule("C02.record-matches-key", "the EnvelopeKeyRecord passed to tryStore carries EncryptedKey = ciphertext of that key's bytes, Created = that key's Created(), ID from the partition; for an IK ParentKeyMeta = {SystemKeyID(), Created() of the SK whose bytes wrapped it}", 2)
	tryStore := u.Method(pkgApp, "envelopeEncryption", "tryStore")
	if tryStore == nil {
		c.unresolved("tryStore", "(*envelopeEncryption).tryStore")
		return
	}
	for _, spec := range []struct {
		fn, idMeth string
		keyParam   int
		parent     int // param index of parent key, -1 none
	}{{"tryStoreSystemKey", "SystemKeyID", 2, -1}, {"tryStoreIntermediateKey", "IntermediateKeyID", 2, 3}} {
		f := u.Method(pkgApp, "envelopeEncryption", spec.fn)
		if f == nil {
			c.unresolved(spec.fn, "(*envelopeEncryption)."+spec.fn)
			continue
		}
		c.FuncsAnalysed[shortName(f)] = true
		var rec ssa.Value
		allInstrs(f, func(i ssa.Instruction) {
			if staticCallee(i) == tryStore {
				rec = callOf(i).Args[2]
			}
		})
		if rec == nil {
			c.bad(shortName(f)+"/record", u.pos(f.Pos()), "no call to tryStore with a record")
			continue
		}
		// the record may be built by a helper that is handed the key (and its parent): analyse the literal where it is built
		origF := f
		keyIdx, parentIdx := spec.keyParam, spec.parent
		if ex, isEx := resolve(rec).(*ssa.Extract); isEx && ex.Index == 0 {
			if call, isCall := ex.Tuple.(*ssa.Call); isCall {
				if h := staticCallee(call); h != nil && h.Blocks != nil && h.Pkg != nil && h.Pkg.Pkg.Path() == pkgApp {
					ki, pi := -1, -1
					for k, a := range call.Call.Args {
						if resolve(a) == ssa.Value(f.Params[spec.keyParam]) || accessPath(a) == "P:"+f.Params[spec.keyParam].Name() {
							ki = k
						}
						if spec.parent >= 0 && (resolve(a) == ssa.Value(f.Params[spec.parent]) || accessPath(a) == "P:"+f.Params[spec.parent].Name()) {
							pi = k
						}
					}
					var hrec ssa.Value
					for _, hr := range returnsOf(h) {
						if len(hr.Results) == 2 && isNilValue(returnedValue(hr, 1)) && !isNilValue(returnedValue(hr, 0)) {
							hrec = returnedValue(hr, 0)
						}
					}
					if ki >= 0 && (spec.parent < 0 || pi >= 0) && hrec != nil {
						f, rec, keyIdx = h, hrec, ki
						if spec.parent >= 0 {
							parentIdx = pi
						}
						c.FuncsAnalysed[shortName(h)] = true
					}
				}
			}
		}
		fields := litFields(resolve(rec))
		if fields == nil || fields["Created"] == nil || fields["ID"] == nil || fields["EncryptedKey"] == nil {
			c.bad(shortName(origF)+"/record", u.pos(origF.Pos()), "the record handed to tryStore is not a composite literal with Created, ID and EncryptedKey built here (or by a helper given the key)")
			continue
		}
		key := f.Params[keyIdx]
		var problems []string
		// Created
		if cv, ok := resolve(fields["Created"]).(*ssa.Call); !ok || methodNameOf(&cv.Call) != "Created" || resolve(receiverOf(&cv.Call)) != ssa.Value(key) {
			problems = append(problems, "Created is not <key>.Created()")
		}
		// ID
		if cv, ok := resolve(fields["ID"]).(*ssa.Call); !ok || !cv.Call.IsInvoke() || cv.Call.Method.Name() != spec.idMeth {
			problems = append(problems, "ID is not partition."+spec.idMeth+"()")
		}
		// EncryptedKey: WithKeyFunc(key, closure)
		encOK := false
		if cv, ok := resolve(fields["EncryptedKey"]).(*ssa.Extract); ok {
			if call, isC := cv.Tuple.(*ssa.Call); isC && cv.Index == 0 {
				// the wrap may live in a helper that is handed the key (and its parent) and forwards the accessor's results
				encKey := ssa.Value(key)
				parentName := ""
				if parentIdx >= 0 {
					parentName = f.Params[parentIdx].Name()
				}
				for hop := 0; hop < 2; hop++ {
					if _, isAcc := accessorAction(call); isAcc {
						break
					}
					h := staticCallee(call)
					if h == nil || h.Blocks == nil || h.Pkg == nil || h.Pkg.Pkg.Path() != pkgApp {
						break
					}
					var nk ssa.Value
					np := ""
					for k, a := range call.Call.Args {
						if k >= len(h.Params) {
							continue
						}
						if resolve(a) == encKey {
							nk = h.Params[k]
						}
						if parentName != "" && strings.HasSuffix(accessPath(a), "P:"+parentName) {
							np = h.Params[k].Name()
						}
					}
					var inner *ssa.Call
					for _, hr := range returnsOf(h) {
						if len(hr.Results) != 2 {
							continue
						}
						if ex0, ok0 := resolve(returnedValue(hr, 0)).(*ssa.Extract); ok0 && ex0.Index == 0 {
							if ic, isIC := ex0.Tuple.(*ssa.Call); isIC {
								inner = ic
							}
						}
					}
					if nk == nil || inner == nil || (parentName != "" && np == "") {
						break
					}
					c.FuncsAnalysed[shortName(h)] = true
					call, encKey, parentName = inner, nk, np
				}
				if act, isAcc := accessorAction(call); isAcc && resolve(call.Call.Args[0]) == encKey {
					af := actionFunc(act)
					if af != nil {
						switch parentIdx {
						case -1:
							// closure: return KMS.EncryptKey(ctx, keyBytes) with keyBytes = closure param
							allInstrs(af, func(j ssa.Instruction) {
								if invokeIs(j, pkgApp, "KeyManagementService", "EncryptKey") && isParamOrCaptured(callOf(j).Args[1], af, 0) {
									encOK = true
								}
							})
						default:
							// closure: WithKeyFunc(parent, func(parentBytes){ Crypto.Encrypt(keyBytes, parentBytes) })
							allInstrs(af, func(j ssa.Instruction) {
								jc, isCall := j.(*ssa.Call)
								if !isCall {
									return
								}
								act2, isAcc2 := accessorAction(jc)
								if !isAcc2 || !strings.HasSuffix(accessPath(jc.Call.Args[0]), "P:"+parentName) {
									return
								}
								af2 := actionFunc(act2)
								if af2 == nil {
									return
								}
								allInstrs(af2, func(k ssa.Instruction) {
									if invokeIs(k, pkgApp, "AEAD", "Encrypt") {
										kc := callOf(k)
										// plaintext = outer closure's param (free var here), key = this closure's param
										if isParamOrCaptured(kc.Args[0], af, 0) && isParamNamed(kc.Args[1], af2, 0) {
											encOK = true
										}
									}
								})
							})
						}
					}
				}
			}
		}
		if !encOK {
			problems = append(problems, "EncryptedKey is not the ciphertext of this key's bytes under its parent (KMS.EncryptKey for the SK; AEAD.Encrypt(ikBytes, skBytes) for the IK)")
		}
		if parentIdx >= 0 && fields["ParentKeyMeta"] == nil {
			problems = append(problems, "ParentKeyMeta is not set")
		} else if parentIdx >= 0 {
			pmID, pmKey, _ := keyMetaParts(fields["ParentKeyMeta"])
			if pmKey == nil || pmKey != ssa.Value(f.Params[parentIdx]) {
				problems = append(problems, "ParentKeyMeta.Created is not Created() of the system key that wrapped the IK")
			}
			if cv, ok := resolve(pmID).(*ssa.Call); pmID == nil || !ok || !cv.Call.IsInvoke() || cv.Call.Method.Name() != "SystemKeyID" {
				problems = append(problems, "ParentKeyMeta.ID is not partition.SystemKeyID()")
			}
		}
		c.check(len(problems) == 0, shortName(origF)+"/record", u.pos(origF.Pos()), "stored record describes exactly the key being stored (Created, ID, EncryptedKey"+map[bool]string{true: ", ParentKeyMeta", false: ""}[spec.parent >= 0]+")",
			"the record written to the metastore does not describe the key being stored: "+strings.Join(problems, "; "))
	}
	// tryStore passes the record's own ID/Created and the record
	c.FuncsAnalysed[shortName(tryStore)] = true
	good := false
	allInstrs(tryStore, func(i ssa.Instruction) {
		if invokeIs(i, pkgApp, "Metastore", "Store") {
			cc := callOf(i)
			if hasSuffixPath(cc.Args[1], "P:ekr.ID") && hasSuffixPath(cc.Args[2], "P:ekr.Created") && isParamNamed(cc.Args[3], tryStore, 2) {
				good = true
			}
		}
	})
	c.check(good, shortName(tryStore)+"/store-args", u.pos(tryStore.Pos()), "Store(ctx, ekr.ID, ekr.Created, ekr)", "tryStore does not store the record under its own ID and Created")
}

func ruleC02NothingCachedOnError(c *Ctx) {
	u := c.U1
	c.rule("C02.nothing-cached-on-error", "every c.write / newCacheEntry in keyCache is dominated by a loader call whose error is known nil there", 3)
	wr := u.Method(pkgApp, "keyCache", "write")
	nce := u.Func(pkgApp, "newCacheEntry")
	if wr == nil || nce == nil {
		c.unresolved("write", "(*keyCache).write / newCacheEntry")
		return
	}
	for _, f := range u.RepoFuncs {
		if f.Signature.Recv() == nil || namedTypeName(f.Signature.Recv().Type()) != "keyCache" || f == wr {
			continue
		}
		allInstrs(f, func(i ssa.Instruction) {
			g := staticCallee(i)
			if g != wr && g != nce {
				return
			}
			c.CallSites++
			c.FuncsAnalysed[shortName(f)] = true
			construct := shortName(f) + "/" + g.Name()
			ok := false
			allInstrs(f, func(j ssa.Instruction) {
				if !dynamicCallOfParam(j, "loader") || !instrDominates(j, i) {
					return
				}
				for _, pr := range resultsOfType(j, isCryptoKeyPtr) {
					if pr[1] != nil && knownNil(pr[1], i.Block()) {
						ok = true
					}
				}
			})
			c.check(ok, construct, u.ipos(i), "dominated by a loader call whose err is nil on this path", "the cache is populated on a path where the loader's error is not known to be nil: a failed load/store would leave an unusable or unpersisted key cached")
		})
	}
}

// frozen, documented error-handling exceptions (one symbol + one reason each; DESIGN §1.7)
var c02ErrExempt = map[string]map[string]string{
	"(*appencryption.envelopeEncryption).tryStore": {
		"Metastore.Store": "design: any store error is treated as a duplicate and the latest row is re-read (comment on tryStore)",
	},
	"(*appencryption.envelopeEncryption).loadLatestOrCreateIntermediateKey": {
		"(*appencryption.envelopeEncryption).getOrLoadSystemKey": "documented fall-back: parent SK cannot be loaded → create a new IK (returns createIntermediateKey's result)",
	},
	"(*appencryption.envelopeEncryption).getValidIntermediateKey": {
		"(*appencryption.envelopeEncryption).intermediateKeyFromEKR": "documented: returns nil key on failure, caller falls back to createIntermediateKey",
	},
}

func ruleC02ErrorMeansNoRecord(c *Ctx) {
	u := c.U1
	c.rule("C02.error-means-no-record", "in every method of envelopeEncryption (and closures, decryptRow): every call yielding an error has it tested or returned, and the err != nil edge reaches only non-nil error returns (named exceptions); EncryptPayload returns a record only where every dominating error is known nil", 20)
	for _, f := range u.RepoFuncs {
		root := rootFunc(f)
		inScope := root.Pkg != nil && root.Pkg.Pkg.Path() == pkgApp &&
			((root.Signature.Recv() != nil && namedTypeName(root.Signature.Recv().Type()) == "envelopeEncryption") || root.Name() == "decryptRow")
		if !inScope {
			continue
		}
		c.FuncsAnalysed[shortName(f)] = true
		sites := errorDiscipline(f, nil, func(i ssa.Instruction) string {
			if ex, ok := c02ErrExempt[shortName(f)]; ok {
				return ex[calleeLabel(i)]
			}
			return ""
		})
		for _, s := range sites {
			c.CallSites++
			construct := shortName(f) + "/" + calleeLabel(s.Call)
			if s.Problem != "" {
				c.bad(construct, u.ipos(s.Call), s.Problem, u.tracePositions(s.Trace)...)
			} else {
				c.ok(construct, u.ipos(s.Call), s.How)
			}
		}
	}
	// EncryptPayload: non-nil record only where all dominating errors are nil
	ep := u.Method(pkgApp, "envelopeEncryption", "EncryptPayload")
	if ep == nil {
		c.unresolved("EncryptPayload", "(*envelopeEncryption).EncryptPayload")
		return
	}
	for _, ret := range returnsOf(ep) {
		if len(ret.Results) == 0 || isNilValue(ret.Results[0]) {
			continue
		}
		construct := shortName(ep) + "/record-return"
		var open []string
		allInstrs(ep, func(i ssa.Instruction) {
			if _, ok := i.(*ssa.Call); !ok || !instrDominates(i, ret) {
				return
			}
			for _, pr := range resultsOfType(i, isErrorType) {
				if pr[0] != nil && !knownNil(pr[0], ret.Block()) {
					open = append(open, calleeLabel(i))
				}
			}
		})
		c.check(len(open) == 0, construct, u.ipos(ret), "every error produced before this return is known nil here", "a data row record is returned although the error of "+strings.Join(open, ", ")+" is not known to be nil")
	}
}
