package main

func runThorough(c *Ctx, spec *propSpec, extra map[string]any) {}
