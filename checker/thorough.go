package main

// Thorough tier (DESIGN §1.5): quick tier plus
//   (a) build-configuration sweep: the property's rules are re-run under `-tags nodeprecated` (the repository does not
//       compile for GOARCH=386, so that is not a configuration);
//   (b) whole-program cross-check: LoadAllSyntax + VTA call graph (the most precise graph in x/tools v0.29.0) must not
//       know a repo callee at a repo call site that the rule engine's own resolution (E-CALL) misses;
//   (c) mutation kill matrix: every change under /verif/mutants/<prop>/ and every kept seeded change for the property
//       is applied IN MEMORY (packages.Config.Overlay; nothing is written to /repo) and the rules must fire; the
//       behaviour-preserving variants (equiv-*.diff) must stay silent. The matrix goes to the evidence; it never changes
//       the verdict on the tree.

import (
	"encoding/json"
	"fmt"
	"os"
	"path/filepath"
	"runtime/debug"
	"sort"
	"strings"
	"time"

	"golang.org/x/tools/go/callgraph"
	"golang.org/x/tools/go/callgraph/cha"
	"golang.org/x/tools/go/callgraph/vta"
	"golang.org/x/tools/go/ssa"
	"golang.org/x/tools/go/ssa/ssautil"
)

type mutantResult struct {
	Name    string   `json:"name"`
	Kind    string   `json:"kind"` // mutant | equivalent
	Status  string   `json:"status"`
	FiredBy []string `json:"fired_by,omitempty"`
}

func runRulesFresh(spec *propSpec, tier string, u1, u2 *Universe) *Ctx {
	resetAnalysisCaches()
	defer func() {
		resetAnalysisCaches()
		debug.FreeOSMemory()
	}()
	c := newCtx(spec.ID, tier)
	c.U1, c.U2 = u1, u2
	func() {
		defer func() {
			if r := recover(); r != nil {
				c.rule(spec.ID+".checker-panic", "the checker must not crash", 0)
				c.add("panic", "", Undecided, fmt.Sprint(r))
			}
		}()
		for _, r := range spec.Rules {
			r(c)
		}
	}()
	// floors
	for id, st := range c.Rules {
		if st.Instances < st.Floor {
			c.curRule = id
			c.add("instance-count", "", BelowFloor, "below floor")
		}
	}
	return c
}

func failing(c *Ctx) []*Obligation {
	known, _ := loadKnownFindings()
	var out []*Obligation
	for _, o := range c.Obs {
		if o.Verdict == Discharged {
			continue
		}
		isKnown := false
		for _, k := range known {
			if k.Kind == "finding" && k.Rule == o.Rule && k.Construct == strings.ReplaceAll(o.Construct, " ", "") {
				isKnown = true
			}
		}
		if !isKnown {
			out = append(out, o)
		}
	}
	return out
}

func runThorough(c *Ctx, spec *propSpec, extra map[string]any) {
	t0 := time.Now()
	lap := func(what string) {
		if os.Getenv("VERIF_TIMING") != "" {
			fmt.Fprintf(os.Stderr, "  [timing] %s %.1fs\n", what, time.Since(t0).Seconds())
		}
		t0 = time.Now()
	}
	// (a) configuration sweep
	// GOARCH=386 is not a configuration of this repository: pkg/crypto/aead does not compile there (gcmMaxDataSize
	// overflows int), so the only other configuration is the `nodeprecated` build tag.
	configs := []BuildConfig{{Name: "nodeprecated", Tags: "nodeprecated"}}
	done := []string{"default"}
	for _, bc := range configs {
		var u1, u2 *Universe
		var err error
		if spec.NeedU1 {
			if u1, err = loadUniverseOverlay("U1", bc, false, nil); err != nil {
				c.rule(spec.ID+".config-sweep", "every build configuration loads and satisfies the property's rules", 0)
				c.add(bc.Name, "", Undecided, err.Error())
				continue
			}
		}
		if spec.NeedU2 {
			u2 = c.U2 // the sidecar has no build-tagged files; reuse
		}
		cc := runRulesFresh(spec, "thorough", u1, u2)
		c.rule(spec.ID+".config-sweep", "every build configuration loads and satisfies the property's rules", 0)
		f := failing(cc)
		if len(f) == 0 {
			c.ok(bc.Name, "", fmt.Sprintf("%d obligations discharged under %s", len(cc.Obs), bc.Name))
		} else {
			for _, o := range f {
				c.add(bc.Name+"/"+o.Key(), o.Pos, o.Verdict, "under "+bc.Name+": "+o.Fact)
			}
		}
		done = append(done, bc.Name)
	}
	extra["build_configs"] = done
	lap("config sweep")
	// (b) VTA cross-check
	if spec.NeedU1 && spec.UsesCallGraph {
		vtaCrossCheck(c, spec)
	}
	lap("vta cross-check")
	// (c) kill matrix
	res := killMatrix(spec)
	lap("kill matrix")
	killed, total, silentOK, equiv := 0, 0, 0, 0
	for _, r := range res {
		if r.Kind == "mutant" && r.Status != "n/a" {
			total++
			if r.Status == "killed" {
				killed++
			}
		}
		if r.Kind == "equivalent" && r.Status != "n/a" {
			equiv++
			if r.Status == "silent" {
				silentOK++
			}
		}
	}
	extra["kill_matrix"] = res
	extra["mutants_total"] = total
	extra["mutants_killed"] = killed
	extra["equivalent_variants"] = equiv
	extra["equivalent_silent"] = silentOK
	fmt.Printf("%s thorough: %d/%d mutants killed, %d/%d behaviour-preserving variants silent, configs %v\n", spec.ID, killed, total, silentOK, equiv, done)
	for _, r := range res {
		if (r.Kind == "mutant" && r.Status == "survived") || (r.Kind == "equivalent" && r.Status == "fired") {
			fmt.Printf("  note: %s %s %s %v\n", r.Kind, r.Name, r.Status, r.FiredBy)
		}
	}
}

// ---------------------------------------------------------------------------------------------
// (b) VTA cross-check

var vtaCache *callgraph.Graph
var vtaUniverse *Universe

func vtaCrossCheck(c *Ctx, spec *propSpec) {
	c.rule(spec.ID+".vta-crosscheck", "whole-program VTA call graph (LoadAllSyntax) knows no repo callee at a repo call site that the rule engine's own call resolution misses", 0)
	if vtaCache == nil {
		u, err := loadUniverseOverlay("U1", BuildConfig{Name: "default"}, true, nil)
		if err != nil {
			c.add("load-all-syntax", "", Undecided, err.Error())
			return
		}
		all := ssautil.AllFunctions(u.Prog)
		vtaCache = vta.CallGraph(all, cha.CallGraph(u.Prog))
		vtaUniverse = u
	}
	u := vtaUniverse
	cg := newCallGraph(u)
	isRepo := map[*ssa.Function]bool{}
	for _, f := range u.RepoFuncs {
		isRepo[f] = true
	}
	missing := 0
	sites := 0
	for _, f := range u.RepoFuncs {
		n := vtaCache.Nodes[f]
		if n == nil {
			continue
		}
		bySite := map[ssa.CallInstruction][]*ssa.Function{}
		for _, e := range n.Out {
			if e.Site == nil {
				continue
			}
			callee := orig(e.Callee.Func)
			if callee == nil || !isRepo[callee] {
				continue
			}
			bySite[e.Site] = append(bySite[e.Site], callee)
		}
		for site, callees := range bySite {
			sites++
			mine := cg.calleesAt(site, cgEnv{})
			cc := site.Common()
			if cc != nil && !cc.IsInvoke() && cc.StaticCallee() == nil {
				// dynamic call: compare with the context-insensitive resolution
				for t := range cg.funcValues(cc.Value, nil, 0) {
					mine[t] = cgEnv{}
				}
				// parameters are bound per call site by the engine; union over all bindings = all callers' arguments
				if p, ok := cc.Value.(*ssa.Parameter); ok {
					for _, e := range cg.callersOf(f) {
						args := callArgs(callOf(e.Site))
						for k, q := range f.Params {
							if q == p && k < len(args) {
								for t := range cg.funcValues(args[k], nil, 0) {
									mine[t] = cgEnv{}
								}
							}
						}
					}
					continue // binding-sensitive; VTA is coarser here by construction
				}
			}
			for _, callee := range callees {
				if _, ok := mine[callee]; !ok {
					// generic instantiation wrappers and synthetic thunks resolve to their origin
					if callee.Synthetic != "" {
						continue
					}
					missing++
					if missing <= 5 {
						c.add(trimPkgDirs(shortName(f))+"→"+trimPkgDirs(shortName(callee)), u.ipos(site), Undecided, "VTA resolves this call site to a repo function the engine's call resolution does not reach: "+instrText(site))
					}
				}
			}
		}
	}
	if missing == 0 {
		c.ok("U1", "", fmt.Sprintf("%d repo call sites with repo callees in the VTA graph, all covered by the engine's resolution", sites))
	}
}

// ---------------------------------------------------------------------------------------------
// (c) kill matrix

type patchFile struct {
	Path  string
	Hunks []hunk
}

type hunk struct {
	OldStart int
	Old, New []string // old lines (context+removed), new lines (context+added)
}

func parseUnifiedDiff(text string) []patchFile {
	var out []patchFile
	var cur *patchFile
	var h *hunk
	flush := func() {
		if h != nil && cur != nil {
			cur.Hunks = append(cur.Hunks, *h)
			h = nil
		}
	}
	for _, l := range strings.Split(text, "\n") {
		switch {
		case strings.HasPrefix(l, "+++ "):
			flush()
			p := strings.TrimPrefix(l, "+++ ")
			p = strings.TrimPrefix(p, "b/")
			if i := strings.IndexByte(p, '\t'); i >= 0 {
				p = p[:i]
			}
			out = append(out, patchFile{Path: p})
			cur = &out[len(out)-1]
		case strings.HasPrefix(l, "--- "), strings.HasPrefix(l, "diff "), strings.HasPrefix(l, "index "), strings.HasPrefix(l, "new file"), strings.HasPrefix(l, "deleted file"):
			flush()
		case strings.HasPrefix(l, "@@"):
			flush()
			h = &hunk{}
			fmt.Sscanf(l, "@@ -%d", &h.OldStart)
		case h != nil && strings.HasPrefix(l, "+"):
			h.New = append(h.New, l[1:])
		case h != nil && strings.HasPrefix(l, "-"):
			h.Old = append(h.Old, l[1:])
		case h != nil && strings.HasPrefix(l, " "):
			h.Old = append(h.Old, l[1:])
			h.New = append(h.New, l[1:])
		case h != nil && l == "":
			// blank context line with stripped trailing space
			h.Old = append(h.Old, "")
			h.New = append(h.New, "")
		case strings.HasPrefix(l, "\\"):
		}
	}
	flush()
	return out
}

// applyHunks applies the hunks to the file content by locating each hunk's old lines (near its recorded position).
func applyHunks(content string, hunks []hunk) (string, bool) {
	lines := strings.Split(content, "\n")
	offset := 0
	for _, h := range hunks {
		old := h.Old
		// trailing blank artefacts
		for len(old) > 0 && old[len(old)-1] == "" && len(h.New) > 0 && h.New[len(h.New)-1] == "" {
			old = old[:len(old)-1]
			h.New = h.New[:len(h.New)-1]
		}
		want := h.OldStart - 1 + offset
		pos := -1
		match := func(at int) bool {
			if at < 0 || at+len(old) > len(lines) {
				return false
			}
			for k := range old {
				if lines[at+k] != old[k] {
					return false
				}
			}
			return true
		}
		for d := 0; d < len(lines) && pos < 0; d++ {
			if match(want + d) {
				pos = want + d
			} else if match(want - d) {
				pos = want - d
			}
		}
		if pos < 0 {
			return "", false
		}
		nl := append([]string{}, lines[:pos]...)
		nl = append(nl, h.New...)
		nl = append(nl, lines[pos+len(old):]...)
		offset += len(h.New) - len(old)
		lines = nl
	}
	return strings.Join(lines, "\n"), true
}

// overlayFromPatch builds an Overlay map (absolute path under repoRoot -> new content) for a unified diff.
func overlayFromPatch(diffPath string) (map[string][]byte, bool) {
	b, err := os.ReadFile(diffPath)
	if err != nil {
		return nil, false
	}
	ov := map[string][]byte{}
	for _, pf := range parseUnifiedDiff(string(b)) {
		if strings.HasSuffix(pf.Path, "_test.go") || !strings.HasSuffix(pf.Path, ".go") {
			continue
		}
		abs := filepath.Join(repoRoot, pf.Path)
		src, err := os.ReadFile(abs)
		if err != nil {
			return nil, false
		}
		out, ok := applyHunks(string(src), pf.Hunks)
		if !ok {
			return nil, false
		}
		ov[abs] = []byte(out)
	}
	return ov, len(ov) > 0
}

func killMatrix(spec *propSpec) []mutantResult {
	root := verifRoot()
	type cand struct{ name, path, kind string }
	var cands []cand
	if ents, err := os.ReadDir(filepath.Join(root, "mutants", spec.ID)); err == nil {
		for _, e := range ents {
			if strings.HasSuffix(e.Name(), ".diff") {
				kind := "mutant"
				if strings.HasPrefix(e.Name(), "equiv-") {
					kind = "equivalent"
				}
				cands = append(cands, cand{"mutants/" + spec.ID + "/" + e.Name(), filepath.Join(root, "mutants", spec.ID, e.Name()), kind})
			}
		}
	}
	if ents, err := os.ReadDir(filepath.Join(root, "seeded")); err == nil {
		for _, e := range ents {
			mp := filepath.Join(root, "seeded", e.Name(), "meta.json")
			b, err := os.ReadFile(mp)
			if err != nil {
				continue
			}
			var m struct {
				Property string `json:"property"`
			}
			if json.Unmarshal(b, &m) != nil || m.Property != spec.ID {
				continue
			}
			cands = append(cands, cand{"seeded/" + e.Name(), filepath.Join(root, "seeded", e.Name(), "patch.diff"), "mutant"})
		}
	}
	// behaviour-preserving refactorings written by independent sub-agents (/verif/equiv): applied to every property one
	// of whose anchor files they touch; the checks must stay silent
	anchors := propertyAnchorFiles(spec.ID)
	if ents, err := os.ReadDir(filepath.Join(root, "equiv")); err == nil {
		for _, e := range ents {
			if !strings.HasSuffix(e.Name(), ".diff") {
				continue
			}
			path := filepath.Join(root, "equiv", e.Name())
			b, err := os.ReadFile(path)
			if err != nil {
				continue
			}
			touches := false
			for _, pf := range parseUnifiedDiff(string(b)) {
				if anchors[pf.Path] {
					touches = true
				}
			}
			if touches {
				cands = append(cands, cand{"equiv/" + e.Name(), path, "equivalent"})
			}
		}
	}
	sort.Slice(cands, func(i, j int) bool { return cands[i].name < cands[j].name })
	var out []mutantResult
	for _, cd := range cands {
		r := mutantResult{Name: cd.name, Kind: cd.kind}
		ov, ok := overlayFromPatch(cd.path)
		if !ok {
			r.Status = "n/a"
			out = append(out, r)
			continue
		}
		var u1, u2 *Universe
		var err error
		touchesServer := false
		for p := range ov {
			if strings.Contains(p, "/server/go/") {
				touchesServer = true
			}
		}
		if spec.NeedU1 {
			u1, err = loadUniverseOverlay("U1", BuildConfig{Name: "default"}, false, ov)
		}
		if err == nil && spec.NeedU2 {
			if touchesServer {
				u2, err = loadUniverseOverlay("U2", BuildConfig{Name: "default"}, false, ov)
			} else {
				u2, err = getUniverse("U2", BuildConfig{Name: "default"}, false)
			}
		}
		if err != nil {
			r.Status = "n/a" // does not type-check: not a valid mutant
			out = append(out, r)
			continue
		}
		cc := runRulesFresh(spec, "thorough", u1, u2)
		f := failing(cc)
		rules := map[string]bool{}
		for _, o := range f {
			rules[o.Rule] = true
		}
		for k := range rules {
			r.FiredBy = append(r.FiredBy, k)
		}
		sort.Strings(r.FiredBy)
		switch {
		case cd.kind == "mutant" && len(f) > 0:
			r.Status = "killed"
		case cd.kind == "mutant":
			r.Status = "survived"
		case len(f) == 0:
			r.Status = "silent"
		default:
			r.Status = "fired"
		}
		out = append(out, r)
	}
	return out
}

// propertyAnchorFiles: anchors.files of the property in properties.jsonl.
func propertyAnchorFiles(id string) map[string]bool {
	out := map[string]bool{}
	b, err := os.ReadFile(filepath.Join(verifRoot(), "properties.jsonl"))
	if err != nil {
		return out
	}
	for _, l := range strings.Split(string(b), "\n") {
		var p struct {
			ID      string `json:"id"`
			Anchors struct {
				Files []string `json:"files"`
			} `json:"anchors"`
		}
		if json.Unmarshal([]byte(l), &p) == nil && p.ID == id {
			for _, f := range p.Anchors.Files {
				out[f] = true
			}
		}
	}
	return out
}
