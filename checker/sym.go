package main

// A small symbolic evaluator for byte values of the envelope code (used by the provenance rules so that they do not
// depend on whether the AEAD calls sit in inline closures or in extracted helpers):
//
//	enc(p, k)   result of AEAD.Encrypt(p, k)
//	dec(c, k)   result of AEAD.Decrypt(c, k)
//	kms(p)      result of KeyManagementService.EncryptKey(ctx, p)
//	bytes(K)    the protected bytes of key value K (the parameter of an accessor callback on K)
//	val(v)      an SSA value of the root frame (e.g. the payload parameter, a field of a record)
//
// Evaluation follows accessor calls into their action closures, static calls into repo helpers (binding parameters to
// the caller's terms) and closure captures back to the creating frame.

import (
	"fmt"
	"go/token"
	"strings"

	"golang.org/x/tools/go/ssa"
)

type term struct {
	Kind string // enc | dec | kms | bytes | val | unknown
	A, B *term
	V    ssa.Value // val: the value; bytes: A is the key term
	Why  string    // for unknown
}

func (t *term) String() string {
	if t == nil {
		return "<nil>"
	}
	switch t.Kind {
	case "enc", "dec":
		return fmt.Sprintf("%s(%s, %s)", t.Kind, t.A, t.B)
	case "kms":
		return fmt.Sprintf("kms(%s)", t.A)
	case "bytes":
		return fmt.Sprintf("bytes(%s)", t.A)
	case "val":
		return "val(" + accessPath(t.V) + ")"
	}
	return "unknown(" + t.Why + ")"
}

func (t *term) equal(o *term) bool {
	if t == nil || o == nil {
		return t == o
	}
	if t.Kind != o.Kind {
		return false
	}
	switch t.Kind {
	case "val":
		return t.V == o.V || (accessPath(t.V) == accessPath(o.V) && !strings.HasPrefix(accessPath(t.V), "V:"))
	case "unknown":
		return false
	}
	return t.A.equal(o.A) && (t.B == nil && o.B == nil || t.B.equal(o.B))
}

// keyOf: for bytes(K) returns K's value (nil otherwise).
func (t *term) keyValue() ssa.Value {
	if t != nil && t.Kind == "bytes" && t.A != nil && t.A.Kind == "val" {
		return t.A.V
	}
	return nil
}

type symEnv struct {
	fn     *ssa.Function
	params map[*ssa.Parameter]*term
	parent *symEnv // frame that created this closure (for free variables) — nil for helpers/root
}

func unknownT(why string) *term { return &term{Kind: "unknown", Why: why} }

// symEval evaluates v (a value of env.fn) to a term.
func symEval(v ssa.Value, env *symEnv, depth int) *term {
	if depth > 12 {
		return unknownT("depth")
	}
	v = resolve(v)
	switch x := v.(type) {
	case *ssa.Parameter:
		for e := env; e != nil; e = e.parent {
			if t, ok := e.params[x]; ok {
				return t
			}
		}
		return &term{Kind: "val", V: x}
	case *ssa.FreeVar:
		return symFreeVar(x, env, depth)
	case *ssa.UnOp:
		if x.Op == token.MUL {
			if fv, ok := x.X.(*ssa.FreeVar); ok {
				return symFreeVar(fv, env, depth)
			}
		}
		return &term{Kind: "val", V: x}
	case *ssa.Extract:
		if x.Index != 0 {
			return &term{Kind: "val", V: x}
		}
		call, ok := x.Tuple.(*ssa.Call)
		if !ok {
			return &term{Kind: "val", V: x}
		}
		return symCall(call, x, env, depth)
	case *ssa.Call:
		return symCall(x, x, env, depth)
	case *ssa.Phi:
		var t *term
		for _, e := range x.Edges {
			if isNilConst(strip(e)) {
				continue
			}
			te := symEval(e, env, depth+1)
			if t == nil {
				t = te
			} else if !t.equal(te) {
				return unknownT("phi of different terms")
			}
		}
		if t != nil {
			return t
		}
	}
	return &term{Kind: "val", V: v}
}

func symFreeVar(fv *ssa.FreeVar, env *symEnv, depth int) *term {
	fn := fv.Parent()
	idx := -1
	for i, y := range fn.FreeVars {
		if y == fv {
			idx = i
		}
	}
	// find the frame that created this closure
	var creator *symEnv
	for e := env; e != nil; e = e.parent {
		if e.fn == fn {
			creator = e.parent
			break
		}
	}
	mcs := makeClosuresOf(fn)
	if idx < 0 || len(mcs) != 1 || creator == nil {
		return &term{Kind: "val", V: fv}
	}
	b := mcs[0].Bindings[idx]
	if a, ok := b.(*ssa.Alloc); ok {
		st := localStores(a)
		if len(st) != 1 {
			return unknownT("captured variable with several stores")
		}
		return symEval(st[0], creator, depth+1)
	}
	return symEval(b, creator, depth+1)
}

func symCall(call *ssa.Call, self ssa.Value, env *symEnv, depth int) *term {
	cc := &call.Call
	switch {
	case invokeIs(call, pkgApp, "AEAD", "Encrypt"):
		return &term{Kind: "enc", A: symEval(cc.Args[0], env, depth+1), B: symEval(cc.Args[1], env, depth+1)}
	case invokeIs(call, pkgApp, "AEAD", "Decrypt"):
		return &term{Kind: "dec", A: symEval(cc.Args[0], env, depth+1), B: symEval(cc.Args[1], env, depth+1)}
	case invokeIs(call, pkgApp, "KeyManagementService", "EncryptKey"):
		return &term{Kind: "kms", A: symEval(cc.Args[1], env, depth+1)}
	}
	if act, isAcc := accessorAction(call); isAcc {
		af := actionFunc(act)
		if af == nil || len(af.Params) != 1 || af.Blocks == nil {
			return unknownT("accessor action is not a literal function")
		}
		key := symEval(callArgs(cc)[0], env, depth+1)
		sub := &symEnv{fn: af, params: map[*ssa.Parameter]*term{af.Params[0]: {Kind: "bytes", A: key}}, parent: env}
		return symReturn(af, sub, depth+1)
	}
	if h := staticCallee(call); h != nil && h.Blocks != nil && h.Pkg != nil && strings.HasPrefix(h.Pkg.Pkg.Path(), "github.com/godaddy/asherah/") {
		if !isByteSlice(self.Type()) {
			return &term{Kind: "val", V: self}
		}
		sub := &symEnv{fn: h, params: map[*ssa.Parameter]*term{}}
		args := callArgs(cc)
		for k, p := range h.Params {
			if k < len(args) {
				sub.params[p] = symEval(args[k], env, depth+1)
			}
		}
		return symReturn(h, sub, depth+1)
	}
	return &term{Kind: "val", V: self}
}

// symReturn: the term returned as result #0 by f on its success returns (all must agree).
func symReturn(f *ssa.Function, env *symEnv, depth int) *term {
	var t *term
	for _, r := range returnsOf(f) {
		if len(r.Results) == 0 {
			continue
		}
		rv := returnedValue(r, 0)
		if isNilConst(strip(rv)) {
			continue
		}
		te := symEval(rv, env, depth)
		if t == nil {
			t = te
		} else if !t.equal(te) {
			return unknownT("returns differ: " + t.String() + " vs " + te.String())
		}
	}
	if t == nil {
		return unknownT("no value returned")
	}
	return t
}
