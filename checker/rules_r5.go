package main

import (
	"fmt"
	"go/constant"
	"go/token"
	"go/types"
	"sort"
	"strings"

	"golang.org/x/tools/go/ssa"
)

// Rules added after the third systematic sweep was re-triaged and during seeding round 5.

// ---------------------------------------------------------------------------------------------
// C13.nothing-only-when-absent

// recordReturning: f returns (*EnvelopeKeyRecord, error).
func recordReturning(f *ssa.Function) bool {
	res := f.Signature.Results()
	if res.Len() != 2 || !isErrorType(res.At(1).Type()) {
		return false
	}
	p, ok := types.Unalias(res.At(0).Type()).(*types.Pointer)
	if !ok {
		return false
	}
	n, ok := namedOf(p.Elem())
	return ok && n.Obj().Name() == "EnvelopeKeyRecord"
}

// rootOfPath walks loads, field selections and indexing back to the value they start from.
func rootOfPath(v ssa.Value) ssa.Value {
	for k := 0; k < 12; k++ {
		switch x := v.(type) {
		case *ssa.UnOp:
			if x.Op == token.MUL {
				v = x.X
				continue
			}
		case *ssa.FieldAddr:
			v = x.X
			continue
		case *ssa.Field:
			v = x.X
			continue
		case *ssa.IndexAddr:
			v = x.X
			continue
		case *ssa.Index:
			v = x.X
			continue
		case *ssa.Lookup:
			v = x.X
			continue
		}
		break
	}
	return v
}

// passesField: the access chain of v (loads, field selections, indexing) goes through a field with one of the names.
func passesField(v ssa.Value, names ...string) bool {
	for k := 0; k < 12; k++ {
		switch x := v.(type) {
		case *ssa.UnOp:
			if x.Op != token.MUL {
				return false
			}
			v = x.X
		case *ssa.FieldAddr:
			fn := fieldName(x.X.Type(), x.Field)
			for _, n := range names {
				if fn == n {
					return true
				}
			}
			v = x.X
		case *ssa.Field:
			fn := fieldName(x.X.Type(), x.Field)
			for _, n := range names {
				if fn == n {
					return true
				}
			}
			v = x.X
		case *ssa.IndexAddr:
			v = x.X
		case *ssa.Index:
			v = x.X
		case *ssa.Lookup:
			v = x.X
		default:
			return false
		}
	}
	return false
}

// impliesNonPositive: taking an edge on which `x op k` is known (already polarity-adjusted) implies x <= 0.
func cmpOnEdge(b *ssa.BinOp, taken bool, isX func(ssa.Value) bool) (op token.Token, k int64, ok bool) {
	op = b.Op
	var kv ssa.Value
	switch {
	case isX(b.X):
		kv = b.Y
	case isX(b.Y):
		kv = b.X
		switch op { // k op x  ≡  x op' k
		case token.LSS:
			op = token.GTR
		case token.GTR:
			op = token.LSS
		case token.LEQ:
			op = token.GEQ
		case token.GEQ:
			op = token.LEQ
		}
	default:
		return 0, 0, false
	}
	cv, isC := constOf(kv)
	if !isC {
		return 0, 0, false
	}
	k, isI := constantInt64(constant.ToInt(cv))
	if !isI {
		return 0, 0, false
	}
	if !taken {
		switch op {
		case token.LSS:
			op = token.GEQ
		case token.GEQ:
			op = token.LSS
		case token.GTR:
			op = token.LEQ
		case token.LEQ:
			op = token.GTR
		case token.EQL:
			op = token.NEQ
		case token.NEQ:
			op = token.EQL
		default:
			return 0, 0, false
		}
	}
	return op, k, true
}

// ruleC13NothingOnlyWhenAbsent: "Load returns exactly the record stored … or nothing" and "a completed Store is visible
// to every later read": a read may answer (nil, nil) — which every caller takes as "no such key; create one" — only
// where the backend said the row is absent, never because the backend failed or because some other condition held.
//
//	memory   : the not-found edge of a comma-ok lookup in Envelopes
//	SQL      : the edge on which the Scan error is sql.ErrNoRows (errors.Is / ==)
//	DynamoDB : the edge on which the output's Item is nil / its Items are empty
//	any      : the edge on which the record returned by a checked helper (or a delegate Metastore) is nil
//
// Every path from entry to a literal `return nil, nil` must take one of those edges.
func ruleC13NothingOnlyWhenAbsent(c *Ctx) {
	u := c.U1
	c.rule("C13.nothing-only-when-absent", "in Load and LoadLatest of every metastore (and the record-returning helpers they call) every path to a literal `return nil, nil` takes an absence edge: not-found of an Envelopes lookup / Scan error is sql.ErrNoRows / output Item nil or Items empty / a checked helper's record is nil — a backend failure or any other condition is never reported as \"no such key\"", 5)
	for _, m := range metastoreImpls(c) {
		// functions to check
		var fns []*ssa.Function
		seen := map[*ssa.Function]bool{}
		var add func(f *ssa.Function, depth int)
		add = func(f *ssa.Function, depth int) {
			if f == nil || f.Blocks == nil || seen[f] || depth > 3 {
				return
			}
			seen[f] = true
			fns = append(fns, f)
			allInstrs(f, func(i ssa.Instruction) {
				if g := staticCallee(i); g != nil && g.Pkg != nil && g.Pkg.Pkg.Path() == m.N.Obj().Pkg().Path() && (recordReturning(g) || (maybeReturning(g) && g.Blocks != nil && containsInstr(g, isDynamoRead))) {
					add(g, depth+1)
				}
			})
		}
		for _, mn := range []string{"Load", "LoadLatest"} {
			f := u.MethodOf(m.N, mn)
			if f == nil || f.Blocks == nil {
				c.unresolved(m.N.Obj().Name()+"."+mn, "method")
				continue
			}
			add(f, 0)
		}
		isBackendRead := func(v ssa.Value) bool {
			ex, ok := v.(*ssa.Extract)
			if !ok {
				return false
			}
			cv, ok := ex.Tuple.(*ssa.Call)
			if !ok || !cv.Call.IsInvoke() {
				return false
			}
			n := cv.Call.Method.Name()
			return strings.HasPrefix(n, "GetItem") || strings.HasPrefix(n, "Query")
		}
		for _, f := range fns {
			c.FuncsAnalysed[shortName(f)] = true
			name := trimPkgDirs(shortName(f))
			isParam := func(v ssa.Value) bool {
				for _, p := range f.Params {
					if ssa.Value(p) == v {
						return true
					}
				}
				return false
			}
			absenceEdge := func(from, to *ssa.BasicBlock) bool {
				for _, fct := range edgeFacts(from, to) {
					if fct.Sub != nil {
						continue
					}
					switch x := fct.V.(type) {
					case *ssa.Extract: // _, ok := Envelopes[…]…[…]
						// the comma-ok flag handed back by the sub-map helper of the in-memory metastore
						if cv, isC := x.Tuple.(*ssa.Call); isC && !fct.True && x.Index == 1 {
							if _, isH := subMapHelper(staticCallee(cv)); isH {
								return true
							}
						}
						// the found flag of a checked read helper is false
						if cv, isC := x.Tuple.(*ssa.Call); isC && !fct.True {
							if g := staticCallee(cv); g != nil && seen[g] && g.Signature.Results().Len() == 3 && x.Index == 1 {
								return true
							}
						}
						if lk, isL := x.Tuple.(*ssa.Lookup); isL && lk.CommaOk && x.Index == 1 && !fct.True {
							if strings.HasSuffix(accessPath(lk.X), ".Envelopes") || derivesFromEnvelopes(lk.X, 0) {
								return true
							}
						}
					case *ssa.Call: // errors.Is(err, sql.ErrNoRows)
						if staticIs(x, "errors.Is") && fct.True && len(x.Call.Args) == 2 && trimAddr(accessPath(x.Call.Args[1])) == "G:database/sql.ErrNoRows" {
							return true
						}
					case *ssa.BinOp:
						// err == sql.ErrNoRows
						if (x.Op == token.EQL) == fct.True && (x.Op == token.EQL || x.Op == token.NEQ) {
							if trimAddr(accessPath(x.X)) == "G:database/sql.ErrNoRows" || trimAddr(accessPath(x.Y)) == "G:database/sql.ErrNoRows" {
								return true
							}
						}
						// out.Item == nil / helper record == nil
						if v, isNil, ok := nilTest(fct); ok && isNil {
							ap := accessPath(v)
							root := rootOfPath(v)
							if strings.HasSuffix(ap, ".Item") && (isBackendRead(root) || isParam(root)) {
								return true
							}
							if ex, isE := resolve(v).(*ssa.Extract); isE && ex.Index == 0 {
								if cv, isC := ex.Tuple.(*ssa.Call); isC {
									if g := staticCallee(cv); g != nil && seen[g] {
										return true
									}
									if cv.Call.IsInvoke() && (cv.Call.Method.Name() == "Load" || cv.Call.Method.Name() == "LoadLatest") {
										return true
									}
								}
							}
						}
						// len(out.Items) == 0
						isLenItems := func(v ssa.Value) bool {
							cv, ok := v.(*ssa.Call)
							if !ok {
								return false
							}
							b, isB := cv.Call.Value.(*ssa.Builtin)
							if !isB || b.Name() != "len" {
								return false
							}
							a := cv.Call.Args[0]
							root := rootOfPath(a)
							return strings.HasSuffix(accessPath(a), ".Items") && (isBackendRead(root) || isParam(root))
						}
						if op, k, ok := cmpOnEdge(x, fct.True, isLenItems); ok {
							if (op == token.EQL && k == 0) || (op == token.LSS && k == 1) || (op == token.LEQ && k == 0) {
								return true
							}
						}
					}
				}
				return false
			}
			// greatest fixpoint: justified[b] = every way into b takes an absence edge somewhere
			just := map[*ssa.BasicBlock]bool{}
			for _, b := range f.Blocks {
				just[b] = b != f.Blocks[0]
			}
			for changed := true; changed; {
				changed = false
				for _, b := range f.Blocks {
					if !just[b] || b == f.Blocks[0] {
						continue
					}
					for _, p := range b.Preds {
						if !just[p] && !absenceEdge(p, b) {
							just[b] = false
							changed = true
							break
						}
					}
				}
			}
			for _, r := range returnsOf(f) {
				if !nothingReturn(r) {
					continue
				}
				c.CallSites++
				c.check(just[r.Block()], name+"/nothing", u.ipos(r), "`return nil, nil` only behind an absence edge of this call's read", "a path reaches `return nil, nil` without the backend having said the row is absent (backend error, or another condition, reported as \"no such key\"): the caller creates and stores a new key although one exists — a revoked or newer key in the table is masked and Load no longer returns what Store stored")
			}
		}
	}
}

// ---------------------------------------------------------------------------------------------
// C15.set-stamps-expiration

// ruleC15SetStampsExpiration: Get consults item.expiration whenever c.expiry > 0; so every path of Set on which
// c.expiry > 0 may hold must, after storing the value (update path) or creating the item (insert path), store
// clock.Now().Add(c.expiry) into that item's expiration. An update that leaves the old stamp makes the freshly set
// value disappear "by expiry" although it was set within the window; an insert without a stamp expires at once
// (zero time is before now).
func ruleC15SetStampsExpiration(c *Ctx) {
	u := c.U1
	c.rule("C15.set-stamps-expiration", "cache.Set: from the store of the value into an existing item, and from the creation of a new item, every path to return either stores clock.Now().Add(c.expiry) into that item's expiration or takes an edge on which c.expiry <= 0 is known", 2)
	f := u.Method(pkgCache, "cache", "Set")
	if f == nil || len(f.Params) < 3 {
		c.unresolved("cache.Set", "(*cache[K,V]).Set")
		return
	}
	c.FuncsAnalysed[shortName(f)] = true
	valP := ssa.Value(f.Params[2])
	isExpiry := func(v ssa.Value) bool { return strings.HasSuffix(accessPath(v), ".expiry") }
	voidEdge := func(from, to *ssa.BasicBlock) bool {
		for _, fct := range edgeFacts(from, to) {
			b, ok := fct.V.(*ssa.BinOp)
			if !ok || fct.Sub != nil {
				continue
			}
			if op, k, ok := cmpOnEdge(b, fct.True, isExpiry); ok {
				if (op == token.LEQ && k <= 0) || (op == token.LSS && k <= 1) || (op == token.EQL && k <= 0) {
					return true
				}
			}
		}
		return false
	}
	stampOf := func(item ssa.Value) func(ssa.Instruction) bool {
		return func(i ssa.Instruction) bool {
			st, ok := i.(*ssa.Store)
			if !ok {
				return false
			}
			fa, isF := st.Addr.(*ssa.FieldAddr)
			if !isF || fieldName(fa.X.Type(), fa.Field) != "expiration" || resolve(fa.X) != resolve(item) {
				return false
			}
			// value: <clock>.Now().Add(c.expiry)
			cv, isC := resolve(st.Val).(*ssa.Call)
			if !isC || !staticIs(cv, "(time.Time).Add") || len(cv.Call.Args) != 2 || !isExpiry(cv.Call.Args[1]) {
				return false
			}
			nw, isN := resolve(cv.Call.Args[0]).(*ssa.Call)
			return isN && nw.Call.IsInvoke() && nw.Call.Method.Name() == "Now"
		}
	}
	// a helper of the package that stamps the item it is given on every path where expiry may be positive
	stampHelper := map[*ssa.Function]int{}
	stampOrHelper := func(item ssa.Value) func(ssa.Instruction) bool {
		direct := stampOf(item)
		return func(i ssa.Instruction) bool {
			if direct(i) {
				return true
			}
			cv, ok := i.(*ssa.Call)
			if !ok {
				return false
			}
			h := staticCallee(cv)
			if h == nil || h.Blocks == nil || h.Pkg == nil || h.Pkg.Pkg.Path() != pkgCache {
				return false
			}
			for k, a := range cv.Call.Args {
				if resolve(a) != resolve(item) || k >= len(h.Params) {
					continue
				}
				key := k + 1
				if got, seen := stampHelper[h]; seen {
					return got == key
				}
				stampHelper[h] = 0
				if ok, _ := mustPass(h.Blocks[0], 0, stampOf(h.Params[k]), voidEdge); ok {
					stampHelper[h] = key
					return true
				}
			}
			return false
		}
	}
	n := 0
	allInstrs(f, func(i ssa.Instruction) {
		switch x := i.(type) {
		case *ssa.Store:
			fa, isF := x.Addr.(*ssa.FieldAddr)
			if !isF || fieldName(fa.X.Type(), fa.Field) != "value" || x.Val != valP {
				return
			}
			kind := "update"
			if a := allocOf(fa.X); a != nil {
				kind = "insert"
			}
			n++
			c.CallSites++
			ok, tr := mustPass(x.Block(), indexOf(x)+1, stampOrHelper(fa.X), voidEdge)
			if ok {
				c.ok("cache.Set/"+kind+"-stamps-expiration", u.ipos(x), "expiration = clock.Now().Add(c.expiry) follows on every path where expiry may be positive")
			} else {
				c.bad("cache.Set/"+kind+"-stamps-expiration", u.ipos(x), "Set stores the value but a path on which c.expiry > 0 may hold returns without stamping this item's expiration with clock.Now().Add(c.expiry): an updated entry keeps its old deadline (the value just set vanishes as \"expired\" early), a new entry carries the zero time and is expired at once", u.tracePositions(tr)...)
			}
		}
	})
	if n < 2 {
		c.bad("cache.Set/stamps-expiration", u.pos(f.Pos()), "expected the update-path and insert-path stores of the value argument in Set")
	}
}

// ---------------------------------------------------------------------------------------------
// E-TIME: exact linear evaluation of time arithmetic

// linT is a linear form over symbols, in nanoseconds: sum(coef[s]*s) + k. bad != "" means the value involves an
// operation that is not an exact instant/duration operation (calendar arithmetic, rounding, truncation, division, …).
type linT struct {
	coef map[string]int64
	k    int64
	bad  string
}

func linSym(s string) linT   { return linT{coef: map[string]int64{s: 1}} }
func linBad(why string) linT { return linT{bad: why} }
func (a linT) scale(m int64) linT {
	if a.bad != "" {
		return a
	}
	out := linT{coef: map[string]int64{}, k: a.k * m}
	for s, c := range a.coef {
		if c*m != 0 {
			out.coef[s] = c * m
		}
	}
	return out
}
func (a linT) plus(b linT) linT {
	if a.bad != "" {
		return a
	}
	if b.bad != "" {
		return b
	}
	out := linT{coef: map[string]int64{}, k: a.k + b.k}
	for s, c := range a.coef {
		out.coef[s] += c
	}
	for s, c := range b.coef {
		out.coef[s] += c
	}
	for s, c := range out.coef {
		if c == 0 {
			delete(out.coef, s)
		}
	}
	return out
}
func (a linT) equal(b linT) bool {
	if a.bad != "" || b.bad != "" || a.k != b.k || len(a.coef) != len(b.coef) {
		return false
	}
	for s, c := range a.coef {
		if b.coef[s] != c {
			return false
		}
	}
	return true
}
func (a linT) String() string {
	if a.bad != "" {
		return "⊥(" + a.bad + ")"
	}
	var parts []string
	for s, c := range a.coef {
		parts = append(parts, fmt.Sprintf("%d·%s", c, s))
	}
	sort.Strings(parts)
	if a.k != 0 || len(parts) == 0 {
		parts = append(parts, fmt.Sprint(a.k))
	}
	return strings.Join(parts, " + ")
}

// evalTime evaluates an instant (time.Time, as ns since the epoch), a time.Duration or an integer. sym names
// parameters and other leaves.
func evalTime(v ssa.Value, sym func(ssa.Value) (string, bool), depth int) linT {
	if depth > 16 {
		return linBad("expression too deep")
	}
	v = resolve(v)
	if s, ok := sym(v); ok {
		return linSym(s)
	}
	switch x := v.(type) {
	case *ssa.Const:
		if x.Value != nil && x.Value.Kind() == constant.Int {
			if k, ok := constantInt64(x.Value); ok {
				return linT{coef: map[string]int64{}, k: k}
			}
		}
		return linBad("constant " + x.String())
	case *ssa.Convert:
		if b, ok := x.Type().Underlying().(*types.Basic); ok && b.Info()&types.IsInteger != 0 {
			if b2, ok2 := x.X.Type().Underlying().(*types.Basic); ok2 && b2.Info()&types.IsInteger != 0 {
				return evalTime(x.X, sym, depth+1)
			}
		}
		return linBad("conversion " + x.X.Type().String() + "→" + x.Type().String())
	case *ssa.ChangeType:
		return evalTime(x.X, sym, depth+1)
	case *ssa.BinOp:
		switch x.Op {
		case token.ADD:
			return evalTime(x.X, sym, depth+1).plus(evalTime(x.Y, sym, depth+1))
		case token.SUB:
			return evalTime(x.X, sym, depth+1).plus(evalTime(x.Y, sym, depth+1).scale(-1))
		case token.MUL:
			a, b := evalTime(x.X, sym, depth+1), evalTime(x.Y, sym, depth+1)
			if a.bad == "" && len(a.coef) == 0 {
				return b.scale(a.k)
			}
			if b.bad == "" && len(b.coef) == 0 {
				return a.scale(b.k)
			}
			return linBad("non-linear product")
		}
		return linBad("operator " + x.Op.String())
	case *ssa.Call:
		g := staticCallee(x)
		if g == nil {
			if x.Call.IsInvoke() && x.Call.Method.Name() == "Now" && len(x.Call.Args) == 0 {
				return linSym("now")
			}
			return linBad("dynamic call")
		}
		args := x.Call.Args
		switch funcFullName(g) {
		case "time.Now":
			return linSym("now")
		case "time.Unix":
			return evalTime(args[0], sym, depth+1).scale(1e9).plus(evalTime(args[1], sym, depth+1))
		case "time.UnixMilli":
			return evalTime(args[0], sym, depth+1).scale(1e6)
		case "(time.Time).Add":
			return evalTime(args[0], sym, depth+1).plus(evalTime(args[1], sym, depth+1))
		case "(time.Time).Sub":
			return evalTime(args[0], sym, depth+1).plus(evalTime(args[1], sym, depth+1).scale(-1))
		case "time.Since":
			return linSym("now").plus(evalTime(args[0], sym, depth+1).scale(-1))
		case "time.Until":
			return evalTime(args[0], sym, depth+1).plus(linSym("now").scale(-1))
		case "(time.Time).UTC", "(time.Time).Local", "(time.Time).In":
			return evalTime(args[0], sym, depth+1) // the same instant
		case "(time.Time).UnixNano", "(time.Duration).Nanoseconds":
			return evalTime(args[0], sym, depth+1)
		}
		return linBad(funcFullName(g))
	}
	return linBad(describeOperand(v))
}

// evalTimeVerdict evaluates a boolean into "L > 0" (strict) or "L >= 0".
func evalTimeVerdict(v ssa.Value, sym func(ssa.Value) (string, bool), depth int) (l linT, strict bool) {
	v = resolve(v)
	neg := func(l linT, strict bool) (linT, bool) { return l.scale(-1), !strict }
	switch x := v.(type) {
	case *ssa.UnOp:
		if x.Op == token.NOT {
			return neg(evalTimeVerdict(x.X, sym, depth+1))
		}
	case *ssa.BinOp:
		a, b := evalTime(x.X, sym, depth+1), evalTime(x.Y, sym, depth+1)
		switch x.Op {
		case token.GTR:
			return a.plus(b.scale(-1)), true
		case token.GEQ:
			return a.plus(b.scale(-1)), false
		case token.LSS:
			return b.plus(a.scale(-1)), true
		case token.LEQ:
			return b.plus(a.scale(-1)), false
		}
		return linBad("comparison " + x.Op.String()), false
	case *ssa.Call:
		if g := staticCallee(x); g != nil {
			switch funcFullName(g) {
			case "(time.Time).After":
				return evalTime(x.Call.Args[0], sym, depth+1).plus(evalTime(x.Call.Args[1], sym, depth+1).scale(-1)), true
			case "(time.Time).Before":
				return evalTime(x.Call.Args[1], sym, depth+1).plus(evalTime(x.Call.Args[0], sym, depth+1).scale(-1)), true
			}
			return linBad(funcFullName(g)), false
		}
	}
	return linBad("not a time comparison: " + describeOperand(v)), false
}

// ruleC04ExpiryArithmeticExact: "expired" means exactly now > created·1s + expireAfter. IsKeyExpired is the one place
// every validity decision of the SDK funnels into (IsKeyInvalid, isEnvelopeInvalid, keyCache.IsInvalid — their shapes
// are C04.latest-revalidated / C04.loader-rejects-invalid); here its own arithmetic is evaluated exactly: any calendar
// arithmetic (AddDate follows the local zone's DST), rounding, truncation, unit conversion or division makes keys
// outlive their lifetime on some clock readings and is reported.
func ruleC04ExpiryArithmeticExact(c *Ctx) {
	u := c.U1
	c.rule("C04.expiry-arithmetic-exact", "internal.IsKeyExpired(created, expireAfter) returns, on every path, a comparison that evaluates (exact linear evaluation of time.Unix/Add/Sub/Since/After/Before and integer +,-,·const) to now − 1e9·created − expireAfter > 0 (or ≥ 0): no calendar arithmetic, rounding, truncation, unit conversion or division", 1)
	f := u.Func(pkgInt, "IsKeyExpired")
	if f == nil || f.Blocks == nil || len(f.Params) != 2 {
		c.unresolved("internal.IsKeyExpired", "IsKeyExpired(created, expireAfter)")
		return
	}
	c.FuncsAnalysed[shortName(f)] = true
	sym := func(v ssa.Value) (string, bool) {
		for k, p := range f.Params {
			if ssa.Value(p) == v {
				return fmt.Sprintf("p%d", k), true
			}
		}
		return "", false
	}
	want := linSym("now").plus(linSym("p0").scale(-1e9)).plus(linSym("p1").scale(-1))
	n := 0
	for _, r := range returnsOf(f) {
		if len(r.Results) != 1 {
			continue
		}
		n++
		c.CallSites++
		var check func(v ssa.Value, depth int) (bool, string)
		check = func(v ssa.Value, depth int) (bool, string) {
			v = resolve(v)
			if phi, isPhi := v.(*ssa.Phi); isPhi && depth < 4 {
				for _, e := range phi.Edges {
					if ok, why := check(e, depth+1); !ok {
						return false, why
					}
				}
				return true, ""
			}
			l, _ := evalTimeVerdict(v, sym, 0)
			if l.equal(want) {
				return true, ""
			}
			return false, l.String()
		}
		ok, why := check(returnedValue(r, 0), 0)
		c.check(ok, "internal.IsKeyExpired/verdict", u.ipos(r), "now − 1e9·created − expireAfter > 0", "the expiry verdict is not the exact comparison now > created·1s + expireAfter (evaluates to: "+why+" > 0): with calendar arithmetic, rounding, truncation or unit conversion a key is still accepted for new data on some clock readings after its lifetime has passed")
	}
	if n == 0 {
		c.bad("internal.IsKeyExpired/verdict", u.pos(f.Pos()), "no return found")
	}
}

// ---------------------------------------------------------------------------------------------
// C05.policy-durations-verbatim

// ruleC05PolicyDurationsVerbatim: the three durations every validity decision reads — ExpireKeyAfter,
// RevokeCheckInterval, CreateDatePrecision — hold what the application configured: they are written only by the
// literal in NewCryptoPolicy (defaults, before any option runs) and by an option closure storing the option
// constructor's own parameter. A clamp, a "sanitised" default for 0, a unit conversion or a write from elsewhere makes
// the effective interval differ from the configured one (a configured 0 — "always re-check" — silently becomes an hour).
func ruleC05PolicyDurationsVerbatim(c *Ctx) {
	u := c.U1
	c.rule("C05.policy-durations-verbatim", "CryptoPolicy.ExpireKeyAfter / RevokeCheckInterval / CreateDatePrecision are stored only (a) as constants in NewCryptoPolicy's literal, before any call, and (b) in a closure returned by an option constructor, storing that constructor's duration parameter unmodified", 5)
	fields := map[string]bool{"ExpireKeyAfter": true, "RevokeCheckInterval": true, "CreateDatePrecision": true}
	n := 0
	for _, f := range u.RepoFuncs {
		if f.Pkg == nil && f.Parent() == nil {
			continue
		}
		root := rootFunc(f)
		if root.Pkg == nil || !strings.HasPrefix(root.Pkg.Pkg.Path(), modApp) || strings.Contains(root.Pkg.Pkg.Path(), "/mocks") {
			continue
		}
		allInstrs(f, func(i ssa.Instruction) {
			st, ok := i.(*ssa.Store)
			if !ok {
				return
			}
			fa, isF := st.Addr.(*ssa.FieldAddr)
			if !isF {
				return
			}
			pt, isP := types.Unalias(fa.X.Type()).Underlying().(*types.Pointer)
			if !isP || !typeIsNamed(pt.Elem(), pkgApp, "CryptoPolicy") || !fields[fieldName(fa.X.Type(), fa.Field)] {
				return
			}
			n++
			c.CallSites++
			c.FuncsAnalysed[shortName(f)] = true
			fld := fieldName(fa.X.Type(), fa.Field)
			construct := trimPkgDirs(shortName(f)) + "/" + fld
			okStore, why := false, ""
			_, freshLit := fa.X.(*ssa.Alloc)
			switch {
			case f.Parent() == nil && (f.Name() == "NewCryptoPolicy" || freshLit):
				// the defaults literal: in NewCryptoPolicy itself or in a constructor of defaults it calls
				_, isConst := constOf(st.Val)
				_, fresh := fa.X.(*ssa.Alloc)
				early := st.Block() == f.Blocks[0]
				if early {
					for _, j := range f.Blocks[0].Instrs[:indexOf(st)] {
						if _, isCall := j.(ssa.CallInstruction); isCall {
							early = false
						}
					}
				}
				okStore = isConst && fresh && early
				why = "the field is written outside a defaults literal (after options ran, into a policy this function did not just allocate, or a non-constant)"
			case f.Parent() != nil:
				// option closure: the stored value is the constructor's parameter, captured
				par := f.Parent()
				if fv, isFV := resolve(st.Val).(*ssa.FreeVar); isFV {
					_ = fv
				}
				ap := trimAddr(accessPath(st.Val))
				for _, p := range par.Params {
					if ap == "P:"+p.Name() && len(*p.Referrers()) >= 1 {
						okStore = true
					}
				}
				// the parameter itself must not be reassigned in the constructor
				if okStore {
					for _, p := range par.Params {
						if ap != "P:"+p.Name() {
							continue
						}
						for _, r := range *p.Referrers() {
							if s2, isS := r.(*ssa.Store); isS && s2.Val == ssa.Value(p) {
								if a, isA := s2.Addr.(*ssa.Alloc); isA && len(localStores(a)) > 1 {
									okStore = false
								}
							}
						}
					}
				}
				why = "an option stores something other than its constructor's parameter"
			default:
				why = "written outside NewCryptoPolicy and the option closures"
			}
			c.check(okStore, construct, u.ipos(i), "default literal / option parameter stored verbatim", "CryptoPolicy."+fld+" — "+why+": the duration the SDK enforces is no longer the one that was configured (a configured RevokeCheckInterval of 0 must mean \"re-check on every use\", a configured lifetime must be the lifetime)")
		})
	}
	if n == 0 {
		c.bad("CryptoPolicy/durations", "", "no store to the policy's duration fields found")
	}
}

// ---------------------------------------------------------------------------------------------
// C13.projection-covers-record

// ruleC13ProjectionCoversRecord: a DynamoDB read that projects attributes must project, whole, every non-key attribute
// Store writes (today: the record attribute); a projection onto sub-paths (KeyRecord.Key, KeyRecord.Created, …) silently
// drops the others — above all Revoked, which an operator adds later — and the decoder fills them with zero values.
func ruleC13ProjectionCoversRecord(c *Ctx) {
	u := c.U1
	c.rule("C13.projection-covers-record", "in both DynamoDB metastores every expression.NamesList(...) names only whole top-level attributes (constant names without a document path) and among them every non-key attribute that Store's PutItem writes (the Item literal's keys minus the GetItem Key literal's keys)", 2)
	for _, m := range metastoreImpls(c) {
		if !strings.HasPrefix(m.Kind, "dynamo") {
			continue
		}
		pkg := m.N.Obj().Pkg().Path()
		written, keyAttrs := map[string]bool{}, map[string]bool{}
		for _, r := range clientRequests(u, pkg, "PutItem") {
			if r.Input != nil {
				for _, k := range mapLitKeys(litFields(r.Input)["Item"]) {
					written[k] = true
				}
			}
		}
		for _, r := range clientRequests(u, pkg, "GetItem") {
			if r.Input != nil {
				for _, k := range mapLitKeys(litFields(r.Input)["Key"]) {
					keyAttrs[k] = true
				}
			}
		}
		var required []string
		for k := range written {
			if !keyAttrs[k] {
				required = append(required, k)
			}
		}
		sort.Strings(required)
		if len(written) == 0 || len(keyAttrs) == 0 || len(required) == 0 {
			c.undecided(trimPkgDirs(pkg)+"/attributes", "", fmt.Sprintf("could not read the attribute names from the PutItem Item / GetItem Key literals (written %v, key %v)", keysOf(written), keysOf(keyAttrs)))
			continue
		}
		nl := 0
		for _, f := range u.RepoFuncs {
			if f.Pkg == nil || f.Pkg.Pkg.Path() != pkg {
				continue
			}
			allInstrs(f, func(i ssa.Instruction) {
				cv, ok := i.(*ssa.Call)
				if !ok {
					return
				}
				g := staticCallee(cv)
				if g == nil || g.Name() != "NamesList" || g.Pkg == nil || !strings.HasSuffix(g.Pkg.Pkg.Path(), "/expression") {
					return
				}
				nl++
				c.CallSites++
				c.FuncsAnalysed[shortName(f)] = true
				names := map[string]bool{}
				opaque := ""
				addName := func(v ssa.Value) {
					nc, isC := resolve(v).(*ssa.Call)
					if isC {
						if h := staticCallee(nc); h != nil && h.Name() == "Name" && len(nc.Call.Args) == 1 {
							if k, isK := constOf(nc.Call.Args[0]); isK && k.Kind() == constant.String {
								names[constant.StringVal(k)] = true
								return
							}
						}
					}
					opaque = describeOperand(v)
				}
				for _, a := range cv.Call.Args {
					if sl, isS := a.(*ssa.Slice); isS {
						if al, isA := sl.X.(*ssa.Alloc); isA {
							for _, r := range *al.Referrers() {
								if ia, isIA := r.(*ssa.IndexAddr); isIA {
									for _, r2 := range *ia.Referrers() {
										if st, isSt := r2.(*ssa.Store); isSt {
											addName(st.Val)
										}
									}
								}
							}
							continue
						}
						opaque = describeOperand(a)
						continue
					}
					if isNilConst(a) {
						continue
					}
					addName(a)
				}
				construct := trimPkgDirs(shortName(f)) + "/projection"
				if opaque != "" {
					c.undecided(construct, u.ipos(i), "a projected name is not expression.Name(<constant>): "+opaque)
					return
				}
				bad := ""
				for n := range names {
					if strings.ContainsAny(n, ".[") {
						bad = "projects the document path " + n + " instead of a whole attribute"
					}
				}
				for _, r := range required {
					if !names[r] && bad == "" {
						bad = "does not project the attribute " + r + " that Store writes"
					}
				}
				c.check(bad == "", construct, u.ipos(i), fmt.Sprintf("projects %v ⊇ %v, whole attributes", keysOf(names), required), "the read "+bad+fmt.Sprintf(" (projected: %v; written by Store besides the key: %v): fields outside the projection — Revoked is added to a stored record later by the operator — never reach the decoder and come back as zero values, so a revoked key is read as valid for ever", keysOf(names), required))
			})
		}
		if nl == 0 {
			c.ok(trimPkgDirs(pkg)+"/projection", "", "no projection is built in this package: whole items are read")
		}
	}
}

func keysOf(m map[string]bool) []string {
	var out []string
	for k := range m {
		out = append(out, k)
	}
	sort.Strings(out)
	return out
}

// ---------------------------------------------------------------------------------------------
// C10.accessor-forwards-action-result

// ruleC10AccessorForwardsActionResult: the SDK's callers of WithBytesFunc wipe whatever the accessor returns together
// with an error (C10.accessor-error-discards-result). That only works if an accessor implementation never drops the
// action's result on the floor: once its action has run, the []byte it returns is the action's result on every path
// (in particular when re-protecting the pages fails afterwards) — or it wipes that result itself.
func ruleC10AccessorForwardsActionResult(c *Ctx) {
	u := c.U1
	c.rule("C10.accessor-forwards-action-result", "in every accessor implementation (a method WithBytesFunc that calls its action parameter) the []byte result slot is written only with the action's own result — in the method and in its deferred closures — unless that result is wiped first: the plaintext an action produced is never dropped un-wiped when release fails", 2)
	n := 0
	for _, f := range u.RepoFuncs {
		if f.Name() != "WithBytesFunc" || f.Signature.Recv() == nil || f.Blocks == nil || f.Pkg == nil || strings.Contains(f.Pkg.Pkg.Path(), "/mocks") || f.Synthetic != "" {
			continue
		}
		// the action call
		var action *ssa.Call
		allInstrs(f, func(i ssa.Instruction) {
			cv, ok := i.(*ssa.Call)
			if !ok || cv.Call.IsInvoke() {
				return
			}
			for _, p := range f.Params {
				if resolve(cv.Call.Value) == ssa.Value(p) {
					action = cv
				}
			}
		})
		if action == nil {
			continue // forwards to another accessor: C10.accessor-error-discards-result
		}
		n++
		c.FuncsAnalysed[shortName(f)] = true
		name := trimPkgDirs(shortName(f))
		isActionData := func(v ssa.Value) bool {
			ex, ok := resolve(v).(*ssa.Extract)
			return ok && ex.Tuple == ssa.Value(action) && isByteSlice(ex.Type())
		}
		wipedBefore := func(st *ssa.Store, slot ssa.Value) bool {
			// a wipe of the slot's current content earlier in the same block
			for _, j := range st.Block().Instrs[:indexOf(st)] {
				if g := staticCallee(j); g != nil && isWipeFunc(g) {
					if a := callOf(j).Args; len(a) > 0 {
						if ld, isL := a[0].(*ssa.UnOp); isL && ld.Op == token.MUL && resolveSlot(ld.X) == resolveSlot(slot) {
							return true
						}
					}
				}
			}
			return false
		}
		// result slot (named result) if any
		var slot *ssa.Alloc
		for _, r := range returnsOf(f) {
			if len(r.Results) == 2 {
				if ld, ok := r.Results[0].(*ssa.UnOp); ok && ld.Op == token.MUL {
					if a, isA := ld.X.(*ssa.Alloc); isA {
						slot = a
					}
				}
			}
		}
		bad := ""
		badPos := ""
		if slot != nil {
			for _, g := range withAnon(f) {
				allInstrs(g, func(i ssa.Instruction) {
					st, ok := i.(*ssa.Store)
					if !ok || resolveSlot(st.Addr) != ssa.Value(slot) {
						return
					}
					c.CallSites++
					if isActionData(st.Val) {
						return
					}
					if g == f && !reaches(action, st) {
						return // before the action ran (early error return): nothing to lose
					}
					if wipedBefore(st, st.Addr) {
						return
					}
					bad, badPos = "the result slot is overwritten with "+describeOperand(st.Val)+" after the action ran", u.ipos(st)
				})
			}
		} else {
			for _, r := range returnsOf(f) {
				if len(r.Results) != 2 || !reaches(action, r) {
					continue
				}
				c.CallSites++
				if !isActionData(returnedValue(r, 0)) {
					bad, badPos = "a return after the action ran carries "+describeOperand(returnedValue(r, 0))+" instead of the action's result", u.ipos(r)
				}
			}
		}
		if bad == "" {
			c.ok(name+"/result", u.pos(f.Pos()), "only the action's own result is ever returned once it ran")
		} else {
			c.bad(name+"/result", badPos, bad+": the plaintext key bytes the action produced are dropped without being wiped (the callers can only wipe what they are handed), so a failing release/re-protect leaves an unwrapped key on the heap")
		}
	}
	if n == 0 {
		c.bad("WithBytesFunc/implementations", "", "no accessor implementation calling its action found")
	}
}

// resolveSlot maps a free variable bound to a local of the enclosing function to that local.
func resolveSlot(v ssa.Value) ssa.Value {
	if fv, ok := v.(*ssa.FreeVar); ok {
		fn := fv.Parent()
		for idx, x := range fn.FreeVars {
			if x == fv {
				for _, mc := range makeClosuresOf(fn) {
					if idx < len(mc.Bindings) {
						return resolveSlot(mc.Bindings[idx])
					}
				}
			}
		}
	}
	return v
}

func isWipeFunc(g *ssa.Function) bool {
	switch funcFullName(g) {
	case fnMemClr, fnCoreWipe:
		return true
	}
	return g.Name() == "WipeBytes" || g.Name() == "Wipe" || g.Name() == "MemClr"
}

// ---------------------------------------------------------------------------------------------
// C07.decoded-pointer-elements-guarded

// decodedStructs: the named struct types (declared in the repository) that can occur inside a value of type t.
func decodedStructs(t types.Type, into map[*types.Named]bool, depth int) {
	if depth > 8 {
		return
	}
	switch x := types.Unalias(t).(type) {
	case *types.Pointer:
		decodedStructs(x.Elem(), into, depth+1)
	case *types.Slice:
		decodedStructs(x.Elem(), into, depth+1)
	case *types.Array:
		decodedStructs(x.Elem(), into, depth+1)
	case *types.Map:
		decodedStructs(x.Elem(), into, depth+1)
	case *types.Named:
		st, ok := x.Underlying().(*types.Struct)
		if !ok || into[x] {
			return
		}
		if x.Obj().Pkg() == nil || !strings.HasPrefix(x.Obj().Pkg().Path(), "github.com/godaddy/asherah/") && !strings.HasPrefix(x.Obj().Pkg().Path(), "fixtures/") {
			return
		}
		into[x] = true
		for i := 0; i < st.NumFields(); i++ {
			decodedStructs(st.Field(i).Type(), into, depth+1)
		}
	}
}

type elemDeref struct {
	Instr ssa.Instruction
	Ptr   ssa.Value
}

// nullableElementDerefs: dereferences (field access, load) in f of a pointer that was read out of a slice or map of
// pointers to a decoded struct type, with no dominating non-nil test of that pointer. A JSON `null` among the elements
// decodes to a nil pointer.
func nullableElementDerefs(f *ssa.Function, decoded map[*types.Named]bool) []elemDeref {
	isDecodedPtr := func(t types.Type) bool {
		p, ok := types.Unalias(t).Underlying().(*types.Pointer)
		if !ok {
			return false
		}
		n, ok := namedOf(p.Elem())
		return ok && decoded[n]
	}
	fromContainer := func(v ssa.Value) bool {
		switch x := v.(type) {
		case *ssa.UnOp:
			if x.Op == token.MUL {
				if ia, ok := x.X.(*ssa.IndexAddr); ok {
					_, isSl := ia.X.Type().Underlying().(*types.Slice)
					return isSl
				}
			}
		case *ssa.Index:
			return true
		case *ssa.Lookup:
			_, isMap := x.X.Type().Underlying().(*types.Map)
			return isMap
		case *ssa.Extract:
			switch t := x.Tuple.(type) {
			case *ssa.Lookup:
				return x.Index == 0
			case *ssa.Next:
				return !t.IsString && x.Index == 2
			}
		}
		return false
	}
	var out []elemDeref
	allInstrs(f, func(i ssa.Instruction) {
		var p ssa.Value
		switch x := i.(type) {
		case *ssa.FieldAddr:
			p = x.X
		case *ssa.UnOp:
			if x.Op == token.MUL {
				p = x.X
			}
		}
		if p == nil || !isDecodedPtr(p.Type()) || !fromContainer(p) {
			return
		}
		if knownNonNil(p, i.Block()) {
			return
		}
		out = append(out, elemDeref{i, p})
	})
	return out
}

// ruleC07DecodedPointerElementsGuarded: whatever is decoded from a stored or transmitted document is attacker- or
// corruption-controlled: a `null` among the elements of a []*T / map[…]*T decodes to a nil pointer. On the decrypt
// path every such element is tested before it is dereferenced.
func ruleC07DecodedPointerElementsGuarded(c *Ctx) {
	u := c.U1
	c.rule("C07.decoded-pointer-elements-guarded", "for every struct type that json.Unmarshal decodes into on the decrypt path (reachable from DecryptDataRowRecord / Session.Load / Session.Decrypt, KMS plugins included): a pointer read out of a slice or map of pointers to such a type, and a pointer variable that json.Unmarshal fills through its address (**T target), is dereferenced only under a dominating non-nil test (a `null` must yield an error, not a panic)", 0)
	cg := newCallGraph(u)
	funcs := map[*ssa.Function]bool{}
	for _, start := range []*ssa.Function{u.Method(pkgApp, "envelopeEncryption", "DecryptDataRowRecord"), u.Method(pkgApp, "Session", "Load"), u.Method(pkgApp, "Session", "Decrypt")} {
		if start == nil {
			c.unresolved("decrypt entry points", "DecryptDataRowRecord / Session.Load")
			return
		}
		for f := range cg.reachableFrom(start) {
			if f.Blocks != nil && f.Pkg != nil && strings.HasPrefix(f.Pkg.Pkg.Path(), "github.com/godaddy/asherah/") {
				funcs[f] = true
			}
		}
	}
	decoded := map[*types.Named]bool{}
	targets := 0
	for f := range funcs {
		allInstrs(f, func(i ssa.Instruction) {
			g := staticCallee(i)
			if g == nil || funcFullName(g) != "encoding/json.Unmarshal" {
				return
			}
			targets++
			a := callOf(i).Args[1]
			if mi, ok := a.(*ssa.MakeInterface); ok {
				decodedStructs(mi.X.Type(), decoded, 0)
			}
		})
	}
	n := 0
	for f := range funcs {
		for _, d := range nullableElementDerefs(f, decoded) {
			n++
			c.CallSites++
			c.bad(trimPkgDirs(shortName(f))+"/element "+describeOperand(d.Ptr), u.ipos(d.Instr), "a pointer element of a decoded list/map is dereferenced without a non-nil test: a `null` entry in the stored document (a corrupted or forged key envelope) crashes the process with a nil dereference instead of producing an error")
		}
		// a pointer variable decoded through &p (a **T target) is nil after the JSON literal `null`
		for _, d := range nilableDecodeTargetDerefs(f) {
			n++
			c.CallSites++
			c.bad(trimPkgDirs(shortName(f))+"/decoded-pointer "+describeOperand(d.Ptr), u.ipos(d.Instr), "a pointer that json.Unmarshal filled through its address is dereferenced without a non-nil test: a stored document consisting of the JSON literal `null` decodes without error and leaves the pointer nil — a corrupted key row crashes the process instead of producing an error")
		}
	}
	c.check(targets > 0, "decrypt-path/json-targets", "", fmt.Sprintf("%d json.Unmarshal targets on the decrypt path, %d decoded struct types, %d unguarded element dereferences", targets, len(decoded), n), "no json.Unmarshal found on the decrypt path: the rule would pass vacuously")
}

// ---------------------------------------------------------------------------------------------
// C02.errors-are-not-remembered

// rememberedErrorLeaf: the provenance of an error value that is not produced by this invocation: a value read out of a
// map, or out of a field of an object that outlives the call.
func rememberedErrorLeaf(v ssa.Value, seen map[ssa.Value]bool, depth int) string {
	if depth > 10 || seen[v] {
		return ""
	}
	seen[v] = true
	switch x := v.(type) {
	case *ssa.Phi:
		for _, e := range x.Edges {
			if s := rememberedErrorLeaf(e, seen, depth+1); s != "" {
				return s
			}
		}
	case *ssa.Extract:
		if lk, ok := x.Tuple.(*ssa.Lookup); ok {
			return "a map lookup (" + describeOperand(lk.X) + ")"
		}
		if ta, ok := x.Tuple.(*ssa.TypeAssert); ok {
			return rememberedErrorLeaf(ta.X, seen, depth+1)
		}
	case *ssa.Lookup:
		if _, isMap := x.X.Type().Underlying().(*types.Map); isMap {
			return "a map lookup (" + describeOperand(x.X) + ")"
		}
	case *ssa.Field:
		return rememberedErrorLeaf(x.X, seen, depth+1)
	case *ssa.MakeInterface:
		return rememberedErrorLeaf(x.X, seen, depth+1)
	case *ssa.ChangeInterface:
		return rememberedErrorLeaf(x.X, seen, depth+1)
	case *ssa.UnOp:
		if x.Op != token.MUL {
			return ""
		}
		switch a := x.X.(type) {
		case *ssa.Alloc:
			for _, s := range localStores(a) {
				if r := rememberedErrorLeaf(s, seen, depth+1); r != "" {
					return r
				}
			}
		case *ssa.FieldAddr:
			if la, local := a.X.(*ssa.Alloc); local {
				// a local struct: where does the whole struct come from?
				for _, sv := range localStores(la) {
					if r := rememberedErrorLeaf(sv, seen, depth+1); r != "" {
						return r
					}
				}
				return ""
			}
			return "the field " + trimAddr(accessPath(a)) + " of an object that outlives the call"
		case *ssa.IndexAddr:
			return "an element of " + describeOperand(a.X)
		}
	}
	return ""
}

// ruleC02ErrorsNotRemembered: "once the faults stop the next operation succeeds": an error the SDK returns is the
// error of an attempt made by this very call. A remembered failure (negative cache, back-off table, last-error field)
// keeps failing callers — on a shared cache, callers of every partition — after the metastore and KMS have recovered.
func ruleC02ErrorsNotRemembered(c *Ctx) {
	u := c.U1
	c.rule("C02.errors-are-not-remembered", "in package appencryption no function returns an error value that was read out of a map, or out of a field of an object that outlives the call: every returned error is produced by a call made in this invocation (or is a constant / a package-level sentinel)", 40)
	for _, f := range u.RepoFuncs {
		root := rootFunc(f)
		if root.Pkg == nil || root.Pkg.Pkg.Path() != pkgApp || f.Blocks == nil {
			continue
		}
		if root.Name() == "Close" {
			continue // an idempotent Close may report its first outcome again; the clause is about operations
		}
		res := f.Signature.Results()
		for k := 0; k < res.Len(); k++ {
			if !isErrorType(res.At(k).Type()) {
				continue
			}
			for _, r := range returnsOf(f) {
				if k >= len(r.Results) {
					continue
				}
				v := returnedValue(r, k)
				if isNilValue(v) {
					continue
				}
				c.CallSites++
				c.FuncsAnalysed[shortName(f)] = true
				why := rememberedErrorLeaf(v, map[ssa.Value]bool{}, 0)
				c.check(why == "", trimPkgDirs(shortName(f))+"/returned-error", u.ipos(r), "the returned error is produced by this call", "the error returned here is read from "+why+", not produced by an attempt made in this call: a failure that has been remembered keeps being reported after the metastore/KMS fault is over, so the next operation does not succeed (and on a shared key cache it fails for other partitions too)")
			}
		}
	}
}

// ---------------------------------------------------------------------------------------------
// C15: the victim end of each recency list, and recency refresh on access

// listFieldOf: the name of the list field the receiver of a container/list call is loaded from ("evictList",
// "probationList", "byAccess", …), or "".
func listFieldOf(i ssa.Instruction) string {
	cc := callOf(i)
	if cc == nil || len(cc.Args) == 0 {
		return ""
	}
	ap := trimAddr(accessPath(cc.Args[0]))
	if k := strings.LastIndex(ap, "."); k >= 0 {
		return ap[k+1:]
	}
	if ld, ok := cc.Args[0].(*ssa.UnOp); ok && ld.Op == token.MUL {
		if fa, isF := ld.X.(*ssa.FieldAddr); isF {
			return fieldName(fa.X.Type(), fa.Field)
		}
	}
	return ""
}

// ruleC15VictimEnd: "LRU, LFU and SLRU choose their victims as their definitions say". Per recency list of a policy:
// every insertion / refresh goes to one end (PushFront/MoveToFront, or PushBack/MoveToBack) and every place that picks
// an element to evict or demote reads the opposite end. A list kept in key order by InsertAfter/InsertBefore (the LFU
// frequency list, ascending) is read from its Front. And SLRU takes a victim from the protected segment only where the
// probation segment is known to be empty.
func ruleC15VictimEnd(c *Ctx) {
	u := c.U1
	c.rule("C15.victim-end", "per list field of every eviction policy: all PushFront/MoveToFront/PushBack/MoveToBack calls use one end and all Front()/Back() reads the other; a list that is also filled with InsertAfter/InsertBefore (LFU frequencies, ascending) is read with Front(); slru.Victim reads protectedList only where probationList.Len() is known to be 0", 4)
	for _, nt := range policyImpls(u) {
		type use struct {
			ins, reads map[string][]ssa.Instruction
			ordered    bool
		}
		lists := map[string]*use{}
		get := func(n string) *use {
			if lists[n] == nil {
				lists[n] = &use{ins: map[string][]ssa.Instruction{}, reads: map[string][]ssa.Instruction{}}
			}
			return lists[n]
		}
		ms := declMethods(u, nt)
		for _, f := range ms {
			c.FuncsAnalysed[shortName(f)] = true
			for _, g := range withAnon(f) {
				allInstrs(g, func(i ssa.Instruction) {
					op := listCallName(i)
					if op == "" {
						return
					}
					fld := listFieldOf(i)
					if fld == "" {
						return
					}
					switch op {
					case "PushFront", "MoveToFront":
						get(fld).ins["front"] = append(get(fld).ins["front"], i)
					case "PushBack", "MoveToBack":
						get(fld).ins["back"] = append(get(fld).ins["back"], i)
					case "InsertAfter", "InsertBefore":
						get(fld).ordered = true
					case "Front":
						get(fld).reads["front"] = append(get(fld).reads["front"], i)
					case "Back":
						get(fld).reads["back"] = append(get(fld).reads["back"], i)
					}
				})
			}
		}
		for fld, us := range lists {
			construct := nt.Obj().Name() + "." + fld
			if len(us.reads["front"])+len(us.reads["back"]) == 0 {
				continue
			}
			c.CallSites++
			if us.ordered {
				if len(us.reads["back"]) > 0 {
					c.bad(construct, u.ipos(us.reads["back"][0]), "the ordered (ascending) list is read from its Back: the victim comes from the highest bucket, i.e. the most frequently used entries are evicted first")
				} else {
					c.ok(construct, u.ipos(us.reads["front"][0]), "ordered list read from Front")
				}
				continue
			}
			switch {
			case len(us.ins["front"]) > 0 && len(us.ins["back"]) > 0:
				c.bad(construct, u.ipos(us.ins["back"][0]), "entries are inserted/refreshed at both ends of this recency list: its order no longer is recency order")
			case len(us.ins["front"]) > 0 && len(us.reads["front"]) > 0:
				c.bad(construct, u.ipos(us.reads["front"][0]), "the victim (or the entry to demote) is read from the end where entries are inserted and refreshed: the most recently used entry is evicted instead of the least recently used one")
			case len(us.ins["back"]) > 0 && len(us.reads["back"]) > 0:
				c.bad(construct, u.ipos(us.reads["back"][0]), "the victim (or the entry to demote) is read from the end where entries are inserted and refreshed: the most recently used entry is evicted instead of the least recently used one")
			case len(us.ins["front"])+len(us.ins["back"]) == 0:
				c.undecided(construct, u.ipos(append(us.reads["front"], us.reads["back"]...)[0]), "no insertion into this list found among the policy's methods")
			default:
				c.ok(construct, u.ipos(append(us.reads["front"], us.reads["back"]...)[0]), "inserted/refreshed at one end, evicted/demoted from the other")
			}
		}
		// SLRU: protected victims only when probation is empty
		if v := ms["Victim"]; v != nil {
			allInstrs(v, func(i ssa.Instruction) {
				if listCallName(i) != "Back" && listCallName(i) != "Front" {
					return
				}
				if listFieldOf(i) != "protectedList" {
					return
				}
				c.CallSites++
				empty := false
				for _, fct := range factsAt(i.Block()) {
					b, ok := fct.V.(*ssa.BinOp)
					if !ok {
						continue
					}
					isProbLen := func(x ssa.Value) bool {
						cv, isC := resolve(x).(*ssa.Call)
						return isC && listCallName(cv) == "Len" && listFieldOf(cv) == "probationList"
					}
					if op, k, ok := cmpOnEdge(b, fct.True, isProbLen); ok {
						if (op == token.LEQ && k <= 0) || (op == token.LSS && k <= 1) || (op == token.EQL && k == 0) {
							empty = true
						}
					}
					// probationList.Back()/Front() == nil: the list is empty
					if x, isNil, ok := nilTest(fct); ok && isNil {
						if cv, isC := resolve(x).(*ssa.Call); isC && (listCallName(cv) == "Back" || listCallName(cv) == "Front") && listFieldOf(cv) == "probationList" {
							empty = true
						}
					}
				}
				c.check(empty, nt.Obj().Name()+".Victim/protected", u.ipos(i), "protected victim only with probation known empty", "slru.Victim takes its victim from the protected segment on a path where the probation segment is not known to be empty: SLRU evicts from probation first; a protected (re-used) entry is evicted while once-used entries stay")
			})
		}
	}
}

// ruleC15AccessRefreshes: a hit refreshes the entry's standing in its policy on every path: Access moves/re-files the
// item (a list move or push, a helper of the type that does, or the delegate policy's Access). A path that skips it
// leaves the order stale and the policy evicts entries that were just used.
func ruleC15AccessRefreshes(c *Ctx) {
	u := c.U1
	c.rule("C15.access-refreshes", "in every eviction policy, every path through Access(item) passes a list move/push, a helper of the policy that contains one, or another policy's Access: a hit always updates recency/frequency", 4)
	for _, nt := range policyImpls(u) {
		ms := declMethods(u, nt)
		f := ms["Access"]
		if f == nil {
			c.unresolved(nt.Obj().Name()+".Access", "method")
			continue
		}
		c.FuncsAnalysed[shortName(f)] = true
		var refreshes func(i ssa.Instruction, depth int) bool
		refreshes = func(i ssa.Instruction, depth int) bool {
			switch listCallName(i) {
			case "MoveToFront", "MoveToBack", "PushFront", "PushBack", "InsertAfter", "InsertBefore":
				return true
			}
			cc := callOf(i)
			if cc == nil {
				return false
			}
			if cc.IsInvoke() {
				return cc.Method.Name() == "Access"
			}
			g := staticCallee(i)
			if g == nil || g.Blocks == nil || g.Pkg == nil || g.Pkg.Pkg.Path() != pkgCache || depth > 3 {
				return false
			}
			if g.Name() == "Access" && g != f {
				return true
			}
			// a helper: refreshes on every path
			ok, _ := mustPass(g.Blocks[0], 0, func(j ssa.Instruction) bool { return refreshes(j, depth+1) }, nil)
			return ok
		}
		ok, tr := mustPass(f.Blocks[0], 0, func(j ssa.Instruction) bool { return refreshes(j, 0) }, nil)
		c.CallSites++
		if ok {
			c.ok(nt.Obj().Name()+".Access", u.pos(f.Pos()), "every path refreshes the item's position")
		} else {
			c.bad(nt.Obj().Name()+".Access", u.pos(f.Pos()), "a path through Access returns without moving or re-filing the item: the hit is not recorded, so the policy's order is stale and it evicts an entry that was just used instead of the least recently/frequently used one", u.tracePositions(tr)...)
		}
	}
}

// ---------------------------------------------------------------------------------------------
// C13.latest-is-first-of-one-query

// ruleC13LatestFirstOfOneQuery: the DynamoDB LoadLatest relies on the query itself (descending, Limit 1,
// C13.consistent-reads) to put the newest record first: it issues that query once and decodes Items[0] of that very
// response. A loop over pages, or an item carried in a variable across several responses, ends on an older record.
func ruleC13LatestFirstOfOneQuery(c *Ctx) {
	u := c.U1
	c.rule("C13.latest-is-first-of-one-query", "in LoadLatest of both DynamoDB metastores the Query call is not inside a loop, and the record returned is decoded from element 0 of the Items of that call's own output (directly, not through a variable assigned on several paths)", 2)
	for _, m := range metastoreImpls(c) {
		if !strings.HasPrefix(m.Kind, "dynamo") {
			continue
		}
		f := u.MethodOf(m.N, "LoadLatest")
		if f == nil || f.Blocks == nil {
			c.unresolved(m.N.Obj().Name()+".LoadLatest", "method")
			continue
		}
		c.FuncsAnalysed[shortName(f)] = true
		name := trimPkgDirs(shortName(f))
		var q *ssa.Call
		nq := 0
		findQ := func(g *ssa.Function) {
			allInstrs(g, func(i ssa.Instruction) {
				if cv, ok := i.(*ssa.Call); ok && cv.Call.IsInvoke() && strings.HasPrefix(cv.Call.Method.Name(), "Query") {
					q = cv
					nq++
				}
			})
		}
		findQ(f)
		// the query delegated to one helper of the package, called once outside any loop
		var qh *ssa.Function
		var qhCall *ssa.Call
		if nq == 0 {
			for _, h := range readHelpersOf(f) {
				findQ(h)
				qh = h
			}
			nCalls := 0
			allInstrs(f, func(i ssa.Instruction) {
				if cv, ok := i.(*ssa.Call); ok && qh != nil && staticCallee(cv) == qh {
					qhCall = cv
					nCalls++
				}
			})
			if nCalls != 1 {
				nq = 0
			}
		}
		if q == nil || nq != 1 {
			c.bad(name+"/query", u.pos(f.Pos()), fmt.Sprintf("expected exactly one Query call in LoadLatest, found %d", nq))
			continue
		}
		c.CallSites++
		inLoop := false
		for _, s := range q.Block().Succs {
			if blockReaches(s, q.Block()) {
				inLoop = true
			}
		}
		if qhCall != nil {
			c.FuncsAnalysed[shortName(qh)] = true
			for _, s := range qhCall.Block().Succs {
				if blockReaches(s, qhCall.Block()) {
					inLoop = true
				}
			}
		}
		// the decoded value: the argument of the decoder call whose result is returned
		first := false
		why := "no return decodes the query's Items[0]"
		var rootIs func(v ssa.Value) bool
		isFirstItem := func(v ssa.Value) bool {
			// walk: [Lookup] ← load ← IndexAddr(const 0) ← load ← FieldAddr .Items ← the output
			for k := 0; k < 10; k++ {
				// the item handed back by the query helper: every value it returns is Items[0] of the query
				if ex, isE := resolve(v).(*ssa.Extract); isE && qhCall != nil && ex.Tuple == ssa.Value(qhCall) && ex.Index == 0 && k < 9 {
					all, any := true, false
					for _, hr := range returnsOf(qh) {
						if len(hr.Results) == 0 || isNilValue(returnedValue(hr, 0)) {
							continue
						}
						any = true
						hv := returnedValue(hr, 0)
						okItem := false
						switch y := hv.(type) {
						case *ssa.UnOp:
							if ia, isIA := y.X.(*ssa.IndexAddr); isIA && y.Op == token.MUL {
								if kc, isC := constOf(ia.Index); isC && kc.ExactString() == "0" && passesField(ia.X, "Items") && rootIs(rootOfPath(ia.X)) {
									okItem = true
								}
							}
						case *ssa.Index:
							if kc, isC := constOf(y.Index); isC && kc.ExactString() == "0" && passesField(y.X, "Items") && rootIs(rootOfPath(y.X)) {
								okItem = true
							}
						}
						if !okItem {
							all = false
						}
					}
					return any && all
				}
				switch x := v.(type) {
				case *ssa.Lookup:
					v = x.X
					continue
				case *ssa.UnOp:
					if x.Op == token.MUL {
						v = x.X
						continue
					}
				case *ssa.IndexAddr:
					kc, isC := constOf(x.Index)
					if !isC || kc.ExactString() != "0" || !passesField(x.X, "Items") {
						return false
					}
					return rootIs(rootOfPath(x.X))
				case *ssa.Index:
					kc, isC := constOf(x.Index)
					if !isC || kc.ExactString() != "0" || !passesField(x.X, "Items") {
						return false
					}
					return rootIs(rootOfPath(x.X))
				}
				return false
			}
			return false
		}
		rootIs = func(v ssa.Value) bool {
			ex, isE := resolve(v).(*ssa.Extract)
			return isE && ex.Tuple == ssa.Value(q)
		}
		for _, r := range returnsOf(f) {
			if len(r.Results) != 2 || isNilValue(returnedValue(r, 0)) {
				continue
			}
			ex, ok := returnedValue(r, 0).(*ssa.Extract)
			if !ok {
				why = "the returned record is not the result of a decoder call"
				continue
			}
			dc, ok := ex.Tuple.(*ssa.Call)
			if !ok {
				continue
			}
			for _, a := range dc.Call.Args {
				if isFirstItem(a) {
					first = true
				}
			}
			// the whole output handed to a helper of the package that decodes ITS Items[0]
			if g := staticCallee(dc); !first && g != nil && g.Blocks != nil && g.Pkg == f.Pkg {
				for k, a := range dc.Call.Args {
					if !rootIs(a) || k >= len(g.Params) {
						continue
					}
					saved := rootIs
					p := ssa.Value(g.Params[k])
					rootIs = func(v ssa.Value) bool { return resolve(v) == p }
					okAll, any := true, false
					for _, gr := range returnsOf(g) {
						if len(gr.Results) != 2 || isNilValue(returnedValue(gr, 0)) {
							continue
						}
						gex, isGE := returnedValue(gr, 0).(*ssa.Extract)
						if !isGE {
							okAll = false
							continue
						}
						gdc, isGC := gex.Tuple.(*ssa.Call)
						if !isGC {
							okAll = false
							continue
						}
						hit := false
						for _, ga := range gdc.Call.Args {
							if isFirstItem(ga) {
								hit = true
							}
						}
						any = true
						if !hit {
							okAll = false
						}
					}
					rootIs = saved
					if any && okAll {
						first = true
					}
				}
			}
			if !first {
				why = "the decoder is not handed Items[0] of the query's own output (an item carried in a variable, another index, or another response)"
			}
		}
		switch {
		case inLoop:
			c.bad(name+"/query", u.ipos(q), "the Query call is inside a loop: with Limit 1 every page carries a cursor, so following pages walks the partition from the newest to the oldest record and the last page wins — an old (expired, possibly revoked) key is returned as the latest")
		case !first:
			c.bad(name+"/query", u.ipos(q), why+": LoadLatest may return a record other than the first of the descending query, i.e. not the greatest creation time")
		default:
			c.ok(name+"/query", u.ipos(q), "one query, Items[0] of its output decoded")
		}
	}
}

// ---------------------------------------------------------------------------------------------
// C08.storage-does-not-release

// ruleC08StorageDoesNotRelease: the reference the key cache holds on an entry's key is released at exactly one place per
// way of leaving the cache: keyCache.write for a displaced entry (C09.displaced-entry), the eviction callback for the
// bounded caches, the storage's Close at teardown. A storage implementation that also closes what it overwrites, looks
// up or deletes releases that reference a second time — the count then reaches zero while a caller still uses the key.
func ruleC08StorageDoesNotRelease(c *Ctx) {
	u := c.U1
	c.rule("C08.storage-does-not-release", "the key cache's own map storage (simpleCache) calls (*cachedCryptoKey).Close only in its Close method: Set/Get/GetOrPanic/Delete never release a stored entry's key (displacement is released once, by keyCache.write)", 3)
	nt := u.Named(pkgApp, "simpleCache")
	if nt == nil {
		c.unresolved("simpleCache", "type")
		return
	}
	for name, f := range declMethods(u, nt) {
		c.FuncsAnalysed[shortName(f)] = true
		if name == "Close" {
			continue
		}
		c.CallSites++
		bad := ""
		for _, g := range withAnon(f) {
			allInstrs(g, func(i ssa.Instruction) {
				if h := staticCallee(i); h != nil && h.Name() == "Close" && h.Signature.Recv() != nil && strings.Contains(h.Signature.Recv().Type().String(), "cachedCryptoKey") {
					bad = u.ipos(i)
				}
			})
		}
		c.check(bad == "", "simpleCache."+name, u.pos(f.Pos()), "does not release stored keys", "simpleCache."+name+" closes a stored entry's key ("+bad+"): keyCache.write already releases the cache's reference to a displaced entry, so this is a second release of the same reference — the count reaches zero while another goroutine is still using the key, which is destroyed underneath it")
	}
}

// ---------------------------------------------------------------------------------------------
// C17.kek-matched-by-region

// ruleC17KEKMatchedByRegion: an envelope holds one wrapped copy of the key per region; the reader pairs each configured
// client with the copy of ITS region. The pairing key is the region on both sides: an entry's ARN (or anything else
// the writer recorded) need not be spelled like the reader's configuration (alias ARN vs key ARN), so pairing on it
// makes envelopes that every region could unwrap undecryptable.
func ruleC17KEKMatchedByRegion(c *Ctx) {
	u := c.U1
	c.rule("C17.kek-matched-by-region", "in both KMS plugins a regional KEK (a struct with Region and EncryptedKEK) is selected only by its Region: every comparison involving a field of a KEK compares .Region with a region (a .Region field or a parameter fed with one), every map of KEKs is filled with key kek.Region and indexed with <client>.Region", 2)
	isKEK := func(t types.Type) bool {
		if p, ok := types.Unalias(t).Underlying().(*types.Pointer); ok {
			t = p.Elem()
		}
		n, ok := namedOf(t)
		if !ok {
			return false
		}
		st, ok := n.Underlying().(*types.Struct)
		if !ok {
			return false
		}
		has := map[string]bool{}
		for i := 0; i < st.NumFields(); i++ {
			has[st.Field(i).Name()] = true
		}
		return has["Region"] && has["EncryptedKEK"]
	}
	// field of a KEK value: (fieldName, true)
	kekField := func(v ssa.Value) (string, bool) {
		v = resolve(v)
		switch x := v.(type) {
		case *ssa.UnOp:
			if x.Op == token.MUL {
				if fa, ok := x.X.(*ssa.FieldAddr); ok && isKEK(fa.X.Type()) {
					return fieldName(fa.X.Type(), fa.Field), true
				}
			}
		case *ssa.Field:
			if isKEK(x.X.Type()) {
				return fieldName(x.X.Type(), x.Field), true
			}
		}
		return "", false
	}
	var isRegion func(v ssa.Value, f *ssa.Function, depth int) bool
	isRegion = func(v ssa.Value, f *ssa.Function, depth int) bool {
		if strings.HasSuffix(trimAddr(accessPath(v)), ".Region") {
			return true
		}
		// a parameter that every call site feeds with a region
		if p, ok := resolve(v).(*ssa.Parameter); ok && depth < 2 {
			idx := -1
			for k, q := range f.Params {
				if q == p {
					idx = k
				}
			}
			sites := 0
			all := true
			for _, g := range u.RepoFuncs {
				if g.Pkg == nil || f.Pkg == nil || g.Pkg != f.Pkg {
					continue
				}
				allInstrs(g, func(i ssa.Instruction) {
					if staticCallee(i) == f && idx >= 0 {
						sites++
						if !isRegion(callOf(i).Args[idx], g, depth+1) {
							all = false
						}
					}
				})
			}
			return sites > 0 && all
		}
		return false
	}
	n := 0
	for _, f := range u.RepoFuncs {
		root := rootFunc(f)
		if root.Pkg == nil || (root.Pkg.Pkg.Path() != pkgKmsV1 && root.Pkg.Pkg.Path() != pkgKmsV2) || f.Blocks == nil {
			continue
		}
		allInstrs(f, func(i ssa.Instruction) {
			construct, bad := "", ""
			switch x := i.(type) {
			case *ssa.BinOp:
				if x.Op != token.EQL && x.Op != token.NEQ {
					return
				}
				fx, okx := kekField(x.X)
				fy, oky := kekField(x.Y)
				if !okx && !oky {
					return
				}
				if isNilConst(x.X) || isNilConst(x.Y) {
					return
				}
				construct = "compare"
				switch {
				case okx && fx != "Region", oky && fy != "Region":
					bad = "a KEK is selected by comparing its " + fx + fy + " field"
				case okx && !oky && !isRegion(x.Y, f, 0), oky && !okx && !isRegion(x.X, f, 0):
					bad = "a KEK's Region is compared with something that is not a region"
				}
			case *ssa.MapUpdate:
				mt, ok := x.Map.Type().Underlying().(*types.Map)
				if !ok || !isKEK(mt.Elem()) {
					return
				}
				construct = "map-fill"
				if fld, isK := kekField(x.Key); !isK || fld != "Region" {
					bad = "the map of KEKs is keyed by " + describeOperand(x.Key) + ", not by the KEK's Region"
				}
			case *ssa.Lookup:
				mt, ok := x.X.Type().Underlying().(*types.Map)
				if !ok || !isKEK(mt.Elem()) {
					return
				}
				construct = "map-lookup"
				if !isRegion(x.Index, f, 0) {
					bad = "the map of KEKs is indexed with " + describeOperand(x.Index) + ", not with the client's Region"
				}
			default:
				return
			}
			n++
			c.CallSites++
			c.FuncsAnalysed[shortName(f)] = true
			c.check(bad == "", trimPkgDirs(shortName(f))+"/"+construct, u.ipos(i), "paired by region", bad+": writer and reader need not spell anything but the region alike (alias ARN vs key ARN, a re-created key), so an envelope every configured region could unwrap fails with \"decrypt failed in all regions\"")
		})
	}
	_ = n
}

// ---------------------------------------------------------------------------------------------
// C19: handler published unconditionally; SDK results forwarded; one session factory

// ruleC19HandlerPublished: "a second get-session is answered with an error response" — also after a first one that was
// rejected. The only record of "a get-session has been seen" is s.handler, so the handler created for a get-session is
// stored there on every path, whatever GetSession answers.
func ruleC19HandlerPublished(c *Ctx) {
	u := c.U2
	c.rule("C19.handler-published", "in handleRequest (and the streamer methods it delegates to) every path from a NewHandler() call to return stores that handler into s.handler: the stream is marked initialised unconditionally", 1)
	root := u.Method(pkgServer, "streamer", "handleRequest")
	if root == nil {
		c.unresolved("handleRequest", "(*streamer).handleRequest")
		return
	}
	n := 0
	seen := map[*ssa.Function]bool{}
	var visit func(f *ssa.Function, depth int)
	visit = func(f *ssa.Function, depth int) {
		if f == nil || f.Blocks == nil || seen[f] || depth > 2 {
			return
		}
		seen[f] = true
		c.FuncsAnalysed[shortName(f)] = true
		allInstrs(f, func(i ssa.Instruction) {
			h := staticCallee(i)
			if h == nil {
				return
			}
			if h.Name() == "NewHandler" {
				n++
				c.CallSites++
				cv := i.(ssa.Value)
				ok, tr := mustPass(i.Block(), indexOf(i)+1, func(j ssa.Instruction) bool {
					st, isS := j.(*ssa.Store)
					if !isS {
						return false
					}
					fa, isF := st.Addr.(*ssa.FieldAddr)
					return isF && fieldName(fa.X.Type(), fa.Field) == "handler" && resolve(unwrapIface(st.Val)) == resolve(cv) || isF && fieldName(fa.X.Type(), fa.Field) == "handler" && resolve(st.Val) == resolve(cv)
				}, nil)
				if ok {
					c.ok(shortName(f)+"/NewHandler-published", u.ipos(i), "s.handler = <new handler> on every path")
				} else {
					c.bad(shortName(f)+"/NewHandler-published", u.ipos(i), "the handler created for a get-session is not stored into s.handler on every path (e.g. only when GetSession succeeded): after a rejected get-session the stream counts as uninitialised again, so a second get-session is accepted instead of being answered with an error response", u.tracePositions(tr)...)
				}
				return
			}
			if h.Signature.Recv() != nil && typeIsNamed(h.Signature.Recv().Type(), pkgServer, "streamer") {
				visit(h, depth+1)
			}
		})
	}
	visit(root, 0)
	if n == 0 {
		c.bad("handleRequest/NewHandler", u.pos(root.Pos()), "no NewHandler() call found on the get-session path")
	}
}

// ruleC19SDKResultForwarded: "after a successful get-session, encrypt and decrypt behave exactly like the SDK": once the
// SDK call has succeeded (err known nil) the handler answers with the success response built from the SDK's result —
// no further condition turns an SDK success into an error response (the SDK legitimately returns a nil plaintext for
// an empty payload).
func ruleC19SDKResultForwarded(c *Ctx) {
	u := c.U2
	c.rule("C19.sdk-result-forwarded", "defaultHandler.Encrypt/Decrypt: on the edge where the session call's error is known nil no return carries an error response (newErrorResponse / a package-level error response): every SDK success is answered with the success response", 2)
	for _, mn := range []string{"Encrypt", "Decrypt"} {
		f := u.Method(pkgServer, "defaultHandler", mn)
		if f == nil || f.Blocks == nil {
			c.unresolved("defaultHandler."+mn, "method")
			continue
		}
		c.FuncsAnalysed[shortName(f)] = true
		var call *ssa.Call
		allInstrs(f, func(i ssa.Instruction) {
			if cv, ok := i.(*ssa.Call); ok && cv.Call.IsInvoke() && cv.Call.Method.Name() == mn {
				call = cv
			}
		})
		if call == nil {
			c.bad("defaultHandler."+mn+"/sdk-call", u.pos(f.Pos()), "no session."+mn+" call found")
			continue
		}
		var errv ssa.Value
		for _, pr := range resultsOfType(call, isErrorType) {
			errv = pr[0]
		}
		isErrResp := func(v ssa.Value) bool {
			v = resolve(v)
			if ld, ok := v.(*ssa.UnOp); ok {
				if g, isG := ld.X.(*ssa.Global); isG {
					return errorResponseGlobal(u, g)
				}
			}
			if cv, ok := v.(*ssa.Call); ok {
				if g := staticCallee(cv); g != nil && g.Name() == "newErrorResponse" {
					return true
				}
			}
			return false
		}
		n := 0
		for _, r := range returnsOf(f) {
			if !reaches(call, r) || errv == nil || !knownNil(errv, r.Block()) {
				continue
			}
			n++
			c.CallSites++
			var bad func(v ssa.Value, d int) bool
			bad = func(v ssa.Value, d int) bool {
				if isErrResp(v) || isNilValue(v) {
					return true
				}
				if phi, ok := resolve(v).(*ssa.Phi); ok && d < 3 {
					for _, e := range phi.Edges {
						if bad(e, d+1) {
							return true
						}
					}
				}
				return false
			}
			c.check(!bad(returnedValue(r, 0), 0), "defaultHandler."+mn+"/success-reply", u.ipos(r), "SDK success answered with the success response", "after the SDK's "+mn+" succeeded the handler can still answer with an error response (or nothing): the sidecar no longer behaves like the SDK — e.g. the record of an empty payload, which the SDK decrypts to a nil slice, is refused")
		}
		if n == 0 {
			c.bad("defaultHandler."+mn+"/success-reply", u.pos(f.Pos()), "no return on the err == nil edge of the SDK call")
		}
	}
}

// ruleC19OneSessionFactory: all streams of the sidecar share one SessionFactory (and with it one metastore handle and
// one set of key caches), built when the server is constructed. A factory built on the request path — lazily, per
// stream, unsynchronised — gives concurrent first streams factories of their own; in memory-metastore mode the records
// of the losers are undecryptable on every later stream.
func ruleC19OneSessionFactory(c *Ctx) {
	u := c.U2
	c.rule("C19.one-session-factory", "appencryption.NewSessionFactory is not reachable (resolved call graph, interface calls to all implementations) from streamer.Stream or any requestHandler method, unless the call sits in a closure handed to (*sync.Once).Do: the factory is built once, at server construction", 1)
	cg := newCallGraph(u)
	var starts []*ssa.Function
	if f := u.Method(pkgServer, "streamer", "Stream"); f != nil {
		starts = append(starts, f)
	}
	for _, mn := range []string{"GetSession", "Encrypt", "Decrypt", "Close"} {
		if f := u.Method(pkgServer, "defaultHandler", mn); f != nil {
			starts = append(starts, f)
		}
	}
	// per-stream entry points: the gRPC method and whatever produces a stream's streamer (the factory closure and its helpers)
	if f := u.Method(pkgServer, "AppEncryption", "Session"); f != nil {
		starts = append(starts, f)
	}
	for _, g := range u.RepoFuncs {
		if g.Pkg == nil || g.Pkg.Pkg.Path() != pkgServer || g.Signature.Results().Len() != 1 {
			continue
		}
		if pt, ok := g.Signature.Results().At(0).Type().Underlying().(*types.Pointer); ok && typeIsNamed(pt.Elem(), pkgServer, "streamer") {
			starts = append(starts, g)
		}
	}
	if len(starts) < 2 {
		c.unresolved("server entry points", "streamer.Stream / defaultHandler methods")
		return
	}
	bad := ""
	var via *cgEdge
	for _, s := range starts {
		for g, e := range cg.reachableFrom(s) {
			if funcFullName(g) != "github.com/godaddy/asherah/go/appencryption.NewSessionFactory" || e == nil || e.From == nil {
				continue
			}
			// exempt: inside a closure passed to sync.Once.Do
			once := false
			if e.From.Parent() != nil {
				for _, mc := range makeClosuresOf(e.From) {
					for _, r := range *mc.Referrers() {
						if cv, ok := r.(*ssa.Call); ok {
							if h := staticCallee(cv); h != nil && funcFullName(h) == "(*sync.Once).Do" {
								once = true
							}
						}
					}
				}
			}
			if !once {
				bad = shortName(s)
				via = e
			}
		}
	}
	c.CallSites++
	if bad == "" {
		c.ok("server/NewSessionFactory", "", "not reachable from the stream and handler entry points")
	} else {
		c.bad("server/NewSessionFactory", u.ipos(via.Site), "appencryption.NewSessionFactory is reachable from "+bad+" (called in "+shortName(via.From)+"): the session factory is built on the request path, so streams whose first get-session overlaps each build their own factory — with it their own key caches and, in memory mode, their own metastore — and records written through one cannot be read through another")
	}
}

// ---------------------------------------------------------------------------------------------
// C13.record-literals-complete

// ruleC13RecordLiteralsComplete: wherever a metastore back end builds the record it hands to the SDK field by field
// (a composite literal of EnvelopeKeyRecord), the literal carries every stored field — Revoked, Created, EncryptedKey,
// ParentKeyMeta — each from its namesake in the decoded item. A conversion that forgets one (Revoked above all: it is
// absent from freshly written items and only appears when an operator revokes a key) returns the zero value for ever.
func ruleC13RecordLiteralsComplete(c *Ctx) {
	u := c.U1
	c.rule("C13.record-literals-complete", "every composite literal of appencryption.EnvelopeKeyRecord in the metastore back-end packages sets Revoked, Created, EncryptedKey and ParentKeyMeta, with Revoked and Created read from fields of the same name", 1)
	need := []string{"Revoked", "Created", "EncryptedKey", "ParentKeyMeta"}
	n := 0
	for _, f := range u.RepoFuncs {
		root := rootFunc(f)
		if root.Pkg == nil || f.Blocks == nil {
			continue
		}
		p := root.Pkg.Pkg.Path()
		if p != pkgPersist && p != pkgDynV1 && p != pkgDynV2 {
			continue
		}
		allInstrs(f, func(i ssa.Instruction) {
			a, ok := i.(*ssa.Alloc)
			if !ok || a.Comment != "complit" {
				return
			}
			pt, isP := a.Type().Underlying().(*types.Pointer)
			if !isP || !typeIsNamed(pt.Elem(), pkgApp, "EnvelopeKeyRecord") {
				return
			}
			fl := litFields(a)
			if len(fl) == 0 {
				return // the zero record (no field set) is not a conversion
			}
			n++
			c.CallSites++
			c.FuncsAnalysed[shortName(f)] = true
			var problems []string
			for _, fld := range need {
				v, set := fl[fld]
				if !set {
					problems = append(problems, fld+" is not set")
					continue
				}
				if fld == "Revoked" || fld == "Created" {
					if ap := trimAddr(accessPath(v)); !strings.HasSuffix(ap, "."+fld) {
						problems = append(problems, fld+" is set from "+describeOperand(v)+", not from a ."+fld+" field")
					}
				}
			}
			c.check(len(problems) == 0, trimPkgDirs(shortName(f))+"/EnvelopeKeyRecord-literal", u.ipos(i), "carries Revoked, Created, EncryptedKey, ParentKeyMeta", "the record handed to the SDK is built without all stored fields ("+strings.Join(problems, "; ")+"): what Load returns is not what Store stored — a record whose Revoked flag was set in the table comes back as not revoked and the key stays in use")
		})
	}
	if n == 0 {
		c.bad("metastores/EnvelopeKeyRecord-literals", "", "no EnvelopeKeyRecord literal found in the back ends (aws-v2 decodeItem builds one)")
	}
}
