package main

import (
	"go/constant"
	"go/token"
	"go/types"
	"strings"

	"golang.org/x/tools/go/ssa"
)

// Rules added after the third systematic sweep was re-triaged and during seeding round 5.

// ---------------------------------------------------------------------------------------------
// C13.nothing-only-when-absent

// recordReturning: f returns (*EnvelopeKeyRecord, error).
func recordReturning(f *ssa.Function) bool {
	res := f.Signature.Results()
	if res.Len() != 2 || !isErrorType(res.At(1).Type()) {
		return false
	}
	p, ok := types.Unalias(res.At(0).Type()).(*types.Pointer)
	if !ok {
		return false
	}
	n, ok := namedOf(p.Elem())
	return ok && n.Obj().Name() == "EnvelopeKeyRecord"
}

// rootOfPath walks loads, field selections and indexing back to the value they start from.
func rootOfPath(v ssa.Value) ssa.Value {
	for k := 0; k < 12; k++ {
		switch x := v.(type) {
		case *ssa.UnOp:
			if x.Op == token.MUL {
				v = x.X
				continue
			}
		case *ssa.FieldAddr:
			v = x.X
			continue
		case *ssa.Field:
			v = x.X
			continue
		case *ssa.IndexAddr:
			v = x.X
			continue
		case *ssa.Index:
			v = x.X
			continue
		case *ssa.Lookup:
			v = x.X
			continue
		}
		break
	}
	return v
}

// impliesNonPositive: taking an edge on which `x op k` is known (already polarity-adjusted) implies x <= 0.
func cmpOnEdge(b *ssa.BinOp, taken bool, isX func(ssa.Value) bool) (op token.Token, k int64, ok bool) {
	op = b.Op
	var kv ssa.Value
	switch {
	case isX(b.X):
		kv = b.Y
	case isX(b.Y):
		kv = b.X
		switch op { // k op x  ≡  x op' k
		case token.LSS:
			op = token.GTR
		case token.GTR:
			op = token.LSS
		case token.LEQ:
			op = token.GEQ
		case token.GEQ:
			op = token.LEQ
		}
	default:
		return 0, 0, false
	}
	cv, isC := constOf(kv)
	if !isC {
		return 0, 0, false
	}
	k, isI := constantInt64(constant.ToInt(cv))
	if !isI {
		return 0, 0, false
	}
	if !taken {
		switch op {
		case token.LSS:
			op = token.GEQ
		case token.GEQ:
			op = token.LSS
		case token.GTR:
			op = token.LEQ
		case token.LEQ:
			op = token.GTR
		case token.EQL:
			op = token.NEQ
		case token.NEQ:
			op = token.EQL
		default:
			return 0, 0, false
		}
	}
	return op, k, true
}

// ruleC13NothingOnlyWhenAbsent: "Load returns exactly the record stored … or nothing" and "a completed Store is visible
// to every later read": a read may answer (nil, nil) — which every caller takes as "no such key; create one" — only
// where the backend said the row is absent, never because the backend failed or because some other condition held.
//
//	memory   : the not-found edge of a comma-ok lookup in Envelopes
//	SQL      : the edge on which the Scan error is sql.ErrNoRows (errors.Is / ==)
//	DynamoDB : the edge on which the output's Item is nil / its Items are empty
//	any      : the edge on which the record returned by a checked helper (or a delegate Metastore) is nil
//
// Every path from entry to a literal `return nil, nil` must take one of those edges.
func ruleC13NothingOnlyWhenAbsent(c *Ctx) {
	u := c.U1
	c.rule("C13.nothing-only-when-absent", "in Load and LoadLatest of every metastore (and the record-returning helpers they call) every path to a literal `return nil, nil` takes an absence edge: not-found of an Envelopes lookup / Scan error is sql.ErrNoRows / output Item nil or Items empty / a checked helper's record is nil — a backend failure or any other condition is never reported as \"no such key\"", 5)
	for _, m := range metastoreImpls(c) {
		// functions to check
		var fns []*ssa.Function
		seen := map[*ssa.Function]bool{}
		var add func(f *ssa.Function, depth int)
		add = func(f *ssa.Function, depth int) {
			if f == nil || f.Blocks == nil || seen[f] || depth > 3 {
				return
			}
			seen[f] = true
			fns = append(fns, f)
			allInstrs(f, func(i ssa.Instruction) {
				if g := staticCallee(i); g != nil && g.Pkg != nil && g.Pkg.Pkg.Path() == m.N.Obj().Pkg().Path() && recordReturning(g) {
					add(g, depth+1)
				}
			})
		}
		for _, mn := range []string{"Load", "LoadLatest"} {
			f := u.MethodOf(m.N, mn)
			if f == nil || f.Blocks == nil {
				c.unresolved(m.N.Obj().Name()+"."+mn, "method")
				continue
			}
			add(f, 0)
		}
		isBackendRead := func(v ssa.Value) bool {
			ex, ok := v.(*ssa.Extract)
			if !ok {
				return false
			}
			cv, ok := ex.Tuple.(*ssa.Call)
			if !ok || !cv.Call.IsInvoke() {
				return false
			}
			n := cv.Call.Method.Name()
			return strings.HasPrefix(n, "GetItem") || strings.HasPrefix(n, "Query")
		}
		for _, f := range fns {
			c.FuncsAnalysed[shortName(f)] = true
			name := trimPkgDirs(shortName(f))
			isParam := func(v ssa.Value) bool {
				for _, p := range f.Params {
					if ssa.Value(p) == v {
						return true
					}
				}
				return false
			}
			absenceEdge := func(from, to *ssa.BasicBlock) bool {
				for _, fct := range edgeFacts(from, to) {
					if fct.Sub != nil {
						continue
					}
					switch x := fct.V.(type) {
					case *ssa.Extract: // _, ok := Envelopes[…]…[…]
						if lk, isL := x.Tuple.(*ssa.Lookup); isL && lk.CommaOk && x.Index == 1 && !fct.True {
							if strings.HasSuffix(accessPath(lk.X), ".Envelopes") || derivesFromEnvelopes(lk.X, 0) {
								return true
							}
						}
					case *ssa.Call: // errors.Is(err, sql.ErrNoRows)
						if staticIs(x, "errors.Is") && fct.True && len(x.Call.Args) == 2 && trimAddr(accessPath(x.Call.Args[1])) == "G:database/sql.ErrNoRows" {
							return true
						}
					case *ssa.BinOp:
						// err == sql.ErrNoRows
						if (x.Op == token.EQL) == fct.True && (x.Op == token.EQL || x.Op == token.NEQ) {
							if trimAddr(accessPath(x.X)) == "G:database/sql.ErrNoRows" || trimAddr(accessPath(x.Y)) == "G:database/sql.ErrNoRows" {
								return true
							}
						}
						// out.Item == nil / helper record == nil
						if v, isNil, ok := nilTest(fct); ok && isNil {
							ap := accessPath(v)
							root := rootOfPath(v)
							if strings.HasSuffix(ap, ".Item") && (isBackendRead(root) || isParam(root)) {
								return true
							}
							if ex, isE := resolve(v).(*ssa.Extract); isE && ex.Index == 0 {
								if cv, isC := ex.Tuple.(*ssa.Call); isC {
									if g := staticCallee(cv); g != nil && seen[g] {
										return true
									}
									if cv.Call.IsInvoke() && (cv.Call.Method.Name() == "Load" || cv.Call.Method.Name() == "LoadLatest") {
										return true
									}
								}
							}
						}
						// len(out.Items) == 0
						isLenItems := func(v ssa.Value) bool {
							cv, ok := v.(*ssa.Call)
							if !ok {
								return false
							}
							b, isB := cv.Call.Value.(*ssa.Builtin)
							if !isB || b.Name() != "len" {
								return false
							}
							a := cv.Call.Args[0]
							root := rootOfPath(a)
							return strings.HasSuffix(accessPath(a), ".Items") && (isBackendRead(root) || isParam(root))
						}
						if op, k, ok := cmpOnEdge(x, fct.True, isLenItems); ok {
							if (op == token.EQL && k == 0) || (op == token.LSS && k == 1) || (op == token.LEQ && k == 0) {
								return true
							}
						}
					}
				}
				return false
			}
			// greatest fixpoint: justified[b] = every way into b takes an absence edge somewhere
			just := map[*ssa.BasicBlock]bool{}
			for _, b := range f.Blocks {
				just[b] = b != f.Blocks[0]
			}
			for changed := true; changed; {
				changed = false
				for _, b := range f.Blocks {
					if !just[b] || b == f.Blocks[0] {
						continue
					}
					for _, p := range b.Preds {
						if !just[p] && !absenceEdge(p, b) {
							just[b] = false
							changed = true
							break
						}
					}
				}
			}
			for _, r := range returnsOf(f) {
				if len(r.Results) != 2 || !isNilValue(returnedValue(r, 0)) || !isNilValue(returnedValue(r, 1)) {
					continue
				}
				c.CallSites++
				c.check(just[r.Block()], name+"/nothing", u.ipos(r), "`return nil, nil` only behind an absence edge of this call's read", "a path reaches `return nil, nil` without the backend having said the row is absent (backend error, or another condition, reported as \"no such key\"): the caller creates and stores a new key although one exists — a revoked or newer key in the table is masked and Load no longer returns what Store stored")
			}
		}
	}
}

// ---------------------------------------------------------------------------------------------
// C15.set-stamps-expiration

// ruleC15SetStampsExpiration: Get consults item.expiration whenever c.expiry > 0; so every path of Set on which
// c.expiry > 0 may hold must, after storing the value (update path) or creating the item (insert path), store
// clock.Now().Add(c.expiry) into that item's expiration. An update that leaves the old stamp makes the freshly set
// value disappear "by expiry" although it was set within the window; an insert without a stamp expires at once
// (zero time is before now).
func ruleC15SetStampsExpiration(c *Ctx) {
	u := c.U1
	c.rule("C15.set-stamps-expiration", "cache.Set: from the store of the value into an existing item, and from the creation of a new item, every path to return either stores clock.Now().Add(c.expiry) into that item's expiration or takes an edge on which c.expiry <= 0 is known", 2)
	f := u.Method(pkgCache, "cache", "Set")
	if f == nil || len(f.Params) < 3 {
		c.unresolved("cache.Set", "(*cache[K,V]).Set")
		return
	}
	c.FuncsAnalysed[shortName(f)] = true
	valP := ssa.Value(f.Params[2])
	isExpiry := func(v ssa.Value) bool { return strings.HasSuffix(accessPath(v), ".expiry") }
	voidEdge := func(from, to *ssa.BasicBlock) bool {
		for _, fct := range edgeFacts(from, to) {
			b, ok := fct.V.(*ssa.BinOp)
			if !ok || fct.Sub != nil {
				continue
			}
			if op, k, ok := cmpOnEdge(b, fct.True, isExpiry); ok {
				if (op == token.LEQ && k <= 0) || (op == token.LSS && k <= 1) || (op == token.EQL && k <= 0) {
					return true
				}
			}
		}
		return false
	}
	stampOf := func(item ssa.Value) func(ssa.Instruction) bool {
		return func(i ssa.Instruction) bool {
			st, ok := i.(*ssa.Store)
			if !ok {
				return false
			}
			fa, isF := st.Addr.(*ssa.FieldAddr)
			if !isF || fieldName(fa.X.Type(), fa.Field) != "expiration" || resolve(fa.X) != resolve(item) {
				return false
			}
			// value: <clock>.Now().Add(c.expiry)
			cv, isC := resolve(st.Val).(*ssa.Call)
			if !isC || !staticIs(cv, "(time.Time).Add") || len(cv.Call.Args) != 2 || !isExpiry(cv.Call.Args[1]) {
				return false
			}
			nw, isN := resolve(cv.Call.Args[0]).(*ssa.Call)
			return isN && nw.Call.IsInvoke() && nw.Call.Method.Name() == "Now"
		}
	}
	n := 0
	allInstrs(f, func(i ssa.Instruction) {
		switch x := i.(type) {
		case *ssa.Store:
			fa, isF := x.Addr.(*ssa.FieldAddr)
			if !isF || fieldName(fa.X.Type(), fa.Field) != "value" || x.Val != valP {
				return
			}
			kind := "update"
			if a := allocOf(fa.X); a != nil {
				kind = "insert"
			}
			n++
			c.CallSites++
			ok, tr := mustPass(x.Block(), indexOf(x)+1, stampOf(fa.X), voidEdge)
			if ok {
				c.ok("cache.Set/"+kind+"-stamps-expiration", u.ipos(x), "expiration = clock.Now().Add(c.expiry) follows on every path where expiry may be positive")
			} else {
				c.bad("cache.Set/"+kind+"-stamps-expiration", u.ipos(x), "Set stores the value but a path on which c.expiry > 0 may hold returns without stamping this item's expiration with clock.Now().Add(c.expiry): an updated entry keeps its old deadline (the value just set vanishes as \"expired\" early), a new entry carries the zero time and is expired at once", u.tracePositions(tr)...)
			}
		}
	})
	if n < 2 {
		c.bad("cache.Set/stamps-expiration", u.pos(f.Pos()), "expected the update-path and insert-path stores of the value argument in Set")
	}
}
