package main

// C07 — decrypt yields the plaintext or an error, never a crash (DESIGN §3 C07). E-NIL + E-DOM.

import (
	"go/token"
	"go/types"
	"strings"

	"golang.org/x/tools/go/ssa"
)

func init() {
	register(&propSpec{
		ID:    "C07",
		Title: "Decrypt yields the original plaintext or an error: never other bytes, no crash",
		Explanation: "Structural necessary conditions of C07 at every dereference / call site of the SDK core: (nil-guard) every dereference of a pointer that traces back to a declared nullable source — " +
			"results of Metastore.Load/LoadLatest and Loader.Load, the ParentKeyMeta / Key fields of records — is dominated by a non-nil test of the same value, through helper parameters (all call sites), " +
			"closure captures and call results; (length-guard) the nonce/ciphertext slicing in Decrypt is dominated by len(data) >= NonceSize(); (authenticated-only) the cipher is crypto/cipher.NewGCM over " +
			"crypto/aes.NewCipher and the data result of every AEAD.Decrypt / Open is used only where err is known nil; (errors-propagate) every error on the decrypt path is tested and its non-nil edge " +
			"reaches only non-nil error returns. That tampered ciphertext fails authentication is a property of AES-GCM and is not decided.",
		NotDecided:  []string{"that tampered/spliced ciphertext fails authentication (property of AES-GCM)", "fuzzing of arbitrary bytes", "panics inside dependencies (encoding/json, AWS SDKs, crypto)", "nil-ness of values that do not trace back to a declared nullable source (assumed non-nil)"},
		Assumptions: []string{"declared nullable sources: Metastore.Load/LoadLatest and Loader.Load results, EnvelopeKeyRecord.ParentKeyMeta, DataRowRecord.Key", "accessor closures run synchronously where they are created"},
		Tech:        "static analysis: targeted nil-guard dominance (access-path facts, helper-parameter and closure summaries) + error-discipline on SSA",
		NeedU1:      true,
		Rules:       []func(*Ctx){ruleC07NilGuard, ruleC07LengthGuard, ruleC07AuthenticatedOnly, ruleC07ErrorsPropagate},
	})
}

func newRecordNilChecker(u *Universe) *nilChecker {
	return &nilChecker{
		u: u,
		isSourceCall: func(c *ssa.Call) bool {
			return invokeIs(c, pkgApp, "Metastore", "Load") || invokeIs(c, pkgApp, "Metastore", "LoadLatest") || invokeIs(c, pkgApp, "Loader", "Load")
		},
		isSourceField: func(base types.Type, field string) bool {
			return (field == "ParentKeyMeta" && typeIsNamed(base, pkgApp, "EnvelopeKeyRecord")) || (field == "Key" && typeIsNamed(base, pkgApp, "DataRowRecord"))
		},
		cg:       newCallGraph(u),
		visiting: map[string]bool{},
	}
}

func isRecordType(t types.Type) bool {
	return typeIsNamed(t, pkgApp, "EnvelopeKeyRecord") || typeIsNamed(t, pkgApp, "KeyMeta") || typeIsNamed(t, pkgApp, "DataRowRecord")
}

func ruleC07NilGuard(c *Ctx) {
	u := c.U1
	c.rule("C07.nil-guard", "every dereference of a *EnvelopeKeyRecord / *KeyMeta / *DataRowRecord in package appencryption that traces back to a declared nullable source is dominated by a non-nil test of that value (helpers: at every call site)", 25)
	n := newRecordNilChecker(u)
	for _, f := range u.RepoFuncs {
		root := rootFunc(f)
		if root.Pkg == nil || root.Pkg.Pkg.Path() != pkgApp {
			continue
		}
		sites := derefSites(f, func(t types.Type) bool { return isRecordType(t) && !isPtr(t) })
		if len(sites) > 0 {
			c.FuncsAnalysed[shortName(f)] = true
		}
		seen := map[string]bool{}
		for _, s := range sites {
			key := accessPath(s.Ptr) + "@" + s.Instr.Block().String()
			if seen[key] {
				continue
			}
			seen[key] = true
			c.CallSites++
			construct := shortName(f) + "/deref " + accessPath(s.Ptr)
			v := n.safeAt(s.Ptr, s.Instr.Block(), 0)
			if v.Safe {
				c.ok(construct, u.ipos(s.Instr), v.Why)
			} else {
				c.bad(construct, u.ipos(s.Instr), "possible nil dereference (panic instead of an error): "+v.Why)
			}
		}
	}
}

func ruleC07LengthGuard(c *Ctx) {
	u := c.U1
	c.rule("C07.length-guard", "in cryptoFunc.Decrypt every slice of the input at len(data)-NonceSize() is dominated by the false edge of len(data) < NonceSize() (or an equivalent >= test)", 2)
	f := u.Method(pkgAead, "cryptoFunc", "Decrypt")
	if f == nil {
		c.unresolved("cryptoFunc.Decrypt", "(cryptoFunc).Decrypt")
		return
	}
	c.FuncsAnalysed[shortName(f)] = true
	isLenData := func(v ssa.Value) bool {
		cv, ok := strip(v).(*ssa.Call)
		if !ok {
			return false
		}
		b, isB := cv.Call.Value.(*ssa.Builtin)
		return isB && b.Name() == "len" && isParamNamed(cv.Call.Args[0], f, 1)
	}
	isNonceSize := func(v ssa.Value) bool {
		cv, ok := strip(v).(*ssa.Call)
		return ok && cv.Call.IsInvoke() && cv.Call.Method.Name() == "NonceSize"
	}
	n := 0
	allInstrs(f, func(i ssa.Instruction) {
		sl, ok := i.(*ssa.Slice)
		if !ok || !isParamNamed(sl.X, f, 1) {
			return
		}
		n++
		construct := shortName(f) + "/slice"
		for _, bound := range []ssa.Value{sl.Low, sl.High} {
			if bound == nil {
				continue
			}
			bo, isB := resolve(bound).(*ssa.BinOp)
			if !isB || bo.Op != token.SUB || !isLenData(bo.X) || !isNonceSize(bo.Y) {
				c.undecided(construct, u.ipos(i), "slice bound is not len(data) - NonceSize()")
				return
			}
		}
		guarded := false
		for _, fct := range factsAt(i.Block()) {
			b, isB := fct.V.(*ssa.BinOp)
			if !isB {
				continue
			}
			switch {
			case b.Op == token.LSS && isLenData(b.X) && isNonceSize(b.Y) && !fct.True,
				b.Op == token.GEQ && isLenData(b.X) && isNonceSize(b.Y) && fct.True,
				b.Op == token.GTR && isNonceSize(b.X) && isLenData(b.Y) && !fct.True,
				b.Op == token.LEQ && isNonceSize(b.X) && isLenData(b.Y) && fct.True:
				guarded = true
			}
		}
		c.check(guarded, construct, u.ipos(i), "dominated by len(data) >= NonceSize()", "the ciphertext is sliced at len(data)-NonceSize() without a dominating length check: a truncated record panics (slice bounds out of range)")
	})
	if n == 0 {
		c.unresolved(shortName(f)+"/slice", "slicing of the data parameter")
	}
}

func ruleC07AuthenticatedOnly(c *Ctx) {
	u := c.U1
	c.rule("C07.authenticated-only", "the AEAD is crypto/cipher.NewGCM(crypto/aes.NewCipher(key)); the data result of every AEAD.Decrypt and cipher.AEAD.Open is used (other than returned together with its error) only where that call's err is known nil", 8)
	fac := u.Func(pkgAead, "aesGCMCipherFactory")
	ctor := u.Func(pkgAead, "NewAES256GCM")
	if fac == nil || ctor == nil {
		c.unresolved("aesGCMCipherFactory", "aead.aesGCMCipherFactory / NewAES256GCM")
	} else {
		c.FuncsAnalysed[shortName(fac)] = true
		good := false
		for _, r := range returnsOf(fac) {
			// either `return cipher.NewGCM(block)` (tuple) or values extracted from it
			v := returnedValue(r, 0)
			var call *ssa.Call
			switch x := strip(v).(type) {
			case *ssa.Call:
				call = x
			case *ssa.Extract:
				call, _ = x.Tuple.(*ssa.Call)
			}
			if call != nil && staticIs(call, "crypto/cipher.NewGCM") {
				if ex, ok := resolve(call.Call.Args[0]).(*ssa.Extract); ok {
					if bc, ok := ex.Tuple.(*ssa.Call); ok && staticIs(bc, "crypto/aes.NewCipher") && isParamNamed(bc.Call.Args[0], fac, 0) {
						good = true
					}
				}
			} else if call == nil || !isNilConst(strip(v)) {
				if !isNilConst(strip(v)) {
					good = false
					break
				}
			}
		}
		c.check(good, "aead.aesGCMCipherFactory", u.pos(fac.Pos()), "cipher.NewGCM(aes.NewCipher(key)) — standard nonce and tag sizes", "the AEAD is no longer crypto/cipher.NewGCM over crypto/aes.NewCipher of the given key (unauthenticated or truncated-tag modes would return wrong bytes for tampered data)")
		uses := false
		allInstrs(ctor, func(i ssa.Instruction) {
			for _, op := range i.Operands(nil) {
				if *op != nil {
					if fn, ok := (*op).(*ssa.Function); ok && fn == fac {
						uses = true
					}
				}
			}
		})
		c.check(uses, "aead.NewAES256GCM", u.pos(ctor.Pos()), "built from aesGCMCipherFactory", "NewAES256GCM no longer uses aesGCMCipherFactory")
	}
	for _, f := range u.RepoFuncs {
		allInstrs(f, func(i ssa.Instruction) {
			cv, ok := i.(*ssa.Call)
			if !ok {
				return
			}
			isDec := invokeIs(i, pkgApp, "AEAD", "Decrypt")
			isOpen := cv.Call.IsInvoke() && cv.Call.Method.Name() == "Open" && typeIsNamed(cv.Call.Value.Type(), "crypto/cipher", "AEAD")
			if !isDec && !isOpen {
				return
			}
			c.CallSites++
			c.FuncsAnalysed[shortName(f)] = true
			construct := shortName(f) + "/" + calleeLabel(i)
			var data, errV ssa.Value
			if refs := cv.Referrers(); refs != nil {
				for _, r := range *refs {
					if ex, ok := r.(*ssa.Extract); ok {
						if ex.Index == 0 {
							data = ex
						} else {
							errV = ex
						}
					}
				}
			}
			if data == nil {
				// tuple returned as a whole (`return crypto.Decrypt(...)`) or unused
				c.ok(construct, u.ipos(i), "result tuple passed to the caller unchanged")
				return
			}
			if errV == nil {
				c.bad(construct, u.ipos(i), "the decryption error is discarded while the data result is used")
				return
			}
			al := aliasClosure(data, nil)
			bad := ""
			for v := range al {
				refs := v.Referrers()
				if refs == nil {
					continue
				}
				for _, r := range *refs {
					if _, isRet := r.(*ssa.Return); isRet {
						continue // returned with its error: the caller decides
					}
					if _, isSt := r.(*ssa.Store); isSt {
						if st := r.(*ssa.Store); st.Val == v {
							if _, local := st.Addr.(*ssa.Alloc); local {
								continue // spill slot
							}
						}
					}
					if rv, isV := r.(ssa.Value); isV && al[rv] {
						continue
					}
					if !knownNil(errV, r.Block()) {
						bad = u.ipos(r) + " " + instrText(r)
					}
				}
			}
			c.check(bad == "", construct, u.ipos(i), "data result used only where err is known nil", "the output of an authenticated decryption is used where its error is not known to be nil (unauthenticated bytes could be returned): "+bad)
		})
	}
}

func ruleC07ErrorsPropagate(c *Ctx) {
	u := c.U1
	c.rule("C07.errors-propagate", "on the decrypt/load path outside envelopeEncryption (aead.cryptoFunc, Session.Load/Decrypt/Store, StaticKMS): every error is tested or returned and its non-nil edge reaches only non-nil error returns", 6)
	for _, f := range u.RepoFuncs {
		root := rootFunc(f)
		if root.Pkg == nil {
			continue
		}
		in := false
		switch root.Pkg.Pkg.Path() {
		case pkgAead:
			in = root.Signature.Recv() != nil && namedTypeName(root.Signature.Recv().Type()) == "cryptoFunc"
		case pkgApp:
			in = root.Signature.Recv() != nil && namedTypeName(root.Signature.Recv().Type()) == "Session"
		case pkgKms:
			in = root.Signature.Recv() != nil && namedTypeName(root.Signature.Recv().Type()) == "StaticKMS"
		}
		if !in {
			continue
		}
		c.FuncsAnalysed[shortName(f)] = true
		for _, s := range errorDiscipline(f, nil, nil) {
			c.CallSites++
			construct := shortName(f) + "/" + calleeLabel(s.Call)
			if s.Problem != "" {
				c.bad(construct, u.ipos(s.Call), s.Problem, u.tracePositions(s.Trace)...)
			} else {
				c.ok(construct, u.ipos(s.Call), s.How)
			}
		}
	}
	_ = strings.TrimSpace
}
