package main

// C07 — decrypt yields the plaintext or an error, never a crash (DESIGN §3 C07). E-NIL + E-DOM.

import (
	"go/constant"
	"go/token"
	"go/types"
	"strings"

	"golang.org/x/tools/go/ssa"
)

func init() {
	register(&propSpec{
		ID:            "C07",
		UsesCallGraph: true,
		Title:         "Decrypt yields the original plaintext or an error: never other bytes, no crash",
		Explanation: "Structural necessary conditions of C07 at every dereference / call site of the SDK core: (nil-guard) every dereference of a pointer that traces back to a declared nullable source — " +
			"results of Metastore.Load/LoadLatest and Loader.Load, the ParentKeyMeta / Key fields of records — is dominated by a non-nil test of the same value, through helper parameters (all call sites), " +
			"closure captures and call results; (length-guard) the nonce/ciphertext slicing in Decrypt is dominated by len(data) >= NonceSize(); (authenticated-only) the cipher is crypto/cipher.NewGCM over " +
			"crypto/aes.NewCipher and the data result of every AEAD.Decrypt / Open is used only where err is known nil; (errors-propagate) every error on the decrypt path is tested and its non-nil edge " +
			"reaches only non-nil error returns; (success-carries-decrypted-data) a nil-error return of a ([]byte, error) function on the path carries the checked result of the next decrypt step, never nil / a literal / `nil, err` with err known nil; " +
			"(result-used-only-after-error-check) a pointer result is used as a receiver (also in a defer) only where its error is known nil; (no-deref-of-known-nil) nothing is dereferenced on an edge that established it nil. That tampered ciphertext fails authentication is a property of AES-GCM and is not decided.",
		NotDecided:  []string{"that tampered/spliced ciphertext fails authentication (property of AES-GCM)", "fuzzing of arbitrary bytes", "panics inside dependencies (encoding/json, AWS SDKs, crypto)", "nil-ness of values that do not trace back to a declared nullable source (assumed non-nil)"},
		Assumptions: []string{"declared nullable sources: Metastore.Load/LoadLatest and Loader.Load results, EnvelopeKeyRecord.ParentKeyMeta, DataRowRecord.Key", "accessor closures run synchronously where they are created"},
		Tech:        "static analysis: targeted nil-guard dominance (access-path facts, helper-parameter and closure summaries) + error-discipline on SSA",
		NeedU1:      true,
		NeedU2:      true,
		Rules:       []func(*Ctx){ruleC07NilGuard, ruleC07LengthGuard, ruleC07AuthenticatedOnly, ruleC07ErrorsPropagate, ruleC07SuccessCarriesData, ruleC07UseAfterErrorCheck, ruleC07DecodedPointerElementsGuarded, ruleC07MapLookupPointerGuarded, ruleC01ProvenanceDecrypt, ruleC07AtomicValueSingleType, ruleC19SessionNil, noWriteToNilledMapRule("C07", pkgApp, pkgCache), nilContradictionRule("C07", false, "github.com/godaddy/asherah/go/appencryption"), recoverReportsFailureRule("C07", pkgApp, pkgInt, pkgPersist, pkgKmsV1, pkgKmsV2, pkgDynV1, pkgDynV2), ruleC19NilSafeDecoding, ruleC15FilterGeometryFixed, ruleC15LFUNoEmptyBucket, ruleC15ListEndsNonEmpty, ruleC19NilableResultsChecked, ruleC01CallerBuffersImmutable},
	})
}

func newRecordNilChecker(u *Universe) *nilChecker {
	return &nilChecker{
		u: u,
		isSourceCall: func(c *ssa.Call) bool {
			return invokeIs(c, pkgApp, "Metastore", "Load") || invokeIs(c, pkgApp, "Metastore", "LoadLatest") || invokeIs(c, pkgApp, "Loader", "Load")
		},
		isSourceField: func(base types.Type, field string) bool {
			return (field == "ParentKeyMeta" && typeIsNamed(base, pkgApp, "EnvelopeKeyRecord")) || (field == "Key" && typeIsNamed(base, pkgApp, "DataRowRecord"))
		},
		cg:       newCallGraph(u),
		visiting: map[string]bool{},
	}
}

func isRecordType(t types.Type) bool {
	return typeIsNamed(t, pkgApp, "EnvelopeKeyRecord") || typeIsNamed(t, pkgApp, "KeyMeta") || typeIsNamed(t, pkgApp, "DataRowRecord")
}

func ruleC07NilGuard(c *Ctx) {
	u := c.U1
	c.rule("C07.nil-guard", "every dereference of a *EnvelopeKeyRecord / *KeyMeta / *DataRowRecord in package appencryption that traces back to a declared nullable source is dominated by a non-nil test of that value (helpers: at every call site)", 25)
	n := newRecordNilChecker(u)
	for _, f := range u.RepoFuncs {
		root := rootFunc(f)
		if root.Pkg == nil || root.Pkg.Pkg.Path() != pkgApp {
			continue
		}
		sites := derefSites(f, func(t types.Type) bool { return isRecordType(t) && !isPtr(t) })
		if len(sites) > 0 {
			c.FuncsAnalysed[shortName(f)] = true
		}
		seen := map[string]bool{}
		for _, s := range sites {
			key := accessPath(s.Ptr) + "@" + s.Instr.Block().String()
			if seen[key] {
				continue
			}
			seen[key] = true
			c.CallSites++
			construct := shortName(f) + "/deref " + accessPath(s.Ptr)
			v := n.safeAt(s.Ptr, s.Instr.Block(), 0)
			if v.Safe {
				c.ok(construct, u.ipos(s.Instr), v.Why)
			} else {
				c.bad(construct, u.ipos(s.Instr), "possible nil dereference (panic instead of an error): "+v.Why)
			}
		}
	}
}

// sameExpr: structural equality of two size expressions (len(x) of the same x, the same method on the same receiver,
// the same constant, the same SSA value).
func sameExpr(a, b ssa.Value) bool {
	a, b = resolve(a), resolve(b)
	if a == b {
		return true
	}
	if ka, ok := constOf(a); ok {
		if kb, ok2 := constOf(b); ok2 {
			return ka.ExactString() == kb.ExactString()
		}
		return false
	}
	ca, ok1 := a.(*ssa.Call)
	cb, ok2 := b.(*ssa.Call)
	if ok1 && ok2 {
		if ba, isB := ca.Call.Value.(*ssa.Builtin); isB {
			if bb, isB2 := cb.Call.Value.(*ssa.Builtin); isB2 && ba.Name() == bb.Name() && len(ca.Call.Args) == 1 && len(cb.Call.Args) == 1 {
				return resolve(ca.Call.Args[0]) == resolve(cb.Call.Args[0]) || (accessPath(ca.Call.Args[0]) == accessPath(cb.Call.Args[0]) && !strings.HasPrefix(accessPath(ca.Call.Args[0]), "V:"))
			}
			return false
		}
		if ca.Call.IsInvoke() && cb.Call.IsInvoke() && ca.Call.Method == cb.Call.Method && len(ca.Call.Args) == 0 {
			return resolve(ca.Call.Value) == resolve(cb.Call.Value) || accessPath(ca.Call.Value) == accessPath(cb.Call.Value)
		}
		if ga, gb := staticCallee(ca), staticCallee(cb); ga != nil && ga == gb && len(ca.Call.Args) == len(cb.Call.Args) {
			for k := range ca.Call.Args {
				if !sameExpr(ca.Call.Args[k], cb.Call.Args[k]) {
					return false
				}
			}
			return len(ca.Call.Args) > 0
		}
	}
	return false
}

// knownGE: a dominating branch fact at block b establishes x >= y.
func knownGE(x, y ssa.Value, b *ssa.BasicBlock) bool {
	for _, fct := range factsAt(b) {
		bo, ok := fct.V.(*ssa.BinOp)
		if !ok {
			continue
		}
		same := sameExpr
		if fct.Sub != nil {
			// a fact established at every call site of this helper: compare in the helper's frame
			fct := fct
			same = func(inFact, local ssa.Value) bool {
				return pureSizeExpr(local) && exprKey(fct, inFact) == exprKey(Fact{}, local)
			}
		}
		switch {
		case bo.Op == token.LSS && same(bo.X, x) && same(bo.Y, y) && !fct.True,
			bo.Op == token.GEQ && same(bo.X, x) && same(bo.Y, y) && fct.True,
			bo.Op == token.GTR && same(bo.X, y) && same(bo.Y, x) && !fct.True,
			bo.Op == token.LEQ && same(bo.X, y) && same(bo.Y, x) && fct.True:
			return true
		}
	}
	return false
}

// pureSizeExpr: a constant, len() of a parameter / field path, or a niladic interface method (NonceSize(), Overhead())
// on such a path — the expressions sameExpr also treats as equal when they are spelled the same.
func pureSizeExpr(v ssa.Value) bool {
	v = resolve(v)
	if _, ok := constOf(v); ok {
		return true
	}
	cv, ok := v.(*ssa.Call)
	if !ok {
		return false
	}
	if b, isB := cv.Call.Value.(*ssa.Builtin); isB {
		return b.Name() == "len" && len(cv.Call.Args) == 1 && !strings.HasPrefix(accessPath(cv.Call.Args[0]), "V:")
	}
	return cv.Call.IsInvoke() && len(cv.Call.Args) == 0 && !strings.HasPrefix(accessPath(cv.Call.Value), "V:")
}

func isLenOf(v ssa.Value, x ssa.Value) bool {
	cv, ok := resolve(v).(*ssa.Call)
	if !ok {
		return false
	}
	b, isB := cv.Call.Value.(*ssa.Builtin)
	return isB && b.Name() == "len" && (resolve(cv.Call.Args[0]) == resolve(x) || accessPath(cv.Call.Args[0]) == accessPath(x))
}

// indexBelowLen: a dominating fact orders idx strictly below len(base).
func indexBelowLen(idx, base ssa.Value, b *ssa.BasicBlock) bool {
	for _, fct := range factsAt(b) {
		bo, isB := fct.V.(*ssa.BinOp)
		if !isB {
			continue
		}
		switch {
		case bo.Op == token.LSS && sameExpr(bo.X, idx) && isLenOf(bo.Y, base) && fct.True,
			bo.Op == token.GTR && isLenOf(bo.X, base) && sameExpr(bo.Y, idx) && fct.True,
			bo.Op == token.GEQ && sameExpr(bo.X, idx) && isLenOf(bo.Y, base) && !fct.True,
			bo.Op == token.LEQ && isLenOf(bo.X, base) && sameExpr(bo.Y, idx) && !fct.True:
			return true
		}
	}
	return false
}

// knownNonEmpty: a dominating fact says len(x) > 0 / len(x) != 0 / x != "".
func knownNonEmpty(x ssa.Value, b *ssa.BasicBlock) bool {
	for _, fct := range factsAt(b) {
		bo, isB := fct.V.(*ssa.BinOp)
		if !isB {
			continue
		}
		k, isK := constOf(bo.Y)
		if !isK {
			continue
		}
		if isLenOf(bo.X, x) {
			kv, _ := constantInt64(k)
			switch {
			case bo.Op == token.GTR && fct.True && kv >= 0, bo.Op == token.GEQ && fct.True && kv >= 1,
				bo.Op == token.NEQ && fct.True && kv == 0, bo.Op == token.EQL && !fct.True && kv == 0,
				bo.Op == token.LEQ && !fct.True && kv >= 0, bo.Op == token.LSS && !fct.True && kv >= 1:
				return true
			}
		}
		if k.Kind() == constant.String && constant.StringVal(k) == "" && sameExpr(bo.X, x) {
			if (bo.Op == token.NEQ && fct.True) || (bo.Op == token.EQL && !fct.True) {
				return true
			}
		}
	}
	return false
}

// ruleC07LengthGuard: on the decrypt path no slice expression or make() size derived from attacker-controlled lengths can
// go out of range: a bound `len(x) - n` needs a dominating len(x) >= n, any other non-constant bound B of x[..] needs a
// dominating B <= len(x), and a make() size computed by subtraction needs its operands ordered by a dominating test.
func ruleC07LengthGuard(c *Ctx) {
	u := c.U1
	c.rule("C07.length-guard", "in every repo function reachable from DecryptDataRowRecord / Session.Load: each slice bound `len(x)-n` is dominated by len(x) >= n, each other non-constant bound B of x[…] by B <= len(x), and each make() size computed by subtraction by a test ordering its operands (truncated / short inputs must yield an error, not a panic)", 2)
	cg := newCallGraph(u)
	funcs := map[*ssa.Function]bool{}
	for _, start := range []*ssa.Function{u.Method(pkgApp, "envelopeEncryption", "DecryptDataRowRecord"), u.Method(pkgApp, "Session", "Load"), u.Method(pkgApp, "Session", "Decrypt")} {
		if start == nil {
			c.unresolved("decrypt entry points", "DecryptDataRowRecord / Session.Load")
			return
		}
		for f := range cg.reachableFrom(start) {
			if f.Blocks != nil && f.Pkg != nil && strings.HasPrefix(f.Pkg.Pkg.Path(), "github.com/godaddy/asherah/") {
				funcs[f] = true
			}
		}
	}
	n := 0
	for f := range funcs {
		allInstrs(f, func(i ssa.Instruction) {
			switch x := i.(type) {
			case *ssa.Slice:
				if _, fresh := resolve(x.X).(*ssa.MakeSlice); fresh {
					return
				}
				if a, isA := x.X.(*ssa.Alloc); isA && (a.Comment == "varargs" || a.Comment == "makeslice" || a.Comment == "slicelit") {
					return
				}
				if _, isArr := x.X.Type().Underlying().(*types.Pointer); isArr {
					return // pointer to array: bounds are static
				}
				for _, bound := range []ssa.Value{x.Low, x.High, x.Max} {
					if bound == nil {
						continue
					}
					if _, isC := constOf(bound); isC {
						if k, _ := constOf(bound); k.ExactString() == "0" {
							continue
						}
					}
					n++
					c.CallSites++
					c.FuncsAnalysed[shortName(f)] = true
					construct := trimPkgDirs(shortName(f)) + "/slice-bound " + describeOperand(bound)
					ok := false
					if bo, isB := resolve(bound).(*ssa.BinOp); isB && bo.Op == token.SUB && isLenOf(bo.X, x.X) {
						ok = knownGE(bo.X, bo.Y, i.Block())
					} else {
						// B <= len(x)
						for _, fct := range factsAt(i.Block()) {
							b2, isB2 := fct.V.(*ssa.BinOp)
							if !isB2 {
								continue
							}
							switch {
							case b2.Op == token.LSS && isLenOf(b2.X, x.X) && sameExpr(b2.Y, bound) && !fct.True,
								b2.Op == token.GEQ && isLenOf(b2.X, x.X) && sameExpr(b2.Y, bound) && fct.True,
								b2.Op == token.GTR && sameExpr(b2.X, bound) && isLenOf(b2.Y, x.X) && !fct.True,
								b2.Op == token.LEQ && sameExpr(b2.X, bound) && isLenOf(b2.Y, x.X) && fct.True:
								ok = true
							}
						}
						if isLenOf(bound, x.X) {
							ok = true
						}
					}
					c.check(ok, construct, u.ipos(i), "bound is dominated by the matching length test", "a slice bound on the decrypt path is not protected by a dominating length check: a short or truncated input panics (slice bounds out of range) instead of returning an error")
				}
			case *ssa.IndexAddr, *ssa.Index:
				// constant index into a slice of run-time length (e.g. kmsKeks[0] of a decoded envelope)
				var base, idx ssa.Value
				switch y := i.(type) {
				case *ssa.IndexAddr:
					base, idx = y.X, y.Index
				case *ssa.Index:
					base, idx = y.X, y.Index
				}
				if bt, isB := base.Type().Underlying().(*types.Basic); isB && bt.Info()&types.IsString != 0 {
					// s[i] on a string
					if kx, isK := constOf(idx); isK {
						if kv, _ := constantInt64(kx); kv == 0 && knownNonEmpty(base, i.Block()) {
							return
						}
					}
					n++
					c.CallSites++
					c.FuncsAnalysed[shortName(f)] = true
					c.check(indexBelowLen(idx, base, i.Block()), trimPkgDirs(shortName(f))+"/string-index["+describeOperand(idx)+"]", u.ipos(i), "string index dominated by index < len", "a byte of a string that comes from a stored record (a key id) is addressed on the decrypt path by an index that no dominating test keeps below the string's length: a short, empty or foreign id panics (index out of range) instead of producing an error")
					return
				}
				if _, isSlice := base.Type().Underlying().(*types.Slice); !isSlice {
					return
				}
				k, isC := constOf(idx)
				if !isC {
					if _, fresh := resolve(base).(*ssa.MakeSlice); fresh {
						return
					}
					// the generic cache's sketch / bloom filter index their own tables by masked hashes, not by anything
					// derived from a record (panic-freedom of pkg/cache is C15's)
					if strings.Contains(f.Pkg.Pkg.Path(), "/pkg/cache") {
						return
					}
					n++
					c.CallSites++
					c.FuncsAnalysed[shortName(f)] = true
					c.check(indexBelowLen(idx, base, i.Block()), trimPkgDirs(shortName(f))+"/index["+describeOperand(idx)+"]", u.ipos(i), "variable index dominated by index < len", "an element of a slice is addressed on the decrypt path by a computed index that no dominating test keeps below the slice's length: a short or foreign input panics (index out of range) instead of producing an error")
					return
				}
				if _, fresh := resolve(base).(*ssa.MakeSlice); fresh {
					return
				}
				if sl, isSl := base.(*ssa.Slice); isSl {
					if a, isA := sl.X.(*ssa.Alloc); isA && (a.Comment == "varargs" || a.Comment == "slicelit" || a.Comment == "makeslice") {
						return
					}
				}
				kv, _ := constantInt64(k)
				n++
				c.CallSites++
				c.FuncsAnalysed[shortName(f)] = true
				ok := false
				for _, fct := range factsAt(i.Block()) {
					bo, isB := fct.V.(*ssa.BinOp)
					if !isB {
						continue
					}
					cmp := func(lenSide, other ssa.Value) (int64, bool) {
						if !isLenOf(lenSide, base) {
							return 0, false
						}
						kk, isK := constOf(other)
						if !isK {
							return 0, false
						}
						v, _ := constantInt64(kk)
						return v, true
					}
					if v, isL := cmp(bo.X, bo.Y); isL {
						switch {
						case bo.Op == token.GTR && fct.True && v >= kv, // len > v
							bo.Op == token.GEQ && fct.True && v > kv,             // len >= v
							bo.Op == token.LEQ && !fct.True && v >= kv,           // !(len <= v)
							bo.Op == token.LSS && !fct.True && v > kv,            // !(len < v)
							bo.Op == token.EQL && !fct.True && v == 0 && kv == 0, // len != 0
							bo.Op == token.NEQ && fct.True && v == 0 && kv == 0,
							bo.Op == token.EQL && fct.True && v > kv: // len == v
							ok = true
						}
					}
				}
				c.check(ok, trimPkgDirs(shortName(f))+"/index["+k.ExactString()+"]", u.ipos(i), "constant index dominated by a length test", "element "+k.ExactString()+" of a slice whose length comes from decoded input is accessed without a dominating length check: an empty or short list (e.g. a key envelope without entries) panics with index out of range instead of producing an error")
			case *ssa.MakeSlice:
				for _, sz := range []ssa.Value{x.Len, x.Cap} {
					bo, isB := resolve(sz).(*ssa.BinOp)
					if !isB || bo.Op != token.SUB {
						continue
					}
					n++
					c.CallSites++
					c.FuncsAnalysed[shortName(f)] = true
					construct := trimPkgDirs(shortName(f)) + "/make-size"
					c.check(knownGE(bo.X, bo.Y, i.Block()), construct, u.ipos(i), "size a-b with a dominating a >= b", "a buffer size on the decrypt path is computed by subtraction without a dominating check that it cannot be negative: a short input panics (makeslice: len/cap out of range)")
				}
			}
		})
	}
	c.note("C07.length-guard: %d repo functions reachable from the decrypt entry points scanned", len(funcs))
	_ = n
}

func ruleC07AuthenticatedOnly(c *Ctx) {
	u := c.U1
	c.rule("C07.authenticated-only", "the AEAD is crypto/cipher.NewGCM(crypto/aes.NewCipher(key)); the data result of every AEAD.Decrypt and cipher.AEAD.Open is used (other than returned together with its error) only where that call's err is known nil", 8)
	fac := u.Func(pkgAead, "aesGCMCipherFactory")
	ctor := u.Func(pkgAead, "NewAES256GCM")
	if fac == nil || ctor == nil {
		c.unresolved("aesGCMCipherFactory", "aead.aesGCMCipherFactory / NewAES256GCM")
	} else {
		c.FuncsAnalysed[shortName(fac)] = true
		good := false
		for _, r := range returnsOf(fac) {
			// either `return cipher.NewGCM(block)` (tuple) or values extracted from it
			v := returnedValue(r, 0)
			var call *ssa.Call
			switch x := strip(v).(type) {
			case *ssa.Call:
				call = x
			case *ssa.Extract:
				call, _ = x.Tuple.(*ssa.Call)
			}
			if call != nil && staticIs(call, "crypto/cipher.NewGCM") {
				if ex, ok := resolve(call.Call.Args[0]).(*ssa.Extract); ok {
					if bc, ok := ex.Tuple.(*ssa.Call); ok && staticIs(bc, "crypto/aes.NewCipher") && isParamNamed(bc.Call.Args[0], fac, 0) {
						good = true
					}
				}
			} else if call == nil || !isNilConst(strip(v)) {
				if !isNilConst(strip(v)) {
					good = false
					break
				}
			}
		}
		c.check(good, "aead.aesGCMCipherFactory", u.pos(fac.Pos()), "cipher.NewGCM(aes.NewCipher(key)) — standard nonce and tag sizes", "the AEAD is no longer crypto/cipher.NewGCM over crypto/aes.NewCipher of the given key (unauthenticated or truncated-tag modes would return wrong bytes for tampered data)")
		uses := false
		allInstrs(ctor, func(i ssa.Instruction) {
			for _, op := range i.Operands(nil) {
				if *op != nil {
					if fn, ok := (*op).(*ssa.Function); ok && fn == fac {
						uses = true
					}
				}
			}
		})
		c.check(uses, "aead.NewAES256GCM", u.pos(ctor.Pos()), "built from aesGCMCipherFactory", "NewAES256GCM no longer uses aesGCMCipherFactory")
	}
	for _, f := range u.RepoFuncs {
		allInstrs(f, func(i ssa.Instruction) {
			cv, ok := i.(*ssa.Call)
			if !ok {
				return
			}
			isDec := invokeIs(i, pkgApp, "AEAD", "Decrypt")
			isOpen := cv.Call.IsInvoke() && cv.Call.Method.Name() == "Open" && typeIsNamed(cv.Call.Value.Type(), "crypto/cipher", "AEAD")
			if !isDec && !isOpen {
				return
			}
			c.CallSites++
			c.FuncsAnalysed[shortName(f)] = true
			construct := shortName(f) + "/" + calleeLabel(i)
			var data, errV ssa.Value
			if refs := cv.Referrers(); refs != nil {
				for _, r := range *refs {
					if ex, ok := r.(*ssa.Extract); ok {
						if ex.Index == 0 {
							data = ex
						} else {
							errV = ex
						}
					}
				}
			}
			if data == nil {
				// tuple returned as a whole (`return crypto.Decrypt(...)`) or unused
				c.ok(construct, u.ipos(i), "result tuple passed to the caller unchanged")
				return
			}
			if errV == nil {
				c.bad(construct, u.ipos(i), "the decryption error is discarded while the data result is used")
				return
			}
			al := aliasClosure(data, nil)
			bad := ""
			for v := range al {
				refs := v.Referrers()
				if refs == nil {
					continue
				}
				for _, r := range *refs {
					if _, isRet := r.(*ssa.Return); isRet {
						continue // returned with its error: the caller decides
					}
					if _, isSt := r.(*ssa.Store); isSt {
						if st := r.(*ssa.Store); st.Val == v {
							if _, local := st.Addr.(*ssa.Alloc); local {
								continue // spill slot
							}
						}
					}
					if rv, isV := r.(ssa.Value); isV && al[rv] {
						continue
					}
					if !knownNil(errV, r.Block()) {
						bad = u.ipos(r) + " " + instrText(r)
					}
				}
			}
			c.check(bad == "", construct, u.ipos(i), "data result used only where err is known nil", "the output of an authenticated decryption is used where its error is not known to be nil (unauthenticated bytes could be returned): "+bad)
		})
	}
}

func ruleC07ErrorsPropagate(c *Ctx) {
	u := c.U1
	c.rule("C07.errors-propagate", "on the decrypt/load path outside envelopeEncryption (aead.cryptoFunc, Session.Load/Decrypt/Store, StaticKMS): every error is tested or returned and its non-nil edge reaches only non-nil error returns", 6)
	for _, f := range u.RepoFuncs {
		root := rootFunc(f)
		if root.Pkg == nil {
			continue
		}
		in := false
		switch root.Pkg.Pkg.Path() {
		case pkgAead:
			in = root.Signature.Recv() != nil && namedTypeName(root.Signature.Recv().Type()) == "cryptoFunc"
		case pkgApp:
			in = root.Signature.Recv() != nil && namedTypeName(root.Signature.Recv().Type()) == "Session"
		case pkgKms:
			in = root.Signature.Recv() != nil && namedTypeName(root.Signature.Recv().Type()) == "StaticKMS"
		}
		if !in {
			continue
		}
		c.FuncsAnalysed[shortName(f)] = true
		for _, s := range errorDiscipline(f, nil, nil) {
			c.CallSites++
			construct := shortName(f) + "/" + calleeLabel(s.Call)
			if s.Problem != "" {
				c.bad(construct, u.ipos(s.Call), s.Problem, u.tracePositions(s.Trace)...)
			} else {
				c.ok(construct, u.ipos(s.Call), s.How)
			}
		}
	}
	_ = strings.TrimSpace
}
