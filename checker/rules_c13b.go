package main

// C13.key-fidelity: every metastore implementation addresses a row by exactly the (id, created) it was given.

import (
	"fmt"
	"go/constant"
	"go/token"
	"strings"

	"golang.org/x/tools/go/ssa"
)

// keyProv renders where a key component comes from, in terms of the enclosing method's keyID/created parameters.
func keyProv(v ssa.Value, f *ssa.Function, depth int) string { return keyProvB(v, f, nil, depth) }

// keyProvB: as keyProv; bind maps the parameters of a literal-building helper to the arguments of the call in f.
func keyProvB(v ssa.Value, f *ssa.Function, bind map[*ssa.Parameter]ssa.Value, depth int) string {
	if depth > 8 {
		return "?deep"
	}
	switch x := v.(type) {
	case *ssa.Parameter:
		if a, ok := bind[x]; ok {
			return keyProvB(a, f, nil, depth+1)
		}
		return "P:" + x.Name()
	case *ssa.MakeInterface:
		return keyProvB(x.X, f, bind, depth+1)
	case *ssa.ChangeType:
		return keyProvB(x.X, f, bind, depth+1)
	case *ssa.UnOp:
		if x.Op == token.MUL {
			if a, ok := x.X.(*ssa.Alloc); ok {
				st := localStores(a)
				if len(st) == 1 {
					return keyProvB(st[0], f, bind, depth+1)
				}
			}
		}
	case *ssa.Alloc:
		// &keyID (address-taken parameter) or a struct literal {S: …} / {N: …} / {Value: …}
		if st := localStores(x); len(st) == 1 {
			return keyProvB(st[0], f, bind, depth+1)
		}
		fl := litFields(x)
		tn := namedTypeName(x.Type())
		for _, k := range []string{"S", "N", "Value"} {
			if fv, ok := fl[k]; ok && len(fl) == 1 {
				kind := k
				if k == "Value" {
					kind = strings.TrimPrefix(tn, "AttributeValueMember")
				}
				return kind + ":" + keyProvB(fv, f, bind, depth+1)
			}
		}
		return "?literal " + tn
	case *ssa.Call:
		g := staticCallee(x)
		if g == nil {
			return "?dynamic call"
		}
		switch funcFullName(g) {
		case "time.Unix":
			if k, isC := constOf(x.Call.Args[1]); isC && k.ExactString() == "0" {
				return "unix(" + keyProvB(x.Call.Args[0], f, bind, depth+1) + ")"
			}
		case "strconv.FormatInt":
			if k, isC := constOf(x.Call.Args[1]); isC && k.ExactString() == "10" {
				return "dec(" + keyProvB(x.Call.Args[0], f, bind, depth+1) + ")"
			}
		case "strconv.Itoa":
			return "dec(" + keyProvB(x.Call.Args[0], f, bind, depth+1) + ")"
		}
		if g.Pkg != nil && (g.Pkg.Pkg.Path() == "github.com/aws/aws-sdk-go/aws" || g.Pkg.Pkg.Path() == "github.com/aws/aws-sdk-go-v2/aws") && g.Name() == "String" {
			return keyProvB(x.Call.Args[0], f, bind, depth+1)
		}
		return "?" + trimPkgDirs(funcFullName(g)) + "(" + func() string {
			var p []string
			for _, a := range x.Call.Args {
				p = append(p, keyProvB(a, f, bind, depth+1))
			}
			return strings.Join(p, ",")
		}() + ")"
	case *ssa.Const:
		return "const " + x.Value.ExactString()
	}
	if r := resolve(v); r != v {
		return keyProvB(r, f, bind, depth+1)
	}
	return "?" + accessPath(v)
}

// mapLit: the constant-keyed entries of a map value that is a literal of this function (MakeMap + MapUpdates), or the
// literal a same-package helper returns (every return the same MakeMap) plus the entries the caller adds to the result.
// bind maps the helper's parameters to the call's arguments.
func mapLit(v ssa.Value) (map[string]ssa.Value, map[*ssa.Parameter]ssa.Value) {
	v = resolve(v)
	entries := map[string]ssa.Value{}
	collect := func(m ssa.Value) {
		refs := m.Referrers()
		if refs == nil {
			return
		}
		for _, r := range *refs {
			if mu, ok := r.(*ssa.MapUpdate); ok && mu.Map == m {
				if k, isC := constOf(mu.Key); isC && k.Kind() == constant.String {
					entries[constant.StringVal(k)] = mu.Value
				}
			}
		}
	}
	switch x := v.(type) {
	case *ssa.MakeMap:
		collect(x)
		return entries, nil
	case *ssa.Call:
		g := staticCallee(x)
		if g == nil || g.Blocks == nil || g.Pkg == nil || x.Parent() == nil || x.Parent().Pkg == nil || g.Pkg != rootFunc(x.Parent()).Pkg {
			return nil, nil
		}
		var mm *ssa.MakeMap
		for _, r := range returnsOf(g) {
			if len(r.Results) != 1 {
				return nil, nil
			}
			m2, ok := resolve(returnedValue(r, 0)).(*ssa.MakeMap)
			if !ok || (mm != nil && mm != m2) {
				return nil, nil
			}
			mm = m2
		}
		if mm == nil {
			return nil, nil
		}
		collect(mm)
		collect(x)
		bind := map[*ssa.Parameter]ssa.Value{}
		for k, p := range g.Params {
			if k < len(x.Call.Args) {
				bind[p] = x.Call.Args[k]
			}
		}
		return entries, bind
	}
	return nil, nil
}

func ruleC13KeyFidelity(c *Ctx) {
	u := c.U1
	c.rule("C13.key-fidelity", "every metastore addresses a row by exactly the (id, created) it is given: memory Envelopes[keyID][created]; SQL binds keyID and time.Unix(created, 0); DynamoDB Item/Key carry Id = S:keyID and Created = N:FormatInt(created, 10) — nothing truncated, rounded or substituted, identically in Store and Load", 8)
	for _, m := range metastoreImpls(c) {
		for _, mn := range []string{"Store", "Load"} {
			f := u.MethodOf(m.N, mn)
			if f == nil || f.Blocks == nil {
				c.unresolved(m.N.Obj().Name()+"."+mn, "method")
				continue
			}
			c.FuncsAnalysed[shortName(f)] = true
			name := trimPkgDirs(shortName(f))
			switch m.Kind {
			case "memory":
				n := 0
				allInstrs(f, func(i ssa.Instruction) {
					var inner, key ssa.Value
					switch x := i.(type) {
					case *ssa.MapUpdate:
						if x.Key.Type().String() != "int64" {
							return
						}
						inner, key = x.Map, x.Key
					case *ssa.Lookup:
						if x.Index.Type().String() != "int64" {
							return
						}
						inner, key = x.X, x.Index
					default:
						return
					}
					n++
					idp := innerMapID(inner, f, 0)
					got := idp + "/" + keyProv(key, f, 0)
					c.check(got == "P:keyID/P:created", name+"/row-key", u.ipos(i), "Envelopes[keyID][created]", "a row is addressed by "+got+" instead of the (keyID, created) passed in")
				})
				if n == 0 {
					c.bad(name+"/row-key", u.pos(f.Pos()), "no access to Envelopes[..][created] found")
				}
			case "sql":
				n := 0
				allInstrs(f, func(i ssa.Instruction) {
					var args []ssa.Value
					switch {
					case staticIs(i, "(*database/sql.DB).ExecContext"), staticIs(i, "(*database/sql.DB).QueryRowContext"), staticIs(i, "(*database/sql.DB).QueryContext"):
						args = varargValues(callOf(i).Args[3])
					default:
						// a helper of the package that forwards its query and bind arguments to one statement call
						_, bi, isFwd := sqlForwarder(staticCallee(i))
						if _, isCall := i.(*ssa.Call); !isCall || !isFwd || bi >= len(callOf(i).Args) {
							return
						}
						args = varargValues(callOf(i).Args[bi])
					}
					n++
					var got []string
					for k, a := range args {
						if k < 2 {
							got = append(got, keyProv(a, f, 0))
						}
					}
					g := strings.Join(got, ", ")
					c.check(g == "P:keyID, unix(P:created)", name+"/bind", u.ipos(i), "binds keyID, time.Unix(created, 0)", "the statement is bound to ("+g+") instead of (keyID, time.Unix(created, 0)): distinct (id, created) pairs collapse onto one row or a row is looked up under another timestamp")
				})
				if n == 0 {
					c.bad(name+"/bind", u.pos(f.Pos()), "no database call found")
				}
			default:
				n := 0
				want := map[string]string{"Store": "Item", "Load": "Key"}[mn]
				for _, rs := range clientRequests(u, f.Pkg.Pkg.Path(), "") {
					if rs.F != f || rs.Input == nil {
						continue
					}
					fl := litFields(rs.Input)
					mv, ok := fl[want]
					if !ok {
						continue
					}
					n++
					ents, bind := mapLit(mv)
					id, cr := ents["Id"], ents["Created"]
					got := "Id=?, Created=?"
					if id != nil && cr != nil {
						got = "Id=" + keyProvB(id, f, bind, 0) + ", Created=" + keyProvB(cr, f, bind, 0)
					}
					c.check(got == "Id=S:P:keyID, Created=N:dec(P:created)", name+"/"+want, u.ipos(rs.Call), "Id = S:keyID, Created = N:FormatInt(created, 10)", "the DynamoDB "+want+" is built as ("+got+") instead of (Id = S:keyID, Created = N:decimal(created))")
				}
				if n == 0 {
					c.bad(name+"/"+want, u.pos(f.Pos()), fmt.Sprintf("no request with a %s map found in %s", want, mn))
				}
			}
		}
	}
}

// innerMapID: inner is Envelopes[<k>] (looked up, or freshly made and stored under <k>): the provenance of k.
func innerMapID(inner ssa.Value, f *ssa.Function, depth int) string {
	if depth > 4 {
		return "?"
	}
	if id, _, ok := subMapFromHelper(inner); ok {
		return keyProv(id, f, 0)
	}
	switch x := resolve(inner).(type) {
	case *ssa.Lookup:
		if strings.HasSuffix(accessPath(x.X), ".Envelopes") {
			return keyProv(x.Index, f, 0)
		}
	case *ssa.Extract:
		if lk, ok := x.Tuple.(*ssa.Lookup); ok && x.Index == 0 && strings.HasSuffix(accessPath(lk.X), ".Envelopes") {
			return keyProv(lk.Index, f, 0)
		}
	case *ssa.MakeMap:
		for _, r := range *x.Referrers() {
			if mu, ok := r.(*ssa.MapUpdate); ok && mu.Value == ssa.Value(x) && strings.HasSuffix(accessPath(mu.Map), ".Envelopes") {
				return keyProv(mu.Key, f, 0)
			}
		}
	case *ssa.Phi:
		out := ""
		for _, e := range x.Edges {
			p := innerMapID(e, f, depth+1)
			if out == "" {
				out = p
			} else if out != p {
				return "?mixed(" + out + "," + p + ")"
			}
		}
		return out
	}
	return "?"
}

// ruleC13DecodeIntoFresh: rows are decoded into a fresh zero value. encoding/json and the DynamoDB attribute decoders
// leave fields that are absent from the input (omitempty: Revoked, ParentKeyMeta) untouched, so a reused target (pooled,
// global, or passed in) makes a record come back with another record's flags and parent.
func ruleC13DecodeIntoFresh(c *Ctx) {
	u := c.U1
	c.rule("C13.decode-into-fresh", "every json.Unmarshal / dynamodbattribute.Unmarshal* / attributevalue.Unmarshal* in the metastore back ends (and the KMS envelope decoders) decodes into a variable allocated in the same call (a local or new(T)), never into a pooled, global or caller-supplied object: absent omitempty fields would otherwise keep stale values", 4)
	n := 0
	for _, f := range u.RepoFuncs {
		if f.Pkg == nil || f.Blocks == nil {
			continue
		}
		pp := f.Pkg.Pkg.Path()
		if pp != pkgPersist && pp != pkgDynV1 && pp != pkgDynV2 && pp != pkgKmsV1 && pp != pkgKmsV2 {
			continue
		}
		allInstrs(f, func(i ssa.Instruction) {
			cv, ok := i.(*ssa.Call)
			if !ok {
				return
			}
			g := staticCallee(cv)
			if g == nil || g.Pkg == nil || !strings.HasPrefix(g.Name(), "Unmarshal") {
				return
			}
			gp := g.Pkg.Pkg.Path()
			if gp != "encoding/json" && !strings.HasSuffix(gp, "/dynamodbattribute") && !strings.HasSuffix(gp, "/attributevalue") {
				return
			}
			if len(cv.Call.Args) < 2 {
				return
			}
			n++
			c.FuncsAnalysed[shortName(f)] = true
			target := unwrapIface(cv.Call.Args[1])
			fresh := false
			switch x := target.(type) {
			case *ssa.Alloc:
				fresh = x.Parent() == f // &local or new(T) in this very function
				// and nothing was stored into it before the decode other than zero-initialisation
				for _, r := range *x.Referrers() {
					if st, isS := r.(*ssa.Store); isS && st.Addr == ssa.Value(x) && instrDominates(st, cv) {
						if !isNilConst(strip(st.Val)) {
							if _, isAlloc := st.Val.(*ssa.Alloc); !isAlloc {
								fresh = false
							}
						}
					}
				}
			}
			c.check(fresh, trimPkgDirs(shortName(f))+"/"+g.Name()+"-target", u.ipos(i), "decodes into a variable allocated in this call", "the decode target is not a fresh variable of this call ("+describeOperand(target)+"): fields absent from the stored JSON/attributes (Revoked, ParentKeyMeta are omitempty) keep whatever the reused object held — a record can come back revoked, or with another key's parent")
		})
	}
	if n < 4 {
		c.bad("decoders", "", fmt.Sprintf("expected at least 4 decode sites in the back ends, found %d", n))
	}
}

// ruleC13MemoryLatestByKey: MemoryMetastore.LoadLatest orders by the creation stamps the records were stored under (the
// inner map's keys), never by a field of the stored records.
func ruleC13MemoryLatestByKey(c *Ctx) {
	u := c.U1
	c.rule("C13.memory-latest-by-key", "MemoryMetastore.LoadLatest: no ordering comparison reads a field of a stored *EnvelopeKeyRecord; the latest record is chosen by the map keys (the created values given to Store)", 1)
	n := u.Named(pkgPersist, "MemoryMetastore")
	var f *ssa.Function
	if n != nil {
		f = u.MethodOf(n, "LoadLatest")
	}
	if f == nil {
		c.unresolved("MemoryMetastore.LoadLatest", "method")
		return
	}
	bad := ""
	cmp := 0
	// LoadLatest, its closures, and the package helpers it calls (a helper may do the ranking)
	scope := map[*ssa.Function]bool{}
	var add func(g *ssa.Function, depth int)
	add = func(g *ssa.Function, depth int) {
		if g == nil || g.Blocks == nil || scope[g] || depth > 2 {
			return
		}
		for _, a := range withAnon(g) {
			scope[a] = true
			allInstrs(a, func(i ssa.Instruction) {
				if h := staticCallee(i); h != nil && h.Pkg != nil && h.Pkg.Pkg.Path() == pkgPersist {
					add(h, depth+1)
				}
			})
		}
	}
	add(f, 0)
	var fs []*ssa.Function
	for g := range scope {
		fs = append(fs, g)
	}
	sortFuncs(fs)
	for _, g := range fs {
		c.FuncsAnalysed[shortName(g)] = true
		allInstrs(g, func(i ssa.Instruction) {
			bo, ok := i.(*ssa.BinOp)
			if !ok {
				return
			}
			switch bo.Op {
			case token.LSS, token.LEQ, token.GTR, token.GEQ:
			default:
				return
			}
			cmp++
			for _, o := range []ssa.Value{bo.X, bo.Y} {
				if base, fld, isF := fieldAccess(resolve(o)); isF && typeIsNamed(base.Type(), pkgApp, "EnvelopeKeyRecord") {
					bad = "the ordering comparison at " + u.ipos(i) + " reads field " + fld + " of a stored record instead of the key it is stored under"
				}
			}
		})
	}
	c.check(bad == "" && cmp > 0, "persistence.MemoryMetastore.LoadLatest/ordering", u.pos(f.Pos()), "ordered by the stored creation keys", bad+" (a record whose own Created differs from its (id, created) key — zero, or copied — is ranked wrongly and an older key is returned as the latest)")
}

// ruleC13ReadsHitBackend: Load and LoadLatest answer from the backend, in this very call: every path to a return that
// carries a record passes the backend read (memory: a lookup in Envelopes under the lock; SQL: QueryRowContext; DynamoDB:
// GetItem / Query on the client). A memo, pool or other process-local copy in front of the table would keep serving a
// record whose Revoked flag has since been set ("reads are strongly consistent, a completed write is visible to every
// later read").
func ruleC13ReadsHitBackend(c *Ctx) {
	u := c.U1
	c.rule("C13.reads-hit-the-backend", "in Load and LoadLatest of every metastore, every path from entry to a return with a non-nil record passes this call's own backend read (Envelopes lookup / QueryRowContext / GetItem / Query): no process-local memo answers instead of the table", 8)
	for _, m := range metastoreImpls(c) {
		for _, mn := range []string{"Load", "LoadLatest"} {
			f := u.MethodOf(m.N, mn)
			if f == nil || f.Blocks == nil {
				c.unresolved(m.N.Obj().Name()+"."+mn, "method")
				continue
			}
			c.FuncsAnalysed[shortName(f)] = true
			isRead := func(i ssa.Instruction) bool {
				switch m.Kind {
				case "memory":
					if lk, ok := i.(*ssa.Lookup); ok {
						return strings.HasSuffix(accessPath(lk.X), ".Envelopes")
					}
					if cv, ok := i.(*ssa.Call); ok {
						if _, isH := subMapHelper(staticCallee(cv)); isH {
							return true
						}
					}
				case "sql":
					return staticIs(i, "(*database/sql.DB).QueryRowContext") || staticIs(i, "(*database/sql.DB).QueryContext")
				default:
					if cc := callOf(i); cc != nil && cc.IsInvoke() {
						if _, fld, ok := fieldAccess(cc.Value); ok && fld == "svc" && (strings.HasPrefix(cc.Method.Name(), "GetItem") || strings.HasPrefix(cc.Method.Name(), "Query")) {
							return true
						}
					}
				}
				return false
			}
			name := trimPkgDirs(shortName(f))
			n := 0
			// a helper of the package that performs the read before it hands anything back
			delegated := map[*ssa.Function]bool{}
			for _, h := range readHelpersWith(f, isRead) {
				if readsBeforeValue(h, isRead) {
					delegated[h] = true
					c.FuncsAnalysed[shortName(h)] = true
				}
			}
			for _, r := range returnsOf(f) {
				if len(r.Results) != 2 || isNilValue(returnedValue(r, 0)) {
					continue
				}
				n++
				found, tr := pathSearchAt(f.Blocks[0], 0, func(i ssa.Instruction) pathAction {
					if isRead(i) {
						return pathStop
					}
					if _, isCall := i.(*ssa.Call); isCall && delegated[staticCallee(i)] {
						return pathStop
					}
					if i == ssa.Instruction(r) {
						return pathFound
					}
					return pathContinue
				}, nil)
				if found {
					c.bad(name+"/record-return", u.ipos(r), "a record can be returned on a path that never asked the backend in this call (a memo / cached copy answers): a later revocation or a newer key in the table is not seen", u.tracePositions(tr)...)
				} else {
					c.ok(name+"/record-return", u.ipos(r), "every path to this return passes the backend read")
				}
			}
			if n == 0 {
				c.bad(name+"/record-return", u.pos(f.Pos()), "no return carrying a record found")
			}
		}
	}
}
