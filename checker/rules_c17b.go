package main

// C17 — additional rules (round-2 seeds): the preferred region really comes first in the configured client order
// (decided through the finite case analysis of the comparator / of the prepend-append choice, not by running a sort),
// and per-region envelope entries are not aliased through a shared loop variable.

import (
	"fmt"
	"go/token"
	"strings"

	"golang.org/x/tools/go/ssa"
)

// regionAtom classifies v as `clients[<param k>].Region == <preferred>` (k = 0 or 1) inside a less-closure.
func regionAtom(v ssa.Value, fn *ssa.Function) (idx int, neg bool, ok bool) {
	b, isB := v.(*ssa.BinOp)
	if !isB || (b.Op != token.EQL && b.Op != token.NEQ) {
		return 0, false, false
	}
	side := func(x ssa.Value) int {
		// *(&(&slice[param]).Region)
		ld, ok := x.(*ssa.UnOp)
		if !ok || ld.Op != token.MUL {
			return -1
		}
		fa, ok := ld.X.(*ssa.FieldAddr)
		if !ok || fieldName(fa.X.Type(), fa.Field) != "Region" {
			return -1
		}
		ia, ok := fa.X.(*ssa.IndexAddr)
		if !ok {
			return -1
		}
		p, ok := ia.Index.(*ssa.Parameter)
		if !ok {
			return -1
		}
		for k, q := range fn.Params {
			if q == p {
				return k
			}
		}
		return -1
	}
	isPref := func(x ssa.Value) bool {
		return strings.Contains(strings.ToLower(accessPath(x)), "preferred")
	}
	for _, pr := range [][2]ssa.Value{{b.X, b.Y}, {b.Y, b.X}} {
		if k := side(pr[0]); k >= 0 && isPref(pr[1]) {
			return k, b.Op == token.NEQ, true
		}
	}
	return 0, false, false
}

// tri-valued evaluation of a less-closure's verdict under an assignment of the two region atoms.
const (
	triFalse = 0
	triTrue  = 1
	triAny   = 2
)

func evalLess(fn *ssa.Function, iPref, jPref bool) int {
	atomVal := func(v ssa.Value) (int, bool) {
		if k, neg, ok := regionAtom(v, fn); ok {
			val := iPref
			if k == 1 {
				val = jPref
			}
			if neg {
				val = !val
			}
			if val {
				return triTrue, true
			}
			return triFalse, true
		}
		return triAny, false
	}
	var evalV func(v ssa.Value, depth int) int
	evalV = func(v ssa.Value, depth int) int {
		if depth > 8 {
			return triAny
		}
		if k, isC := constOf(v); isC {
			if k.ExactString() == "true" {
				return triTrue
			}
			return triFalse
		}
		if r, ok := atomVal(v); ok {
			return r
		}
		switch x := v.(type) {
		case *ssa.UnOp:
			if x.Op == token.NOT {
				switch evalV(x.X, depth+1) {
				case triTrue:
					return triFalse
				case triFalse:
					return triTrue
				}
				return triAny
			}
		case *ssa.Phi:
			res := -1
			for k, e := range x.Edges {
				// skip edges that are infeasible under the assignment
				p := x.Block().Preds[k]
				if !feasibleUnder(fn, append(append([]Fact{}, factsAt(p)...), edgeFacts(p, x.Block())...), atomVal) {
					continue
				}
				r := evalV(e, depth+1)
				if res == -1 {
					res = r
				} else if res != r {
					return triAny
				}
			}
			if res == -1 {
				return triAny
			}
			return res
		}
		return triAny
	}
	res := -1
	for _, r := range returnsOf(fn) {
		if len(r.Results) != 1 {
			return triAny
		}
		if !feasibleUnder(fn, factsAt(r.Block()), atomVal) {
			continue
		}
		v := evalV(returnedValue(r, 0), 0)
		if res == -1 {
			res = v
		} else if res != v {
			return triAny
		}
	}
	if res == -1 {
		return triAny
	}
	return res
}

func feasibleUnder(fn *ssa.Function, facts []Fact, atomVal func(ssa.Value) (int, bool)) bool {
	for _, f := range facts {
		if f.Sub != nil {
			continue
		}
		if r, ok := atomVal(f.V); ok {
			if (r == triTrue) != f.True {
				return false
			}
		}
	}
	return true
}

func ruleC17PreferredFirst(c *Ctx) {
	u := c.U1
	c.rule("C17.preferred-first", "the configured client order puts the preferred region first: (v1) the comparator handed to sort.Slice/SliceStable in sortClients is false whenever element j is the preferred region and element i is not, and true whenever i is and j is not (finite case analysis over the two region tests); (v2) Builder.Build prepends a client exactly on the `region == preferredRegion` edge and appends it otherwise", 3)
	// v1
	if sc := u.Func(pkgKmsV1, "sortClients"); sc == nil {
		c.unresolved("sortClients", "aws-v1/kms.sortClients")
	} else {
		c.FuncsAnalysed[shortName(sc)] = true
		n := 0
		allInstrs(sc, func(i ssa.Instruction) {
			if !(staticIs(i, "sort.SliceStable") || staticIs(i, "sort.Slice")) {
				return
			}
			n++
			var less *ssa.Function
			switch x := callOf(i).Args[1].(type) {
			case *ssa.MakeClosure:
				less, _ = x.Fn.(*ssa.Function)
			case *ssa.Function:
				less = x
			}
			if less == nil || less.Blocks == nil || len(less.Params) != 2 {
				c.undecided("kms-v1.sortClients/less", u.ipos(i), "comparator is not a function literal")
				return
			}
			c.FuncsAnalysed[shortName(less)] = true
			a := evalLess(less, false, true) // j preferred, i not: must be false
			b := evalLess(less, true, false) // i preferred, j not: must be true
			switch {
			case a != triFalse:
				c.bad("kms-v1.sortClients/less", u.ipos(i), "the comparator can report less(i, j) = true when j is the preferred region and i is not: the sort may then place another region before the preferred one, so wrap/unwrap no longer start with the preferred region")
			case b != triTrue:
				c.bad("kms-v1.sortClients/less", u.ipos(i), "the comparator does not report less(i, j) = true when i is the preferred region and j is not: the preferred region is not moved to the front")
			default:
				c.ok("kms-v1.sortClients/less", u.ipos(i), "less(i,j): false for (other, preferred), true for (preferred, other)")
			}
		})
		if n == 0 {
			// no sort: an explicit move-to-front — element 0 is written only where the element moved there is known to be
			// the preferred region's client
			stores, bad := 0, ""
			allInstrs(sc, func(i ssa.Instruction) {
				st, ok := i.(*ssa.Store)
				if !ok {
					return
				}
				ia, isIA := st.Addr.(*ssa.IndexAddr)
				if !isIA {
					return
				}
				k, isC := constOf(ia.Index)
				if !isC || k.ExactString() != "0" {
					return
				}
				if _, isP := resolve(ia.X).(*ssa.Parameter); !isP {
					return
				}
				stores++
				known := false
				for _, fct := range factsAt(i.Block()) {
					bo, isB := fct.V.(*ssa.BinOp)
					if !isB || (bo.Op != token.EQL && bo.Op != token.NEQ) || (bo.Op == token.EQL) != fct.True {
						continue
					}
					px, py := trimAddr(accessPath(bo.X)), trimAddr(accessPath(bo.Y))
					_, xp := resolve(bo.X).(*ssa.Parameter)
					_, yp := resolve(bo.Y).(*ssa.Parameter)
					if (strings.HasSuffix(px, ".Region") && yp) || (strings.HasSuffix(py, ".Region") && xp) {
						known = true
					}
				}
				if !known {
					bad = u.ipos(i)
				}
			})
			switch {
			case stores == 0:
				c.bad("kms-v1.sortClients/sort", u.pos(sc.Pos()), "sortClients neither sorts nor moves the preferred region's client to the front")
			case bad != "":
				c.bad("kms-v1.sortClients/sort", bad, "element 0 of the client list is written where the client is not known to be the preferred region's: another region may end up first")
			default:
				c.ok("kms-v1.sortClients/sort", u.pos(sc.Pos()), "explicit move-to-front: element 0 written only with the preferred region's client")
			}
		} else if n != 1 {
			c.bad("kms-v1.sortClients/sort", u.pos(sc.Pos()), fmt.Sprintf("expected exactly one sort call in sortClients, found %d", n))
		}
	}
	// v2
	var build *ssa.Function
	if nb := u.Named(pkgKmsV2, "Builder"); nb != nil {
		build = u.MethodOf(nb, "Build")
	}
	if build == nil {
		c.unresolved("Builder.Build", "aws-v2/kms.(*Builder).Build")
		return
	}
	c.FuncsAnalysed[shortName(build)] = true
	// prefKnown: at instruction i the region is known equal (want=true) / known different (want=false) to preferredRegion
	prefKnown := func(i ssa.Instruction, want bool) bool {
		for _, fct := range factsAt(i.Block()) {
			b, ok := fct.V.(*ssa.BinOp)
			if !ok || (b.Op != token.EQL && b.Op != token.NEQ) {
				continue
			}
			if !strings.HasSuffix(accessPath(b.X), ".preferredRegion") && !strings.HasSuffix(accessPath(b.Y), ".preferredRegion") {
				continue
			}
			equal := (b.Op == token.EQL) == fct.True
			if equal == want {
				return true
			}
		}
		return false
	}
	n := 0
	var builderFuncs []*ssa.Function
	for _, g := range u.RepoFuncs {
		if g.Pkg != nil && g.Pkg.Pkg.Path() == pkgKmsV2 && g.Blocks != nil {
			if r := rootFunc(g); r.Signature.Recv() != nil && typeIsNamed(r.Signature.Recv().Type(), pkgKmsV2, "Builder") {
				builderFuncs = append(builderFuncs, g)
			}
		}
	}
	sortFuncs(builderFuncs)
	// lists of regional clients, as webs of SSA values: an append continues the list it appends to (a prepend the list it
	// spreads), a phi merges its edges
	parent := map[ssa.Value]ssa.Value{}
	var find func(v ssa.Value) ssa.Value
	find = func(v ssa.Value) ssa.Value {
		if p, ok := parent[v]; ok && p != v {
			r := find(p)
			parent[v] = r
			return r
		}
		return v
	}
	union := func(a, b ssa.Value) {
		ra, rb := find(a), find(b)
		if ra != rb {
			parent[ra] = rb
		}
	}
	isFresh := func(v ssa.Value) bool {
		sl, ok := v.(*ssa.Slice)
		if !ok {
			return false
		}
		a, ok := sl.X.(*ssa.Alloc)
		return ok && (a.Comment == "slicelit" || a.Comment == "varargs")
	}
	for _, bf := range builderFuncs {
		allInstrs(bf, func(i ssa.Instruction) {
			switch x := i.(type) {
			case *ssa.Phi:
				if strings.HasSuffix(x.Type().String(), "regionalClient") {
					for _, e := range x.Edges {
						if !isNilValue(e) {
							union(x, e)
						}
					}
				}
			case *ssa.Call:
				if bi, isB := x.Call.Value.(*ssa.Builtin); isB && bi.Name() == "append" && strings.HasSuffix(x.Type().String(), "regionalClient") {
					switch {
					case isFresh(x.Call.Args[0]) && !isFresh(x.Call.Args[1]):
						union(x, x.Call.Args[1])
					default:
						if !isNilValue(x.Call.Args[0]) {
							union(x, x.Call.Args[0])
						}
					}
				}
			}
		})
	}
	singles := map[ssa.Value][2]int{} // per list: [appends of one client known preferred, known not preferred]
	for _, bf := range builderFuncs {
		allInstrs(bf, func(i ssa.Instruction) {
			cv, ok := i.(*ssa.Call)
			if !ok {
				return
			}
			if bi, isB := cv.Call.Value.(*ssa.Builtin); !isB || bi.Name() != "append" || !strings.HasSuffix(cv.Type().String(), "regionalClient") {
				return
			}
			if isFresh(cv.Call.Args[1]) && !isFresh(cv.Call.Args[0]) {
				cnt := singles[find(cv)]
				if prefKnown(i, true) {
					cnt[0]++
				}
				if prefKnown(i, false) {
					cnt[1]++
				}
				singles[find(cv)] = cnt
			}
		})
	}
	for _, bf := range builderFuncs {
		allInstrs(bf, func(i ssa.Instruction) {
			cv, ok := i.(*ssa.Call)
			if !ok {
				return
			}
			bi, isB := cv.Call.Value.(*ssa.Builtin)
			if !isB || bi.Name() != "append" || !strings.HasSuffix(cv.Type().String(), "regionalClient") {
				return
			}
			n++
			fresh := func(v ssa.Value) bool {
				sl, ok := v.(*ssa.Slice)
				if !ok {
					return false
				}
				a, ok := sl.X.(*ssa.Alloc)
				return ok && (a.Comment == "slicelit" || a.Comment == "varargs")
			}
			first, second := cv.Call.Args[0], cv.Call.Args[1]
			switch {
			case fresh(first) && !fresh(second): // prepend
				ok := prefKnown(i, true)
				c.check(ok, "kms-v2.Builder.Build/prepend", u.ipos(i), "prepended only on the region == preferredRegion edge", "a client is placed at the front of the client list on a path where it is not known to be the preferred region")
			case fresh(second) && !fresh(first): // append of one client
				// fine on the != preferred edge; on the == preferred edge only into a list that never receives other regions'
				// clients (the "preferred" half of a partition, concatenated in front below)
				ok := prefKnown(i, false) || (prefKnown(i, true) && singles[find(cv)][1] == 0)
				c.check(ok, "kms-v2.Builder.Build/append", u.ipos(i), "appended only on the region != preferredRegion edge (or into the preferred-only list)", "a client is appended to the END of the client list on a path where it may be the preferred region: another region is then tried first")
			case !fresh(first) && !fresh(second): // concatenation of two lists
				back := singles[find(second)]
				c.check(back[0] == 0, "kms-v2.Builder.Build/concat", u.ipos(i), "the list concatenated at the end holds no preferred-region client", "the list that receives the preferred region's client is concatenated BEHIND another list: other regions are then tried first")
			default:
				c.undecided("kms-v2.Builder.Build/append", u.ipos(i), "append shape not recognised")
			}
		})
	}
	if n < 2 {
		c.bad("kms-v2.Builder.Build/order", u.pos(build.Pos()), fmt.Sprintf("expected the prepend/append pair that orders the clients, found %d append calls", n))
	}
}

// ruleC17NoLoopVarAlias: in the KMS plugins (module language version < go1.22: one variable per loop, not per iteration)
// the address of a range variable must not outlive its iteration — every stored pointer would alias the last element.
func ruleC17NoLoopVarAlias(c *Ctx) {
	u := c.U1
	c.rule("C17.no-loop-variable-alias", "in the KMS plugins no pointer to a loop variable that is shared by all iterations (go < 1.22 semantics, as built by go/ssa for the module's language version) is stored in a map, slice, struct or channel, or captured by a goroutine: per-region entries keep their own values", 1)
	n, bad := 0, 0
	for _, f := range u.RepoFuncs {
		if f.Pkg == nil || f.Blocks == nil || (f.Pkg.Pkg.Path() != pkgKmsV1 && f.Pkg.Pkg.Path() != pkgKmsV2) {
			continue
		}
		n++
		for _, s := range loopVarAliasSites(f) {
			bad++
			c.bad(trimPkgDirs(shortName(f))+"/&"+s.Var, u.ipos(s.Instr), "the address of loop variable `"+s.Var+"` (one variable for the whole loop under this module's Go language version) is "+s.How+" inside the loop: every entry ends up pointing at the last element, so a region is looked up with another region's ciphertext")
		}
	}
	if bad == 0 {
		c.ok("kms-plugins/loop-variables", "", fmt.Sprintf("no escaping address of a shared loop variable in %d functions", n))
	}
}

type loopVarAlias struct {
	Instr ssa.Instruction
	Var   string
	How   string
}

// loopVarAliasSites: escapes (map value, store, send, goroutine capture) inside a loop of the address of a variable that
// is allocated outside the loop but assigned from the loop's iteration values.
func loopVarAliasSites(f *ssa.Function) []loopVarAlias {
	var out []loopVarAlias
	allInstrs(f, func(i ssa.Instruction) {
		a, ok := i.(*ssa.Alloc)
		if !ok || !a.Heap || a.Referrers() == nil {
			return
		}
		if inCycle(a.Block()) {
			return
		}
		loopStore := false
		for _, r := range *a.Referrers() {
			if st, isS := r.(*ssa.Store); isS && st.Addr == ssa.Value(a) && inCycle(st.Block()) && derivesFromIteration(st.Val, 0) {
				loopStore = true
			}
		}
		if !loopStore {
			return
		}
		for _, r := range *a.Referrers() {
			esc := ""
			switch x := r.(type) {
			case *ssa.MapUpdate:
				if x.Value == ssa.Value(a) {
					esc = "stored as a map value"
				}
			case *ssa.Store:
				if x.Val == ssa.Value(a) {
					esc = "stored through a pointer"
				}
			case *ssa.Send:
				if x.X == ssa.Value(a) {
					esc = "sent on a channel"
				}
			case *ssa.MakeClosure:
				for _, rr := range *x.Referrers() {
					if _, isGo := rr.(*ssa.Go); isGo {
						esc = "captured by a goroutine"
					}
				}
			}
			if esc != "" && inCycle(r.Block()) {
				out = append(out, loopVarAlias{r, a.Comment, esc})
			}
		}
	})
	return out
}

func inCycle(b *ssa.BasicBlock) bool {
	seen := map[*ssa.BasicBlock]bool{}
	var walk func(x *ssa.BasicBlock) bool
	walk = func(x *ssa.BasicBlock) bool {
		for _, s := range x.Succs {
			if s == b {
				return true
			}
			if !seen[s] {
				seen[s] = true
				if walk(s) {
					return true
				}
			}
		}
		return false
	}
	return walk(b)
}

// derivesFromIteration: v comes from a range/next extraction or an indexed element load.
func derivesFromIteration(v ssa.Value, depth int) bool {
	if depth > 4 {
		return false
	}
	switch x := v.(type) {
	case *ssa.Extract:
		_, isNext := x.Tuple.(*ssa.Next)
		return isNext
	case *ssa.UnOp:
		if x.Op == token.MUL {
			_, isIA := x.X.(*ssa.IndexAddr)
			return isIA
		}
	case *ssa.Lookup:
		return true
	}
	return false
}

// ruleC17WorkerContextLives: the per-region workers keep running after encryptAllRegions has returned its result channel,
// so the context they use must not be one whose cancel function runs when that function returns.
func ruleC17WorkerContextLives(c *Ctx) {
	u := c.U1
	c.rule("C17.worker-context-outlives-call", "in the KMS plugins no goroutine uses a context derived in the starting function (context.WithTimeout/WithCancel/WithDeadline) whose cancel is deferred there, unless the function waits for the goroutine before returning: otherwise every regional call is cancelled the moment the function returns and only the generating region's entry reaches the envelope", 1)
	n, bad := 0, 0
	for _, f := range u.RepoFuncs {
		if f.Pkg == nil || f.Blocks == nil || f.Parent() != nil || (f.Pkg.Pkg.Path() != pkgKmsV1 && f.Pkg.Pkg.Path() != pkgKmsV2) {
			continue
		}
		n++
		for _, s := range cancelledContextEscapes(f) {
			bad++
			c.bad(trimPkgDirs(shortName(f))+"/derived-context-in-goroutine", u.ipos(s), "a goroutine started here uses a context whose cancel() is deferred in the starting function, and the function does not wait for the goroutine: the context is cancelled as soon as the function returns, the regional request fails with `context canceled`, and that region's entry is silently missing from the envelope")
		}
	}
	if bad == 0 {
		c.ok("kms-plugins/goroutine-contexts", "", fmt.Sprintf("no goroutine outlives a context cancelled by its starter (%d functions)", n))
	}
}

// cancelledContextEscapes: go statements in f that use a context derived in f whose cancel is deferred in f, where f
// returns on some path without a WaitGroup.Wait executed in f itself.
func cancelledContextEscapes(f *ssa.Function) []ssa.Instruction {
	var out []ssa.Instruction
	// derived contexts with deferred cancel
	type derived struct{ ctx, cancel ssa.Value }
	var ds []derived
	allInstrs(f, func(i ssa.Instruction) {
		cv, ok := i.(*ssa.Call)
		if !ok {
			return
		}
		g := staticCallee(cv)
		if g == nil || g.Pkg == nil || g.Pkg.Pkg.Path() != "context" || !(strings.HasPrefix(g.Name(), "WithTimeout") || strings.HasPrefix(g.Name(), "WithCancel") || strings.HasPrefix(g.Name(), "WithDeadline")) {
			return
		}
		var d derived
		for _, r := range *cv.Referrers() {
			if ex, isEx := r.(*ssa.Extract); isEx {
				if ex.Index == 0 {
					d.ctx = ex
				} else {
					d.cancel = ex
				}
			}
		}
		if d.ctx != nil && d.cancel != nil {
			ds = append(ds, d)
		}
	})
	if len(ds) == 0 {
		return nil
	}
	reachesVal := func(from, to ssa.Value) bool {
		// to is from, or a load of a slot that from was stored into
		if resolve(to) == from || to == from {
			return true
		}
		if ld, ok := to.(*ssa.UnOp); ok {
			if a, isA := ld.X.(*ssa.Alloc); isA {
				for _, s := range localStores(a) {
					if s == from {
						return true
					}
				}
			}
		}
		return false
	}
	waits := false
	allInstrs(f, func(i ssa.Instruction) {
		if _, isCall := i.(*ssa.Call); isCall && staticIs(i, "(*sync.WaitGroup).Wait") {
			waits = true
		}
	})
	for _, d := range ds {
		deferred := false
		allInstrs(f, func(i ssa.Instruction) {
			if df, ok := i.(*ssa.Defer); ok && reachesVal(d.cancel, df.Call.Value) {
				deferred = true
			}
		})
		if !deferred || waits {
			continue
		}
		// the slot(s) holding the derived context
		holders := map[ssa.Value]bool{d.ctx: true}
		if d.ctx.Referrers() != nil {
			for _, r := range *d.ctx.Referrers() {
				if st, ok := r.(*ssa.Store); ok && st.Val == d.ctx {
					holders[st.Addr] = true
				}
			}
		}
		allInstrs(f, func(i ssa.Instruction) {
			g, ok := i.(*ssa.Go)
			if !ok {
				return
			}
			uses := false
			for _, a := range g.Call.Args {
				if holders[a] || holders[resolve(a)] {
					uses = true
				}
			}
			if mc, isMC := g.Call.Value.(*ssa.MakeClosure); isMC {
				for _, b := range mc.Bindings {
					if holders[b] {
						uses = true
					}
				}
			}
			if uses {
				out = append(out, i)
			}
		})
	}
	return out
}

// ruleC17ClientPerRegion: every regional KMS client is created for the region of its map entry: the config handed to the
// client factory has its Region set, unconditionally, to the same value that the client is registered under.
func ruleC17ClientPerRegion(c *Ctx) {
	u := c.U1
	c.rule("C17.client-per-region", "aws-v2 Builder: on every path to the client factory call the config's Region field has been assigned the range key that also becomes regionalClient.Region (no condition may leave a caller-supplied region in place for another region's client)", 1)
	n := 0
	for _, f := range u.RepoFuncs {
		if f.Pkg == nil || f.Pkg.Pkg.Path() != pkgKmsV2 || f.Blocks == nil {
			continue
		}
		r := rootFunc(f)
		if r.Signature.Recv() == nil || !typeIsNamed(r.Signature.Recv().Type(), pkgKmsV2, "Builder") {
			continue
		}
		allInstrs(f, func(i ssa.Instruction) {
			cv, ok := i.(*ssa.Call)
			if !ok || cv.Call.IsInvoke() || cv.Call.StaticCallee() != nil {
				return
			}
			if _, fld, isF := fieldAccess(cv.Call.Value); !isF || fld != "factory" {
				return
			}
			n++
			c.FuncsAnalysed[shortName(f)] = true
			// the config argument: a load of a local copy
			var slot *ssa.Alloc
			if ld, isL := cv.Call.Args[0].(*ssa.UnOp); isL {
				slot, _ = ld.X.(*ssa.Alloc)
			}
			construct := trimPkgDirs(shortName(f)) + "/factory(cfg)"
			if slot == nil {
				c.undecided(construct, u.ipos(i), "the config handed to the factory is not a local copy")
				return
			}
			// find the store that initialises the copy, then require a Region store on every path from it to the call
			var init ssa.Instruction
			for _, rr := range *slot.Referrers() {
				if st, isS := rr.(*ssa.Store); isS && st.Addr == ssa.Value(slot) && instrDominates(st, cv) {
					init = st
				}
			}
			if init == nil {
				c.undecided(construct, u.ipos(i), "no initialisation of the config copy found")
				return
			}
			var regionVal ssa.Value
			found, _ := pathSearch(init, func(j ssa.Instruction) pathAction {
				if st, isS := j.(*ssa.Store); isS {
					if fa, isFA := st.Addr.(*ssa.FieldAddr); isFA && fa.X == ssa.Value(slot) && fieldName(fa.X.Type(), fa.Field) == "Region" {
						regionVal = st.Val
						return pathStop
					}
				}
				if j == ssa.Instruction(cv) {
					return pathFound
				}
				return pathContinue
			}, nil)
			if found {
				c.bad(construct, u.ipos(i), "a path reaches the client factory without cfg.Region having been set to this entry's region: a region pinned in a caller-supplied config is then used for every regional client — the envelope gets entries only from that one endpoint and no other region can ever unwrap")
				return
			}
			// the same value becomes the client's Region
			same := false
			allInstrs(f, func(j ssa.Instruction) {
				if st, isS := j.(*ssa.Store); isS {
					if fa, isFA := st.Addr.(*ssa.FieldAddr); isFA && fieldName(fa.X.Type(), fa.Field) == "Region" && namedTypeName(fa.X.Type()) == "regionalClient" && st.Val == regionVal {
						same = true
					}
				}
			})
			c.check(same, construct, u.ipos(i), "cfg.Region = region on every path; the same region names the client", "the region written into the client's config is not the region the client is registered under")
		})
	}
	if n == 0 {
		c.bad("kms-v2.Builder/factory-call", "", "no client factory call found in the aws-v2 Builder")
	}
}
