package main

// Helpers over the resolved program: object lookup, callee resolution, value identity (access paths),
// edge facts (guarded-by-condition), and path search. Callees are always resolved through types/SSA,
// never through source text.

import (
	"fmt"
	"go/constant"
	"go/token"
	"go/types"
	"sort"
	"strings"

	"golang.org/x/tools/go/ssa"
)

// ---------------------------------------------------------------------------------------------
// lookup

func (u *Universe) pkg(path string) *ssa.Package { return u.SSAPkgs[path] }

// Func returns the package-level function pkg.name (nil if absent).
func (u *Universe) Func(pkg, name string) *ssa.Function {
	p := u.pkg(pkg)
	if p == nil {
		return nil
	}
	return p.Func(name)
}

// Named returns the named type pkg.name.
func (u *Universe) Named(pkg, name string) *types.Named {
	p := u.pkg(pkg)
	if p == nil {
		return nil
	}
	o := p.Pkg.Scope().Lookup(name)
	if o == nil {
		return nil
	}
	tn, ok := o.(*types.TypeName)
	if !ok {
		return nil
	}
	n, _ := tn.Type().(*types.Named)
	if n == nil {
		if a, ok := tn.Type().(*types.Alias); ok {
			n, _ = types.Unalias(a).(*types.Named)
		}
	}
	return n
}

// Method returns the declared method typ.name (value or pointer receiver), for generic types the generic body.
func (u *Universe) Method(pkg, typ, name string) *ssa.Function {
	n := u.Named(pkg, typ)
	if n == nil {
		return nil
	}
	for i := 0; i < n.NumMethods(); i++ {
		if m := n.Method(i); m.Name() == name {
			return u.Prog.FuncValue(m)
		}
	}
	return nil
}

// Iface returns the interface type pkg.name.
func (u *Universe) Iface(pkg, name string) *types.Interface {
	n := u.Named(pkg, name)
	if n == nil {
		return nil
	}
	i, _ := n.Underlying().(*types.Interface)
	return i
}

// Implementations returns all named, non-interface repo types T (non-test) such that T or *T implements iface.
func (u *Universe) Implementations(iface *types.Interface) []*types.Named {
	var out []*types.Named
	for _, p := range u.Pkgs {
		sc := p.Types.Scope()
		for _, nm := range sc.Names() {
			tn, ok := sc.Lookup(nm).(*types.TypeName)
			if !ok || tn.IsAlias() {
				continue
			}
			n, ok := tn.Type().(*types.Named)
			if !ok || n.TypeParams().Len() > 0 {
				continue
			}
			if _, isI := n.Underlying().(*types.Interface); isI {
				continue
			}
			if types.Implements(n, iface) || types.Implements(types.NewPointer(n), iface) {
				out = append(out, n)
			}
		}
	}
	sort.Slice(out, func(i, j int) bool { return out[i].String() < out[j].String() })
	return out
}

// MethodOf returns the SSA function implementing method name on T or *T (following embedding is NOT done: the
// declared method only; promoted methods resolve to the embedded type's function).
func (u *Universe) MethodOf(n *types.Named, name string) *ssa.Function {
	for _, t := range []types.Type{n, types.NewPointer(n)} {
		ms := u.Prog.MethodSets.MethodSet(t)
		for i := 0; i < ms.Len(); i++ {
			if ms.At(i).Obj().Name() == name {
				if f, ok := ms.At(i).Obj().(*types.Func); ok {
					if fn := u.Prog.FuncValue(f); fn != nil {
						return fn
					}
				}
			}
		}
	}
	return nil
}

func (u *Universe) pos(p token.Pos) string { return posString(u.Fset, p) }

func (u *Universe) ipos(i ssa.Instruction) string {
	if i == nil {
		return ""
	}
	if p := i.Pos(); p.IsValid() {
		return u.pos(p)
	}
	// fall back to nearest positioned instruction in the block / function
	if b := i.Block(); b != nil {
		for _, j := range b.Instrs {
			if j.Pos().IsValid() {
				return u.pos(j.Pos())
			}
		}
	}
	if f := i.Parent(); f != nil {
		return u.pos(f.Pos())
	}
	return ""
}

// shortName: "appencryption.(*keyCache).load", "appencryption.(*envelopeEncryption).EncryptPayload$1".
func shortName(f *ssa.Function) string {
	if f == nil {
		return "<nil>"
	}
	s := f.String()
	s = strings.ReplaceAll(s, "github.com/godaddy/asherah/go/", "")
	s = strings.ReplaceAll(s, "github.com/godaddy/asherah/", "")
	return s
}

// ---------------------------------------------------------------------------------------------
// calls

func callOf(i ssa.Instruction) *ssa.CallCommon {
	if c, ok := i.(ssa.CallInstruction); ok {
		return c.Common()
	}
	return nil
}

// fullName of a types.Func with generic origin, e.g. "(*sync.RWMutex).Lock", "crypto/rand.Read",
// "(github.com/godaddy/asherah/go/appencryption.Metastore).Load".
func fullName(f *types.Func) string {
	if f == nil {
		return ""
	}
	return f.Origin().FullName()
}

// calleeName returns the resolved callee's full name: static callee, or "invoke " + interface method.
// Calls through function values return "".
func calleeName(i ssa.Instruction) string {
	c := callOf(i)
	if c == nil {
		return ""
	}
	if c.IsInvoke() {
		return "invoke " + fullName(c.Method)
	}
	if f := c.StaticCallee(); f != nil {
		return funcFullName(f)
	}
	return ""
}

func funcFullName(f *ssa.Function) string {
	if f == nil {
		return ""
	}
	if o, ok := f.Object().(*types.Func); ok && o != nil {
		return fullName(o)
	}
	if f.Origin() != nil {
		return funcFullName(f.Origin())
	}
	return f.String() // anonymous function
}

// invokeIs reports whether i is an interface method call named meth whose receiver's static type is the
// named interface pkg.iface (or embeds the method from anywhere: matching is by method name + receiver type).
func invokeIs(i ssa.Instruction, pkg, iface, meth string) bool {
	c := callOf(i)
	if c == nil || !c.IsInvoke() || c.Method.Name() != meth {
		return false
	}
	return typeIsNamed(c.Value.Type(), pkg, iface)
}

func typeIsNamed(t types.Type, pkg, name string) bool {
	t = types.Unalias(t)
	if p, ok := t.(*types.Pointer); ok {
		t = types.Unalias(p.Elem())
	}
	n, ok := t.(*types.Named)
	if !ok {
		return false
	}
	o := n.Origin().Obj()
	return o.Name() == name && o.Pkg() != nil && o.Pkg().Path() == pkg
}

// staticIs: static call to the function with the given full name.
func staticIs(i ssa.Instruction, full string) bool {
	c := callOf(i)
	if c == nil || c.IsInvoke() {
		return false
	}
	f := c.StaticCallee()
	return f != nil && funcFullName(f) == full
}

// staticCallee returns the statically resolved callee; instantiations of generic functions are mapped to their
// generic origin (whose body is what the rules analyse).
func staticCallee(i ssa.Instruction) *ssa.Function {
	c := callOf(i)
	if c == nil || c.IsInvoke() {
		return nil
	}
	return orig(c.StaticCallee())
}

func orig(f *ssa.Function) *ssa.Function {
	if f != nil && f.Origin() != nil {
		return f.Origin()
	}
	return f
}

// callArgs returns receiver (for static method calls it's Args[0]) and all args uniformly:
// for invoke: [Value, Args...]; for static: Args.
func callArgs(c *ssa.CallCommon) []ssa.Value {
	if c.IsInvoke() {
		return append([]ssa.Value{c.Value}, c.Args...)
	}
	return c.Args
}

// allInstrs iterates all instructions of f.
func allInstrs(f *ssa.Function, fn func(ssa.Instruction)) {
	for _, b := range f.Blocks {
		for _, i := range b.Instrs {
			fn(i)
		}
	}
}

// withAnon returns f and all (transitively) nested anonymous functions.
func withAnon(f *ssa.Function) []*ssa.Function {
	out := []*ssa.Function{f}
	for _, a := range f.AnonFuncs {
		out = append(out, withAnon(a)...)
	}
	return out
}

// ---------------------------------------------------------------------------------------------
// value identity

// strip removes value-preserving wrappers.
func strip(v ssa.Value) ssa.Value { return stripN(v, map[*ssa.Phi]bool{}) }

// stripN is strip with the set of phis on the current path (loop-carried phis refer to each other).
func stripN(v ssa.Value, onPath map[*ssa.Phi]bool) ssa.Value {
	for {
		switch x := v.(type) {
		case *ssa.ChangeInterface:
			v = x.X
		case *ssa.MakeInterface:
			v = x.X
		case *ssa.ChangeType:
			v = x.X
		case *ssa.TypeAssert:
			v = x.X
		case *ssa.Phi:
			if onPath[x] {
				return v
			}
			onPath[x] = true
			var only ssa.Value
			same := true
			for _, e := range x.Edges {
				e = stripN(e, onPath)
				if e == x {
					continue
				}
				if only == nil {
					only = e
				} else if only != e {
					same = false
				}
			}
			if same && only != nil {
				v = only
			} else {
				return v
			}
		default:
			return v
		}
	}
}

// localStores returns the values stored directly into the local alloc a (whole-value stores).
func localStores(a *ssa.Alloc) []ssa.Value {
	var out []ssa.Value
	for _, r := range *a.Referrers() {
		if s, ok := r.(*ssa.Store); ok && s.Addr == a {
			out = append(out, s.Val)
		}
	}
	return out
}

// allocOnlyLoadStore reports whether alloc a is used only by loads/stores/field-address (does not escape as a pointer
// into calls other than closures capturing it).
func loadOf(v ssa.Value) (addr ssa.Value, ok bool) {
	if u, isU := v.(*ssa.UnOp); isU && u.Op == token.MUL {
		return u.X, true
	}
	return nil, false
}

// reachingStore finds, for a load instruction from a local Alloc, the store in the same block that precedes it
// (the defer-spilled result idiom "*t0 = v; rundefers; t = *t0"). nil if none.
func reachingStoreInBlock(load *ssa.UnOp) ssa.Value {
	a, ok := load.X.(*ssa.Alloc)
	if !ok {
		return nil
	}
	b := load.Block()
	idx := -1
	for k, i := range b.Instrs {
		if i == load {
			idx = k
			break
		}
	}
	for k := idx - 1; k >= 0; k-- {
		if s, ok := b.Instrs[k].(*ssa.Store); ok && s.Addr == a {
			return s.Val
		}
	}
	return nil
}

// resolve follows strip + local-slot loads (single store, or block-local reaching store).
func resolve(v ssa.Value) ssa.Value {
	for n := 0; n < 32; n++ {
		v = strip(v)
		u, ok := v.(*ssa.UnOp)
		if !ok || u.Op != token.MUL {
			return v
		}
		a, ok := u.X.(*ssa.Alloc)
		if !ok {
			return v
		}
		if s := reachingStoreInBlock(u); s != nil {
			v = s
			continue
		}
		st := localStores(a)
		if len(st) == 1 {
			v = st[0]
			continue
		}
		return v
	}
	return v
}

// accessPath gives a canonical string for "the same storage/value" within one function (and, for free variables,
// the enclosing function): parameters, extracts of calls, field chains. Two expressions with the same access path
// denote the same value provided the fields on the path are not reassigned in between (rules that rely on this
// check that separately or state it as an assumption).
func accessPath(v ssa.Value) string {
	return accessPathN(v, 0)
}

func accessPathN(v ssa.Value, depth int) string {
	if depth > 24 {
		return "V:" + v.Name()
	}
	v = strip(v)
	switch x := v.(type) {
	case *ssa.Parameter:
		return "P:" + x.Name()
	case *ssa.FreeVar:
		// link to the binding in the enclosing function
		fn := x.Parent()
		if fn != nil && fn.Parent() != nil {
			idx := -1
			for i, fv := range fn.FreeVars {
				if fv == x {
					idx = i
				}
			}
			if idx >= 0 {
				for _, mc := range makeClosuresOf(fn) {
					if idx < len(mc.Bindings) {
						b := mc.Bindings[idx]
						// captured by reference: binding is the address (Alloc) of the variable
						if a, ok := b.(*ssa.Alloc); ok {
							st := localStores(a)
							if len(st) == 1 {
								return "&" + accessPathN(st[0], depth+1)
							}
							return "&A:" + a.Comment
						}
						return accessPathN(b, depth+1)
					}
				}
			}
		}
		return "F:" + x.Name()
	case *ssa.Extract:
		return fmt.Sprintf("X:%s#%d", x.Tuple.Name(), x.Index)
	case *ssa.Field:
		return accessPathN(x.X, depth+1) + "." + fieldName(x.X.Type(), x.Field)
	case *ssa.FieldAddr:
		// a pointer and its pointee share one name: &local, &captured and a pointer parameter all name the struct
		return "&" + strings.TrimPrefix(accessPathN(x.X, depth+1), "&") + "." + fieldName(x.X.Type(), x.Field)
	case *ssa.UnOp:
		if x.Op == token.MUL {
			if a, ok := x.X.(*ssa.Alloc); ok {
				if s := reachingStoreInBlock(x); s != nil {
					return accessPathN(s, depth+1)
				}
				st := localStores(a)
				if len(st) == 1 {
					return accessPathN(st[0], depth+1)
				}
				return "A:" + a.Name()
			}
			p := accessPathN(x.X, depth+1)
			if strings.HasPrefix(p, "&") {
				return p[1:]
			}
			return "*" + p
		}
	case *ssa.Alloc:
		st := localStores(x)
		if len(st) == 1 {
			return "&" + accessPathN(st[0], depth+1)
		}
		return "&A:" + x.Name()
	case *ssa.Const:
		if x.Value == nil {
			return "nil"
		}
		return "C:" + x.Value.ExactString()
	case *ssa.Global:
		return "G:" + x.Pkg.Pkg.Path() + "." + x.Name()
	case *ssa.Function:
		return "Fn:" + x.String()
	}
	return "V:" + v.Name()
}

func fieldName(t types.Type, idx int) string {
	t = types.Unalias(t)
	if p, ok := t.Underlying().(*types.Pointer); ok {
		t = p.Elem()
	}
	if s, ok := t.Underlying().(*types.Struct); ok && idx < s.NumFields() {
		return s.Field(idx).Name()
	}
	return fmt.Sprintf("#%d", idx)
}

// fieldOf returns, if v is a load of (or address of) a struct field, the struct type's named type name and field name.
func fieldAccess(v ssa.Value) (base ssa.Value, field string, ok bool) {
	switch x := v.(type) {
	case *ssa.FieldAddr:
		return x.X, fieldName(x.X.Type(), x.Field), true
	case *ssa.Field:
		return x.X, fieldName(x.X.Type(), x.Field), true
	case *ssa.UnOp:
		if x.Op == token.MUL {
			if fa, isFA := x.X.(*ssa.FieldAddr); isFA {
				return fa.X, fieldName(fa.X.Type(), fa.Field), true
			}
		}
	}
	return nil, "", false
}

var closureCache = map[*ssa.Function][]*ssa.MakeClosure{}

// makeClosuresOf returns the MakeClosure instructions in fn.Parent() that create fn.
func makeClosuresOf(fn *ssa.Function) []*ssa.MakeClosure {
	if r, ok := closureCache[fn]; ok {
		return r
	}
	var out []*ssa.MakeClosure
	if p := fn.Parent(); p != nil {
		allInstrs(p, func(i ssa.Instruction) {
			if mc, ok := i.(*ssa.MakeClosure); ok && mc.Fn == fn {
				out = append(out, mc)
			}
		})
	}
	closureCache[fn] = out
	return out
}

// constBool / constString / constInt fold a value to a constant if it is one.
func constOf(v ssa.Value) (constant.Value, bool) {
	if c, ok := strip(v).(*ssa.Const); ok && c.Value != nil {
		return c.Value, true
	}
	return nil, false
}

func isNilConst(v ssa.Value) bool {
	c, ok := v.(*ssa.Const)
	return ok && c.Value == nil
}

// ---------------------------------------------------------------------------------------------
// edge facts

// Fact: value V is known to be True/False. Sub translates access paths of V (which may belong to another function: a
// helper whose success implies the fact, or a caller whose call sites all establish it) into the frame of the block the
// fact is reported for.
type Fact struct {
	V    ssa.Value
	True bool
	Sub  *factSub
}

type factSub struct{ pairs [][2]string } // (path prefix in V's frame, replacement in the reporting frame)

func trimAddr(p string) string {
	for strings.HasPrefix(p, "&") || strings.HasPrefix(p, "*") {
		p = p[1:]
	}
	return p
}

// pathOf: access path of v (a value in the fact's own frame) expressed in the reporting frame.
func (f Fact) pathOf(v ssa.Value) string { return f.Sub.apply(accessPath(v)) }

func (s *factSub) apply(p string) string {
	if s == nil {
		return p
	}
	lead := p[:len(p)-len(trimAddr(p))]
	core := trimAddr(p)
	for _, pr := range s.pairs {
		if core == pr[0] {
			return lead + pr[1]
		}
		if strings.HasPrefix(core, pr[0]+".") {
			return lead + pr[1] + core[len(pr[0]):]
		}
	}
	// a path of the callee's frame that has no counterpart in the reporting frame must never compare equal to a path
	// of that frame (SSA register names repeat across functions)
	if strings.HasPrefix(core, "G:") || strings.HasPrefix(core, "C:") {
		return p
	}
	return lead + "callee·" + core
}

func dominates(a, b *ssa.BasicBlock) bool { return a.Dominates(b) }

// edgeDominates: every path from entry to b passes through the CFG edge from→to.
func edgeDominates(from, to, b *ssa.BasicBlock) bool {
	if !to.Dominates(b) {
		return false
	}
	cnt := 0
	for _, p := range to.Preds {
		if p == from {
			cnt++
			continue
		}
		if !to.Dominates(p) { // another way into `to` that is not a back edge
			return false
		}
	}
	return cnt == 1
}

// factsAt returns what is known at entry of block b: the dominating branch conditions (normalised through "!" and
// boolean phis), plus facts implied by helpers (a call whose error is known nil / whose bool result is known establishes
// what the helper's matching returns establish) and, for unexported helpers, what all their call sites establish.
func factsAt(b *ssa.BasicBlock) []Fact {
	if r, ok := factCache[b]; ok {
		return r
	}
	if factBusy[b] {
		return baseFactsAt(b)
	}
	factBusy[b] = true
	defer delete(factBusy, b)
	base := baseFactsAt(b)
	out := append([]Fact{}, base...)
	seen := map[Fact]bool{}
	for _, f := range base {
		seen[f] = true
	}
	for _, f := range base {
		for _, g := range postFacts(f) {
			if !seen[g] {
				seen[g] = true
				out = append(out, g)
			}
		}
	}
	if fn := b.Parent(); fn != nil {
		for _, g := range entryFacts(fn) {
			if !seen[g] {
				seen[g] = true
				out = append(out, g)
			}
		}
	}
	factCache[b] = out
	return out
}

var factCache = map[*ssa.BasicBlock][]Fact{}
var factBusy = map[*ssa.BasicBlock]bool{}

var baseBusy = map[*ssa.BasicBlock]bool{}

func baseFactsAt(b *ssa.BasicBlock) []Fact {
	// a loop-carried boolean phi leads the phi decomposition back to the block it started from: nothing more is known
	// there than what the outer computation will find (fewer facts is the conservative answer)
	if baseBusy[b] {
		return nil
	}
	baseBusy[b] = true
	defer delete(baseBusy, b)
	var out []Fact
	for d := b.Idom(); d != nil; d = d.Idom() {
		out = append(out, factsFromIf(d, b)...)
	}
	return out
}

// callSub: substitution from callee parameter paths to the argument paths of call c.
func callSub(callee *ssa.Function, c *ssa.CallCommon) *factSub {
	s := &factSub{}
	args := callArgs(c)
	for k, p := range callee.Params {
		if k < len(args) {
			s.pairs = append(s.pairs, [2]string{"P:" + p.Name(), trimAddr(accessPath(args[k]))})
		}
	}
	return s
}

// factKey canonicalises a fact (in its reporting frame) so that facts from different sites can be intersected.
func factKey(f Fact) string {
	if x, isNil, ok := nilTest(f); ok {
		return fmt.Sprintf("nil(%s)=%v", trimAddr(f.pathOf(x)), isNil)
	}
	if b, ok := f.V.(*ssa.BinOp); ok {
		return fmt.Sprintf("%s %s %s = %v", exprKey(f, b.X), b.Op, exprKey(f, b.Y), f.True)
	}
	return fmt.Sprintf("%s = %v", exprKey(f, f.V), f.True)
}

func exprKey(f Fact, v ssa.Value) string {
	v = resolve(v)
	if k, ok := constOf(v); ok {
		return k.ExactString()
	}
	if cv, ok := v.(*ssa.Call); ok {
		name := calleeName(cv)
		var parts []string
		for _, a := range callArgs(&cv.Call) {
			parts = append(parts, exprKey(f, a))
		}
		if b, isB := cv.Call.Value.(*ssa.Builtin); isB {
			name = b.Name()
		}
		return name + "(" + strings.Join(parts, ",") + ")"
	}
	return trimAddr(f.pathOf(v))
}

var successCache = map[string][]Fact{}

// resetAnalysisCaches drops every memo that is keyed by (or holds) SSA objects of a loaded program. The thorough tier
// analyses many programs in one process — the tree, then each mutant and each behaviour-preserving variant: a memo that
// survives from one program to the next keeps that whole program alive (tens of GB over a few hundred variants), and the
// one memo keyed by function *name* (successCache) would answer for the next program with the previous program's values.
func resetAnalysisCaches() {
	successCache = map[string][]Fact{}
	factCache = map[*ssa.BasicBlock][]Fact{}
	factBusy = map[*ssa.BasicBlock]bool{}
	baseBusy = map[*ssa.BasicBlock]bool{}
	entryCache = map[*ssa.Function][]Fact{}
	closureCache = map[*ssa.Function][]*ssa.MakeClosure{}
	callSiteIndex = nil
	addressTaken = nil
	callSiteProg = nil
	wipesParamMemo = map[*ssa.Function]int{}
	assumedFacts = nil
}

// returnFacts: facts common to all returns of h selected by sel (in h's own frame).
func returnFacts(h *ssa.Function, key string, sel func(*ssa.Return) bool) []Fact {
	ck := fmt.Sprintf("%p:", h.Prog) + h.String() + "/" + key // (U1 and U2 both contain the SDK's packages)
	if r, ok := successCache[ck]; ok {
		return r
	}
	successCache[ck] = nil // recursion guard
	var common map[string]Fact
	n := 0
	for _, r := range returnsOf(h) {
		if !sel(r) {
			continue
		}
		n++
		set := map[string]Fact{}
		for _, f := range factsAt(r.Block()) {
			set[factKey(f)] = f
		}
		// a bool helper returning a non-constant value: on this return the value itself equals the selected result
		if (key == "true" || key == "false") && len(r.Results) == 1 {
			if _, isC := constOf(returnedValue(r, 0)); !isC {
				for _, f := range normFact(Fact{V: returnedValue(r, 0), True: key == "true"}) {
					set[factKey(f)] = f
				}
			}
		}
		if common == nil {
			common = set
		} else {
			for k := range common {
				if _, ok := set[k]; !ok {
					delete(common, k)
				}
			}
		}
	}
	var out []Fact
	if n > 0 {
		for _, f := range common {
			out = append(out, f)
		}
	}
	successCache[ck] = out
	return out
}

// postFacts: facts implied by fact f through a helper call: `err == nil` of h(...) implies what every nil-error return
// of h establishes; a known bool result of h(...) implies what every return of that constant establishes.
func postFacts(f Fact) []Fact {
	if f.Sub != nil {
		return nil // one level of helper only
	}
	var call *ssa.Call
	var sel func(*ssa.Return) bool
	key := ""
	if x, isNil, ok := nilTest(f); ok && isNil && isErrorType(x.Type()) {
		switch y := strip(x).(type) {
		case *ssa.Extract:
			call, _ = y.Tuple.(*ssa.Call)
		case *ssa.Call:
			call = y
		case *ssa.UnOp: // err stored in a slot (`if err := h(); err != nil`)
			if r := resolve(y); r != y {
				switch z := r.(type) {
				case *ssa.Extract:
					call, _ = z.Tuple.(*ssa.Call)
				case *ssa.Call:
					call = z
				}
			}
		}
		key = "ok"
		sel = func(r *ssa.Return) bool {
			return len(r.Results) > 0 && isNilValue(returnedValue(r, len(r.Results)-1))
		}
	} else if cv, ok := strip(f.V).(*ssa.Call); ok && cv.Type().String() == "bool" {
		call = cv
		want := "false"
		if f.True {
			want = "true"
		}
		key = want
		sel = func(r *ssa.Return) bool {
			if len(r.Results) != 1 {
				return false
			}
			k, isC := constOf(returnedValue(r, 0))
			return !isC || k.ExactString() == want
		}
	}
	if call == nil {
		return nil
	}
	h := staticCallee(call)
	if h == nil || h.Blocks == nil || h.Pkg == nil || !strings.HasPrefix(h.Pkg.Pkg.Path(), "github.com/godaddy/asherah/") {
		return nil
	}
	sub := callSub(h, &call.Call)
	// results: where every selected return yields the same (non-parameter) value for result #k, that value's path maps to
	// the caller's extraction of result #k
	if call.Referrers() != nil {
		for _, r := range *call.Referrers() {
			ex, isEx := r.(*ssa.Extract)
			if !isEx {
				continue
			}
			cp := ""
			same := true
			for _, ret := range returnsOf(h) {
				if !sel(ret) || ex.Index >= len(ret.Results) {
					continue
				}
				rp := trimAddr(accessPath(returnedValue(ret, ex.Index)))
				if cp == "" {
					cp = rp
				} else if cp != rp {
					same = false
				}
			}
			if same && cp != "" && !strings.HasPrefix(cp, "P:") && !strings.HasPrefix(cp, "C:") {
				sub.pairs = append(sub.pairs, [2]string{cp, trimAddr(accessPath(ex))})
			}
		}
	}
	var out []Fact
	for _, g := range returnFacts(h, key, sel) {
		if g.Sub != nil {
			continue
		}
		out = append(out, Fact{g.V, g.True, sub})
	}
	return out
}

var callSiteIndex map[*ssa.Function][]ssa.CallInstruction
var addressTaken map[*ssa.Function]bool
var callSiteProg *ssa.Program

func buildCallSiteIndex(fn *ssa.Function) {
	if callSiteProg == fn.Prog && callSiteIndex != nil {
		return
	}
	callSiteProg = fn.Prog
	callSiteIndex = map[*ssa.Function][]ssa.CallInstruction{}
	addressTaken = map[*ssa.Function]bool{}
	var visit func(f *ssa.Function)
	seen := map[*ssa.Function]bool{}
	visit = func(f *ssa.Function) {
		if f == nil || seen[f] {
			return
		}
		seen[f] = true
		for _, b := range f.Blocks {
			for _, i := range b.Instrs {
				if ci, ok := i.(ssa.CallInstruction); ok {
					if callee := ci.Common().StaticCallee(); callee != nil {
						callSiteIndex[orig(callee)] = append(callSiteIndex[orig(callee)], ci)
					}
				}
				for _, op := range i.Operands(nil) {
					if g, ok := (*op).(*ssa.Function); ok {
						if ci, isCall := i.(ssa.CallInstruction); !isCall || ci.Common().Value != *op {
							addressTaken[orig(g)] = true
						}
					}
				}
			}
		}
		for _, a := range f.AnonFuncs {
			visit(a)
		}
	}
	for _, p := range fn.Prog.AllPackages() {
		if !strings.HasPrefix(p.Pkg.Path(), "github.com/godaddy/asherah/") && !strings.HasPrefix(p.Pkg.Path(), "fixtures") {
			continue
		}
		for _, m := range p.Members {
			switch x := m.(type) {
			case *ssa.Function:
				visit(x)
			case *ssa.Type:
				if n, ok := x.Type().(*types.Named); ok {
					for k := 0; k < n.NumMethods(); k++ {
						visit(fn.Prog.FuncValue(n.Method(k)))
					}
				}
			}
		}
	}
}

var entryCache = map[*ssa.Function][]Fact{}

// entryFacts: for an unexported, never address-taken helper all of whose uses are static calls, the facts that hold at
// every call site (translated into the helper's frame).
func entryFacts(h *ssa.Function) []Fact {
	if r, ok := entryCache[h]; ok {
		return r
	}
	entryCache[h] = nil
	if h.Parent() != nil || h.Object() == nil || h.Object().Exported() {
		return nil
	}
	buildCallSiteIndex(h)
	sites := callSiteIndex[h]
	if len(sites) == 0 || addressTaken[h] {
		return nil
	}
	var common map[string]Fact
	for _, site := range sites {
		if _, isGo := site.(*ssa.Go); isGo {
			return nil
		}
		if _, isDefer := site.(*ssa.Defer); isDefer {
			return nil
		}
		// caller → callee substitution
		sub := &factSub{}
		args := callArgs(site.Common())
		for k, p := range h.Params {
			if k < len(args) {
				sub.pairs = append(sub.pairs, [2]string{trimAddr(accessPath(args[k])), "P:" + p.Name()})
			}
		}
		set := map[string]Fact{}
		for _, f := range factsAt(site.Block()) {
			if f.Sub != nil {
				continue
			}
			g := Fact{f.V, f.True, sub}
			set[factKey(g)] = g
		}
		if common == nil {
			common = set
		} else {
			for k := range common {
				if _, ok := set[k]; !ok {
					delete(common, k)
				}
			}
		}
	}
	var out []Fact
	for _, f := range common {
		out = append(out, f)
	}
	entryCache[h] = out
	return out
}

func factsFromIf(d, b *ssa.BasicBlock) []Fact {
	if len(d.Instrs) == 0 {
		return nil
	}
	iff, ok := d.Instrs[len(d.Instrs)-1].(*ssa.If)
	if !ok || len(d.Succs) != 2 || d.Succs[0] == d.Succs[1] {
		return nil
	}
	var out []Fact
	if edgeDominates(d, d.Succs[0], b) {
		out = append(out, normFact(Fact{V: iff.Cond, True: true})...)
	}
	if edgeDominates(d, d.Succs[1], b) {
		out = append(out, normFact(Fact{V: iff.Cond, True: false})...)
	}
	return out
}

// edgeFacts returns facts established by taking the edge from→to (if `from` ends in If).
func edgeFacts(from, to *ssa.BasicBlock) []Fact {
	if len(from.Instrs) == 0 {
		return nil
	}
	iff, ok := from.Instrs[len(from.Instrs)-1].(*ssa.If)
	if !ok || len(from.Succs) != 2 || from.Succs[0] == from.Succs[1] {
		return nil
	}
	if from.Succs[0] == to {
		return normFact(Fact{V: iff.Cond, True: true})
	}
	if from.Succs[1] == to {
		return normFact(Fact{V: iff.Cond, True: false})
	}
	return nil
}

func normFact(f Fact) []Fact { return normFactN(f, 0) }

// normFactN strips negations and decomposes boolean phis produced by `a && b` / `a || b` in value position
// (e.g. `switch { case ok && x == y: }`): knowing the phi true (false) excludes the incoming edges that carry the
// constant false (true); what all remaining edges agree on is known too.
func normFactN(f Fact, depth int) []Fact {
	v := f.V
	for {
		if u, ok := v.(*ssa.UnOp); ok && u.Op == token.NOT {
			v = u.X
			f.True = !f.True
			continue
		}
		break
	}
	f.V = v
	out := []Fact{f}
	phi, ok := v.(*ssa.Phi)
	if !ok || depth > 6 {
		return out
	}
	var common map[Fact]bool
	n := 0
	for k, e := range phi.Edges {
		if cv, isC := constOf(e); isC && cv.Kind() == constant.Bool {
			if constant.BoolVal(cv) != f.True {
				continue // this edge would give the phi the other value
			}
			// constant edge with the known value: contributes only its path facts
		}
		pred := phi.Block().Preds[k]
		set := map[Fact]bool{}
		if _, isC := constOf(e); !isC {
			for _, g := range normFactN(Fact{V: e, True: f.True}, depth+1) {
				set[g] = true
			}
		}
		for _, g := range edgeFacts(pred, phi.Block()) {
			set[g] = true
		}
		for _, g := range factsAt(pred) {
			set[g] = true
		}
		n++
		if common == nil {
			common = set
		} else {
			for g := range common {
				if !set[g] {
					delete(common, g)
				}
			}
		}
	}
	if n > 0 {
		for g := range common {
			out = append(out, g)
		}
	}
	return out
}

// nilTest decomposes a fact into "x is nil"/"x is non-nil" if it is a comparison against nil.
// ok=false if the fact is not a nil comparison.
func nilTest(f Fact) (x ssa.Value, isNil bool, ok bool) {
	b, isB := f.V.(*ssa.BinOp)
	if !isB || (b.Op != token.EQL && b.Op != token.NEQ) {
		return nil, false, false
	}
	var other ssa.Value
	switch {
	case isNilConst(b.Y):
		other = b.X
	case isNilConst(b.X):
		other = b.Y
	default:
		return nil, false, false
	}
	isNil = (b.Op == token.EQL) == f.True
	return other, isNil, true
}

// knownNonNil: at entry of block b, value v (by access path) is known non-nil.
func knownNonNil(v ssa.Value, b *ssa.BasicBlock) bool {
	ap := trimAddr(accessPath(v))
	for _, f := range factsAt(b) {
		if x, isNil, ok := nilTest(f); ok && !isNil && trimAddr(f.pathOf(x)) == ap {
			return true
		}
	}
	return false
}

// knownNil: at entry of b, v is known nil.
func knownNil(v ssa.Value, b *ssa.BasicBlock) bool {
	ap := trimAddr(accessPath(v))
	for _, f := range factsAt(b) {
		if x, isNil, ok := nilTest(f); ok && isNil && trimAddr(f.pathOf(x)) == ap {
			return true
		}
	}
	return false
}

// knownBool: at entry of b, boolean v (by access path) has known truth value.
func knownBool(v ssa.Value, b *ssa.BasicBlock) (val bool, ok bool) {
	ap := trimAddr(accessPath(v))
	for _, f := range factsAt(b) {
		if trimAddr(f.pathOf(f.V)) == ap {
			return f.True, true
		}
	}
	return false, false
}

// ---------------------------------------------------------------------------------------------
// path search over instructions

type instrPos struct {
	b   *ssa.BasicBlock
	idx int
}

func indexOf(i ssa.Instruction) int {
	for k, j := range i.Block().Instrs {
		if j == i {
			return k
		}
	}
	return -1
}

// pathSearch explores all CFG paths starting just after `start`. visit is called for each instruction; it returns
// one of: pathContinue, pathStop (this path is fine, stop exploring it), pathFound (report). edgeOK may prune edges.
type pathAction int

const (
	pathContinue pathAction = iota
	pathStop
	pathFound
)

// pathSearch returns (found, trace). It visits each block at most once per search (first-visit semantics), which is
// exact for "exists a path that reaches X without passing Y" questions.
func pathSearch(start ssa.Instruction, visit func(ssa.Instruction) pathAction, edgeOK func(from, to *ssa.BasicBlock) bool) (bool, []ssa.Instruction) {
	return pathSearchAt(start.Block(), indexOf(start)+1, visit, edgeOK)
}

// pathSearchAt starts at instruction index idx of block b (inclusive).
func pathSearchAt(sb *ssa.BasicBlock, sidx int, visit func(ssa.Instruction) pathAction, edgeOK func(from, to *ssa.BasicBlock) bool) (bool, []ssa.Instruction) {
	seen := map[*ssa.BasicBlock]bool{}
	var trace []ssa.Instruction
	var walk func(b *ssa.BasicBlock, from int) bool
	walk = func(b *ssa.BasicBlock, from int) bool {
		for k := from; k < len(b.Instrs); k++ {
			i := b.Instrs[k]
			switch visit(i) {
			case pathStop:
				return false
			case pathFound:
				trace = append(trace, i)
				return true
			}
		}
		for _, s := range b.Succs {
			if edgeOK != nil && !edgeOK(b, s) {
				continue
			}
			if seen[s] {
				continue
			}
			seen[s] = true
			if walk(s, 0) {
				if len(b.Instrs) > 0 {
					trace = append(trace, b.Instrs[len(b.Instrs)-1])
				}
				return true
			}
		}
		return false
	}
	found := walk(sb, sidx)
	// reverse trace
	for l, r := 0, len(trace)-1; l < r; l, r = l+1, r-1 {
		trace[l], trace[r] = trace[r], trace[l]
	}
	return found, trace
}

// isExit: Return instruction (panics are not exits for the purposes of "on every path to return").
func isReturn(i ssa.Instruction) bool {
	_, ok := i.(*ssa.Return)
	return ok
}

// blockReaches reports whether there is a CFG path (possibly empty) from a to b.
func blockReaches(a, b *ssa.BasicBlock) bool {
	seen := map[*ssa.BasicBlock]bool{a: true}
	work := []*ssa.BasicBlock{a}
	for len(work) > 0 {
		x := work[len(work)-1]
		work = work[:len(work)-1]
		if x == b {
			return true
		}
		for _, s := range x.Succs {
			if !seen[s] {
				seen[s] = true
				work = append(work, s)
			}
		}
	}
	return false
}

// instrDominates: instruction a dominates instruction b (same function).
func instrDominates(a, b ssa.Instruction) bool {
	if a.Block() == b.Block() {
		return indexOf(a) < indexOf(b)
	}
	return a.Block().Dominates(b.Block())
}

// tracePositions renders a trace as positions.
func (u *Universe) tracePositions(tr []ssa.Instruction) []string {
	var out []string
	last := ""
	for _, i := range tr {
		p := u.ipos(i)
		if p != "" && p != last {
			out = append(out, p+"  "+instrText(i))
			last = p
		}
	}
	return out
}

func instrText(i ssa.Instruction) string {
	s := i.String()
	s = strings.ReplaceAll(s, "github.com/godaddy/asherah/go/", "")
	if len(s) > 140 {
		s = s[:140] + "…"
	}
	return s
}

// returnsOf lists Return instructions of f.
func returnsOf(f *ssa.Function) []*ssa.Return {
	var out []*ssa.Return
	for _, b := range f.Blocks {
		if b == f.Recover {
			continue
		}
		for _, i := range b.Instrs {
			if r, ok := i.(*ssa.Return); ok {
				out = append(out, r)
			}
		}
	}
	return out
}

// returnValue resolves result #k of a Return through defer-spill slots.
func returnValue(r *ssa.Return, k int) ssa.Value {
	if k >= len(r.Results) {
		return nil
	}
	return resolve(r.Results[k])
}

// errIsNilReturn: result k of r is the nil constant.
func isNilValue(v ssa.Value) bool {
	v = resolve(v)
	return isNilConst(v)
}

// mustPass: every path from (b, idx) to a Return passes an instruction satisfying target, unless it takes a void
// edge. Returns ok and, if not ok, a trace of a path that reaches a Return without passing the target.
func mustPass(b *ssa.BasicBlock, idx int, target func(ssa.Instruction) bool, voidEdge func(from, to *ssa.BasicBlock) bool) (bool, []ssa.Instruction) {
	found, tr := pathSearchAt(b, idx, func(i ssa.Instruction) pathAction {
		if target(i) {
			return pathStop
		}
		switch i.(type) {
		case *ssa.Return:
			return pathFound
		case *ssa.Panic:
			return pathStop
		}
		return pathContinue
	}, func(from, to *ssa.BasicBlock) bool {
		return voidEdge == nil || !voidEdge(from, to)
	})
	return !found, tr
}

// constantInt64 returns the int64 value of an integer constant.
func constantInt64(k constant.Value) (int64, bool) {
	if k == nil || k.Kind() != constant.Int {
		return 0, false
	}
	return constant.Int64Val(k)
}

// namedOf returns the named type of t (through aliases).
func namedOf(t types.Type) (*types.Named, bool) {
	n, ok := types.Unalias(t).(*types.Named)
	return n, ok
}

// forwardedInvoke: h is a repository function that does nothing but forward to one interface method — its only invoke
// of pkg.iface.meth takes h's own parameters as arguments and every return hands back that call's results. It returns,
// for each argument of the invoke, the index of the parameter of h that feeds it.
func forwardedInvoke(h *ssa.Function, pkg, iface, meth string) ([]int, bool) {
	if h == nil || h.Blocks == nil {
		return nil, false
	}
	var inv *ssa.Call
	n := 0
	allInstrs(h, func(i ssa.Instruction) {
		if invokeIs(i, pkg, iface, meth) {
			n++
			inv, _ = i.(*ssa.Call)
		}
	})
	if n != 1 || inv == nil {
		return nil, false
	}
	var idx []int
	for _, a := range inv.Call.Args {
		p, ok := strip(a).(*ssa.Parameter)
		if !ok {
			return nil, false
		}
		k := -1
		for j, q := range h.Params {
			if q == p {
				k = j
			}
		}
		if k < 0 {
			return nil, false
		}
		idx = append(idx, k)
	}
	for _, r := range returnsOf(h) {
		for _, v := range r.Results {
			v = strip(v)
			if ex, ok := v.(*ssa.Extract); ok {
				v = ex.Tuple
			}
			if v != ssa.Value(inv) {
				return nil, false
			}
		}
	}
	return idx, true
}

// invokeOrForwarder: i invokes pkg.iface.meth, or statically calls a forwarder of it (see forwardedInvoke). The returned
// slice holds the method's arguments (without the receiver) as seen at i.
func invokeOrForwarder(i ssa.Instruction, pkg, iface, meth string) ([]ssa.Value, bool) {
	if invokeIs(i, pkg, iface, meth) {
		return callOf(i).Args, true
	}
	cc := callOf(i)
	if cc == nil || cc.IsInvoke() {
		return nil, false
	}
	h := cc.StaticCallee()
	idx, ok := forwardedInvoke(h, pkg, iface, meth)
	if !ok {
		return nil, false
	}
	var out []ssa.Value
	for _, k := range idx {
		if k >= len(cc.Args) {
			return nil, false
		}
		out = append(out, cc.Args[k])
	}
	return out, true
}
