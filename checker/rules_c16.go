package main

// C16 — cached sessions (DESIGN §3 C16). E-LOCK + E-CALL + E-DOM.

import (
	"fmt"
	"go/token"
	"go/types"
	"strings"

	"golang.org/x/tools/go/ssa"
)

func init() {
	register(&propSpec{
		ID:            "C16",
		UsesCallGraph: true,
		Title:         "Cached sessions are shared, stay usable while held, are torn down exactly once",
		Explanation: "Structural necessary conditions of C16: (get-atomic) cacheWrapper.Get performs lookup-or-load and the usage increment in one critical section of c.mu, and every Get/Set on the session cache happens under c.mu; " +
			"(teardown-waits) sharedEncryption.Remove closes the wrapped session only after leaving a loop that waits (Cond.Wait) while accessCounter > 0, all under s.mu; every decrement is followed by Broadcast; the counter is " +
			"mutated only under s.mu; (single-teardown-path) Remove is called only from the evict callback installed by newSessionCache, that callback never closes a session directly, and SessionFactory.Close reaches the cache's " +
			"Close (which fires the callback once per entry — C15.callback-exactly-once); (shared-wrapper) every session the loader returns for caching has its encryption wrapped in sharedEncryption, so a holder's Close only decrements. " +
			"Also: helpers that run inside Get's critical section never release c.mu; every success return of Get passes a usage increment that really adds one (holder-counted); both mutexes are paired and balanced on every path; and the generic " +
			"cache rules a cached session depends on (C15.removal-notifies, expiry-evicts, remove-unlinks, relink-is-a-move, element-recorded: no entry leaves un-notified, none is notified twice through a stale list element). " +
			"Interleavings and expiry timing are not decided.",
		NotDecided:  []string{"interleavings of getters/closers/evictions at run time", "expiry timing", "that a held session 'keeps working' (depends on C08/C09 properties of the key caches)"},
		Assumptions: []string{"sync.Cond.Wait returns with the lock held", "the generic cache fires the eviction callback exactly once per entry (C15)"},
		Tech:        "static analysis: lock-state dataflow on cacheWrapper/sharedEncryption, loop-exit guarded-by-condition, who-may-call over the closure-binding call graph",
		NeedU1:      true,
		NeedU2:      true,
		Rules:       []func(*Ctx){ruleC16GetAtomic, ruleC16TeardownWaits, ruleC16SingleTeardownPath, ruleC16SharedWrapper, ruleC15ValuesAreOpaque, ruleC09CloseChains, ruleC19CloseOnExit, ruleC15CallbackExactlyOnce, ruleC15RemovalNotifies, ruleC15ExpiryEvicts, ruleC15RemoveUnlinks, ruleC15RelinkIsAMove, ruleC15ElementRecorded, ruleC15RegistrationFollowsSegment, countersCannotWrapRule("C16", 1, pkgApp), ruleC16EveryCloseReleasesOneUsage, condOnSameLockRule("C16", [4]string{pkgApp, "sharedEncryption", "mu", "cond"}), lostUpdateRule("C16", "github.com/godaddy/asherah/go/appencryption"), lockBalancedRule("C16", 5, lockDomSpec{pkgApp, "cacheWrapper", "mu"}, lockDomSpec{pkgApp, "sharedEncryption", "mu"}), ruleC15PromotionFlagBeforeRebalance, ruleC08SessionCloseOnlyClosesEncryption, ruleC15ListHandleBelongsToItsItem, ruleC15SegmentFlagFollowsList, ruleC15SegmentMoveConserves},
	})
}

func ruleC16GetAtomic(c *Ctx) {
	u := c.U1
	c.rule("C16.get-atomic", "cacheWrapper: every cache.Get/Set on the session cache and the usage increment run with c.mu held, lookup-or-load and increment in the same critical section", 3)
	d := newLockDomain(u, pkgApp, "cacheWrapper", "mu")
	if len(d.funcs) == 0 {
		c.unresolved("cacheWrapper", "methods of appencryption.cacheWrapper")
		return
	}
	n := 0
	for _, f := range d.funcs {
		c.FuncsAnalysed[shortName(f)] = true
		allInstrs(f, func(i ssa.Instruction) {
			cc := callOf(i)
			if cc == nil {
				return
			}
			what := ""
			if cc.IsInvoke() && typeIsNamed(cc.Value.Type(), pkgCache, "Interface") && (cc.Method.Name() == "Get" || cc.Method.Name() == "Set" || cc.Method.Name() == "Delete") {
				what = "cache." + cc.Method.Name()
			}
			if g := staticCallee(i); g != nil && g.Name() == "incrementSharedSessionUsage" {
				what = "incrementSharedSessionUsage"
			}
			if what == "" {
				return
			}
			n++
			st := d.stateAt(i)
			c.check(st == lsW, shortName(f)+"/"+what, u.ipos(i), "c.mu held", what+" runs while c.mu may be "+st.String()+": a session can be evicted and torn down between lookup and usage increment")
		})
	}
	// same critical section in Get: no unlock between getOrAdd and the increment
	if get := u.Method(pkgApp, "cacheWrapper", "Get"); get != nil {
		var goa, inc ssa.Instruction
		allInstrs(get, func(i ssa.Instruction) {
			if g := staticCallee(i); g != nil {
				switch g.Name() {
				case "getOrAdd":
					goa = i
				case "incrementSharedSessionUsage":
					inc = i
				}
			}
			if cc := callOf(i); cc != nil && cc.IsInvoke() && typeIsNamed(cc.Value.Type(), pkgCache, "Interface") && cc.Method.Name() == "Get" {
				goa = i
			}
		})
		ok := goa != nil && inc != nil
		if ok {
			found, _ := pathSearch(goa, func(j ssa.Instruction) pathAction {
				if j == inc {
					return pathStop
				}
				if op, isOp := d.lockOp(j, recvPathOf(get)); isOp && op == lsU && reaches(j, inc) {
					return pathFound
				}
				return pathContinue
			}, nil)
			ok = !found
			// the increment is applied to the session that was looked up
			ok = ok && len(resultsOfType(goa, func(t types.Type) bool { return true })) >= 0
		}
		c.check(ok, shortName(get)+"/one-critical-section", u.pos(get.Pos()), "lookup-or-load and usage increment without releasing c.mu in between", "c.mu is released between obtaining the cached session and counting the new holder")
	}
	if n < 3 {
		c.bad("cacheWrapper/ops", "", fmt.Sprintf("expected at least 3 guarded operations, found %d", n))
	}
	// helpers that run inside Get's critical section never touch c.mu themselves (an unlock/relock around a slow step
	// splits lookup-or-load from the insert: two callers load the same partition and one session is silently replaced)
	for _, f := range d.funcs {
		if d.entry[f]&lsW == 0 || f.Blocks == nil {
			continue
		}
		rp := recvPathOf(f)
		var op ssa.Instruction
		allInstrs(f, func(i ssa.Instruction) {
			if _, isOp := d.lockOpKind(i, rp); isOp {
				op = i
			}
		})
		if op != nil {
			c.bad(shortName(f)+"/critical-section-intact", u.ipos(op), "a helper that runs with c.mu held releases/re-acquires c.mu: lookup-or-load-and-insert is no longer one critical section (two concurrent callers for an uncached partition each load a session and one replaces the other without teardown)")
		} else {
			c.ok(shortName(f)+"/critical-section-intact", u.pos(f.Pos()), "no lock operation inside the helper")
		}
	}
	// every holder is counted: each success return of Get passes the usage increment of the returned session, and the
	// increment really adds one to accessCounter on every path
	if get := u.Method(pkgApp, "cacheWrapper", "Get"); get != nil {
		for _, r := range returnsOf(get) {
			if !isNilValue(returnedValue(r, 1)) || isNilValue(returnedValue(r, 0)) {
				continue
			}
			found, tr := pathSearchAt(get.Blocks[0], 0, func(i ssa.Instruction) pathAction {
				if _, isCall := i.(*ssa.Call); isCall {
					if g := staticCallee(i); g != nil && mustIncrementHolder(g, 0) {
						return pathStop
					}
				}
				if i == ssa.Instruction(r) {
					return pathFound
				}
				return pathContinue
			}, nil)
			if found {
				c.bad(shortName(get)+"/holder-counted", u.ipos(r), "a session is handed out without its holder being counted (accessCounter++): the eviction teardown does not wait for this holder and closes the session under it", u.tracePositions(tr)...)
			} else {
				c.ok(shortName(get)+"/holder-counted", u.ipos(r), "every success return passes the usage increment")
			}
		}
	}
}

// mustIncrementHolder: every path of g adds one to sharedEncryption.accessCounter (directly or through a callee).
func mustIncrementHolder(g *ssa.Function, depth int) bool {
	if g == nil || g.Blocks == nil || depth > 3 {
		return false
	}
	incs := map[ssa.Instruction]bool{}
	for _, st := range counterStores(g, token.ADD) {
		incs[st] = true
	}
	ok, _ := mustPass(g.Blocks[0], 0, func(i ssa.Instruction) bool {
		if incs[i] {
			return true
		}
		if _, isCall := i.(*ssa.Call); isCall {
			if h := staticCallee(i); h != nil && h != g && h.Pkg != nil && h.Pkg.Pkg.Path() == pkgApp {
				return mustIncrementHolder(h, depth+1)
			}
		}
		return false
	}, nil)
	return ok
}

func ruleC16TeardownWaits(c *Ctx) {
	u := c.U1
	c.rule("C16.teardown-waits", "sharedEncryption: Remove closes the wrapped session only on the exit edge of a loop that Cond.Waits while accessCounter > 0, with s.mu held; every decrement is followed by Broadcast; accessCounter is accessed only under s.mu", 6)
	d := newLockDomain(u, pkgApp, "sharedEncryption", "mu")
	if len(d.funcs) == 0 {
		c.unresolved("sharedEncryption", "methods")
		return
	}
	for _, f := range d.funcs {
		c.FuncsAnalysed[shortName(f)] = true
		for _, ga := range guardedAccesses(f, pkgApp, "sharedEncryption", map[string]bool{"accessCounter": true}, nil) {
			st := d.stateAt(ga.Instr)
			c.check(st == lsW, shortName(f)+"/"+ga.What, u.ipos(ga.Instr), "s.mu held", "the holder count is accessed while s.mu may be "+st.String())
		}
	}
	rm := u.Method(pkgApp, "sharedEncryption", "Remove")
	if rm == nil {
		c.unresolved("Remove", "(*sharedEncryption).Remove")
		return
	}
	var isHeld func(v ssa.Value) bool
	isHeld = func(v ssa.Value) bool {
		// a predicate method of the wrapper whose every return is such a test
		if cv, isCall := v.(*ssa.Call); isCall {
			if h := staticCallee(cv); h != nil && h.Blocks != nil && h.Signature.Recv() != nil && typeIsNamed(h.Signature.Recv().Type(), pkgApp, "sharedEncryption") {
				rets := returnsOf(h)
				for _, r := range rets {
					if len(r.Results) != 1 || !isHeld(resolve(returnedValue(r, 0))) {
						return false
					}
				}
				return len(rets) > 0
			}
			return false
		}
		b, ok := v.(*ssa.BinOp)
		if !ok || b.Op != token.GTR {
			return false
		}
		_, fld, isF := fieldAccess(b.X)
		k, isC := constOf(b.Y)
		return isF && fld == "accessCounter" && isC && k.ExactString() == "0"
	}
	n := 0
	allInstrs(rm, func(i ssa.Instruction) {
		if !invokeIs(i, pkgApp, "Encryption", "Close") {
			return
		}
		n++
		idle := guardedBy(i, false, isHeld)
		st := d.stateAt(i)
		// the held edge must wait and come back to the test (a loop, not an if)
		loops := false
		for _, b := range rm.Blocks {
			for _, s := range b.Succs {
				for _, fct := range edgeFacts(b, s) {
					if isHeld(fct.V) && fct.True {
						waited := false
						found, _ := pathSearchAt(s, 0, func(j ssa.Instruction) pathAction {
							if staticIs(j, "(*sync.Cond).Wait") {
								waited = true
							}
							if j.Block() == b && j == b.Instrs[len(b.Instrs)-1] {
								return pathFound // back at the test
							}
							if j == i {
								return pathStop // reaches the close without re-testing
							}
							return pathContinue
						}, nil)
						if found && waited {
							// and no path from the held edge reaches Close without passing the test again
							bypass, _ := pathSearchAt(s, 0, func(j ssa.Instruction) pathAction {
								if j == i {
									return pathFound
								}
								if j.Block() == b && j == b.Instrs[len(b.Instrs)-1] {
									return pathStop
								}
								return pathContinue
							}, nil)
							loops = !bypass
						}
					}
				}
			}
		}
		switch {
		case !idle || !loops:
			c.bad(shortName(rm)+"/close-when-idle", u.ipos(i), "the wrapped session is closed without a wait loop that re-tests accessCounter > 0 after every wake-up: with two holders the first Close's broadcast tears the session down under the second holder")
		case st != lsW:
			c.bad(shortName(rm)+"/close-when-idle", u.ipos(i), "the wrapped session is closed while s.mu may be "+st.String())
		default:
			c.ok(shortName(rm)+"/close-when-idle", u.ipos(i), "closed only after the `for accessCounter > 0 { Wait }` loop exited, s.mu held")
		}
	})
	if n != 1 {
		c.bad(shortName(rm)+"/close", u.pos(rm.Pos()), fmt.Sprintf("expected exactly one close of the wrapped session in Remove, found %d", n))
	}
	// decrement followed by broadcast
	if cl := u.Method(pkgApp, "sharedEncryption", "Close"); cl != nil {
		for _, dec := range counterStores(cl, token.SUB) {
			ok := false
			allInstrs(cl, func(i ssa.Instruction) {
				if df, isD := i.(*ssa.Defer); isD && instrDominates(i, dec) {
					if g := staticCallee(df); g != nil && (funcFullName(g) == "(*sync.Cond).Broadcast") {
						ok = true
					}
				}
			})
			if !ok {
				ok, _ = mustPass(dec.Block(), indexOf(dec)+1, func(j ssa.Instruction) bool {
					return staticIs(j, "(*sync.Cond).Broadcast")
				}, nil)
			}
			c.check(ok, shortName(cl)+"/wakeup", u.ipos(dec), "decrement followed by Broadcast", "a holder can release the session without waking a waiting Remove: the session is never torn down")
		}
		// a holder's Close never closes the wrapped session
		bad := false
		allInstrs(cl, func(i ssa.Instruction) {
			if invokeIs(i, pkgApp, "Encryption", "Close") {
				bad = true
			}
		})
		c.check(!bad, shortName(cl)+"/only-decrements", u.pos(cl.Pos()), "holder Close only decrements", "a holder's Close closes the shared session itself (other holders lose it)")
	}
}

func ruleC16SingleTeardownPath(c *Ctx) {
	u := c.U1
	c.rule("C16.single-teardown-path", "sharedEncryption.Remove is called only from the evict callback installed by newSessionCache; that callback calls nothing else that closes a session; cacheWrapper.Close closes the generic cache", 3)
	rm := u.Method(pkgApp, "sharedEncryption", "Remove")
	nsc := u.Func(pkgApp, "newSessionCache")
	if rm == nil || nsc == nil {
		c.unresolved("Remove/newSessionCache", "functions")
		return
	}
	cg := newCallGraph(u)
	var cb *ssa.Function
	allInstrs(nsc, func(i ssa.Instruction) {
		if g := staticCallee(i); g != nil && g.Name() == "WithEvictFunc" {
			for f := range cg.funcValues(callOf(i).Args[1], nil, 0) {
				cb = f
			}
		}
	})
	if cb == nil {
		c.bad("newSessionCache/callback", u.pos(nsc.Pos()), "newSessionCache installs no eviction callback: evicted sessions are never torn down")
		return
	}
	bad := ""
	for _, e := range cg.callersOf(rm) {
		if e.From != cb {
			bad = trimPkgDirs(shortName(e.From)) + " at " + u.ipos(e.Site)
		}
	}
	called := false
	direct := false
	allInstrs(cb, func(i ssa.Instruction) {
		if staticCallee(i) == rm {
			called = true
		}
		if cc := callOf(i); cc != nil && methodNameOf(cc) == "Close" {
			direct = true
		}
	})
	c.check(bad == "", "sharedEncryption.Remove/callers", u.pos(rm.Pos()), "only the session cache's evict callback", "Remove is also called from "+bad+": a session could be torn down twice or while cached")
	c.check(called && !direct, trimPkgDirs(shortName(cb))+"/teardown", u.pos(cb.Pos()), "callback → Remove (waits for holders)", "the evict callback does not go through Remove (it closes the session directly, or not at all)")
	if cl := u.Method(pkgApp, "cacheWrapper", "Close"); cl != nil {
		ok, _ := mustPass(cl.Blocks[0], 0, func(i ssa.Instruction) bool {
			cc := callOf(i)
			return cc != nil && cc.IsInvoke() && cc.Method.Name() == "Close" && typeIsNamed(cc.Value.Type(), pkgCache, "Interface")
		}, nil)
		c.check(ok, shortName(cl)+"/closes-cache", u.pos(cl.Pos()), "c.cache.Close() on every path", "closing the session cache does not close the underlying cache: cached sessions are never torn down at factory close")
	}
}

// ensuresSharedEncryption: every path from h's entry to a return takes the "already a *sharedEncryption" edge of a type
// assertion or injects / stores a sharedEncryption literal carrying mu, cond and the original.
func ensuresSharedEncryption(u *Universe, h *ssa.Function, inject *ssa.Function) bool {
	takesSession := false
	for _, p := range h.Params {
		if pt, ok := p.Type().Underlying().(*types.Pointer); ok && typeIsNamed(pt.Elem(), pkgApp, "Session") {
			takesSession = true
		}
	}
	if !takesSession {
		return false
	}
	found, _ := pathSearchAt(h.Blocks[0], 0, func(i ssa.Instruction) pathAction {
		if inject != nil && staticCallee(i) == inject {
			if a, _ := litOf(callOf(i).Args[1]); a != nil && typeIsNamed(a.Type(), pkgApp, "sharedEncryption") {
				fl := litFields(a)
				_, h1 := fl["mu"]
				_, h2 := fl["cond"]
				_, h3 := fl["Encryption"]
				if h1 && h2 && h3 {
					return pathStop
				}
			}
		}
		if st, ok := i.(*ssa.Store); ok {
			if _, fld, isF := fieldAccess(st.Addr); isF && fld == "encryption" {
				if a, _ := litOf(st.Val); a != nil && typeIsNamed(a.Type(), pkgApp, "sharedEncryption") {
					return pathStop
				}
			}
		}
		if isReturn(i) {
			return pathFound
		}
		return pathContinue
	}, func(from, to *ssa.BasicBlock) bool {
		for _, fct := range edgeFacts(from, to) {
			if ex, ok := strip(fct.V).(*ssa.Extract); ok && ex.Index == 1 && fct.True {
				if ta, isTA := ex.Tuple.(*ssa.TypeAssert); isTA && strings.HasSuffix(ta.AssertedType.String(), "sharedEncryption") {
					return false
				}
			}
		}
		return true
	})
	return !found
}

func ruleC16SharedWrapper(c *Ctx) {
	u := c.U1
	c.rule("C16.shared-wrapper", "the loader installed by newSessionCacheWithCache returns, with a nil error, only sessions whose encryption is a *sharedEncryption (already one, or injected on that path); getOrAdd caches exactly what the loader returned", 2)
	f := u.Func(pkgApp, "newSessionCacheWithCache")
	if f == nil || len(f.AnonFuncs) == 0 {
		c.unresolved("newSessionCacheWithCache", "loader closure")
		return
	}
	ld := f.AnonFuncs[0]
	c.FuncsAnalysed[shortName(ld)] = true
	inject := u.Func(pkgApp, "sessionInjectEncryption")
	for _, r := range returnsOf(ld) {
		if !isNilValue(returnedValue(r, 1)) || isNilValue(returnedValue(r, 0)) {
			continue
		}
		// every path from entry to this return takes the typeassert-ok edge or passes sessionInjectEncryption(s, &sharedEncryption{..})
		found, tr := pathSearchAt(ld.Blocks[0], 0, func(i ssa.Instruction) pathAction {
			if staticCallee(i) == inject && inject != nil {
				if a, _ := litOf(callOf(i).Args[1]); a != nil && typeIsNamed(a.Type(), pkgApp, "sharedEncryption") {
					fl := litFields(a)
					if _, has := fl["mu"]; has {
						if _, has2 := fl["cond"]; has2 {
							if _, has3 := fl["Encryption"]; has3 {
								return pathStop
							}
						}
					}
				}
			}
			if st, ok := i.(*ssa.Store); ok {
				if _, fld, isF := fieldAccess(st.Addr); isF && fld == "encryption" {
					if a, _ := litOf(st.Val); a != nil && typeIsNamed(a.Type(), pkgApp, "sharedEncryption") {
						return pathStop
					}
				}
			}
			// a helper of the package that wraps (or finds wrapped) on every path to its returns
			if h := staticCallee(i); h != nil && h != inject && h.Blocks != nil && h.Pkg != nil && h.Pkg.Pkg.Path() == pkgApp && ensuresSharedEncryption(u, h, inject) {
				return pathStop
			}
			if i == ssa.Instruction(r) {
				return pathFound
			}
			return pathContinue
		}, func(from, to *ssa.BasicBlock) bool {
			for _, fct := range edgeFacts(from, to) {
				if ex, ok := strip(fct.V).(*ssa.Extract); ok && ex.Index == 1 && fct.True {
					if ta, isTA := ex.Tuple.(*ssa.TypeAssert); isTA && strings.HasSuffix(ta.AssertedType.String(), "sharedEncryption") {
						return false
					}
				}
			}
			return true
		})
		if found {
			c.bad(shortName(ld)+"/wrapped", u.ipos(r), "a session can be returned for caching without its encryption wrapped in sharedEncryption (with mu, cond and the original): a holder's Close would close the shared session, and Get's type assertion panics", u.tracePositions(tr)...)
		} else {
			c.ok(shortName(ld)+"/wrapped", u.ipos(r), "every success path wraps (or finds) a sharedEncryption")
		}
	}
	// whichever method of cacheWrapper performs the insert
	var goa *ssa.Function
	for _, g := range u.RepoFuncs {
		if g.Signature.Recv() != nil && g.Parent() == nil && typeIsNamed(g.Signature.Recv().Type(), pkgApp, "cacheWrapper") {
			allInstrs(g, func(i ssa.Instruction) {
				if cc := callOf(i); cc != nil && cc.IsInvoke() && cc.Method.Name() == "Set" && typeIsNamed(cc.Value.Type(), pkgCache, "Interface") {
					goa = g
				}
			})
		}
	}
	if goa != nil {
		ok := false
		allInstrs(goa, func(i ssa.Instruction) {
			cc := callOf(i)
			if cc != nil && cc.IsInvoke() && cc.Method.Name() == "Set" {
				if ex, isEx := resolve(cc.Args[1]).(*ssa.Extract); isEx && ex.Index == 0 {
					if call, isC := ex.Tuple.(*ssa.Call); isC {
						if _, fld, isF := fieldAccess(call.Call.Value); isF && fld == "loader" {
							ok = true
						}
					}
				}
			}
		})
		c.check(ok, "cacheWrapper/caches-loaded", u.pos(goa.Pos()), "cache.Set(id, <loader result>)", "the session cache does not store the session the loader returned")
	}
}
