package main

// `asherah-verif manifest` regenerates /verif/MANIFEST.json from the rule registry so that the manifest, the
// claimed properties and the not_applicable list cannot drift apart.

import (
	"bufio"
	"encoding/json"
	"fmt"
	"os"
	"path/filepath"
	"sort"
)

// notApplicable holds the reason for every property that is deliberately not claimed.
var notApplicable = map[string]string{}

func writeManifest() error {
	root := verifRoot()
	f, err := os.Open(filepath.Join(root, "properties.jsonl"))
	if err != nil {
		return err
	}
	defer f.Close()
	var ids []string
	sc := bufio.NewScanner(f)
	sc.Buffer(make([]byte, 1<<22), 1<<22)
	for sc.Scan() {
		var p struct {
			ID string `json:"id"`
		}
		if json.Unmarshal(sc.Bytes(), &p) == nil && p.ID != "" {
			ids = append(ids, p.ID)
		}
	}
	sort.Strings(ids)
	type level struct {
		Category  string `json:"category"`
		Text      string `json:"text"`
		DesignRef string `json:"design_ref"`
	}
	type check struct {
		PropertyID  string `json:"property_id"`
		QuickCmd    string `json:"quick_cmd"`
		ThoroughCmd string `json:"thorough_cmd"`
		Evidence    string `json:"evidence_file"`
		Replay      string `json:"replay_cmd_template"`
		Engine      string `json:"engine"`
		Level       level  `json:"level_claimed"`
		LevelNote   string `json:"level_note"`
		Technique   string `json:"technique"`
	}
	type na struct {
		PropertyID string `json:"property_id"`
		Reason     string `json:"reason"`
	}
	var checks []check
	nas := []na{}
	var claimed []string
	for _, id := range ids {
		spec := registry[id]
		if spec == nil {
			reason := notApplicable[id]
			if reason == "" {
				reason = "no sound static rule implemented for this property in this checker (see DESIGN.md §4); not claimed"
			}
			nas = append(nas, na{id, reason})
			continue
		}
		claimed = append(claimed, id)
		nd := ""
		for i, s := range spec.NotDecided {
			if i > 0 {
				nd += "; "
			}
			nd += s
		}
		as := ""
		for i, s := range spec.Assumptions {
			if i > 0 {
				as += "; "
			}
			as += s
		}
		checks = append(checks, check{
			PropertyID:  id,
			QuickCmd:    "bin/asherah-verif check " + id + " --tier quick",
			ThoroughCmd: "bin/asherah-verif check " + id + " --tier thorough",
			Evidence:    "/verif/evidence/" + id + ".json",
			Replay:      "bin/asherah-verif explain {path}",
			Engine:      "asherah-verif",
			Level: level{Category: "other",
				Text: "Static analysis of /repo's current source (go/types + go/ssa, no execution): all structural obligations of the rule set for " + id +
					" are discharged on every CFG path / call site / implementation. " + spec.Explanation + " NOT decided (behavioural, run-time quantified): " + nd + ".",
				DesignRef: "DESIGN.md §3 " + id},
			LevelNote: "Trusted: go/types, go/ssa, go/packages (x/tools v0.29.0), the Go toolchain's type checker, and the anchor/exemption tables in /verif/checker. Assumed: " + as + ".",
			Technique: spec.Technique(),
		})
	}
	m := map[string]any{
		"version":   1,
		"setup_cmd": "cd /verif/checker && GOFLAGS=-mod=mod GOPROXY=off GOSUMDB=off GOTOOLCHAIN=local go build -o /verif/bin/asherah-verif . && /verif/bin/asherah-verif warmup",
		"hooks": map[string]any{
			"guard":            "verif",
			"enable":           "none needed: the checks read source; no instrumentation is compiled into /repo (build tag `verif` reserved, unused)",
			"baseline_off_cmd": "/verif/tools/run_baseline.sh /tmp/asherah-baseline",
			"source_commits":   []string{},
			"add_only":         true,
		},
		"engines": []map[string]any{{
			"name": "asherah-verif", "path": "/verif/checker", "serves_properties": claimed,
			"kind_free_text": "repository-specific static analyser (Go; go/packages + go/types + go/ssa): must-release ownership, lock-state dataflow, guarded-by-condition / must-pass-through, may-flow, who-may-call, request-shape and sibling-agreement rules over the resolved program; nothing is executed",
		}},
		"checks":         checks,
		"not_applicable": nas,
		"notes":          "All claimed checks are level `other`: structural necessary conditions decided from source on every path/site/implementation; the behavioural cores listed under NOT decided are not claimed. Genuine defects found are in /verif/known_findings.txt (finding:/fixed:). See DESIGN.md.",
	}
	b, _ := json.MarshalIndent(m, "", " ")
	if err := os.WriteFile(filepath.Join(root, "MANIFEST.json"), append(b, '\n'), 0o644); err != nil {
		return err
	}
	fmt.Printf("MANIFEST.json: %d checks, %d not_applicable\n", len(checks), len(nas))
	return nil
}

func (p *propSpec) Technique() string {
	if p.Tech != "" {
		return p.Tech
	}
	return "static analysis: repository-specific SSA/CFG rules (asherah-verif)"
}
