package main

// asherah-verif: repository-specific static checker for the properties in /verif/properties.jsonl.
//
//	asherah-verif check <Cxx> [--tier quick|thorough]
//	asherah-verif all [--tier quick|thorough]      (every claimed property, one process, shared load)
//	asherah-verif selftest                          (engines against the built-in fixtures)
//	asherah-verif explain <replay.json>
//
// Exit 0: all obligations discharged (known findings are printed). Exit 1: at least one VIOLATION line.
// Exit 2: the checker itself could not run (load failure, selftest failure) — no VIOLATION line.

import (
	"encoding/json"
	"fmt"
	"os"
	"runtime/debug"
	"sort"
	"strings"
	"time"
)

type propSpec struct {
	ID            string
	Title         string
	Explanation   string   // what the structural rules decide (goes to evidence.coverage.explanation)
	NotDecided    []string // behavioural clauses that are NOT decided
	Assumptions   []string
	Tech          string // technique (MANIFEST)
	UsesCallGraph bool   // rules rely on E-CALL reachability / who-may-call: thorough tier cross-checks with VTA
	NeedU1        bool
	NeedU2        bool
	Rules         []func(*Ctx)
	Thorough      []func(*Ctx) // extra rules / cross-checks in thorough tier
}

var registry = map[string]*propSpec{}

func register(p *propSpec) { registry[p.ID] = p }

func main() {
	debug.SetGCPercent(400)
	if len(os.Args) < 2 {
		usage()
	}
	tier := os.Getenv("VERIF_TIER")
	if tier == "" {
		tier = "quick"
	}
	var rest []string
	for i := 2; i < len(os.Args); i++ {
		switch {
		case os.Args[i] == "--tier" && i+1 < len(os.Args):
			tier = os.Args[i+1]
			i++
		case strings.HasPrefix(os.Args[i], "--tier="):
			tier = strings.TrimPrefix(os.Args[i], "--tier=")
		default:
			rest = append(rest, os.Args[i])
		}
	}
	if tier != "quick" && tier != "thorough" {
		fmt.Println("unknown tier", tier)
		os.Exit(2)
	}
	switch os.Args[1] {
	case "check":
		if len(rest) != 1 {
			usage()
		}
		os.Exit(runChecks([]string{rest[0]}, tier))
	case "all":
		var ids []string
		for id := range registry {
			ids = append(ids, id)
		}
		sort.Strings(ids)
		os.Exit(runChecks(ids, tier))
	case "selftest":
		if err := selftest(true); err != nil {
			fmt.Println("SELFTEST FAILED:", err)
			os.Exit(2)
		}
		fmt.Println("selftest ok")
	case "explain":
		if len(rest) != 1 {
			usage()
		}
		os.Exit(explain(rest[0]))
	case "list":
		var ids []string
		for id := range registry {
			ids = append(ids, id)
		}
		sort.Strings(ids)
		for _, id := range ids {
			fmt.Println(id, registry[id].Title)
		}
	case "gen-mutants":
		if len(rest) != 1 {
			usage()
		}
		if err := genMutants(rest[0]); err != nil {
			fmt.Println(err)
			os.Exit(2)
		}
	case "gen-pinned":
		// freezes the declaration table of the tree as it is now (run on the pinned tree; the file is committed)
		genPinnedMode = true
		u1, err := loadUniverse("U1", BuildConfig{Name: "default"}, false)
		if err != nil {
			fmt.Println(err)
			os.Exit(2)
		}
		u2, err := loadUniverse("U2", BuildConfig{Name: "default"}, false)
		if err != nil {
			fmt.Println(err)
			os.Exit(2)
		}
		out := "/verif/checker/pinned_names.json"
		if len(rest) == 1 {
			out = rest[0]
		}
		if err := genPinned([]*Universe{u1, u2}, out); err != nil {
			fmt.Println(err)
			os.Exit(2)
		}
		fmt.Println("wrote", out)
	case "manifest":
		if err := writeManifest(); err != nil {
			fmt.Println(err)
			os.Exit(2)
		}
	case "warmup":
		// loads both universes once so the go build cache holds export data for the dependencies
		t := time.Now()
		if _, err := loadUniverse("U1", BuildConfig{Name: "default"}, false); err != nil {
			fmt.Println("warmup U1:", err)
			os.Exit(2)
		}
		if _, err := loadUniverse("U2", BuildConfig{Name: "default"}, false); err != nil {
			fmt.Println("warmup U2:", err)
			os.Exit(2)
		}
		fmt.Printf("warmup ok %.1fs\n", time.Since(t).Seconds())
	default:
		usage()
	}
}

func usage() {
	fmt.Println("usage: asherah-verif check <Cxx> [--tier quick|thorough] | all | selftest | explain <replay.json> | list | warmup")
	os.Exit(2)
}

var loaded = map[string]*Universe{}

func getUniverse(name string, bc BuildConfig, allDeps bool) (*Universe, error) {
	key := fmt.Sprintf("%s/%s/%s/%v", name, bc.Tags, bc.GOARCH, allDeps)
	if u, ok := loaded[key]; ok {
		return u, nil
	}
	u, err := loadUniverse(name, bc, allDeps)
	if err != nil {
		return nil, err
	}
	loaded[key] = u
	return u, nil
}

func runChecks(ids []string, tier string) int {
	if err := selftest(false); err != nil {
		fmt.Println("SELFTEST FAILED (engine no longer fires on its violating fixture; no verdict given):", err)
		return 2
	}
	rc := 0
	for _, id := range ids {
		spec := registry[id]
		if spec == nil {
			fmt.Printf("property %s is not claimed by this checker (see MANIFEST.json not_applicable)\n", id)
			return 2
		}
		r := runOne(spec, tier)
		if r > rc {
			rc = r
		}
	}
	return rc
}

func runOne(spec *propSpec, tier string) (rc int) {
	start := time.Now()
	c := newCtx(spec.ID, tier)
	defer func() {
		if r := recover(); r != nil {
			// a panic in a rule is a checker failure and must fail the check (never pass silently)
			fmt.Printf("checker panic in %s rule %s: %v\n%s\n", spec.ID, c.curRule, r, debug.Stack())
			c.rule(spec.ID+".checker-panic", "the checker must not crash", 0)
			c.add("panic", "", Undecided, fmt.Sprint(r))
			rc = c.finish(spec, start, nil)
		}
	}()
	def := BuildConfig{Name: "default"}
	var err error
	if spec.NeedU1 {
		if c.U1, err = getUniverse("U1", def, false); err != nil {
			return loadFailure(c, spec, start, err)
		}
	}
	if spec.NeedU2 {
		if c.U2, err = getUniverse("U2", def, false); err != nil {
			return loadFailure(c, spec, start, err)
		}
	}
	for _, r := range spec.Rules {
		r(c)
	}
	extra := map[string]any{"build_configs": []string{"default"}}
	if tier == "thorough" {
		runThorough(c, spec, extra)
	}
	return c.finish(spec, start, extra)
}

func loadFailure(c *Ctx, spec *propSpec, start time.Time, err error) int {
	c.rule(spec.ID+".load", "every build configuration must load and type-check with zero errors and a non-zero package count", 0)
	c.add("load", "", Undecided, err.Error())
	return c.finish(spec, start, nil)
}

func explain(path string) int {
	b, err := os.ReadFile(path)
	if err != nil {
		fmt.Println(err)
		return 2
	}
	var r struct {
		Property   string     `json:"property"`
		Obligation Obligation `json:"obligation"`
		RuleText   string     `json:"rule_text"`
	}
	if err := json.Unmarshal(b, &r); err != nil {
		fmt.Println(err)
		return 2
	}
	spec := registry[r.Property]
	if spec == nil {
		fmt.Println("unknown property", r.Property)
		return 2
	}
	fmt.Printf("replaying %s obligation %s\nrule: %s\n", r.Property, r.Obligation.Key(), r.RuleText)
	c := newCtx(spec.ID, "quick")
	def := BuildConfig{Name: "default"}
	if spec.NeedU1 {
		if c.U1, err = getUniverse("U1", def, false); err != nil {
			fmt.Println(err)
			return 2
		}
	}
	if spec.NeedU2 {
		if c.U2, err = getUniverse("U2", def, false); err != nil {
			fmt.Println(err)
			return 2
		}
	}
	for _, rule := range spec.Rules {
		rule(c)
	}
	found := false
	for _, o := range c.Obs {
		if o.Key() == r.Obligation.Key() {
			found = true
			fmt.Printf("on the current tree: %s  [%s] %s\n", o.Pos, o.Verdict, o.Fact)
			for _, p := range o.Path {
				fmt.Println("    path:", p)
			}
			if o.Verdict != Discharged {
				return 1
			}
		}
	}
	if !found {
		fmt.Println("obligation no longer exists on the current tree")
	}
	return 0
}
