package main

// C10 — transient plaintext key copies on the Go heap are wiped (DESIGN §3 C10). E-OWN over byte slices.

import (
	"fmt"
	"go/token"
	"go/types"
	"strings"

	"golang.org/x/tools/go/ssa"
)

func init() {
	register(&propSpec{
		ID:    "C10",
		Title: "Transient plaintext key copies on the Go heap are wiped before the call returns",
		Explanation: "Structural necessary conditions of C10 on every CFG path (error paths included) of every SDK function (U1): " +
			"(wipe) every heap buffer produced by a key-unwrapping step — AEAD.Decrypt of an EncryptedKey, KeyManagementService.DecryptKey, " +
			"accessor calls whose action returns such a buffer, Plaintext of AWS KMS GenerateDataKey/Decrypt outputs — is passed to " +
			"internal.MemClr/core.Wipe (direct or deferred), handed to internal.NewCryptoKey, or returned to a caller that inherits the obligation; " +
			"(newcryptokey-wipes) NewCryptoKey wipes its key argument on every path (factory success, or MemClr); (factory-wipes-on-success) every " +
			"SecretFactory.New wipes its argument before any nil-error return; (wipe-not-early) the deferred wipe of a cloud data key runs only after the " +
			"fan-out goroutines that read it were joined. Decides code shape, not memory contents.",
		NotDecided:  []string{"actual zero bytes in memory at return", "the key schedule inside crypto/aes, GC copies", "user-supplied AEAD/KMS/SecretFactory internals", "memguard internals beyond the stated summary of NewBufferFromBytes"},
		Assumptions: []string{"memguard.NewBufferFromBytes wipes its argument when it returns a live buffer (verified against the module-cache source in thorough tier)", "aliases are flow-insensitive (can hide a miss, never invent one)"},
		Tech:        "static analysis: must-release (wipe-or-hand-over) dataflow on SSA over byte-slice sources, all CFG paths incl. error exits",
		NeedU1:      true,
		Rules:       []func(*Ctx){ruleC10Wipe, ruleC10NewCryptoKeyWipes, ruleC10FactoryWipes, ruleC10WipeNotEarly, ruleC10AccessorErrorDiscards, ruleC10AccessorForwardsActionResult, ruleC10WipedBuffersAreOwned, ruleC10NoUnwipedCopies},
	})
}

const (
	fnMemClr   = pkgInt + ".MemClr"
	fnCoreWipe = "github.com/awnumar/memguard/core.Wipe"
)

// wipeArg: if i is a call/defer of a wipe function, its argument.
func wipeArg(i ssa.Instruction) (ssa.Value, bool) {
	if _, isGo := i.(*ssa.Go); isGo {
		return nil, false
	}
	f := staticCallee(i)
	if f == nil {
		return nil, false
	}
	switch funcFullName(f) {
	case fnMemClr, fnCoreWipe:
		return callOf(i).Args[0], true
	}
	// a repo helper that wipes one of its []byte parameters on every path to return wipes the argument passed for it
	if k := wipesParam(f); k >= 0 && k < len(callOf(i).Args) {
		return callOf(i).Args[k], true
	}
	return nil, false
}

var wipesParamMemo = map[*ssa.Function]int{}

// wipesParam: index (in the call's argument list, receiver included) of the []byte parameter that f hands to
// MemClr / core.Wipe on every path from entry to return; -1 if there is none.
func wipesParam(f *ssa.Function) int {
	if f == nil || f.Blocks == nil || f.Pkg == nil || !strings.HasPrefix(f.Pkg.Pkg.Path(), "github.com/godaddy/asherah/") {
		return -1
	}
	if k, ok := wipesParamMemo[f]; ok {
		return k
	}
	wipesParamMemo[f] = -1
	for k, p := range f.Params {
		if !isByteSlice(p.Type()) {
			continue
		}
		ok, _ := mustPass(f.Blocks[0], 0, func(j ssa.Instruction) bool {
			if _, isGo := j.(*ssa.Go); isGo {
				return false
			}
			g := staticCallee(j)
			if g == nil {
				return false
			}
			switch funcFullName(g) {
			case fnMemClr, fnCoreWipe:
				return resolve(callOf(j).Args[0]) == ssa.Value(p)
			}
			return false
		}, nil)
		if ok {
			wipesParamMemo[f] = k
			return k
		}
	}
	return -1
}

func isByteSlice(t types.Type) bool {
	s, ok := types.Unalias(t).Underlying().(*types.Slice)
	if !ok {
		return false
	}
	b, ok := types.Unalias(s.Elem()).Underlying().(*types.Basic)
	return ok && b.Kind() == types.Uint8
}

// isKMSOutputPtr: *kms.GenerateDataKeyOutput / *kms.DecryptOutput of either AWS SDK.
func isKMSOutputPtr(t types.Type) bool {
	p, ok := types.Unalias(t).(*types.Pointer)
	if !ok {
		return false
	}
	n, ok := types.Unalias(p.Elem()).(*types.Named)
	if !ok || n.Obj().Pkg() == nil {
		return false
	}
	path := n.Obj().Pkg().Path()
	if path != "github.com/aws/aws-sdk-go/service/kms" && path != "github.com/aws/aws-sdk-go-v2/service/kms" {
		return false
	}
	return n.Obj().Name() == "GenerateDataKeyOutput" || n.Obj().Name() == "DecryptOutput"
}

type c10 struct {
	u  *Universe
	rs map[*ssa.Function]bool // functions whose []byte result is a plaintext key buffer
	// undecided classifications of AEAD.Decrypt operands
	undecided []ssa.Instruction
}

func rootFunc(f *ssa.Function) *ssa.Function {
	for f.Parent() != nil {
		f = f.Parent()
	}
	return f
}

// classifyDecrypt: "key" | "payload" | "" for the ciphertext operand of an AEAD.Decrypt call.
func classifyDecrypt(i ssa.Instruction) string {
	cc := callOf(i)
	ap := accessPath(cc.Args[0])
	switch {
	case strings.HasSuffix(ap, ".EncryptedKey"):
		return "key"
	case strings.HasSuffix(ap, ".Data"):
		return "payload"
	}
	root := rootFunc(i.Parent())
	if root.Name() == "DecryptKey" && root.Signature.Recv() != nil && len(root.Params) == 3 && ap == "P:"+root.Params[2].Name() {
		return "key"
	}
	// a parameter of a helper: what its call sites pass
	if p, ok := resolve(cc.Args[0]).(*ssa.Parameter); ok && p.Parent() == i.Parent() {
		return classifyParam(p, 0)
	}
	return ""
}

// classifyParam: "key" / "payload" when every static call site of the parameter's function passes such an operand.
func classifyParam(p *ssa.Parameter, depth int) string {
	f := p.Parent()
	if depth > 2 || f == nil {
		return ""
	}
	idx := -1
	for k, q := range f.Params {
		if q == p {
			idx = k
		}
	}
	buildCallSiteIndex(f)
	if idx < 0 || addressTaken[orig(f)] {
		return ""
	}
	out := ""
	for _, ci := range callSiteIndex[orig(f)] {
		args := ci.Common().Args
		if idx >= len(args) {
			return ""
		}
		ap := accessPath(args[idx])
		cls := ""
		switch {
		case strings.HasSuffix(ap, ".EncryptedKey"):
			cls = "key"
		case strings.HasSuffix(ap, ".Data"):
			cls = "payload"
		default:
			caller := ci.Parent()
			root := rootFunc(caller)
			if root.Name() == "DecryptKey" && root.Signature.Recv() != nil && len(root.Params) == 3 && ap == "P:"+root.Params[2].Name() {
				cls = "key"
			} else if q, isP := resolve(args[idx]).(*ssa.Parameter); isP && q.Parent() == caller {
				cls = classifyParam(q, depth+1)
			}
		}
		if cls == "" || (out != "" && out != cls) {
			return ""
		}
		out = cls
	}
	return out
}

// actionFunc resolves the function value passed as the action of an accessor call.
func actionFunc(v ssa.Value) *ssa.Function {
	switch x := strip(v).(type) {
	case *ssa.MakeClosure:
		f, _ := x.Fn.(*ssa.Function)
		return f
	case *ssa.Function:
		return x
	}
	return nil
}

// isAccessorFuncCall: internal.WithKeyFunc(k, action) or <x>.WithBytesFunc(action): returns the action value.
func accessorAction(i ssa.Instruction) (ssa.Value, bool) {
	cc := callOf(i)
	if cc == nil {
		return nil, false
	}
	if cc.IsInvoke() {
		if cc.Method.Name() == "WithBytesFunc" && len(cc.Args) == 1 {
			return cc.Args[0], true
		}
		return nil, false
	}
	f := staticCallee(i)
	if f == nil {
		return nil, false
	}
	switch {
	case funcFullName(f) == pkgInt+".WithKeyFunc" && len(cc.Args) == 2:
		return cc.Args[1], true
	case f.Name() == "WithBytesFunc" && f.Signature.Recv() != nil && len(cc.Args) == 2:
		return cc.Args[1], true
	}
	return nil, false
}

// sourceResults: the plaintext-key byte buffers produced by call i.
func (a *c10) sourceResults(i ssa.Instruction) [][2]ssa.Value {
	if _, ok := i.(*ssa.Call); !ok {
		return nil
	}
	is := false
	switch {
	case invokeIs(i, pkgApp, "AEAD", "Decrypt"):
		switch classifyDecrypt(i) {
		case "key":
			is = true
		case "":
			a.undecided = append(a.undecided, i)
		}
	case invokeIs(i, pkgApp, "KeyManagementService", "DecryptKey"):
		is = true
	default:
		if f := staticCallee(i); f != nil && a.rs[f] {
			is = true
		} else if act, ok := accessorAction(i); ok {
			if af := actionFunc(act); af != nil && a.rs[af] {
				is = true
			}
		}
	}
	if !is {
		return nil
	}
	return resultsOfType(i, isByteSlice)
}

func (a *c10) computeSummaries() {
	a.rs = map[*ssa.Function]bool{}
	r := &ownRules{}
	for changed := true; changed; {
		changed = false
		for _, f := range a.u.RepoFuncs {
			if a.rs[f] {
				continue
			}
			hit := false
			allInstrs(f, func(i ssa.Instruction) {
				if hit {
					return
				}
				for _, pr := range a.sourceResults(i) {
					if pr[0] == nil {
						continue
					}
					al := aliasClosure(pr[0], r)
					for _, ret := range returnsOf(f) {
						for k := range ret.Results {
							res := returnedValue(ret, k)
							if al[res] || al[strip(res)] {
								hit = true
							}
						}
					}
				}
			})
			if hit {
				a.rs[f] = true
				changed = true
			}
		}
		a.undecided = nil
	}
}

func ruleC10Wipe(c *Ctx) {
	u := c.U1
	c.rule("C10.wipe", "every plaintext-key heap buffer (key unwrap results, KMS.DecryptKey results, accessor calls returning one, AWS KMS output Plaintext) is wiped, handed to NewCryptoKey, or returned on every path to return", 13)
	a := &c10{u: u}
	a.computeSummaries()
	bufRules := &ownRules{
		isRelease: func(i ssa.Instruction, al valueSet) bool {
			arg, ok := wipeArg(i)
			return ok && (al[arg] || al[strip(arg)])
		},
		consumers: map[string][]int{pkgInt + ".NewCryptoKey": {3}},
	}
	outRules := &ownRules{
		isRelease: func(i ssa.Instruction, al valueSet) bool {
			arg, ok := wipeArg(i)
			if !ok {
				return false
			}
			base, fld, isF := fieldAccess(strip(arg))
			return isF && fld == "Plaintext" && (al[base] || al[strip(base)])
		},
	}
	a.undecided = nil
	for _, f := range u.RepoFuncs {
		c.FuncsAnalysed[shortName(f)] = true
		allInstrs(f, func(i ssa.Instruction) {
			if _, ok := i.(*ssa.Call); !ok {
				return
			}
			// byte-buffer sources
			for _, pr := range a.sourceResults(i) {
				c.CallSites++
				construct := shortName(f) + "/" + calleeLabel(i)
				if pr[0] == nil {
					c.bad(construct, u.ipos(i), "plaintext key buffer is discarded without being wiped")
					continue
				}
				out := checkOwned(i, pr[0], pr[1], bufRules)
				if !out.OK {
					c.bad(construct, u.ipos(i), "a path reaches return with the plaintext key buffer neither wiped, handed to NewCryptoKey nor returned", u.tracePositions(out.Trace)...)
				} else {
					c.ok(construct, u.ipos(i), fmt.Sprintf("all paths: %v", out.How))
				}
			}
			// AWS KMS outputs carrying Plaintext
			for _, pr := range resultsOfType(i, isKMSOutputPtr) {
				c.CallSites++
				construct := shortName(f) + "/" + calleeLabel(i) + ".Plaintext"
				if pr[0] == nil {
					c.bad(construct, u.ipos(i), "KMS output carrying a plaintext data key is discarded without wiping Plaintext")
					continue
				}
				out := checkOwned(i, pr[0], pr[1], outRules)
				if !out.OK {
					c.bad(construct, u.ipos(i), "a path reaches return without MemClr(<output>.Plaintext): the cloud data key stays on the heap", u.tracePositions(out.Trace)...)
				} else {
					c.ok(construct, u.ipos(i), fmt.Sprintf("all paths: %v", out.How))
				}
			}
		})
	}
	for _, i := range a.undecided {
		c.undecided(shortName(i.Parent())+"/AEAD.Decrypt", u.ipos(i), "cannot classify the ciphertext operand as key (…EncryptedKey / DecryptKey parameter) or payload (…Data): "+accessPath(callOf(i).Args[0]))
	}
	var rs []string
	for f := range a.rs {
		rs = append(rs, shortName(f))
	}
	c.note("C10 returns-plaintext-key summaries: %v", rs)
}

// ruleC10NewCryptoKeyWipes: internal.NewCryptoKey wipes `key` on all paths (it is the declared consumer of C10.wipe).
func ruleC10NewCryptoKeyWipes(c *Ctx) {
	u := c.U1
	c.rule("C10.newcryptokey-wipes", "internal.NewCryptoKey: every path to return either passes MemClr(key) or the err == nil edge of SecretFactory.New(key) (the factory wipes on success)", 1)
	f := u.Func(pkgInt, "NewCryptoKey")
	if f == nil || len(f.Params) != 4 {
		c.unresolved("NewCryptoKey", pkgInt+".NewCryptoKey(factory, created, revoked, key)")
		return
	}
	c.FuncsAnalysed[shortName(f)] = true
	key := f.Params[3]
	var newCalls []ssa.Instruction
	allInstrs(f, func(i ssa.Instruction) {
		if invokeIs(i, pkgSec, "SecretFactory", "New") && (strip(callOf(i).Args[0]) == ssa.Value(key) || resolve(callOf(i).Args[0]) == ssa.Value(key)) {
			newCalls = append(newCalls, i)
		}
	})
	// a deferred closure that wipes the key whenever the named error result is non-nil covers every failing exit
	var errWiped *ssa.Alloc
	for _, e := range errGuardedDefers(f) {
		for _, slot := range slotsHolding(f, key) {
			if w, _ := e.wipesOnError(slot); w && e.D.Block() == f.Blocks[0] {
				errWiped = e.ErrSlot
			}
		}
	}
	ok, tr := mustPass(f.Blocks[0], 0, func(i ssa.Instruction) bool {
		arg, isW := wipeArg(i)
		return isW && (strip(arg) == ssa.Value(key) || resolve(arg) == ssa.Value(key))
	}, func(from, to *ssa.BasicBlock) bool {
		for _, fct := range edgeFacts(from, to) {
			if x, isNil, isT := nilTest(fct); isT && !isNil && errWiped != nil {
				if ld, isL := strip(x).(*ssa.UnOp); isL && ld.Op == token.MUL && ld.X == ssa.Value(errWiped) {
					return true // the error result is non-nil from here on: the deferred closure wipes the key
				}
			}
			if x, isNil, isT := nilTest(fct); isT && isNil {
				// the error of factory.New read back from the slot it was stored into
				if ld, isL := strip(x).(*ssa.UnOp); isL && ld.Op == token.MUL {
					if a, isA := ld.X.(*ssa.Alloc); isA {
						if st := lastDominatingStore(a, ld); st != nil {
							x = st.Val
						}
					}
				}
				if ex, isEx := strip(x).(*ssa.Extract); isEx {
					for _, nc := range newCalls {
						if ex.Tuple == nc.(ssa.Value) && instrDominates(nc, from.Instrs[len(from.Instrs)-1]) {
							return true
						}
					}
				}
			}
		}
		return false
	})
	if ok {
		c.ok("internal.NewCryptoKey/key", u.pos(f.Pos()), "every path: factory.New(key) succeeded (factory wipes) or MemClr(key)")
	} else {
		c.bad("internal.NewCryptoKey/key", u.pos(f.Pos()), "a path returns with the caller's plaintext key neither wiped by a successful factory.New nor by MemClr", u.tracePositions(tr)...)
	}
}

// ruleC10FactoryWipes: every SecretFactory.New implementation wipes b before any nil-error return.
func ruleC10FactoryWipes(c *Ctx) {
	u := c.U1
	c.rule("C10.factory-wipes-on-success", "every implementation of securememory.SecretFactory.New passes its argument to core.Wipe / memguard.NewBufferFromBytes (wipes source) on every path that can return a nil error", 2)
	iface := u.Iface(pkgSec, "SecretFactory")
	if iface == nil {
		c.unresolved("SecretFactory", pkgSec+".SecretFactory")
		return
	}
	for _, n := range u.Implementations(iface) {
		f := u.MethodOf(n, "New")
		construct := shortName(f) + "/b"
		if f == nil || f.Blocks == nil || len(f.Params) != 2 {
			c.unresolved(n.String()+".New", "method body")
			continue
		}
		c.FuncsAnalysed[shortName(f)] = true
		b := f.Params[1]
		found, tr := pathSearchAt(f.Blocks[0], 0, func(i ssa.Instruction) pathAction {
			if arg, ok := wipeArg(i); ok && strip(arg) == b {
				return pathStop
			}
			if staticIs(i, "github.com/awnumar/memguard.NewBufferFromBytes") && strip(callOf(i).Args[0]) == b {
				return pathStop
			}
			if r, ok := i.(*ssa.Return); ok {
				last := returnValue(r, len(r.Results)-1)
				if last != nil && isNilConst(last) {
					return pathFound // success return without wipe
				}
				if _, isC := last.(*ssa.Const); !isC && last != nil {
					// error value is computed: it may be nil → treat as a possible success unless it is known non-nil here
					if !knownNonNil(last, r.Block()) {
						return pathFound
					}
				}
				return pathStop
			}
			return pathContinue
		}, nil)
		if found {
			c.bad(construct, u.pos(f.Pos()), "a path can return success without wiping the source buffer", u.tracePositions(tr)...)
		} else {
			c.ok(construct, u.pos(f.Pos()), "source wiped (core.Wipe / NewBufferFromBytes) before every possible nil-error return")
		}
	}
}

// ruleC10WipeNotEarly: the fan-out that reads dataKey.Plaintext is joined before EncryptKey returns (and so before
// the deferred wipe runs), in both AWS plugins.
func ruleC10WipeNotEarly(c *Ctx) {
	u := c.U1
	c.rule("C10.wipe-not-early", "in each AWS EncryptKey the wipe of the data key is deferred (not immediate) and every path from the regional fan-out to return drains the result channel to its close; the channel is closed only after WaitGroup.Wait, and every worker that reads Plaintext signals Done", 4)
	for _, pkg := range []string{pkgKmsV1, pkgKmsV2} {
		ek := u.Method(pkg, "AWSKMS", "EncryptKey")
		if ek == nil {
			c.unresolved(pkg+".EncryptKey", "(*AWSKMS).EncryptKey")
			continue
		}
		c.FuncsAnalysed[shortName(ek)] = true
		// (1) the wipe of <dataKey>.Plaintext in EncryptKey is a defer
		wipeDeferred, wipeImmediate := false, false
		allInstrs(ek, func(i ssa.Instruction) {
			if arg, ok := wipeArg(i); ok {
				if _, fld, isF := fieldAccess(strip(arg)); isF && fld == "Plaintext" {
					if _, isD := i.(*ssa.Defer); isD {
						wipeDeferred = true
					} else {
						wipeImmediate = true
					}
				}
			}
		})
		c.check(wipeDeferred && !wipeImmediate, shortName(ek)+"/deferred-wipe", u.pos(ek.Pos()),
			"MemClr(dataKey.Plaintext) is deferred: it runs at function exit", "the data key is wiped by a non-deferred call (or not at all) while regional encryption may still read it")
		// (2) find the function that ranges over the result channel: EncryptKey itself (v1) or encryptRegionalKEKs (v2)
		drained := 0
		for _, f := range u.RepoFuncs {
			if f.Pkg == nil || f.Pkg.Pkg.Path() != pkg {
				continue
			}
			allInstrs(f, func(i ssa.Instruction) {
				recv, ok := i.(*ssa.UnOp)
				if !ok || recv.Op != token.ARROW || !recv.CommaOk {
					return
				}
				// every path from the receive to return must take the ok == false edge (channel closed)
				drained++
				okp, tr := mustPass(recv.Block(), indexOf(recv)+1, func(ssa.Instruction) bool { return false }, func(from, to *ssa.BasicBlock) bool {
					for _, fct := range edgeFacts(from, to) {
						if ex, isEx := fct.V.(*ssa.Extract); isEx && ex.Tuple == ssa.Value(recv) && ex.Index == 1 && !fct.True {
							return true
						}
					}
					return false
				})
				if okp {
					c.ok(shortName(f)+"/drain", u.ipos(recv), "returns only after the result channel was closed")
				} else {
					c.bad(shortName(f)+"/drain", u.ipos(recv), "a path returns before the result channel is drained: the deferred wipe can run while workers still read Plaintext", u.tracePositions(tr)...)
				}
			})
		}
		if drained == 0 {
			c.bad(shortName(ek)+"/drain", u.pos(ek.Pos()), "no range-over-channel drain of the regional results found in the package")
		}
		// (3) close(ch) only after wg.Wait; workers defer wg.Done
		for _, f := range u.RepoFuncs {
			if f.Pkg == nil || f.Pkg.Pkg.Path() != pkg {
				continue
			}
			allInstrs(f, func(i ssa.Instruction) {
				cc := callOf(i)
				if cc == nil {
					return
				}
				if b, ok := cc.Value.(*ssa.Builtin); !ok || b.Name() != "close" {
					return
				}
				// Wait must be called in this function on every path before return / before an immediate close
				var okp bool
				if _, isDefer := i.(*ssa.Defer); isDefer {
					okp, _ = mustPass(i.Block(), indexOf(i)+1, func(j ssa.Instruction) bool { return staticIs(j, "(*sync.WaitGroup).Wait") }, nil)
				} else {
					okp = false
					allInstrs(f, func(j ssa.Instruction) {
						if staticIs(j, "(*sync.WaitGroup).Wait") && instrDominates(j, i) {
							okp = true
						}
					})
				}
				c.check(okp, shortName(f)+"/close-after-wait", u.ipos(i), "channel closed only after WaitGroup.Wait", "the result channel can be closed before all regional workers finished")
			})
		}
	}
}

// ruleC10AccessorErrorDiscards: securememory's WithBytesFunc returns the action's result TOGETHER with an error when the
// release step (re-protecting the pages) fails after the action succeeded. The action's result is plaintext key material
// on the unwrap paths, and every SDK caller drops the result on `err != nil` — so the funnel through which the SDK
// reaches an accessor must wipe what it got before reporting the error.
func ruleC10AccessorErrorDiscards(c *Ctx) {
	u := c.U1
	c.rule("C10.accessor-error-discards-result", "every call in the SDK of a bytes accessor's WithBytesFunc (securememory.Secret / internal.BytesFuncAccessor) either forwards both results from inside an accessor implementation (a method named WithBytesFunc), or passes MemClr(result) on the err != nil edge and returns nil for the data: an accessor that fails after its action ran hands back the action's plaintext", 2)
	n := 0
	for _, f := range u.RepoFuncs {
		if f.Pkg == nil || f.Blocks == nil || !strings.HasPrefix(f.Pkg.Pkg.Path(), modApp) || strings.Contains(f.Pkg.Pkg.Path(), "/mocks") {
			continue
		}
		allInstrs(f, func(i ssa.Instruction) {
			cv, ok := i.(*ssa.Call)
			if !ok {
				return
			}
			isAcc := cv.Call.IsInvoke() && cv.Call.Method.Name() == "WithBytesFunc"
			if h := staticCallee(cv); h != nil && h.Name() == "WithBytesFunc" && h.Signature.Recv() != nil {
				isAcc = true // a concrete accessor (*internal.CryptoKey) called directly
			}
			if !isAcc {
				return
			}
			n++
			c.FuncsAnalysed[shortName(f)] = true
			construct := trimPkgDirs(shortName(f)) + "/WithBytesFunc"
			var data, errv ssa.Value
			for _, pr := range resultsOfType(cv, isByteSlice) {
				data = pr[0]
			}
			for _, pr := range resultsOfType(cv, isErrorType) {
				errv = pr[0]
			}
			// forwarding: every return that follows returns the call's own pair
			forwards := true
			for _, r := range returnsOf(f) {
				if !reaches(cv, r) {
					continue
				}
				if len(r.Results) != 2 {
					forwards = false
					continue
				}
				r0, r1 := resolve(returnedValue(r, 0)), resolve(returnedValue(r, 1))
				ex0, ok0 := r0.(*ssa.Extract)
				ex1, ok1 := r1.(*ssa.Extract)
				if !(ok0 && ok1 && ex0.Tuple == ssa.Value(cv) && ex1.Tuple == ssa.Value(cv)) {
					forwards = false
				}
			}
			if forwards && f.Name() != "WithBytesFunc" {
				// `defer func() { if err != nil { MemClr(ret); ret = nil } }()` over named results does the same job
				for _, e := range errGuardedDefers(f) {
					if !instrDominates(e.D, cv) {
						continue
					}
					for _, slot := range slotsHolding(f, data) {
						if w, nl := e.wipesOnError(slot); w && nl && isResultSlot(f, slot) {
							forwards = false
							c.ok(construct, u.ipos(i), "deferred closure wipes and nils the data result whenever the error result is non-nil")
						}
					}
				}
				if !forwards {
					return
				}
			}
			if forwards {
				if f.Name() == "WithBytesFunc" && f.Signature.Recv() != nil {
					c.ok(construct, u.ipos(i), "accessor implementation forwarding to its secret (obligation is with its callers)")
				} else {
					c.bad(construct, u.ipos(i), "the accessor's (result, error) pair is returned unchanged, and the SDK's callers drop the result whenever err != nil: when the accessor fails after its action ran (release/re-protect failure) the unwrapped plaintext key stays on the heap un-wiped")
				}
				return
			}
			if data == nil || errv == nil {
				c.undecided(construct, u.ipos(i), "results of the accessor call are not both extracted")
				return
			}
			// on the err != nil edge: MemClr(data) before every return, and the data result is nil
			okAll, seen := true, false
			for _, b := range f.Blocks {
				for _, s := range b.Succs {
					for _, fct := range edgeFacts(b, s) {
						x, isNil, isT := nilTest(fct)
						if !isT || isNil || resolve(x) != resolve(errv) {
							continue
						}
						seen = true
						wiped, _ := mustPass(s, 0, func(j ssa.Instruction) bool {
							if g := staticCallee(j); g != nil && funcFullName(g) == fnMemClr {
								return resolve(callOf(j).Args[0]) == resolve(data)
							}
							return false
						}, nil)
						if !wiped {
							okAll = false
						}
					}
				}
			}
			c.check(seen && okAll, construct, u.ipos(i), "MemClr(result) on the err != nil edge", "the accessor's result is not wiped on the err != nil edge: an accessor that fails after its action ran leaves the unwrapped plaintext key on the heap")
		})
	}
	if n < 2 {
		c.bad("accessor-calls", "", "fewer WithBytesFunc call sites than expected in the SDK")
	}
}

// ruleC10NoUnwipedCopies: a copy of plaintext key bytes is itself plaintext key material with its own wipe obligation.
func ruleC10NoUnwipedCopies(c *Ctx) {
	u := c.U1
	c.rule("C10.no-unwiped-copies", "wherever plaintext key bytes (a key-unwrap result, or a `.Plaintext` field of a KMS output / data-key struct) are copied — append(fresh, x...), copy(dst, x), bytes.Clone — the copy is wiped on every path to return of the copying function; they are never converted to a string (which cannot be wiped)", 1)
	a := &c10{u: u}
	a.computeSummaries()
	bufRules := &ownRules{
		isRelease: func(i ssa.Instruction, al valueSet) bool {
			arg, ok := wipeArg(i)
			return ok && (al[arg] || al[strip(arg)])
		},
		consumers: map[string][]int{pkgInt + ".NewCryptoKey": {3}},
	}
	n, sites := 0, 0
	// parameters that receive plaintext key bytes at some call site (fixpoint over static calls within the SDK)
	plainParam := map[*ssa.Parameter]bool{}
	localPlain := func(f *ssa.Function) (valueSet, func(ssa.Value) bool) {
		plain := valueSet{}
		allInstrs(f, func(i ssa.Instruction) {
			for _, pr := range a.sourceResults(i) {
				if pr[0] != nil {
					for v := range aliasClosure(pr[0], &ownRules{}) {
						plain[v] = true
					}
				}
			}
		})
		for _, p := range f.Params {
			if plainParam[p] {
				for v := range aliasClosure(p, &ownRules{}) {
					plain[v] = true
				}
			}
		}
		return plain, func(v ssa.Value) bool {
			if plain[v] || plain[strip(v)] || plain[resolve(v)] {
				return true
			}
			if !isByteSlice(v.Type()) {
				return false
			}
			return strings.HasSuffix(trimAddr(accessPath(v)), ".Plaintext")
		}
	}
	for changed, rounds := true, 0; changed && rounds < 4; rounds++ {
		changed = false
		for _, f := range u.RepoFuncs {
			if f.Pkg == nil || f.Blocks == nil || !strings.HasPrefix(f.Pkg.Pkg.Path(), modApp) {
				continue
			}
			_, isPlain := localPlain(f)
			allInstrs(f, func(i ssa.Instruction) {
				cc := callOf(i)
				if cc == nil {
					return
				}
				g := staticCallee(i)
				if g == nil || g.Blocks == nil || g.Pkg == nil || !strings.HasPrefix(g.Pkg.Pkg.Path(), modApp) {
					return
				}
				switch funcFullName(g) {
				case fnMemClr, pkgInt + ".NewCryptoKey":
					return
				}
				for k, arg := range cc.Args {
					if k < len(g.Params) && isByteSlice(arg.Type()) && isPlain(arg) && !plainParam[g.Params[k]] {
						plainParam[g.Params[k]] = true
						changed = true
					}
				}
			})
		}
	}
	for _, f := range u.RepoFuncs {
		if f.Pkg == nil || f.Blocks == nil || !strings.HasPrefix(f.Pkg.Pkg.Path(), modApp) {
			continue
		}
		n++
		_, isPlain := localPlain(f)
		for _, cs := range plaintextCopies(f, isPlain) {
			sites++
			construct := trimPkgDirs(shortName(f)) + "/" + cs.What
			if cs.Val == nil {
				c.bad(construct, u.ipos(cs.Instr), "plaintext key bytes are converted to a string: the copy is immutable and can never be wiped")
				continue
			}
			out := checkOwned(cs.Instr, cs.Val, nil, bufRules)
			if out.OK {
				c.ok(construct, u.ipos(cs.Instr), "the copy is wiped / handed to NewCryptoKey / returned on every path")
			} else {
				c.bad(construct, u.ipos(cs.Instr), "a copy of plaintext key bytes is made and not wiped on every path to return: the original's wipe does not reach the copy", u.tracePositions(out.Trace)...)
			}
		}
	}
	if sites == 0 {
		c.ok("sdk/plaintext-copies", "", fmt.Sprintf("no copy of plaintext key bytes in %d functions", n))
	}
}

type plainCopy struct {
	Instr ssa.Instruction
	Val   ssa.Value // the copy (nil for a string conversion)
	What  string
}

// plaintextCopies: instructions of f that copy bytes for which isPlain holds into a new buffer.
func plaintextCopies(f *ssa.Function, isPlain func(ssa.Value) bool) []plainCopy {
	var out []plainCopy
	allInstrs(f, func(i ssa.Instruction) {
		switch x := i.(type) {
		case *ssa.Convert:
			if b, ok := x.Type().Underlying().(*types.Basic); ok && b.Kind() == types.String && isPlain(x.X) {
				out = append(out, plainCopy{i, nil, "string(plaintext)"})
			}
		case *ssa.Call:
			if bi, ok := x.Call.Value.(*ssa.Builtin); ok {
				switch bi.Name() {
				case "append":
					if len(x.Call.Args) == 2 && isPlain(x.Call.Args[1]) && !isPlain(x.Call.Args[0]) && isByteSlice(x.Type()) {
						out = append(out, plainCopy{i, x, "append(…, plaintext...)"})
					}
				case "copy":
					if len(x.Call.Args) == 2 && isPlain(x.Call.Args[1]) && !isPlain(x.Call.Args[0]) {
						out = append(out, plainCopy{i, x.Call.Args[0], "copy(dst, plaintext)"})
					}
				}
			} else if g := staticCallee(x); g != nil && (funcFullName(g) == "bytes.Clone" || funcFullName(g) == "slices.Clone") && len(x.Call.Args) == 1 && isPlain(x.Call.Args[0]) {
				out = append(out, plainCopy{i, x, funcFullName(g) + "(plaintext)"})
			}
		}
	})
	return out
}
