package main

// `asherah-verif gen-mutants <outdir>`: systematic first-order mutants of the anchored source files, used (outside the
// registered checks) to measure what the rule set detects and to find gaps: tools/mutation_sweep.py evaluates each mutant
// with every check (in memory, VERIF_OVERLAY) and runs the repository's own tests on the survivors in a scratch worktree.
//
// Operators (token-level splices located through the AST): delete a defer statement, delete a call statement, negate an
// if condition, flip a relational/equality operator, drop one operand of && / ||, replace a `return …, nil`-style bool
// constant (true<->false), swap Lock<->RLock.

import (
	"encoding/json"
	"fmt"
	"go/ast"
	"go/parser"
	"go/token"
	"os"
	"path/filepath"
	"sort"
	"strings"
)

type mutantSpec struct {
	ID       string `json:"id"`
	File     string `json:"file"` // repo-relative
	Line     int    `json:"line"`
	Operator string `json:"operator"`
	Orig     string `json:"orig"`
	New      string `json:"new"`
	Func     string `json:"func"`
	Content  string `json:"content_file"`
}

var mutationScope = []string{
	"go/appencryption/envelope.go", "go/appencryption/key_cache.go", "go/appencryption/session.go", "go/appencryption/session_cache.go",
	"go/appencryption/partition.go", "go/appencryption/policy.go", "go/appencryption/internal/key.go", "go/appencryption/internal/bytes.go",
	"go/appencryption/pkg/cache/cache.go", "go/appencryption/pkg/cache/lru.go", "go/appencryption/pkg/cache/lfu.go", "go/appencryption/pkg/cache/tlfu.go",
	"go/appencryption/pkg/crypto/aead/aead.go", "go/appencryption/pkg/crypto/aead/aes256gcm.go", "go/appencryption/pkg/kms/static.go",
	"go/appencryption/pkg/persistence/memory.go", "go/appencryption/pkg/persistence/sql.go",
	"go/appencryption/plugins/aws-v1/kms/aws.go", "go/appencryption/plugins/aws-v1/persistence/dynamodb.go",
	"go/appencryption/plugins/aws-v2/kms/kms.go", "go/appencryption/plugins/aws-v2/kms/builder.go", "go/appencryption/plugins/aws-v2/dynamodb/metastore/metastore.go",
	"go/securememory/protectedmemory/secret.go", "go/securememory/memguard/secret.go", "go/securememory/internal/memcall/util.go", "go/securememory/internal/secrets/reader.go",
	"server/go/pkg/server/server.go",
}

func genMutants(outdir string) error {
	if err := os.MkdirAll(outdir, 0o755); err != nil {
		return err
	}
	var all []mutantSpec
	for _, rel := range mutationScope {
		abs := filepath.Join(repoRoot, rel)
		src, err := os.ReadFile(abs)
		if err != nil {
			return err
		}
		fset := token.NewFileSet()
		f, err := parser.ParseFile(fset, abs, src, parser.ParseComments)
		if err != nil {
			return err
		}
		off := func(p token.Pos) int { return fset.Position(p).Offset }
		type edit struct {
			from, to int
			repl     string
			op       string
			pos      token.Pos
		}
		var edits []edit
		add := func(from, to token.Pos, repl, op string) {
			edits = append(edits, edit{off(from), off(to), repl, op, from})
		}
		text := func(n ast.Node) string { return string(src[off(n.Pos()):off(n.End())]) }
		isLogCall := func(c *ast.CallExpr) bool {
			s := text(c.Fun)
			return strings.HasPrefix(s, "log.") || strings.Contains(s, "Timer") || strings.Contains(s, "metrics.")
		}
		ast.Inspect(f, func(n ast.Node) bool {
			switch x := n.(type) {
			case *ast.DeferStmt:
				if !isLogCall(x.Call) {
					add(x.Pos(), x.End(), "", "delete-defer")
				}
			case *ast.ExprStmt:
				if c, ok := x.X.(*ast.CallExpr); ok && !isLogCall(c) {
					add(x.Pos(), x.End(), "", "delete-call")
				}
			case *ast.IfStmt:
				add(x.Cond.Pos(), x.Cond.End(), "!("+text(x.Cond)+")", "negate-if")
				// a guard: `if cond { …; return/continue/break }` without else and without an init statement
				if x.Else == nil && x.Init == nil && len(x.Body.List) > 0 {
					switch last := x.Body.List[len(x.Body.List)-1].(type) {
					case *ast.ReturnStmt:
						add(x.Pos(), x.End(), "", "delete-guard")
					case *ast.BranchStmt:
						_ = last
						add(x.Pos(), x.End(), "", "delete-guard")
					}
				}
			case *ast.ForStmt:
				if x.Cond != nil {
					add(x.Cond.Pos(), x.Cond.End(), "!("+text(x.Cond)+")", "negate-for")
				}
			case *ast.BinaryExpr:
				flip := map[token.Token]string{token.EQL: "!=", token.NEQ: "==", token.LSS: "<=", token.LEQ: "<", token.GTR: ">=", token.GEQ: ">"}
				if r, ok := flip[x.Op]; ok {
					add(x.OpPos, x.OpPos+token.Pos(len(x.Op.String())), r, "flip-"+x.Op.String())
				}
				if r, ok := map[token.Token]string{token.LSS: ">", token.GTR: "<", token.ADD: "-", token.SUB: "+"}[x.Op]; ok {
					if _, isStr := x.X.(*ast.BasicLit); !isStr || x.Op != token.ADD {
						add(x.OpPos, x.OpPos+token.Pos(len(x.Op.String())), r, "reverse-"+x.Op.String())
					}
				}
				if x.Op == token.LAND || x.Op == token.LOR {
					add(x.Pos(), x.End(), text(x.X), "drop-right-operand")
					add(x.Pos(), x.End(), text(x.Y), "drop-left-operand")
				}
				if x.Op == token.LAND {
					add(x.OpPos, x.OpPos+2, "||", "and-to-or")
				} else if x.Op == token.LOR {
					add(x.OpPos, x.OpPos+2, "&&", "or-to-and")
				}
			case *ast.Ident:
				if x.Name == "true" {
					add(x.Pos(), x.End(), "false", "true-to-false")
				} else if x.Name == "false" {
					add(x.Pos(), x.End(), "true", "false-to-true")
				}
			case *ast.SelectorExpr:
				switch x.Sel.Name {
				case "Lock":
					add(x.Sel.Pos(), x.Sel.End(), "RLock", "lock-to-rlock")
				case "Unlock":
					add(x.Sel.Pos(), x.Sel.End(), "RUnlock", "unlock-to-runlock")
				}
				if to, ok := map[string]string{"Front": "Back", "Back": "Front", "PushFront": "PushBack", "PushBack": "PushFront", "MoveToFront": "MoveToBack",
					"After": "Before", "Before": "After", "Truncate": "Round", "Next": "Prev"}[x.Sel.Name]; ok {
					add(x.Sel.Pos(), x.Sel.End(), to, "method-"+x.Sel.Name+"-to-"+to)
				}
			case *ast.CallExpr:
				if len(x.Args) == 2 && !isLogCall(x) {
					add(x.Args[0].Pos(), x.Args[1].End(), text(x.Args[1])+", "+text(x.Args[0]), "swap-args")
				}
			case *ast.BranchStmt:
				if x.Tok == token.CONTINUE && x.Label == nil {
					add(x.Pos(), x.End(), "break", "continue-to-break")
				}
			case *ast.AssignStmt:
				// plain assignments to fields / elements / dereferences (state updates), not definitions
				if x.Tok == token.ASSIGN && len(x.Lhs) == 1 {
					switch x.Lhs[0].(type) {
					case *ast.SelectorExpr, *ast.IndexExpr, *ast.StarExpr:
						add(x.Pos(), x.End(), "", "delete-assign")
					}
				}
			case *ast.GoStmt:
				add(x.Pos(), x.Call.Pos(), "", "remove-go")
			case *ast.BasicLit:
				if x.Kind == token.INT {
					switch x.Value {
					case "0":
						add(x.Pos(), x.End(), "1", "int-0-to-1")
					case "1":
						add(x.Pos(), x.End(), "0", "int-1-to-0")
					default:
						if len(x.Value) <= 3 {
							add(x.Pos(), x.End(), x.Value+"+1", "int-plus-1")
						}
					}
				}
			case *ast.IncDecStmt:
				add(x.Pos(), x.End(), "", "delete-incdec")
			}
			return true
		})
		// enclosing function names
		funcAt := func(p token.Pos) string {
			name := ""
			for _, d := range f.Decls {
				if fd, ok := d.(*ast.FuncDecl); ok && fd.Pos() <= p && p <= fd.End() {
					name = fd.Name.Name
					if fd.Recv != nil && len(fd.Recv.List) > 0 {
						name = text(fd.Recv.List[0].Type) + "." + name
					}
				}
			}
			return name
		}
		sort.SliceStable(edits, func(i, j int) bool { return edits[i].from < edits[j].from })
		for k, e := range edits {
			id := fmt.Sprintf("%s-%04d", strings.NewReplacer("/", "_", ".go", "").Replace(strings.TrimPrefix(strings.TrimPrefix(rel, "go/"), "appencryption/")), k)
			mutated := string(src[:e.from]) + e.repl + string(src[e.to:])
			cf := filepath.Join(outdir, id+".go.txt")
			if err := os.WriteFile(cf, []byte(mutated), 0o644); err != nil {
				return err
			}
			all = append(all, mutantSpec{ID: id, File: rel, Line: fset.Position(e.pos).Line, Operator: e.op, Orig: string(src[e.from:e.to]), New: e.repl, Func: funcAt(e.pos), Content: cf})
		}
	}
	b, _ := json.MarshalIndent(all, "", " ")
	if err := os.WriteFile(filepath.Join(outdir, "mutants.json"), b, 0o644); err != nil {
		return err
	}
	fmt.Printf("%d mutants written to %s\n", len(all), outdir)
	return nil
}

// overlayFromEnv: VERIF_OVERLAY=<repo-relative path>=<content file>[,…] (used by the mutation sweep only).
func overlayFromEnv() map[string][]byte {
	v := os.Getenv("VERIF_OVERLAY")
	if v == "" {
		return nil
	}
	ov := map[string][]byte{}
	for _, kv := range strings.Split(v, ",") {
		p := strings.SplitN(kv, "=", 2)
		if len(p) != 2 {
			continue
		}
		b, err := os.ReadFile(p[1])
		if err != nil {
			continue
		}
		ov[filepath.Join(repoRoot, p[0])] = b
	}
	return ov
}
