package main

// E-LOCK: forward lock-state dataflow per mutex object on SSA (DESIGN §1.3).
//
// For a lock domain (a named type T with a mutex field and a table of guarded fields) the analysis computes, for every
// method of T, the set of possible lock states {U, R, W} before each instruction. `defer mu.Unlock()` does not change
// the state (it runs at exit); sync.Cond.Wait keeps the lock held. Unexported helpers get their entry state from the
// union of the states at their in-package call sites on the same receiver (fixpoint); everything else starts unlocked.

import (
	"go/token"
	"go/types"
	"sort"
	"strings"

	"golang.org/x/tools/go/ssa"
)

type lockState uint8

const (
	lsU lockState = 1 << iota
	lsR
	lsW
)

func (s lockState) String() string {
	var p []string
	if s&lsU != 0 {
		p = append(p, "unlocked")
	}
	if s&lsR != 0 {
		p = append(p, "read-locked")
	}
	if s&lsW != 0 {
		p = append(p, "write-locked")
	}
	if len(p) == 0 {
		return "unreachable"
	}
	return strings.Join(p, "|")
}

type lockDomain struct {
	u       *Universe
	pkg     string
	typ     string
	mutex   string // field name of the mutex in T ("rw", "mux", "mu", "RWMutex")
	funcs   []*ssa.Function
	entry   map[*ssa.Function]lockState
	before  map[ssa.Instruction]lockState
	atExit  map[*ssa.Function]lockState
	callers map[*ssa.Function]int
}

// lockOp classifies i as an operation on the domain's mutex of receiver `recv` (by access path).
func (d *lockDomain) lockOp(i ssa.Instruction, recvPath string) (lockState, bool) {
	if _, ok := i.(*ssa.Call); !ok {
		return 0, false
	}
	f := staticCallee(i)
	if f == nil {
		return 0, false
	}
	var st lockState
	switch funcFullName(f) {
	case "(*sync.RWMutex).Lock", "(*sync.Mutex).Lock":
		st = lsW
	case "(*sync.RWMutex).RLock":
		st = lsR
	case "(*sync.RWMutex).Unlock", "(*sync.RWMutex).RUnlock", "(*sync.Mutex).Unlock":
		st = lsU
	default:
		return 0, false
	}
	ap := strings.TrimPrefix(accessPath(callOf(i).Args[0]), "&")
	if ap != recvPath+"."+d.mutex {
		return 0, false
	}
	return st, true
}

func recvPathOf(f *ssa.Function) string {
	if f.Signature.Recv() == nil || len(f.Params) == 0 {
		return ""
	}
	return "P:" + f.Params[0].Name()
}

func newLockDomain(u *Universe, pkg, typ, mutex string) *lockDomain {
	d := &lockDomain{u: u, pkg: pkg, typ: typ, mutex: mutex, entry: map[*ssa.Function]lockState{}, before: map[ssa.Instruction]lockState{},
		atExit: map[*ssa.Function]lockState{}, callers: map[*ssa.Function]int{}}
	for _, f := range u.RepoFuncs {
		if f.Signature.Recv() != nil && f.Parent() == nil && typeIsNamed(f.Signature.Recv().Type(), pkg, typ) {
			d.funcs = append(d.funcs, f)
		}
	}
	sort.Slice(d.funcs, func(i, j int) bool { return d.funcs[i].String() < d.funcs[j].String() })
	d.solve()
	return d
}

func (d *lockDomain) has(f *ssa.Function) bool {
	for _, g := range d.funcs {
		if g == f {
			return true
		}
	}
	return false
}

// calleeInDomain: i is a static call of a domain method on the same receiver object as the caller's receiver.
func (d *lockDomain) calleeInDomain(i ssa.Instruction, recvPath string) *ssa.Function {
	if _, ok := i.(*ssa.Call); !ok {
		return nil // go / defer do not run under the caller's current lock state
	}
	f := staticCallee(i)
	if f == nil || !d.has(f) {
		return nil
	}
	args := callOf(i).Args
	if len(args) == 0 || accessPath(args[0]) != recvPath {
		return nil
	}
	return f
}

func (d *lockDomain) solve() {
	for _, f := range d.funcs {
		d.entry[f] = 0
	}
	// callers count (in-domain, same receiver)
	for _, f := range d.funcs {
		rp := recvPathOf(f)
		allInstrs(f, func(i ssa.Instruction) {
			if g := d.calleeInDomain(i, rp); g != nil {
				d.callers[g]++
			}
		})
	}
	// any use of a domain method outside the domain (other functions of the package, method values) makes it "external"
	external := map[*ssa.Function]bool{}
	for _, f := range d.u.RepoFuncs {
		if d.has(f) {
			continue
		}
		allInstrs(f, func(i ssa.Instruction) {
			if g := staticCallee(i); g != nil && d.has(g) {
				external[g] = true
			}
			for _, op := range i.Operands(nil) {
				if fn, ok := (*op).(*ssa.Function); ok && d.has(orig(fn)) {
					if cc := callOf(i); cc == nil || cc.Value != *op {
						external[orig(fn)] = true
					}
				}
			}
		})
	}
	for _, f := range d.funcs {
		if f.Object() != nil && (f.Object().Exported() || d.callers[f] == 0 || external[f]) {
			d.entry[f] = lsU
		}
	}
	for iter := 0; iter < 20; iter++ {
		changed := false
		for _, f := range d.funcs {
			if d.entry[f] == 0 {
				continue
			}
			calls := d.flow(f)
			for g, st := range calls {
				if d.entry[g]|st != d.entry[g] {
					d.entry[g] |= st
					changed = true
				}
			}
		}
		if !changed {
			break
		}
	}
}

// flow runs the intraprocedural dataflow for f with its current entry state, filling d.before; returns the states at
// in-domain call sites per callee.
func (d *lockDomain) flow(f *ssa.Function) map[*ssa.Function]lockState {
	rp := recvPathOf(f)
	in := map[*ssa.BasicBlock]lockState{}
	if len(f.Blocks) == 0 {
		return nil
	}
	in[f.Blocks[0]] = d.entry[f]
	calls := map[*ssa.Function]lockState{}
	work := []*ssa.BasicBlock{f.Blocks[0]}
	var exit lockState
	for len(work) > 0 {
		b := work[0]
		work = work[1:]
		st := in[b]
		for _, i := range b.Instrs {
			d.before[i] |= st
			if op, ok := d.lockOp(i, rp); ok {
				st = op
			}
			if g := d.calleeInDomain(i, rp); g != nil {
				calls[g] |= st
			}
			if _, ok := i.(*ssa.Return); ok {
				exit |= st
			}
		}
		for _, s := range b.Succs {
			if in[s]|st != in[s] {
				in[s] |= st
				work = append(work, s)
			}
		}
	}
	d.atExit[f] = exit
	return calls
}

// state before instruction i (0 if i is not in a domain method or unreachable).
func (d *lockDomain) stateAt(i ssa.Instruction) lockState { return d.before[i] }

// ---------------------------------------------------------------------------------------------
// guarded field accesses

type fieldAccessKind int

const (
	accRead fieldAccessKind = iota
	accWrite
)

type guardedAccess struct {
	Instr ssa.Instruction
	Field string
	Kind  fieldAccessKind
	What  string
}

// guardedAccesses lists accesses in f to fields `fields` of the receiver (base access path == recvPath).
// writeMethods: field -> method names on the field's value that mutate it (e.g. keys.Set).
func guardedAccesses(f *ssa.Function, pkg, typ string, fields map[string]bool, writeMethods map[string]map[string]bool) []guardedAccess {
	var out []guardedAccess
	allInstrs(f, func(i ssa.Instruction) {
		fa, ok := i.(*ssa.FieldAddr)
		if !ok {
			return
		}
		fld := fieldName(fa.X.Type(), fa.Field)
		if !fields[fld] || !typeIsNamed(fa.X.Type(), pkg, typ) {
			return
		}
		refs := fa.Referrers()
		if refs == nil {
			return
		}
		for _, r := range *refs {
			switch x := r.(type) {
			case *ssa.Store:
				if x.Addr == fa {
					out = append(out, guardedAccess{x, fld, accWrite, "store to ." + fld})
				}
			case *ssa.UnOp:
				if x.Op != token.MUL {
					continue
				}
				// classify uses of the loaded value
				kind := accRead
				what := "read of ." + fld
				if lrefs := x.Referrers(); lrefs != nil {
					for _, lr := range *lrefs {
						switch y := lr.(type) {
						case *ssa.MapUpdate:
							if y.Map == x {
								out = append(out, guardedAccess{y, fld, accWrite, "map update of ." + fld})
							}
						case ssa.CallInstruction:
							cc := y.Common()
							if cc.IsInvoke() && cc.Value == x {
								if writeMethods[fld][cc.Method.Name()] {
									out = append(out, guardedAccess{y, fld, accWrite, "." + fld + "." + cc.Method.Name() + "()"})
								} else {
									out = append(out, guardedAccess{y, fld, accRead, "." + fld + "." + cc.Method.Name() + "()"})
								}
							} else if b, isB := cc.Value.(*ssa.Builtin); isB && b.Name() == "delete" && len(cc.Args) > 0 && cc.Args[0] == x {
								out = append(out, guardedAccess{y, fld, accWrite, "delete from ." + fld})
							}
						}
					}
				}
				out = append(out, guardedAccess{x, fld, kind, what})
			default:
				// address escapes (passed to a call such as atomic ops or c.mux methods): treated as a read
				if ci, ok := r.(ssa.CallInstruction); ok {
					out = append(out, guardedAccess{ci, fld, accRead, "address of ." + fld + " passed to call"})
				}
			}
		}
	})
	return out
}

func structHasField(t types.Type, name string) bool {
	s, ok := t.Underlying().(*types.Struct)
	if !ok {
		return false
	}
	for i := 0; i < s.NumFields(); i++ {
		if s.Field(i).Name() == name {
			return true
		}
	}
	return false
}

// ---------------------------------------------------------------------------------------------
// lock balance and pairing

type lockProblem struct {
	Fn    *ssa.Function
	Instr ssa.Instruction
	Key   string // construct suffix
	Msg   string
}

// lockOpKind classifies a call/defer as Lock, RLock, Unlock, RUnlock on the domain mutex of recvPath.
func (d *lockDomain) lockOpKind(i ssa.Instruction, recvPath string) (string, bool) {
	cc := callOf(i)
	if cc == nil || cc.IsInvoke() {
		return "", false
	}
	f, _ := cc.Value.(*ssa.Function)
	if f == nil {
		return "", false
	}
	kind := ""
	switch funcFullName(f) {
	case "(*sync.RWMutex).Lock", "(*sync.Mutex).Lock":
		kind = "Lock"
	case "(*sync.RWMutex).RLock":
		kind = "RLock"
	case "(*sync.RWMutex).Unlock", "(*sync.Mutex).Unlock":
		kind = "Unlock"
	case "(*sync.RWMutex).RUnlock":
		kind = "RUnlock"
	default:
		return "", false
	}
	if len(cc.Args) == 0 || strings.TrimPrefix(accessPath(cc.Args[0]), "&") != recvPath+"."+d.mutex {
		return "", false
	}
	return kind, true
}

// balance checks, for every method of the domain: (pairing) Unlock only when write-locked, RUnlock only when
// read-locked, Lock/RLock only when unlocked (sync mutexes are not re-entrant); (balance) every return leaves the
// mutex in the state the method was entered with, deferred unlocks applied in LIFO order. A state that is not a single
// value at one of these points (lock held on some paths only) is reported as well.
func (d *lockDomain) balance() (problems []lockProblem, sites int) {
	for _, f := range d.funcs {
		if f.Blocks == nil || d.entry[f] == 0 {
			continue
		}
		rp := recvPathOf(f)
		name := shortName(f)
		var defers []ssa.Instruction
		allInstrs(f, func(i ssa.Instruction) {
			kind, ok := d.lockOpKind(i, rp)
			if !ok {
				return
			}
			if _, isD := i.(*ssa.Defer); isD {
				defers = append(defers, i)
				return
			}
			if _, isG := i.(*ssa.Go); isG {
				return
			}
			sites++
			st := d.before[i]
			switch kind {
			case "Unlock":
				if st != lsW {
					problems = append(problems, lockProblem{f, i, name + "/Unlock", "Unlock while the mutex may be " + st.String() + " (fatal 'unlock of unlocked mutex', or releases a lock taken with RLock)"})
				}
			case "RUnlock":
				if st != lsR {
					problems = append(problems, lockProblem{f, i, name + "/RUnlock", "RUnlock while the mutex may be " + st.String()})
				}
			case "Lock", "RLock":
				if st != lsU {
					problems = append(problems, lockProblem{f, i, name + "/" + kind, kind + " while the mutex may already be " + st.String() + " (self-deadlock: sync mutexes are not re-entrant)"})
				}
			}
		})
		for _, r := range returnsOf(f) {
			sites++
			st := d.before[r]
			bad := ""
			// deferred unlocks that were registered on every path to this return, LIFO
			for k := len(defers) - 1; k >= 0; k-- {
				df := defers[k]
				if !instrDominates(df, r) {
					if reaches(df, r) {
						bad = "a deferred unlock is registered on some paths to this return only"
					}
					continue
				}
				kind, _ := d.lockOpKind(df, rp)
				switch {
				case kind == "Unlock" && st == lsW, kind == "RUnlock" && st == lsR:
					st = lsU
				case kind == "Unlock" || kind == "RUnlock":
					bad = "deferred " + kind + " runs while the mutex may be " + st.String()
				default:
					st = map[string]lockState{"Lock": lsW, "RLock": lsR}[kind]
				}
			}
			if bad == "" && st != d.entry[f] {
				bad = "returns with the mutex " + st.String() + " but was entered with it " + d.entry[f].String() + " (a leaked lock blocks every later operation on this object)"
			}
			if bad != "" {
				problems = append(problems, lockProblem{f, r, name + "/return", bad})
			}
		}
	}
	return problems, sites
}

// ruleLockBalance registers the balance obligations of a domain under rule id.
func ruleLockBalance(c *Ctx, d *lockDomain, what string) {
	problems, sites := d.balance()
	seen := map[string]bool{}
	for _, p := range problems {
		seen[p.Key] = true
		c.bad(p.Key, d.u.ipos(p.Instr), what+": "+p.Msg)
	}
	for _, f := range d.funcs {
		if f.Blocks == nil || d.entry[f] == 0 {
			continue
		}
		for _, k := range []string{"/return"} {
			if !seen[shortName(f)+k] {
				c.ok(shortName(f)+k, d.u.pos(f.Pos()), "lock operations paired and balanced on every path")
			}
		}
	}
	if sites == 0 {
		c.bad(what+"/sites", "", "no lock operation found in the domain")
	}
}
