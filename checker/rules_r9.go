package main

// Rules added after seeding round 9 (Go language traps, external API parameters, secret hygiene, sites far from the
// anchors). Each is a structural necessary condition of the property it is listed under.

import (
	"go/constant"
	"go/token"
	"go/types"
	"strings"

	"golang.org/x/tools/go/ssa"
)

// ---------------------------------------------------------------------------------------------
// C15.reflect-accessor-matches-kind

// reflect.Value accessors that panic unless the value's Kind is one of a fixed set (reflect's documented contract).
var reflectAccessorKinds = map[string][]int64{
	"Int":      {2, 3, 4, 5, 6},
	"Uint":     {7, 8, 9, 10, 11, 12},
	"Float":    {13, 14},
	"Complex":  {15, 16},
	"Bool":     {1},
	"Pointer":  {18, 19, 21, 22, 23, 24, 26}, // Chan, Func, Map, Pointer, Slice, String, UnsafePointer
	"MapKeys":  {21},
	"NumField": {25},
}

// kindRestrictedCalls: calls in f of a kind-restricted reflect.Value accessor together with the verdict: at the call
// every way into the guarding region has established Kind() == K (same reflect.Value) for some K the accessor accepts.
type reflectCall struct {
	Instr    ssa.Instruction
	Accessor string
	Bad      string // empty when fine
}

func kindRestrictedCalls(f *ssa.Function) []reflectCall {
	var out []reflectCall
	allInstrs(f, func(i ssa.Instruction) {
		cv, ok := i.(*ssa.Call)
		if !ok {
			return
		}
		g := staticCallee(cv)
		if g == nil || g.Pkg == nil || g.Pkg.Pkg.Path() != "reflect" || g.Signature.Recv() == nil || namedTypeName(g.Signature.Recv().Type()) != "Value" {
			return
		}
		allowed, restricted := reflectAccessorKinds[g.Name()]
		if !restricted || len(cv.Call.Args) == 0 {
			return
		}
		recv := resolve(cv.Call.Args[0])
		sameRecv := func(v ssa.Value) bool {
			kc, ok := strip(v).(*ssa.Call)
			if !ok {
				return false
			}
			h := staticCallee(kc)
			if h == nil || h.Name() != "Kind" || h.Pkg == nil || h.Pkg.Pkg.Path() != "reflect" || len(kc.Call.Args) == 0 {
				return false
			}
			r2 := resolve(kc.Call.Args[0])
			return r2 == recv || (accessPath(r2) != "" && accessPath(r2) == accessPath(recv))
		}
		wrong := ""
		cond := func(facts []Fact) bool {
			for _, fct := range facts {
				b, ok := fct.V.(*ssa.BinOp)
				if !ok || b.Op != token.EQL || !fct.True {
					continue
				}
				x, y := b.X, b.Y
				if _, isC := constOf(x); isC {
					x, y = y, x
				}
				k, isC := constOf(y)
				if !isC || k.Kind() != constant.Int || !sameRecv(x) {
					continue
				}
				kv, _ := constant.Int64Val(k)
				for _, a := range allowed {
					if a == kv {
						return true
					}
				}
				wrong = "Kind() == " + k.ExactString()
			}
			return false
		}
		okc := false
		for m := i.Block(); m != nil && !okc; m = m.Idom() {
			okc = holdsOnAllEntries(m, cond)
		}
		rc := reflectCall{Instr: i, Accessor: g.Name()}
		if !okc {
			if wrong != "" {
				rc.Bad = "reflect.Value." + g.Name() + "() is reached with " + wrong + ", a kind it panics on"
			} else {
				rc.Bad = "reflect.Value." + g.Name() + "() is called without the value's Kind() having been established as one it accepts"
			}
		}
		out = append(out, rc)
	})
	return out
}

// ruleC15ReflectAccessorMatchesKind: the hash of a cache key is computed with reflection for key types the type switch
// does not list; a kind-restricted accessor under the wrong case label panics on the first Set/Get with such a key.
func ruleC15ReflectAccessorMatchesKind(c *Ctx) {
	u := c.U1
	c.rule("C15.reflect-accessor-matches-kind", "every call of a kind-restricted reflect.Value accessor (Int, Uint, Float, Complex, Bool, Pointer, MapKeys, NumField) in the cache packages is dominated, on every way in, by Kind() == K of the same value for a K the accessor accepts (reflect panics otherwise: a cache operation with such a key type crashes)", 1)
	n := 0
	for _, f := range u.RepoFuncs {
		root := rootFunc(f)
		if root.Pkg == nil || f.Blocks == nil || !strings.HasPrefix(root.Pkg.Pkg.Path(), pkgCache) {
			continue
		}
		for _, rc := range kindRestrictedCalls(f) {
			n++
			c.CallSites++
			c.FuncsAnalysed[shortName(f)] = true
			c.check(rc.Bad == "", trimPkgDirs(shortName(f))+"/reflect."+rc.Accessor, u.ipos(rc.Instr), "kind established before the accessor", rc.Bad+": computing the hash of such a key panics inside the cache")
		}
	}
	if n == 0 {
		c.ok("cache/reflect-accessors", "", "no kind-restricted reflect accessor in the cache packages")
	}
}

// ---------------------------------------------------------------------------------------------
// C13.latest-query-keyed-by-id-alone

// ruleC13LatestQueryKeyedByIDAlone: the key condition of the DynamoDB LoadLatest query is `partition key = <the keyID
// parameter>` and nothing else: any further bound on the sort key (e.g. Created <= now) makes the "newest" row depend on
// something other than what was stored.
func ruleC13LatestQueryKeyedByIDAlone(c *Ctx) {
	u := c.U1
	c.rule("C13.latest-query-keyed-by-id-alone", "in both DynamoDB metastores the value handed to Builder.WithKeyCondition is KeyBuilder.Equal applied to expression.Key(<constant partition key name>) and expression.Value(<a string parameter of the method>) — no KeyAnd / And / range condition on the sort key", 2)
	n := 0
	for _, m := range metastoreImpls(c) {
		if !strings.HasPrefix(m.Kind, "dynamo") {
			continue
		}
		pkg := m.N.Obj().Pkg().Path()
		for _, f := range u.RepoFuncs {
			root := rootFunc(f)
			if root.Pkg == nil || root.Pkg.Pkg.Path() != pkg || f.Blocks == nil {
				continue
			}
			allInstrs(f, func(i ssa.Instruction) {
				cv, ok := i.(*ssa.Call)
				if !ok {
					return
				}
				g := staticCallee(cv)
				if g == nil || g.Name() != "WithKeyCondition" || g.Pkg == nil || !strings.HasSuffix(g.Pkg.Pkg.Path(), "/expression") || len(cv.Call.Args) < 2 {
					return
				}
				n++
				c.CallSites++
				c.FuncsAnalysed[shortName(f)] = true
				construct := trimPkgDirs(shortName(f)) + "/WithKeyCondition"
				why := keyConditionIsIDEquality(cv.Call.Args[1], 0)
				c.check(why == "", construct, u.ipos(i), "partition key = <id parameter>, nothing else", "the key condition of the query is not `partition key = id` alone ("+why+"): a bound on the sort key makes LoadLatest skip stored records (e.g. one whose Created is ahead of this host's clock) — it answers with an older key or with nothing although Load(id, created) finds the record")
			})
		}
	}
	if n == 0 {
		c.unresolved("dynamodb/WithKeyCondition", "no WithKeyCondition call found in the DynamoDB metastores")
	}
}

func keyConditionIsIDEquality(v ssa.Value, depth int) string {
	cv, ok := resolve(v).(*ssa.Call)
	if !ok {
		return "the condition is " + describeOperand(resolve(v)) + ", not built here"
	}
	g := staticCallee(cv)
	if g == nil {
		return "the condition comes from a dynamic call"
	}
	inExpr := g.Pkg != nil && strings.HasSuffix(g.Pkg.Pkg.Path(), "/expression")
	if !inExpr {
		// a same-package helper that returns the condition
		if depth < 2 && g.Blocks != nil {
			for _, r := range returnsOf(g) {
				if why := keyConditionIsIDEquality(returnedValue(r, 0), depth+1); why != "" {
					return why
				}
			}
			return ""
		}
		return "the condition comes from " + shortName(g)
	}
	if g.Name() != "Equal" || g.Signature.Recv() == nil || namedTypeName(g.Signature.Recv().Type()) != "KeyBuilder" || len(cv.Call.Args) < 2 {
		return "built with expression." + g.Name()
	}
	// receiver: expression.Key(<constant>)
	kc, ok := resolve(cv.Call.Args[0]).(*ssa.Call)
	if !ok || staticCallee(kc) == nil || staticCallee(kc).Name() != "Key" || len(kc.Call.Args) < 1 {
		return "the compared key is not expression.Key(<name>)"
	}
	name, isC := constOf(resolve(kc.Call.Args[0]))
	if !isC || name.Kind() != constant.String {
		return "the key name is not a constant"
	}
	if constant.StringVal(name) != "Id" {
		return "the compared attribute is " + constant.StringVal(name) + ", not the partition key"
	}
	// operand: expression.Value(<parameter>)
	vc, ok := resolve(cv.Call.Args[1]).(*ssa.Call)
	if !ok || staticCallee(vc) == nil || staticCallee(vc).Name() != "Value" || len(vc.Call.Args) < 1 {
		return "the operand is not expression.Value(...)"
	}
	arg := resolve(vc.Call.Args[0])
	if mi, isMI := arg.(*ssa.MakeInterface); isMI {
		arg = resolve(mi.X)
	}
	if _, isP := arg.(*ssa.Parameter); !isP {
		return "the operand is " + describeOperand(arg) + ", not the requested id"
	}
	return ""
}

// ---------------------------------------------------------------------------------------------
// C17.requests-name-the-configured-key

// ruleC17RequestsNameTheConfiguredKey: whatever a KMS request names as KeyId is the ARN this plugin instance was
// configured with for that region — never a string taken from the envelope being read (whose ARN may be an alias that
// no longer exists, or another account's name for the same key).
func ruleC17RequestsNameTheConfiguredKey(c *Ctx) {
	u := c.U1
	c.rule("C17.requests-name-the-configured-key", "in both KMS plugins every KMS request literal (EncryptInput, DecryptInput, GenerateDataKeyInput) that sets KeyId takes it from the ARN / MasterKeyARN field of a configured regional client (AWSKMSClient, regionalClient), not from a decoded envelope entry or a parameter", 4)
	n := 0
	for _, f := range u.RepoFuncs {
		root := rootFunc(f)
		if root.Pkg == nil || f.Blocks == nil {
			continue
		}
		p := root.Pkg.Pkg.Path()
		if p != pkgKmsV1 && p != pkgKmsV2 {
			continue
		}
		allInstrs(f, func(i ssa.Instruction) {
			a, ok := i.(*ssa.Alloc)
			if !ok {
				return
			}
			tn := namedTypeName(derefType(a.Type()))
			if tn != "EncryptInput" && tn != "DecryptInput" && tn != "GenerateDataKeyInput" {
				return
			}
			v, set := litFields(a)["KeyId"]
			if !set || isNilValue(v) {
				return
			}
			n++
			c.CallSites++
			c.FuncsAnalysed[shortName(f)] = true
			construct := trimPkgDirs(shortName(f)) + "/" + tn + ".KeyId"
			why := keyIDIsConfigured(v, 0)
			c.check(why == "", construct, u.ipos(i), "KeyId is the configured client's ARN", "the request names "+why+" as its key: a region that could decrypt with the key it is configured with is asked for a different name (a deleted alias, another account's ARN) and refuses — unwrapping fails although a configured region with an entry is able to decrypt")
		})
	}
	if n == 0 {
		c.unresolved("kms/KeyId", "no KMS request literal with KeyId found")
	}
}

func keyIDIsConfigured(v ssa.Value, depth int) string {
	v = strip(v)
	// aws.String(x)
	if cv, ok := v.(*ssa.Call); ok {
		if g := staticCallee(cv); g != nil && g.Name() == "String" && len(cv.Call.Args) == 1 {
			v = strip(cv.Call.Args[0])
		}
	}
	base, fld, ok := fieldAccess(v)
	if !ok {
		if r := resolve(v); r != v {
			if b2, f2, ok2 := fieldAccess(r); ok2 {
				base, fld, ok = b2, f2, true
			}
		}
	}
	if !ok {
		return describeOperand(resolve(v))
	}
	owner := namedTypeName(derefType(base.Type()))
	if (fld == "ARN" || fld == "MasterKeyARN") && (owner == "AWSKMSClient" || owner == "regionalClient") {
		return ""
	}
	return "the " + fld + " of a " + owner
}

// ---------------------------------------------------------------------------------------------
// C15.callback-bound-at-build

// ruleC15CallbackBoundAtBuild: the cache's eviction callback is the function value the builder held when Build ran —
// not a closure that re-reads the builder later (a builder reused for a second cache would redirect the first cache's
// notifications).
func ruleC15CallbackBoundAtBuild(c *Ctx) {
	u := c.U1
	c.rule("C15.callback-bound-at-build", "every store to cache.onEvictCallback stores the builder's evictFunc as loaded in that call, or a closure none of whose captured variables is the builder (or a pointer to it)", 1)
	n := 0
	for _, f := range u.RepoFuncs {
		root := rootFunc(f)
		if root.Pkg == nil || root.Pkg.Pkg.Path() != pkgCache || f.Blocks == nil {
			continue
		}
		allInstrs(f, func(i ssa.Instruction) {
			st, ok := i.(*ssa.Store)
			if !ok {
				return
			}
			base, fld, isF := fieldAccess(st.Addr)
			if !isF || fld != "onEvictCallback" || namedTypeName(derefType(base.Type())) != "cache" {
				return
			}
			n++
			c.CallSites++
			c.FuncsAnalysed[shortName(f)] = true
			construct := trimPkgDirs(shortName(f)) + "/onEvictCallback="
			v := resolve(st.Val)
			why := ""
			switch x := v.(type) {
			case *ssa.MakeClosure:
				for _, b := range x.Bindings {
					if namedTypeName(derefType(derefType(b.Type()))) == "builder" {
						why = "a closure that captures the builder and reads its evictFunc when an entry is evicted"
					}
				}
			default:
				if _, f2, ok2 := fieldAccess(v); !ok2 || f2 != "evictFunc" {
					if !isNilValue(v) {
						if _, isP := v.(*ssa.Parameter); !isP {
							why = describeOperand(v)
						}
					}
				}
			}
			c.check(why == "", construct, u.ipos(i), "the function value the builder holds now", "the cache's eviction callback is "+why+": what a later WithEvictFunc (or a second Build from the same builder) installs is called for this cache's entries — its own callback never hears of them")
		})
	}
	if n == 0 {
		c.unresolved("cache/onEvictCallback", "no store to cache.onEvictCallback found")
	}
}

// ---------------------------------------------------------------------------------------------
// <P>.recover-reports-failure

// swallowedPanics: deferred closures of f that call recover() although f returns an error and the closure cannot put one
// into f's results (no store to a named error result of f, no re-panic): after a panic f returns zero values — (nil, nil),
// i.e. success with no data.
func swallowedPanics(f *ssa.Function) []ssa.Instruction {
	var out []ssa.Instruction
	for _, g := range f.AnonFuncs {
		var rec ssa.Instruction
		repanics := false
		allInstrs(g, func(i ssa.Instruction) {
			if cv, ok := i.(*ssa.Call); ok {
				if b, isB := cv.Call.Value.(*ssa.Builtin); isB && b.Name() == "recover" {
					rec = i
				}
			}
			if _, ok := i.(*ssa.Panic); ok {
				repanics = true
			}
		})
		if rec == nil || repanics {
			continue
		}
		// only closures that f defers
		deferred := false
		for _, mc := range makeClosuresOf(g) {
			for _, r := range *mc.Referrers() {
				if d, ok := r.(*ssa.Defer); ok && d.Call.Value == ssa.Value(mc) {
					deferred = true
				}
			}
		}
		if !deferred {
			continue
		}
		res := f.Signature.Results()
		returnsErr := false
		for k := 0; k < res.Len(); k++ {
			if isErrorType(res.At(k).Type()) {
				returnsErr = true
			}
		}
		if !returnsErr {
			continue
		}
		// named error results of f: allocs the recover block loads for its return
		named := map[ssa.Value]bool{}
		if f.Recover != nil {
			for _, ins := range f.Recover.Instrs {
				if ld, ok := ins.(*ssa.UnOp); ok && ld.Op == token.MUL && isErrorType(ld.Type()) {
					named[ld.X] = true
				}
			}
		}
		sets := false
		for _, mc := range makeClosuresOf(g) {
			for k, b := range mc.Bindings {
				if !named[b] || k >= len(g.FreeVars) {
					continue
				}
				fv := g.FreeVars[k]
				for _, r := range *fv.Referrers() {
					if st, ok := r.(*ssa.Store); ok && st.Addr == ssa.Value(fv) && !isNilValue(st.Val) {
						sets = true
					}
				}
			}
		}
		if !sets {
			out = append(out, rec)
		}
	}
	return out
}


// recoverReportsFailureRule: a recovered panic is reported as an error (through a named result) or re-raised — never
// turned into the function's zero-value return.
func recoverReportsFailureRule(prop string, pkgs ...string) func(*Ctx) {
	return func(c *Ctx) {
		u := c.U1
		c.rule(prop+".recover-reports-failure", "in "+strings.Join(trimAll(pkgs), ", ")+": a deferred closure that calls recover() in a function returning an error either re-panics or stores a non-nil error into a named result of that function (with unnamed results the function returns (zero, nil) after the panic: success without data — e.g. a key record stored with no key material) — expected count on the pinned tree: none; positive example in the self-test fixtures", 0)
		in := map[string]bool{}
		for _, p := range pkgs {
			in[p] = true
		}
		for _, f := range u.RepoFuncs {
			root := rootFunc(f)
			if root.Pkg == nil || f.Blocks == nil || !in[root.Pkg.Pkg.Path()] {
				continue
			}
			for _, i := range swallowedPanics(f) {
				c.CallSites++
				c.bad(trimPkgDirs(shortName(f))+"/recover", u.ipos(i), "a panic below this function is recovered but no error is put into its results: it returns its zero values, which callers read as success (a wrapped key of no bytes is stored and reported durable; a decrypt yields nil data and no error)")
			}
		}
		c.ok(prop+"/recover", "", "no recover() that turns a panic into a success return")
	}
}

// ---------------------------------------------------------------------------------------------
// C03.sidecar-logs-carry-no-payload

// ruleC03SidecarLogsCarryNoPayload: the sidecar handles plaintext payloads on behalf of its clients; what it hands to a
// logger is text it composed itself (strings, numbers, error values) — never a request/response message, a byte slice
// or a record, whose rendering includes the payload.
func ruleC03SidecarLogsCarryNoPayload(c *Ctx) {
	u := c.U2
	c.rule("C03.sidecar-logs-carry-no-payload", "every operand of a log.Print*/Fatal*/Panic*, fmt.Print*/Fprint* call or an asherah log.Debugf call in the sidecar's server package has a basic type (string, number, bool) or is an error: no protobuf message, oneof wrapper, []byte or record reaches a logger (rendering a request prints its payload)", 4)
	n := 0
	for _, f := range u.RepoFuncs {
		root := rootFunc(f)
		if root.Pkg == nil || root.Pkg.Pkg.Path() != pkgServer || f.Blocks == nil {
			continue
		}
		allInstrs(f, func(i ssa.Instruction) {
			cc := callOf(i)
			if cc == nil {
				return
			}
			g := cc.StaticCallee()
			if g == nil || g.Pkg == nil {
				return
			}
			p, name := g.Pkg.Pkg.Path(), g.Name()
			sink := false
			switch {
			case p == "log" && (strings.HasPrefix(name, "Print") || strings.HasPrefix(name, "Fatal") || strings.HasPrefix(name, "Panic")):
				sink = true
			case p == "fmt" && (strings.HasPrefix(name, "Print") || strings.HasPrefix(name, "Fprint")):
				sink = true
			case strings.HasSuffix(p, "/appencryption/pkg/log") && strings.HasPrefix(name, "Debug"):
				sink = true
			}
			if !sink {
				return
			}
			n++
			c.CallSites++
			c.FuncsAnalysed[shortName(f)] = true
			var ops []ssa.Value
			for _, a := range cc.Args {
				if _, isSl := a.Type().Underlying().(*types.Slice); isSl {
					if vs := varargValues(a); vs != nil {
						ops = append(ops, vs...)
						continue
					}
				}
				ops = append(ops, a)
			}
			why := ""
			for _, o := range ops {
				o = strip(o)
				if mi, ok := o.(*ssa.MakeInterface); ok {
					o = mi.X
				}
				t := o.Type()
				if _, isB := t.Underlying().(*types.Basic); isB {
					continue
				}
				if isErrorType(t) {
					continue
				}
				if _, isN := constOf(o); isN {
					continue
				}
				if namedTypeName(derefType(t)) == "Logger" || namedTypeName(derefType(t)) == "File" {
					continue // the receiver / destination writer
				}
				why = describeOperand(o) + " of type " + types.TypeString(t, func(p *types.Package) string { return p.Name() })
			}
			c.check(why == "", trimPkgDirs(shortName(f))+"/"+g.Pkg.Pkg.Name()+"."+name, u.ipos(i), "operands are text or errors", "a log line of the sidecar renders "+why+": the rendering of a request, response, record or byte slice contains the client's plaintext payload (or key material), which then sits in the log")
		})
	}
	if n == 0 {
		c.unresolved("server/log-calls", "no log call found in the server package")
	}
}
