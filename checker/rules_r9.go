package main

// Rules added after seeding round 9 (Go language traps, external API parameters, secret hygiene, sites far from the
// anchors). Each is a structural necessary condition of the property it is listed under.

import (
	"go/constant"
	"go/token"
	"go/types"
	"strings"

	"golang.org/x/tools/go/ssa"
)

// ---------------------------------------------------------------------------------------------
// C15.reflect-accessor-matches-kind

// reflect.Value accessors that panic unless the value's Kind is one of a fixed set (reflect's documented contract).
var reflectAccessorKinds = map[string][]int64{
	"Int":      {2, 3, 4, 5, 6},
	"Uint":     {7, 8, 9, 10, 11, 12},
	"Float":    {13, 14},
	"Complex":  {15, 16},
	"Bool":     {1},
	"Pointer":  {18, 19, 21, 22, 23, 24, 26}, // Chan, Func, Map, Pointer, Slice, String, UnsafePointer
	"MapKeys":  {21},
	"NumField": {25},
}

// kindRestrictedCalls: calls in f of a kind-restricted reflect.Value accessor together with the verdict: at the call
// every way into the guarding region has established Kind() == K (same reflect.Value) for some K the accessor accepts.
type reflectCall struct {
	Instr    ssa.Instruction
	Accessor string
	Bad      string // empty when fine
}

func kindRestrictedCalls(f *ssa.Function) []reflectCall {
	var out []reflectCall
	allInstrs(f, func(i ssa.Instruction) {
		cv, ok := i.(*ssa.Call)
		if !ok {
			return
		}
		g := staticCallee(cv)
		if g == nil || g.Pkg == nil || g.Pkg.Pkg.Path() != "reflect" || g.Signature.Recv() == nil || namedTypeName(g.Signature.Recv().Type()) != "Value" {
			return
		}
		allowed, restricted := reflectAccessorKinds[g.Name()]
		if !restricted || len(cv.Call.Args) == 0 {
			return
		}
		recv := resolve(cv.Call.Args[0])
		sameRecv := func(v ssa.Value) bool {
			kc, ok := strip(v).(*ssa.Call)
			if !ok {
				return false
			}
			h := staticCallee(kc)
			if h == nil || h.Name() != "Kind" || h.Pkg == nil || h.Pkg.Pkg.Path() != "reflect" || len(kc.Call.Args) == 0 {
				return false
			}
			r2 := resolve(kc.Call.Args[0])
			return r2 == recv || (accessPath(r2) != "" && accessPath(r2) == accessPath(recv))
		}
		wrong := ""
		cond := func(facts []Fact) bool {
			for _, fct := range facts {
				// a kind predicate of the package: `if !isPointerKind(v.Kind()) { return }`
				if pc, isCall := strip(fct.V).(*ssa.Call); isCall && fct.True {
					if h := staticCallee(pc); h != nil && h.Pkg == f.Pkg && len(pc.Call.Args) == 1 && sameRecv(pc.Call.Args[0]) && kindPredicateAccepts(h, allowed) {
						return true
					}
				}
				b, ok := fct.V.(*ssa.BinOp)
				if !ok || b.Op != token.EQL || !fct.True {
					continue
				}
				x, y := b.X, b.Y
				if _, isC := constOf(x); isC {
					x, y = y, x
				}
				k, isC := constOf(y)
				if !isC || k.Kind() != constant.Int || !sameRecv(x) {
					continue
				}
				kv, _ := constant.Int64Val(k)
				for _, a := range allowed {
					if a == kv {
						return true
					}
				}
				wrong = "Kind() == " + k.ExactString()
			}
			return false
		}
		okc := false
		for m := i.Block(); m != nil && !okc; m = m.Idom() {
			okc = holdsOnAllEntries(m, cond)
		}
		rc := reflectCall{Instr: i, Accessor: g.Name()}
		if !okc {
			if wrong != "" {
				rc.Bad = "reflect.Value." + g.Name() + "() is reached with " + wrong + ", a kind it panics on"
			} else {
				rc.Bad = "reflect.Value." + g.Name() + "() is called without the value's Kind() having been established as one it accepts"
			}
		}
		out = append(out, rc)
	})
	return out
}

// ruleC15ReflectAccessorMatchesKind: the hash of a cache key is computed with reflection for key types the type switch
// does not list; a kind-restricted accessor under the wrong case label panics on the first Set/Get with such a key.
func ruleC15ReflectAccessorMatchesKind(c *Ctx) {
	u := c.U1
	c.rule("C15.reflect-accessor-matches-kind", "every call of a kind-restricted reflect.Value accessor (Int, Uint, Float, Complex, Bool, Pointer, MapKeys, NumField) in the cache packages is dominated, on every way in, by Kind() == K of the same value for a K the accessor accepts (reflect panics otherwise: a cache operation with such a key type crashes)", 1)
	n := 0
	for _, f := range u.RepoFuncs {
		root := rootFunc(f)
		if root.Pkg == nil || f.Blocks == nil || !strings.HasPrefix(root.Pkg.Pkg.Path(), pkgCache) {
			continue
		}
		for _, rc := range kindRestrictedCalls(f) {
			n++
			c.CallSites++
			c.FuncsAnalysed[shortName(f)] = true
			c.check(rc.Bad == "", trimPkgDirs(shortName(f))+"/reflect."+rc.Accessor, u.ipos(rc.Instr), "kind established before the accessor", rc.Bad+": computing the hash of such a key panics inside the cache")
		}
	}
	if n == 0 {
		c.ok("cache/reflect-accessors", "", "no kind-restricted reflect accessor in the cache packages")
	}
}

// ---------------------------------------------------------------------------------------------
// C13.latest-query-keyed-by-id-alone

// ruleC13LatestQueryKeyedByIDAlone: the key condition of the DynamoDB LoadLatest query is `partition key = <the keyID
// parameter>` and nothing else: any further bound on the sort key (e.g. Created <= now) makes the "newest" row depend on
// something other than what was stored.
func ruleC13LatestQueryKeyedByIDAlone(c *Ctx) {
	u := c.U1
	c.rule("C13.latest-query-keyed-by-id-alone", "in both DynamoDB metastores the value handed to Builder.WithKeyCondition is KeyBuilder.Equal applied to expression.Key(<constant partition key name>) and expression.Value(<a string parameter of the method>) — no KeyAnd / And / range condition on the sort key", 2)
	n := 0
	for _, m := range metastoreImpls(c) {
		if !strings.HasPrefix(m.Kind, "dynamo") {
			continue
		}
		pkg := m.N.Obj().Pkg().Path()
		for _, f := range u.RepoFuncs {
			root := rootFunc(f)
			if root.Pkg == nil || root.Pkg.Pkg.Path() != pkg || f.Blocks == nil {
				continue
			}
			allInstrs(f, func(i ssa.Instruction) {
				cv, ok := i.(*ssa.Call)
				if !ok {
					return
				}
				g := staticCallee(cv)
				if g == nil || g.Name() != "WithKeyCondition" || g.Pkg == nil || !strings.HasSuffix(g.Pkg.Pkg.Path(), "/expression") || len(cv.Call.Args) < 2 {
					return
				}
				n++
				c.CallSites++
				c.FuncsAnalysed[shortName(f)] = true
				construct := trimPkgDirs(shortName(f)) + "/WithKeyCondition"
				why := keyConditionIsIDEquality(cv.Call.Args[1], 0)
				c.check(why == "", construct, u.ipos(i), "partition key = <id parameter>, nothing else", "the key condition of the query is not `partition key = id` alone ("+why+"): a bound on the sort key makes LoadLatest skip stored records (e.g. one whose Created is ahead of this host's clock) — it answers with an older key or with nothing although Load(id, created) finds the record")
			})
		}
	}
	if n == 0 {
		c.unresolved("dynamodb/WithKeyCondition", "no WithKeyCondition call found in the DynamoDB metastores")
	}
}

func keyConditionIsIDEquality(v ssa.Value, depth int) string {
	cv, ok := resolve(v).(*ssa.Call)
	if !ok {
		return "the condition is " + describeOperand(resolve(v)) + ", not built here"
	}
	g := staticCallee(cv)
	if g == nil {
		return "the condition comes from a dynamic call"
	}
	inExpr := g.Pkg != nil && strings.HasSuffix(g.Pkg.Pkg.Path(), "/expression")
	if !inExpr {
		// a same-package helper that returns the condition
		if depth < 2 && g.Blocks != nil {
			for _, r := range returnsOf(g) {
				if why := keyConditionIsIDEquality(returnedValue(r, 0), depth+1); why != "" {
					return why
				}
			}
			return ""
		}
		return "the condition comes from " + shortName(g)
	}
	if g.Name() != "Equal" || g.Signature.Recv() == nil || namedTypeName(g.Signature.Recv().Type()) != "KeyBuilder" || len(cv.Call.Args) < 2 {
		return "built with expression." + g.Name()
	}
	// receiver: expression.Key(<constant>)
	kc, ok := resolve(cv.Call.Args[0]).(*ssa.Call)
	if !ok || staticCallee(kc) == nil || staticCallee(kc).Name() != "Key" || len(kc.Call.Args) < 1 {
		return "the compared key is not expression.Key(<name>)"
	}
	name, isC := constOf(resolve(kc.Call.Args[0]))
	if !isC || name.Kind() != constant.String {
		return "the key name is not a constant"
	}
	if constant.StringVal(name) != "Id" {
		return "the compared attribute is " + constant.StringVal(name) + ", not the partition key"
	}
	// operand: expression.Value(<parameter>)
	vc, ok := resolve(cv.Call.Args[1]).(*ssa.Call)
	if !ok || staticCallee(vc) == nil || staticCallee(vc).Name() != "Value" || len(vc.Call.Args) < 1 {
		return "the operand is not expression.Value(...)"
	}
	arg := resolve(vc.Call.Args[0])
	if mi, isMI := arg.(*ssa.MakeInterface); isMI {
		arg = resolve(mi.X)
	}
	if _, isP := arg.(*ssa.Parameter); !isP {
		return "the operand is " + describeOperand(arg) + ", not the requested id"
	}
	return ""
}

// ---------------------------------------------------------------------------------------------
// C17.requests-name-the-configured-key

// ruleC17RequestsNameTheConfiguredKey: whatever a KMS request names as KeyId is the ARN this plugin instance was
// configured with for that region — never a string taken from the envelope being read (whose ARN may be an alias that
// no longer exists, or another account's name for the same key).
func ruleC17RequestsNameTheConfiguredKey(c *Ctx) {
	u := c.U1
	c.rule("C17.requests-name-the-configured-key", "in both KMS plugins every KMS request literal (EncryptInput, DecryptInput, GenerateDataKeyInput) that sets KeyId takes it from the ARN / MasterKeyARN field of a configured regional client (AWSKMSClient, regionalClient), not from a decoded envelope entry or a parameter", 4)
	n := 0
	for _, f := range u.RepoFuncs {
		root := rootFunc(f)
		if root.Pkg == nil || f.Blocks == nil {
			continue
		}
		p := root.Pkg.Pkg.Path()
		if p != pkgKmsV1 && p != pkgKmsV2 {
			continue
		}
		allInstrs(f, func(i ssa.Instruction) {
			a, ok := i.(*ssa.Alloc)
			if !ok {
				return
			}
			tn := namedTypeName(derefType(a.Type()))
			if tn != "EncryptInput" && tn != "DecryptInput" && tn != "GenerateDataKeyInput" {
				return
			}
			v, set := litFields(a)["KeyId"]
			if !set || isNilValue(v) {
				return
			}
			n++
			c.CallSites++
			c.FuncsAnalysed[shortName(f)] = true
			construct := trimPkgDirs(shortName(f)) + "/" + tn + ".KeyId"
			why := keyIDIsConfigured(v, 0)
			c.check(why == "", construct, u.ipos(i), "KeyId is the configured client's ARN", "the request names "+why+" as its key: a region that could decrypt with the key it is configured with is asked for a different name (a deleted alias, another account's ARN) and refuses — unwrapping fails although a configured region with an entry is able to decrypt")
		})
	}
	if n == 0 {
		c.unresolved("kms/KeyId", "no KMS request literal with KeyId found")
	}
}

func keyIDIsConfigured(v ssa.Value, depth int) string {
	v = strip(v)
	// aws.String(x)
	if cv, ok := v.(*ssa.Call); ok {
		if g := staticCallee(cv); g != nil && g.Name() == "String" && len(cv.Call.Args) == 1 {
			v = strip(cv.Call.Args[0])
		}
	}
	base, fld, ok := fieldAccess(v)
	if !ok {
		if r := resolve(v); r != v {
			if b2, f2, ok2 := fieldAccess(r); ok2 {
				base, fld, ok = b2, f2, true
			}
		}
	}
	if !ok {
		// a helper that receives the key name: every call site must pass the configured ARN
		if p, isP := resolve(v).(*ssa.Parameter); isP && depth < 3 {
			g := p.Parent()
			idx := -1
			for k, q := range g.Params {
				if q == p {
					idx = k
				}
			}
			buildCallSiteIndex(g)
			sites := callSiteIndex[orig(g)]
			if idx >= 0 && len(sites) > 0 {
				for _, ci := range sites {
					if idx >= len(ci.Common().Args) {
						return describeOperand(p)
					}
					if why := keyIDIsConfigured(ci.Common().Args[idx], depth+1); why != "" {
						return why + " (passed to " + g.Name() + ")"
					}
				}
				return ""
			}
		}
		return describeOperand(resolve(v))
	}
	owner := namedTypeName(derefType(base.Type()))
	if (fld == "ARN" || fld == "MasterKeyARN") && (owner == "AWSKMSClient" || owner == "regionalClient") {
		return ""
	}
	return "the " + fld + " of a " + owner
}

// ---------------------------------------------------------------------------------------------
// C15.callback-bound-at-build

// ruleC15CallbackBoundAtBuild: the cache's eviction callback is the function value the builder held when Build ran —
// not a closure that re-reads the builder later (a builder reused for a second cache would redirect the first cache's
// notifications).
func ruleC15CallbackBoundAtBuild(c *Ctx) {
	u := c.U1
	c.rule("C15.callback-bound-at-build", "every store to cache.onEvictCallback stores the builder's evictFunc as loaded in that call, or a closure none of whose captured variables is the builder (or a pointer to it)", 1)
	n := 0
	for _, f := range u.RepoFuncs {
		root := rootFunc(f)
		if root.Pkg == nil || root.Pkg.Pkg.Path() != pkgCache || f.Blocks == nil {
			continue
		}
		allInstrs(f, func(i ssa.Instruction) {
			st, ok := i.(*ssa.Store)
			if !ok {
				return
			}
			base, fld, isF := fieldAccess(st.Addr)
			if !isF || fld != "onEvictCallback" || namedTypeName(derefType(base.Type())) != "cache" {
				return
			}
			n++
			c.CallSites++
			c.FuncsAnalysed[shortName(f)] = true
			construct := trimPkgDirs(shortName(f)) + "/onEvictCallback="
			v := resolve(st.Val)
			why := ""
			switch x := v.(type) {
			case *ssa.MakeClosure:
				for _, b := range x.Bindings {
					if namedTypeName(derefType(derefType(b.Type()))) == "builder" {
						why = "a closure that captures the builder and reads its evictFunc when an entry is evicted"
					}
				}
			default:
				if _, f2, ok2 := fieldAccess(v); !ok2 || f2 != "evictFunc" {
					if !isNilValue(v) {
						if _, isP := v.(*ssa.Parameter); !isP {
							why = describeOperand(v)
						}
					}
				}
			}
			c.check(why == "", construct, u.ipos(i), "the function value the builder holds now", "the cache's eviction callback is "+why+": what a later WithEvictFunc (or a second Build from the same builder) installs is called for this cache's entries — its own callback never hears of them")
		})
	}
	if n == 0 {
		c.unresolved("cache/onEvictCallback", "no store to cache.onEvictCallback found")
	}
}

// ---------------------------------------------------------------------------------------------
// <P>.recover-reports-failure

// swallowedPanics: deferred closures of f that call recover() although f returns an error and the closure cannot put one
// into f's results (no store to a named error result of f, no re-panic): after a panic f returns zero values — (nil, nil),
// i.e. success with no data.
func swallowedPanics(f *ssa.Function) []ssa.Instruction {
	var out []ssa.Instruction
	for _, g := range f.AnonFuncs {
		var rec ssa.Instruction
		repanics := false
		allInstrs(g, func(i ssa.Instruction) {
			if cv, ok := i.(*ssa.Call); ok {
				if b, isB := cv.Call.Value.(*ssa.Builtin); isB && b.Name() == "recover" {
					rec = i
				}
			}
			if _, ok := i.(*ssa.Panic); ok {
				repanics = true
			}
		})
		if rec == nil || repanics {
			continue
		}
		// only closures that f defers
		deferred := false
		for _, mc := range makeClosuresOf(g) {
			for _, r := range *mc.Referrers() {
				if d, ok := r.(*ssa.Defer); ok && d.Call.Value == ssa.Value(mc) {
					deferred = true
				}
			}
		}
		if !deferred {
			continue
		}
		res := f.Signature.Results()
		returnsErr := false
		for k := 0; k < res.Len(); k++ {
			if isErrorType(res.At(k).Type()) {
				returnsErr = true
			}
		}
		if !returnsErr {
			continue
		}
		// named error results of f: allocs the recover block loads for its return
		named := map[ssa.Value]bool{}
		if f.Recover != nil {
			for _, ins := range f.Recover.Instrs {
				if ld, ok := ins.(*ssa.UnOp); ok && ld.Op == token.MUL && isErrorType(ld.Type()) {
					named[ld.X] = true
				}
			}
		}
		sets := false
		for _, mc := range makeClosuresOf(g) {
			for k, b := range mc.Bindings {
				if !named[b] || k >= len(g.FreeVars) {
					continue
				}
				fv := g.FreeVars[k]
				for _, r := range *fv.Referrers() {
					if st, ok := r.(*ssa.Store); ok && st.Addr == ssa.Value(fv) && !isNilValue(st.Val) {
						sets = true
					}
				}
			}
		}
		if !sets {
			out = append(out, rec)
		}
	}
	return out
}

// recoverReportsFailureRule: a recovered panic is reported as an error (through a named result) or re-raised — never
// turned into the function's zero-value return.
func recoverReportsFailureRule(prop string, pkgs ...string) func(*Ctx) {
	return func(c *Ctx) {
		u := c.U1
		c.rule(prop+".recover-reports-failure", "in "+strings.Join(trimAll(pkgs), ", ")+": a deferred closure that calls recover() in a function returning an error either re-panics or stores a non-nil error into a named result of that function (with unnamed results the function returns (zero, nil) after the panic: success without data — e.g. a key record stored with no key material) — expected count on the pinned tree: none; positive example in the self-test fixtures", 0)
		in := map[string]bool{}
		for _, p := range pkgs {
			in[p] = true
		}
		for _, f := range u.RepoFuncs {
			root := rootFunc(f)
			if root.Pkg == nil || f.Blocks == nil || !in[root.Pkg.Pkg.Path()] {
				continue
			}
			for _, i := range swallowedPanics(f) {
				c.CallSites++
				c.bad(trimPkgDirs(shortName(f))+"/recover", u.ipos(i), "a panic below this function is recovered but no error is put into its results: it returns its zero values, which callers read as success (a wrapped key of no bytes is stored and reported durable; a decrypt yields nil data and no error)")
			}
		}
		c.ok(prop+"/recover", "", "no recover() that turns a panic into a success return")
	}
}

// ---------------------------------------------------------------------------------------------
// C03.sidecar-logs-carry-no-payload

// ruleC03SidecarLogsCarryNoPayload: the sidecar handles plaintext payloads on behalf of its clients; what it hands to a
// logger is text it composed itself (strings, numbers, error values) — never a request/response message, a byte slice
// or a record, whose rendering includes the payload.
func ruleC03SidecarLogsCarryNoPayload(c *Ctx) {
	u := c.U2
	c.rule("C03.sidecar-logs-carry-no-payload", "every operand of a log.Print*/Fatal*/Panic*, fmt.Print*/Fprint* call or an asherah log.Debugf call in the sidecar's server package has a basic type (string, number, bool) or is an error: no protobuf message, oneof wrapper, []byte or record reaches a logger (rendering a request prints its payload)", 1)
	n := 0
	for _, f := range u.RepoFuncs {
		root := rootFunc(f)
		if root.Pkg == nil || root.Pkg.Pkg.Path() != pkgServer || f.Blocks == nil {
			continue
		}
		allInstrs(f, func(i ssa.Instruction) {
			cc := callOf(i)
			if cc == nil {
				return
			}
			g := cc.StaticCallee()
			if g == nil || g.Pkg == nil {
				return
			}
			p, name := g.Pkg.Pkg.Path(), g.Name()
			sink := false
			switch {
			case p == "log" && (strings.HasPrefix(name, "Print") || strings.HasPrefix(name, "Fatal") || strings.HasPrefix(name, "Panic")):
				sink = true
			case p == "fmt" && (strings.HasPrefix(name, "Print") || strings.HasPrefix(name, "Fprint")):
				sink = true
			case strings.HasSuffix(p, "/appencryption/pkg/log") && strings.HasPrefix(name, "Debug"):
				sink = true
			}
			if !sink {
				return
			}
			n++
			c.CallSites++
			c.FuncsAnalysed[shortName(f)] = true
			var ops []ssa.Value
			for _, a := range cc.Args {
				if _, isSl := a.Type().Underlying().(*types.Slice); isSl {
					if vs := varargValues(a); vs != nil {
						ops = append(ops, vs...)
						continue
					}
				}
				ops = append(ops, a)
			}
			why := ""
			for _, o := range ops {
				o = strip(o)
				if mi, ok := o.(*ssa.MakeInterface); ok {
					o = mi.X
				}
				t := o.Type()
				if _, isB := t.Underlying().(*types.Basic); isB {
					continue
				}
				if isErrorType(t) {
					continue
				}
				if _, isN := constOf(o); isN {
					continue
				}
				if namedTypeName(derefType(t)) == "Logger" || namedTypeName(derefType(t)) == "File" {
					continue // the receiver / destination writer
				}
				why = describeOperand(o) + " of type " + types.TypeString(t, func(p *types.Package) string { return p.Name() })
			}
			c.check(why == "", trimPkgDirs(shortName(f))+"/"+g.Pkg.Pkg.Name()+"."+name, u.ipos(i), "operands are text or errors", "a log line of the sidecar renders "+why+": the rendering of a request, response, record or byte slice contains the client's plaintext payload (or key material), which then sits in the log")
		})
	}
	if n == 0 {
		c.unresolved("server/log-calls", "no log call found in the server package")
	}
}

// ---------------------------------------------------------------------------------------------
// <P>.deferred-close-spares-the-returned-key

// deferredCloseOfReturned: returns of f that hand out what a deferred closure of f closes. A deferred closure that closes
// a captured variable (a named result, or a local the returns read) runs after the return value has been put into that
// variable; it is harmless for a return only if its guard cannot hold there: the guard tests the function's named error
// result for non-nil, or a captured flag that a dominating store has set the other way.
func deferredCloseOfReturned(f *ssa.Function) []ssa.Instruction {
	var out []ssa.Instruction
	if f.Blocks == nil {
		return nil
	}
	allInstrs(f, func(i ssa.Instruction) {
		d, ok := i.(*ssa.Defer)
		if !ok {
			return
		}
		mc, ok := d.Call.Value.(*ssa.MakeClosure)
		if !ok {
			return
		}
		g, ok := mc.Fn.(*ssa.Function)
		if !ok || g.Blocks == nil {
			return
		}
		binding := map[*ssa.FreeVar]ssa.Value{}
		for k, b := range mc.Bindings {
			if k < len(g.FreeVars) {
				binding[g.FreeVars[k]] = b
			}
		}
		fvOfLoad := func(v ssa.Value) *ssa.FreeVar {
			ld, ok := strip(v).(*ssa.UnOp)
			if !ok || ld.Op != token.MUL {
				return nil
			}
			fv, _ := ld.X.(*ssa.FreeVar)
			return fv
		}
		// Close calls in g on a captured pointer variable
		allInstrs(g, func(ci ssa.Instruction) {
			cc := callOf(ci)
			if cc == nil || methodNameOf(cc) != "Close" {
				return
			}
			rv := receiverOf(cc)
			if rv == nil {
				return
			}
			fv := fvOfLoad(rv)
			if fv == nil {
				return
			}
			x, isA := binding[fv].(*ssa.Alloc)
			if !isA || x.Parent() != f {
				return
			}
			if _, isPtr := derefType(x.Type()).Underlying().(*types.Pointer); !isPtr {
				if _, isIf := derefType(x.Type()).Underlying().(*types.Interface); !isIf {
					return
				}
			}
			guards := factsAt(ci.Block())
			for _, r := range returnsOf(f) {
				// does r hand out the content of x?
				hands := false
				for k := range r.Results {
					ld, ok := strip(r.Results[k]).(*ssa.UnOp)
					if !ok || ld.Op != token.MUL {
						continue
					}
					if ld.X == ssa.Value(x) {
						hands = true
						continue
					}
					// results spilled to a slot because of the defer: the slot's last store is a load of x
					if slot, isA := ld.X.(*ssa.Alloc); isA {
						if st := lastDominatingStore(slot, r); st != nil {
							if l2, ok := strip(st.Val).(*ssa.UnOp); ok && l2.Op == token.MUL && l2.X == ssa.Value(x) {
								hands = true
							}
						}
					}
				}
				if !hands || !(instrDominates(d, r) || blockReaches(d.Block(), r.Block())) {
					continue
				}
				// the value x holds at r: the last store to x that dominates r; a constant nil is nothing to close
				last := lastDominatingStore(x, r)
				if last != nil && isNilValue(last.Val) {
					continue
				}
				safe := false
				for _, fct := range guards {
					// a captured flag
					if fv2 := fvOfLoad(fct.V); fv2 != nil {
						if y, ok := binding[fv2].(*ssa.Alloc); ok {
							for _, ref := range *y.Referrers() {
								st, ok := ref.(*ssa.Store)
								if !ok || st.Addr != ssa.Value(y) || !instrDominates(st, r) {
									continue
								}
								if k, isC := constOf(st.Val); isC && k.Kind() == constant.Bool && constant.BoolVal(k) != fct.True {
									// a dominating store sets the flag against the guard; it must be the last one on the way
									later := false
									for _, ref2 := range *y.Referrers() {
										if st2, ok := ref2.(*ssa.Store); ok && st2 != st && st2.Addr == ssa.Value(y) && instrDominates(st, st2) && instrDominates(st2, r) {
											later = true
										}
									}
									if !later {
										safe = true
									}
								}
							}
						}
					}
					// the named error result is non-nil
					if v, isNil, ok := nilTest(fct); ok && !isNil {
						if fv2 := fvOfLoad(v); fv2 != nil {
							if y, ok := binding[fv2].(*ssa.Alloc); ok && isErrorType(derefType(y.Type())) {
								safe = true
							}
						}
					}
				}
				if !safe {
					out = append(out, r)
				}
			}
		})
	})
	return out
}

func deferredCloseSparesReturnedRule(prop string, pkgs ...string) func(*Ctx) {
	return func(c *Ctx) {
		u := c.U1
		c.rule(prop+".deferred-close-spares-the-returned-key", "in "+strings.Join(trimAll(pkgs), ", ")+": when a deferred closure closes a captured pointer variable, every return that hands out that variable's content is protected from it — the closure's guard tests the function's named error result for non-nil, or a captured flag that a store dominating the return has set the other way (deferred closures see the variable after the return value has been assigned to it) — expected count on the pinned tree: none; positive example in the self-test fixtures", 0)
		in := map[string]bool{}
		for _, p := range pkgs {
			in[p] = true
		}
		for _, f := range u.RepoFuncs {
			root := rootFunc(f)
			if root.Pkg == nil || f.Blocks == nil || !in[root.Pkg.Pkg.Path()] {
				continue
			}
			for _, r := range deferredCloseOfReturned(f) {
				c.CallSites++
				c.bad(trimPkgDirs(shortName(f))+"/deferred-close", u.ipos(r), "this return hands out a key that the function's deferred clean-up closure then closes (its guard does not exclude this return): the caller — and the cache the key is put into — receive a destroyed key, e.g. the key adopted after losing an insert race")
			}
		}
		c.ok(prop+"/deferred-close", "", "no deferred closure closes what a return hands out")
	}
}

// lastDominatingStore: among the stores to slot a that dominate instruction at, the one all others dominate.
func lastDominatingStore(a *ssa.Alloc, at ssa.Instruction) *ssa.Store {
	var last *ssa.Store
	if a.Referrers() == nil {
		return nil
	}
	for _, ref := range *a.Referrers() {
		if st, ok := ref.(*ssa.Store); ok && st.Addr == ssa.Value(a) && instrDominates(st, at) {
			if last == nil || instrDominates(last, st) {
				last = st
			}
		}
	}
	return last
}

// ---------------------------------------------------------------------------------------------
// C11.protected-struct-not-rendered

// holdsBytes: t (a struct, or pointer to one) has — at depth ≤ 2 — a []byte or memguard LockedBuffer field.
func holdsBytes(t types.Type, depth int) bool {
	t = derefType(t)
	st, ok := t.Underlying().(*types.Struct)
	if !ok || depth > 2 {
		return false
	}
	for i := 0; i < st.NumFields(); i++ {
		ft := st.Field(i).Type()
		if sl, isS := ft.Underlying().(*types.Slice); isS {
			if b, isB := sl.Elem().Underlying().(*types.Basic); isB && b.Kind() == types.Byte {
				return true
			}
		}
		if namedTypeName(derefType(ft)) == "LockedBuffer" {
			return true
		}
		if holdsBytes(ft, depth+1) {
			return true
		}
	}
	return false
}

// formatVerbs returns the verb letter consumed by each operand of a Printf-style format ('?' when it cannot tell).
func formatVerbs(format string) []byte {
	var out []byte
	for i := 0; i < len(format); i++ {
		if format[i] != '%' {
			continue
		}
		i++
		for i < len(format) && strings.IndexByte("+-# 0123456789.", format[i]) >= 0 {
			i++
		}
		if i >= len(format) {
			break
		}
		switch format[i] {
		case '%':
		case '*', '[':
			out = append(out, '?')
		default:
			out = append(out, format[i])
		}
	}
	return out
}

// ruleC11ProtectedStructNotRendered: the secret's inner struct holds the slice over the protected pages; rendering it
// with a value verb (%v, %+v, %s…) makes fmt read those pages while they are PROT_NONE — the process dies with SIGSEGV.
func ruleC11ProtectedStructNotRendered(c *Ctx) {
	u := c.U1
	c.rule("C11.protected-struct-not-rendered", "in both secure-memory back ends every operand of a log/fmt formatting call whose type is (a pointer to) a struct holding the protected byte slice or locked buffer is consumed by %p or %T only — a value verb makes fmt walk into the protected pages outside any access bracket", 1)
	n := 0
	for _, f := range u.RepoFuncs {
		root := rootFunc(f)
		if root.Pkg == nil || f.Blocks == nil {
			continue
		}
		if p := root.Pkg.Pkg.Path(); p != pkgProt && p != pkgMemg {
			continue
		}
		allInstrs(f, func(i ssa.Instruction) {
			cc := callOf(i)
			if cc == nil {
				return
			}
			g := cc.StaticCallee()
			if g == nil || g.Pkg == nil {
				return
			}
			p, name := g.Pkg.Pkg.Path(), g.Name()
			isFmt := (p == "fmt" || p == "log" || strings.HasSuffix(p, "/pkg/log") || strings.HasSuffix(p, "/securememory/log")) && (strings.HasSuffix(name, "f") || strings.HasPrefix(name, "Print") || strings.HasPrefix(name, "Sprint") || strings.HasPrefix(name, "Fprint"))
			if !isFmt || len(cc.Args) == 0 {
				return
			}
			// locate the format (a constant string argument followed by the variadic operands)
			var verbs []byte
			formatted := false
			var ops []ssa.Value
			for k, a := range cc.Args {
				if kk, isC := constOf(a); isC && kk.Kind() == constant.String && strings.HasSuffix(name, "f") && !formatted {
					verbs = formatVerbs(constant.StringVal(kk))
					formatted = true
					continue
				}
				if _, isSl := a.Type().Underlying().(*types.Slice); isSl && k == len(cc.Args)-1 {
					ops = append(ops, varargValues(a)...)
					continue
				}
				if formatted {
					ops = append(ops, a)
				}
			}
			for k, o := range ops {
				o = strip(o)
				if mi, ok := o.(*ssa.MakeInterface); ok {
					o = mi.X
				}
				if !holdsBytes(o.Type(), 0) {
					continue
				}
				n++
				c.CallSites++
				c.FuncsAnalysed[shortName(f)] = true
				verb := byte('v')
				if formatted && k < len(verbs) {
					verb = verbs[k]
				}
				c.check(verb == 'p' || verb == 'T', trimPkgDirs(shortName(f))+"/"+name+"/operand", u.ipos(i), "rendered as an address only", "a struct holding the protected bytes is rendered with %"+string(verb)+": fmt reads the byte slice while its pages are inaccessible (no access bracket is open here) and the process dies with a memory fault — or, inside a bracket, the key lands in the log")
			}
		})
	}
	if n == 0 {
		c.ok("securememory/format-operands", "", "no formatting call receives a struct that holds protected bytes")
	}
}

// ---------------------------------------------------------------------------------------------
// <P>.decremented-counters-cannot-wrap

type fieldDecrement struct {
	Instr    ssa.Instruction
	Field    string
	Unsigned bool
	Guarded  bool
}

// fieldDecrements: stores `x.F = x.F − k` (k a positive constant) in f, with the field's signedness and whether a
// dominating test has established F > 0 / F != 0 / F >= 1.
func fieldDecrements(f *ssa.Function) []fieldDecrement {
	var out []fieldDecrement
	allInstrs(f, func(i ssa.Instruction) {
		st, ok := i.(*ssa.Store)
		if !ok {
			return
		}
		_, fld, isF := fieldAccess(st.Addr)
		if !isF {
			return
		}
		b, ok := st.Val.(*ssa.BinOp)
		// `x.F += delta` with a signed delta parameter: the helper form of a decrement (an unsigned delta cannot go down)
		if ok && b.Op == token.ADD {
			if p, isP := strip(b.Y).(*ssa.Parameter); isP {
				if bt, isB := p.Type().Underlying().(*types.Basic); isB && bt.Info()&types.IsInteger != 0 && bt.Info()&types.IsUnsigned == 0 {
					if ld, isL := b.X.(*ssa.UnOp); isL && ld.Op == token.MUL && trimAddr(accessPath(ld.X)) == trimAddr(accessPath(st.Addr)) {
						out = append(out, fieldDecrement{Instr: i, Field: fld, Unsigned: false})
					}
				}
			}
			return
		}
		if !ok || b.Op != token.SUB {
			return
		}
		k, isC := constOf(b.Y)
		if !isC || k.Kind() != constant.Int || constant.Sign(k) <= 0 {
			return
		}
		ld, ok := b.X.(*ssa.UnOp)
		if !ok || ld.Op != token.MUL || trimAddr(accessPath(ld.X)) != trimAddr(accessPath(st.Addr)) {
			return
		}
		bt, ok := b.Type().Underlying().(*types.Basic)
		if !ok || bt.Info()&types.IsInteger == 0 {
			return
		}
		d := fieldDecrement{Instr: i, Field: fld, Unsigned: bt.Info()&types.IsUnsigned != 0}
		ap := trimAddr(accessPath(st.Addr))
		for _, fct := range factsAt(i.Block()) {
			c, ok := fct.V.(*ssa.BinOp)
			if !ok {
				continue
			}
			if trimAddr(accessPath(c.X)) != ap {
				continue
			}
			kk, isK := constOf(c.Y)
			if !isK || kk.Kind() != constant.Int {
				continue
			}
			z, one := constant.Sign(kk) == 0, kk.ExactString() == "1"
			switch {
			case c.Op == token.GTR && fct.True && z, c.Op == token.NEQ && fct.True && z, c.Op == token.EQL && !fct.True && z, c.Op == token.GEQ && fct.True && one, c.Op == token.LEQ && !fct.True && z, c.Op == token.LSS && !fct.True && one:
				d.Guarded = true
			}
		}
		out = append(out, d)
	})
	return out
}

// countersCannotWrapRule: a reference / reader / size counter that is decremented is of a signed type, or the
// decrement is guarded by a test that it is positive. (A surplus release on a signed counter gives −1, which every
// `> 0` wait or test reads as "nobody left"; on an unsigned counter it gives 2^64−1: the waiter waits forever and the
// resource is never released.)
func countersCannotWrapRule(prop string, floor int, pkgs ...string) func(*Ctx) {
	return func(c *Ctx) {
		u := c.U1
		c.rule(prop+".decremented-counters-cannot-wrap", "in "+strings.Join(trimAll(pkgs), ", ")+": every `x.F = x.F − k` on a struct field either has a signed integer type or is dominated by a test establishing F > 0", floor)
		in := map[string]bool{}
		for _, p := range pkgs {
			in[p] = true
		}
		for _, f := range u.RepoFuncs {
			root := rootFunc(f)
			if root.Pkg == nil || f.Blocks == nil || !in[root.Pkg.Pkg.Path()] {
				continue
			}
			for _, d := range fieldDecrements(f) {
				c.CallSites++
				c.FuncsAnalysed[shortName(f)] = true
				c.check(!d.Unsigned || d.Guarded, trimPkgDirs(shortName(f))+"/"+d.Field+"--", u.ipos(d.Instr), "signed counter (or guarded decrement)", "the counter "+d.Field+" is unsigned and decremented without a test that it is positive: one surplus release wraps it to the maximum value — whoever waits for it to reach zero (the teardown of an evicted session, Close of a secret) waits forever and the resource is never released")
			}
		}
	}
}

// kindPredicateAccepts: h(kind) bool returns true only when its parameter equals one of the allowed kinds.
func kindPredicateAccepts(h *ssa.Function, allowed []int64) bool {
	if h == nil || h.Blocks == nil || len(h.Params) != 1 {
		return false
	}
	p := h.Params[0]
	okKind := func(v ssa.Value) bool {
		b, ok := v.(*ssa.BinOp)
		if !ok || b.Op != token.EQL {
			return false
		}
		x, y := b.X, b.Y
		if _, isC := constOf(x); isC {
			x, y = y, x
		}
		k, isC := constOf(y)
		if !isC || k.Kind() != constant.Int || strip(x) != ssa.Value(p) {
			return false
		}
		kv, _ := constant.Int64Val(k)
		for _, a := range allowed {
			if a == kv {
				return true
			}
		}
		return false
	}
	factsOK := func(facts []Fact) bool {
		for _, f := range facts {
			if f.True && okKind(f.V) {
				return true
			}
		}
		return false
	}
	var valueOK func(v ssa.Value, at *ssa.BasicBlock, depth int) bool
	valueOK = func(v ssa.Value, at *ssa.BasicBlock, depth int) bool {
		if k, isC := constOf(v); isC && k.Kind() == constant.Bool {
			if !constant.BoolVal(k) {
				return true
			}
			return holdsOnAllEntries(at, factsOK)
		}
		if okKind(v) {
			return true
		}
		if phi, isPhi := v.(*ssa.Phi); isPhi && depth < 3 {
			for k, e := range phi.Edges {
				pred := phi.Block().Preds[k]
				if kk, isC := constOf(e); isC && kk.Kind() == constant.Bool && constant.BoolVal(kk) {
					if !factsOK(append(append([]Fact{}, factsAt(pred)...), edgeFacts(pred, phi.Block())...)) {
						return false
					}
					continue
				}
				if !valueOK(e, pred, depth+1) {
					return false
				}
			}
			return true
		}
		return false
	}
	for _, r := range returnsOf(h) {
		if len(r.Results) != 1 || !valueOK(r.Results[0], r.Block(), 0) {
			return false
		}
	}
	return true
}

// ---------------------------------------------------------------------------------------------
// deferred closures guarded by the function's named error result ("clean up if we are returning an error")

type errDefer struct {
	G       *ssa.Function
	D       *ssa.Defer
	Bind    map[*ssa.FreeVar]*ssa.Alloc
	ErrSlot *ssa.Alloc
}

// isResultSlot: a is a slot of f that some return of f loads as one of its results (a named result; with a defer present
// go/ssa returns through such slots).
func isResultSlot(f *ssa.Function, a *ssa.Alloc) bool {
	for _, r := range returnsOf(f) {
		for _, v := range r.Results {
			if ld, ok := strip(v).(*ssa.UnOp); ok && ld.Op == token.MUL && ld.X == ssa.Value(a) {
				return true
			}
		}
	}
	return false
}

// errGuardedDefers: the closures f defers that capture f's error result slot.
func errGuardedDefers(f *ssa.Function) []errDefer {
	var out []errDefer
	allInstrs(f, func(i ssa.Instruction) {
		d, ok := i.(*ssa.Defer)
		if !ok {
			return
		}
		mc, ok := d.Call.Value.(*ssa.MakeClosure)
		if !ok {
			return
		}
		g, ok := mc.Fn.(*ssa.Function)
		if !ok || g.Blocks == nil {
			return
		}
		e := errDefer{G: g, D: d, Bind: map[*ssa.FreeVar]*ssa.Alloc{}}
		for k, b := range mc.Bindings {
			a, isA := b.(*ssa.Alloc)
			if !isA || k >= len(g.FreeVars) {
				continue
			}
			e.Bind[g.FreeVars[k]] = a
			if isErrorType(derefType(a.Type())) && isResultSlot(f, a) {
				e.ErrSlot = a
			}
		}
		if e.ErrSlot != nil {
			out = append(out, e)
		}
	})
	return out
}

// slotOf: the slot of the enclosing function that v (a load of a free variable of the closure) reads.
func (e errDefer) slotOf(v ssa.Value) *ssa.Alloc {
	ld, ok := strip(v).(*ssa.UnOp)
	if !ok || ld.Op != token.MUL {
		return nil
	}
	fv, ok := ld.X.(*ssa.FreeVar)
	if !ok {
		return nil
	}
	return e.Bind[fv]
}

// onError: instruction i of the closure runs only when the error result is non-nil.
func (e errDefer) onError(i ssa.Instruction) bool {
	for _, fct := range factsAt(i.Block()) {
		if x, isNil, ok := nilTest(fct); ok && !isNil && e.slotOf(x) == e.ErrSlot {
			return true
		}
	}
	return false
}

// wipesOnError: the closure wipes (MemClr / a wiping helper) the content of slot `a` whenever the error result is non-nil;
// nilled reports whether it also stores nil into that slot there.
func (e errDefer) wipesOnError(a *ssa.Alloc) (wipes, nilled bool) {
	allInstrs(e.G, func(i ssa.Instruction) {
		if !e.onError(i) {
			return
		}
		if arg, ok := wipeArg(i); ok && e.slotOf(arg) == a {
			wipes = true
		}
		if st, ok := i.(*ssa.Store); ok && isNilValue(st.Val) {
			if fv, isFV := st.Addr.(*ssa.FreeVar); isFV && e.Bind[fv] == a {
				nilled = true
			}
		}
	})
	return
}

// slotHolding: the slot of f whose stores include v (a spilled parameter, a named result assigned from a call).
func slotsHolding(f *ssa.Function, v ssa.Value) []*ssa.Alloc {
	var out []*ssa.Alloc
	allInstrs(f, func(i ssa.Instruction) {
		if st, ok := i.(*ssa.Store); ok && strip(st.Val) == strip(v) {
			if a, isA := st.Addr.(*ssa.Alloc); isA {
				out = append(out, a)
			}
		}
	})
	return out
}

// ---------------------------------------------------------------------------------------------
// Round 10

// ruleC13OneLookupUnderTheRequestedID: a metastore answers a read (and performs a write) under the id it was asked for.
// A method that, on a miss, calls Load / LoadLatest / Store again under a derived id (a "legacy" un-suffixed id, a
// normalised id) returns another key's record as if it were the requested one — and reports (id, created) slots as
// occupied that a later Store then fills.
func ruleC13OneLookupUnderTheRequestedID(c *Ctx) {
	u := c.U1
	c.rule("C13.one-lookup-under-the-requested-id", "inside every Metastore implementation, a call from Load / LoadLatest / Store to a Load / LoadLatest / Store method (its own, or a wrapped metastore's) passes the caller's own key-id (and created) parameters unmodified", 0)
	isMS := map[string]bool{"Load": true, "LoadLatest": true, "Store": true}
	for _, m := range metastoreImpls(c) {
		for mn := range isMS {
			f := u.MethodOf(m.N, mn)
			if f == nil || f.Blocks == nil {
				continue
			}
			c.FuncsAnalysed[shortName(f)] = true
			for _, g := range withAnon(f) {
				allInstrs(g, func(i ssa.Instruction) {
					cc := callOf(i)
					if cc == nil {
						return
					}
					name := methodNameOf(cc)
					if !isMS[name] {
						return
					}
					var args []ssa.Value
					if cc.IsInvoke() {
						if !typeIsNamed(cc.Value.Type(), pkgApp, "Metastore") {
							return
						}
						args = cc.Args
					} else {
						h := cc.StaticCallee()
						if h == nil || h.Signature.Recv() == nil || len(cc.Args) == 0 {
							return
						}
						if _, isImpl := namedOf(derefType(h.Signature.Recv().Type())); !isImpl {
							return
						}
						ok := false
						for _, m2 := range metastoreImpls(c) {
							if n, isN := namedOf(derefType(h.Signature.Recv().Type())); isN && n.Obj() == m2.N.Obj() {
								ok = true
							}
						}
						if !ok {
							return
						}
						args = cc.Args[1:]
					}
					c.CallSites++
					why := ""
					for _, a := range args {
						t := a.Type()
						b, isB := t.Underlying().(*types.Basic)
						if !isB || (b.Kind() != types.String && b.Kind() != types.Int64) {
							continue
						}
						if p, isP := resolveCaptured(resolve(a)).(*ssa.Parameter); !isP || rootFunc(p.Parent()) != f {
							why = describeOperand(resolve(a))
						}
					}
					c.check(why == "", trimPkgDirs(shortName(f))+"/"+name+"-again", u.ipos(i), "same id and created as requested", "the metastore looks up (or writes) under "+why+" instead of the id it was asked for: the caller receives another key's record as the answer for the requested id — e.g. a record stored without the region suffix for a suffixed id, whose (id, created) a later Store then successfully inserts")
				})
			}
		}
	}
	c.ok("metastores/second-lookups", "", "no metastore method repeats a lookup under a derived id")
}

// ruleC17KMSResponsesNotRewritten: what the KMS answered is evidence (which key produced this ciphertext); the plugins
// compare it (the generating region's Encrypt is skipped when the response's KeyId is the client's ARN) and must not
// overwrite it.
func ruleC17KMSResponsesNotRewritten(c *Ctx) {
	u := c.U1
	c.rule("C17.kms-responses-not-rewritten", "in both KMS plugins no field of an SDK response struct (…Output) that was not allocated by the storing function is assigned: in particular GenerateDataKeyOutput.KeyId stays what the KMS reported (the skip-the-generating-region shortcut compares it with each client's ARN)", 0)
	for _, f := range u.RepoFuncs {
		root := rootFunc(f)
		if root.Pkg == nil || f.Blocks == nil {
			continue
		}
		if p := root.Pkg.Pkg.Path(); p != pkgKmsV1 && p != pkgKmsV2 {
			continue
		}
		for _, st := range storesToForeignStructs(f, func(n *types.Named) bool {
			return strings.HasSuffix(n.Obj().Name(), "Output") && n.Obj().Pkg() != nil && strings.Contains(n.Obj().Pkg().Path(), "/service/kms")
		}) {
			c.CallSites++
			_, fld, _ := fieldAccess(st.Addr)
			c.bad(trimPkgDirs(shortName(f))+"/response."+fld+"=", u.ipos(st), "a field of the KMS response is overwritten: the envelope logic then works with the plugin's own claim instead of what the KMS reported — with KeyId rewritten to the configured name, every region configured with the same alias is taken for the generating region, its Encrypt call is skipped and its envelope entry carries another region's ciphertext")
		}
	}
	c.ok("kms/responses", "", "no KMS response field is assigned")
}

// storesToForeignStructs: stores in f to a field of a struct whose named type satisfies pred and which f did not
// allocate itself (a value it received or was handed back by a call).
func storesToForeignStructs(f *ssa.Function, pred func(*types.Named) bool) []*ssa.Store {
	var out []*ssa.Store
	allInstrs(f, func(i ssa.Instruction) {
		st, ok := i.(*ssa.Store)
		if !ok {
			return
		}
		base, _, isF := fieldAccess(st.Addr)
		if !isF {
			return
		}
		n, isN := namedOf(derefType(base.Type()))
		if !isN || !pred(n) {
			return
		}
		if a, isA := resolve(base).(*ssa.Alloc); isA && a.Parent() == f {
			return
		}
		out = append(out, st)
	})
	return out
}

// ruleC01LatestFetchedUnderOwnID: the SDK asks the metastore for "the latest key" only under the partition's own key id —
// what e.partition.SystemKeyID() / IntermediateKeyID() return (or the ID of the KeyMeta a cache loader was called with).
// A fallback lookup under another id (the un-suffixed "legacy" id when a region suffix is configured) adopts a key whose
// record lives elsewhere: it is cached and named in new records under an (id, created) that no metastore row has, so
// only the writing process — from its cache — can read what it writes.
func ruleC01LatestFetchedUnderOwnID(c *Ctx) {
	u := c.U1
	c.rule("C01.latest-fetched-under-the-partitions-own-id", "in package appencryption the id handed to Metastore.LoadLatest is, at every call site and through every parameter, the result of SystemKeyID() / IntermediateKeyID() invoked on the envelope's partition field, or the ID field of a KeyMeta — never the id of another partition value (a type-asserted or embedded default partition) or a derived string", 1)
	n := 0
	for _, f := range u.RepoFuncs {
		root := rootFunc(f)
		if root.Pkg == nil || root.Pkg.Pkg.Path() != pkgApp || f.Blocks == nil {
			continue
		}
		allInstrs(f, func(i ssa.Instruction) {
			cc := callOf(i)
			if cc == nil || !cc.IsInvoke() || cc.Method.Name() != "LoadLatest" || !typeIsNamed(cc.Value.Type(), pkgApp, "Metastore") || len(cc.Args) < 2 {
				return
			}
			n++
			c.CallSites++
			c.FuncsAnalysed[shortName(f)] = true
			why := ownKeyID(cc.Args[1], 0)
			c.check(why == "", trimPkgDirs(shortName(f))+"/LoadLatest(id)", u.ipos(i), "the partition's own key id", "the latest key is looked up under "+why+": a key found there is adopted, cached and named in new records under the partition's current id — an (id, created) that identifies no metastore row, so no other process (and not this one after a restart) can decrypt what is written")
		})
	}
	if n == 0 {
		c.unresolved("appencryption/LoadLatest", "no Metastore.LoadLatest call in package appencryption")
	}
}

func ownKeyID(v ssa.Value, depth int) string {
	v = resolveCaptured(resolve(v))
	switch x := v.(type) {
	case *ssa.Call:
		cc := &x.Call
		if cc.IsInvoke() && (cc.Method.Name() == "SystemKeyID" || cc.Method.Name() == "IntermediateKeyID") {
			if _, fld, ok := fieldAccess(strip(cc.Value)); ok && fld == "partition" {
				return ""
			}
			return cc.Method.Name() + "() of " + describeOperand(cc.Value) + ", not of the envelope's partition"
		}
		if h := cc.StaticCallee(); h != nil {
			return "the result of " + trimPkgDirs(shortName(h))
		}
		return "the result of a call (" + methodNameOf(cc) + ")"
	case *ssa.Parameter:
		if depth > 3 {
			return describeOperand(x)
		}
		g := x.Parent()
		idx := -1
		for k, q := range g.Params {
			if q == x {
				idx = k
			}
		}
		buildCallSiteIndex(g)
		sites := callSiteIndex[orig(g)]
		if idx < 0 || len(sites) == 0 {
			return describeOperand(x)
		}
		for _, ci := range sites {
			if idx >= len(ci.Common().Args) {
				return describeOperand(x)
			}
			if why := ownKeyID(ci.Common().Args[idx], depth+1); why != "" {
				return why
			}
		}
		return ""
	}
	if base, fld, ok := fieldAccess(v); ok && fld == "ID" && namedTypeName(derefType(base.Type())) == "KeyMeta" {
		return ""
	}
	return describeOperand(v)
}

// ruleC16EveryCloseReleasesOneUsage: the cached session object is shared by all holders of a partition; every Get counts
// one usage (incrementUsage) and every Close gives one back. A Close that returns without the decrement on some path
// (an "already closed" flag on the shared object, a fast path) swallows another holder's release: the count never
// returns to zero and the teardown of the evicted session waits forever.
func ruleC16EveryCloseReleasesOneUsage(c *Ctx) {
	u := c.U1
	c.rule("C16.every-close-releases-one-usage", "every path through (*sharedEncryption).Close passes the accessCounter decrement (directly or in a same-type helper), and every path through incrementUsage the increment: hand-outs and releases are counted one for one", 2)
	for _, spec := range []struct {
		meth string
		op   token.Token
		what string
	}{{"Close", token.SUB, "decrement"}, {"incrementUsage", token.ADD, "increment"}} {
		f := u.Method(pkgApp, "sharedEncryption", spec.meth)
		if f == nil || f.Blocks == nil {
			c.unresolved("sharedEncryption."+spec.meth, "method")
			continue
		}
		c.FuncsAnalysed[shortName(f)] = true
		isStep := func(i ssa.Instruction) bool { return isCounterStore(i, spec.op) }
		ok, tr := mustPass(f.Blocks[0], 0, func(i ssa.Instruction) bool {
			if isStep(i) {
				return true
			}
			// a helper of the same type that performs the step on all of its paths
			if h := staticCallee(i); h != nil && h.Blocks != nil && h.Signature.Recv() != nil && typeIsNamed(h.Signature.Recv().Type(), pkgApp, "sharedEncryption") {
				if _, isCall := i.(*ssa.Call); isCall {
					okh, _ := mustPass(h.Blocks[0], 0, isStep, nil)
					return okh
				}
			}
			return false
		}, nil)
		c.CallSites++
		if ok {
			c.ok("sharedEncryption."+spec.meth+"/"+spec.what, u.pos(f.Pos()), "every path counts")
		} else {
			c.bad("sharedEncryption."+spec.meth+"/"+spec.what, u.pos(f.Pos()), "a path through "+spec.meth+" returns without the usage "+spec.what+": the object is shared by every holder of the partition's cached session, so a skipped "+spec.what+" (e.g. behind an \"already closed\" flag that another holder's Close has set) leaves the count off by one — the evicted session is never torn down, or is torn down under a holder", u.tracePositions(tr)...)
		}
	}
}

// ruleC12FailedCreationReleasesOnce: on a failed creation the pages are given back by exactly one mechanism. memcall.Clean
// unlocks and unmaps the inner pages (wiping them first on the real implementation — including memguard's canary), so a
// LockedBuffer.Destroy after it fails its canary check and panics the process; a second Free unmaps memory that may
// already belong to someone else.
func ruleC12FailedCreationReleasesOnce(c *Ctx) {
	u := c.U1
	c.rule("C12.failed-creation-releases-once", "in the secret constructors (memguard newFromBuffer; protectedmemory New, createRandom, newSecret) no page-releasing call (memcall.Clean, Interface.Free, LockedBuffer.Destroy) is reachable after another one on the same path", 2)
	isRelease := func(i ssa.Instruction) string {
		cc := callOf(i)
		if cc == nil {
			return ""
		}
		if _, isCall := i.(*ssa.Call); !isCall {
			return ""
		}
		if h := cc.StaticCallee(); h != nil {
			if funcFullName(h) == pkgMemcall+".Clean" {
				return "memcall.Clean"
			}
			if h.Name() == "Destroy" && h.Signature.Recv() != nil && namedTypeName(derefType(h.Signature.Recv().Type())) == "LockedBuffer" {
				return "LockedBuffer.Destroy"
			}
		}
		if cc.IsInvoke() && cc.Method.Name() == "Free" {
			return "Free"
		}
		return ""
	}
	n := 0
	for _, sp := range []struct{ pkg, typ, meth string }{
		{pkgMemg, "SecretFactory", "newFromBuffer"}, {pkgProt, "SecretFactory", "New"}, {pkgProt, "SecretFactory", "createRandom"}, {pkgProt, "", "newSecret"},
	} {
		var f *ssa.Function
		if sp.typ == "" {
			f = u.Func(sp.pkg, sp.meth)
		} else {
			f = u.Method(sp.pkg, sp.typ, sp.meth)
		}
		if f == nil || f.Blocks == nil {
			c.unresolved(sp.meth, "constructor")
			continue
		}
		c.FuncsAnalysed[shortName(f)] = true
		allInstrs(f, func(i ssa.Instruction) {
			first := isRelease(i)
			if first == "" {
				return
			}
			n++
			c.CallSites++
			var second ssa.Instruction
			found, tr := pathSearchAt(i.Block(), indexOf(i)+1, func(j ssa.Instruction) pathAction {
				if isRelease(j) != "" {
					second = j
					return pathFound
				}
				return pathContinue
			}, nil)
			if found && second != nil {
				c.bad(trimPkgDirs(shortName(f))+"/"+first+"-then-"+isRelease(second), u.ipos(second), "the pages released by "+first+" are released again by "+isRelease(second)+": with the real system calls the first release has wiped and unmapped them — the second one fails its integrity check and panics (taking every other secret of the process with it) or unmaps memory that is no longer this secret's", u.tracePositions(tr)...)
			} else {
				c.ok(trimPkgDirs(shortName(f))+"/"+first, u.ipos(i), "the only release on its paths")
			}
		})
	}
	if n == 0 {
		c.unresolved("constructors/releases", "no release call found in the secret constructors")
	}
}

// ruleC09SimpleCacheStoresWhatItIsGiven: keyCache.load creates a cache entry holding the cache's own reference to the
// key and hands it to keys.Set; the default back end must keep it — an entry it declines (a size bound) is owned by
// nobody, its key is never closed.
func ruleC09SimpleCacheStoresWhatItIsGiven(c *Ctx) {
	u := c.U1
	c.rule("C09.simple-cache-stores-what-it-is-given", "every path through (*simpleCache).Set performs the map update s.m[key] = value with its own parameters: the default key cache back end never drops an entry it is handed (the entry carries the cache's reference to the key)", 1)
	f := u.Method(pkgApp, "simpleCache", "Set")
	if f == nil || f.Blocks == nil || len(f.Params) < 3 {
		c.unresolved("simpleCache.Set", "method")
		return
	}
	c.FuncsAnalysed[shortName(f)] = true
	c.CallSites++
	ok, tr := mustPass(f.Blocks[0], 0, func(i ssa.Instruction) bool {
		mu, isMU := i.(*ssa.MapUpdate)
		if !isMU {
			return false
		}
		_, fld, isF := fieldAccess(strip(mu.Map))
		return isF && fld == "m" && resolve(mu.Key) == ssa.Value(f.Params[1]) && resolve(mu.Value) == ssa.Value(f.Params[2])
	}, nil)
	if ok {
		c.ok("simpleCache.Set/stores", u.pos(f.Pos()), "s.m[key] = value on every path")
	} else {
		c.bad("simpleCache.Set/stores", u.pos(f.Pos()), "a path through simpleCache.Set returns without storing the entry: the entry holds the cache's reference to a freshly loaded key — dropped here, nobody ever closes that key (its locked memory is held until the process ends)", u.tracePositions(tr)...)
	}
}

// sdkLogSwitches: stores in f to a field that switches an AWS SDK client's own logging (ClientLogMode, LogLevel, Logger).
func sdkLogSwitches(f *ssa.Function) []ssa.Instruction {
	var out []ssa.Instruction
	allInstrs(f, func(i ssa.Instruction) {
		st, ok := i.(*ssa.Store)
		if !ok {
			return
		}
		if _, fld, isF := fieldAccess(st.Addr); isF && (fld == "ClientLogMode" || fld == "LogLevel") && !isNilValue(st.Val) {
			if k, isC := constOf(st.Val); isC && k.Kind() == constant.Int && constant.Sign(k) == 0 {
				return
			}
			out = append(out, i)
		}
	})
	return out
}

// ruleC03SDKWireLoggingOff: the AWS SDK clients the plugins build carry plaintext data keys in their request and response
// bodies (GenerateDataKey response, Encrypt request, Decrypt response). The plugins never switch the SDK's wire logging
// on — whatever the SDK's logger prints would put those bodies into log lines.
func ruleC03SDKWireLoggingOff(c *Ctx) {
	u := c.U1
	c.rule("C03.sdk-wire-logging-off", "no function of the KMS and DynamoDB plugins assigns an SDK configuration's ClientLogMode / LogLevel — expected count on the pinned tree: none; positive example in the self-test fixtures", 0)
	for _, f := range u.RepoFuncs {
		root := rootFunc(f)
		if root.Pkg == nil || f.Blocks == nil {
			continue
		}
		switch root.Pkg.Pkg.Path() {
		case pkgKmsV1, pkgKmsV2, pkgDynV1, pkgDynV2:
		default:
			continue
		}
		for _, i := range sdkLogSwitches(f) {
			c.CallSites++
			c.bad(trimPkgDirs(shortName(f))+"/sdk-log-mode", u.ipos(i), "the plugin switches the AWS SDK client's own request/response logging on: KMS GenerateDataKey / Decrypt responses and Encrypt requests carry the plaintext data key in their bodies, which the SDK then writes to the log")
		}
	}
	c.ok("plugins/sdk-logging", "", "no plugin touches the SDK's log mode")
}

// ruleC17EveryEnvelopeEntryConsidered: unwrapping looks at every entry the stored envelope carries. A decoded entry list
// that is re-sliced before the region→entry map is built (a "bound" by the number of configured clients) drops the
// entries beyond the cut: a reader configured with fewer regions than the writer cannot unwrap although its region has
// an entry (and the re-slice panics when the envelope has fewer entries than the bound).
func ruleC17EveryEnvelopeEntryConsidered(c *Ctx) {
	u := c.U1
	c.rule("C17.every-envelope-entry-considered", "in both KMS plugins every range / index over a slice of envelope entries (structs with Region and EncryptedKEK) runs over the list as it was decoded or built — never over a re-slice of it", 2)
	isKEKSlice := func(t types.Type) bool {
		sl, ok := t.Underlying().(*types.Slice)
		if !ok {
			return false
		}
		st, ok := derefType(sl.Elem()).Underlying().(*types.Struct)
		if !ok {
			return false
		}
		has := map[string]bool{}
		for i := 0; i < st.NumFields(); i++ {
			has[st.Field(i).Name()] = true
		}
		return has["Region"] && has["EncryptedKEK"]
	}
	n := 0
	for _, f := range u.RepoFuncs {
		root := rootFunc(f)
		if root.Pkg == nil || (root.Pkg.Pkg.Path() != pkgKmsV1 && root.Pkg.Pkg.Path() != pkgKmsV2) || f.Blocks == nil {
			continue
		}
		allInstrs(f, func(i ssa.Instruction) {
			var base ssa.Value
			switch x := i.(type) {
			case *ssa.IndexAddr:
				base = x.X
			case *ssa.Index:
				base = x.X
			case *ssa.Range:
				base = x.X
			default:
				return
			}
			if !isKEKSlice(base.Type()) {
				return
			}
			n++
			c.CallSites++
			c.FuncsAnalysed[shortName(f)] = true
			resliced := false
			seen := map[ssa.Value]bool{}
			var walk func(v ssa.Value, d int)
			walk = func(v ssa.Value, d int) {
				v = resolve(v)
				if seen[v] || d > 4 {
					return
				}
				seen[v] = true
				switch x := v.(type) {
				case *ssa.Slice:
					if _, isArr := derefType(x.X.Type()).Underlying().(*types.Array); !isArr && (x.Low != nil || x.High != nil) {
						resliced = true
					}
				case *ssa.Phi:
					for _, e := range x.Edges {
						walk(e, d+1)
					}
				case *ssa.UnOp:
					if a, isA := x.X.(*ssa.Alloc); isA && x.Op == token.MUL {
						for _, s := range localStores(a) {
							walk(s, d+1)
						}
					}
				}
			}
			walk(base, 0)
			c.check(!resliced, trimPkgDirs(shortName(f))+"/entries["+describeOperand(base)+"]", u.ipos(i), "the whole entry list", "the envelope's entries are cut down before they are looked at: entries beyond the cut are never matched to a configured region — a reader whose region's entry sits there cannot unwrap the key although that region is able to decrypt (and an envelope with fewer entries than the bound panics the re-slice)")
		})
	}
	if n == 0 {
		c.unresolved("kms/entry-loops", "no element access into an envelope entry slice found")
	}
}

// ---------------------------------------------------------------------------------------------
// backend reads delegated to a helper of the metastore's package

// isDynamoRead: i invokes GetItem* / Query* on the metastore's svc client.
func isDynamoRead(i ssa.Instruction) bool {
	cc := callOf(i)
	if cc == nil || !cc.IsInvoke() {
		return false
	}
	if _, fld, ok := fieldAccess(cc.Value); !ok || fld != "svc" {
		return false
	}
	return strings.HasPrefix(cc.Method.Name(), "GetItem") || strings.HasPrefix(cc.Method.Name(), "Query")
}

// readHelpersOf: the same-package functions f calls statically that contain a backend read (one level).
func readHelpersOf(f *ssa.Function) []*ssa.Function { return readHelpersWith(f, isDynamoRead) }

// readHelpersWith: the same-package functions f calls statically that contain an instruction satisfying isRead.
func readHelpersWith(f *ssa.Function, isRead func(ssa.Instruction) bool) []*ssa.Function {
	var out []*ssa.Function
	seen := map[*ssa.Function]bool{}
	allInstrs(f, func(i ssa.Instruction) {
		if _, isCall := i.(*ssa.Call); !isCall {
			return
		}
		g := staticCallee(i)
		if g == nil || g.Blocks == nil || g.Pkg != f.Pkg || g == f || seen[g] {
			return
		}
		if containsInstr(g, isRead) {
			seen[g] = true
			out = append(out, g)
		}
	})
	return out
}

// sqlForwarder: h is an unexported function of pkg/persistence that hands its own query-string parameter and its own
// variadic parameter straight to one database/sql statement call (queryEnvelope(ctx, query, args...)): the indices of
// those two parameters.
func sqlForwarder(h *ssa.Function) (queryIdx, bindIdx int, ok bool) {
	if h == nil || h.Blocks == nil || h.Pkg == nil || h.Pkg.Pkg.Path() != pkgPersist || h.Object() == nil || h.Object().Exported() || !h.Signature.Variadic() {
		return 0, 0, false
	}
	n := 0
	queryIdx, bindIdx = -1, -1
	allInstrs(h, func(i ssa.Instruction) {
		if !(staticIs(i, "(*database/sql.DB).ExecContext") || staticIs(i, "(*database/sql.DB).QueryRowContext") || staticIs(i, "(*database/sql.DB).QueryContext")) {
			return
		}
		n++
		args := callOf(i).Args
		for k, p := range h.Params {
			if len(args) > 3 && resolve(args[2]) == ssa.Value(p) {
				queryIdx = k
			}
			if len(args) > 3 && resolve(args[3]) == ssa.Value(p) {
				bindIdx = k
			}
		}
	})
	return queryIdx, bindIdx, n == 1 && queryIdx >= 0 && bindIdx >= 0
}

// maybeReturning: g reports (value[, found bool], error) — a helper that may come back with nothing.
func maybeReturning(g *ssa.Function) bool {
	res := g.Signature.Results()
	if res.Len() < 2 || res.Len() > 3 || !isErrorType(res.At(res.Len()-1).Type()) {
		return false
	}
	switch res.At(0).Type().Underlying().(type) {
	case *types.Pointer, *types.Map, *types.Slice, *types.Interface:
	default:
		return false
	}
	if res.Len() == 3 {
		b, ok := res.At(1).Type().Underlying().(*types.Basic)
		return ok && b.Kind() == types.Bool
	}
	return true
}

// nothingReturn: r returns "nothing and no error": nil first result, nil error, and false for a found flag in between.
func nothingReturn(r *ssa.Return) bool {
	n := len(r.Results)
	if n < 2 || !isNilValue(returnedValue(r, 0)) || !isNilValue(returnedValue(r, n-1)) {
		return false
	}
	if n == 3 {
		k, isC := constOf(returnedValue(r, 1))
		return isC && k.Kind() == constant.Bool && !constant.BoolVal(k)
	}
	return n == 2
}

// readsBeforeValue: every path of h to a return with a non-nil first result passes isRead.
func readsBeforeValue(h *ssa.Function, isRead func(ssa.Instruction) bool) bool {
	found, _ := pathSearchAt(h.Blocks[0], 0, func(i ssa.Instruction) pathAction {
		if isRead(i) {
			return pathStop
		}
		if r, ok := i.(*ssa.Return); ok && len(r.Results) > 0 && !isNilValue(returnedValue(r, 0)) {
			return pathFound
		}
		return pathContinue
	}, nil)
	return !found
}

// ---------------------------------------------------------------------------------------------
// Round 11

// constantSeededExtremes: loop-carried integer values of f (phis with a numeric constant on one incoming edge and a value
// that depends on the loop on another) that are an operand of an ordering comparison evaluated without any guard on a
// loop-carried flag — a running maximum / minimum seeded with a constant such as 0. The type's own minimum / maximum is a
// neutral seed and is accepted.
func constantSeededExtremes(f *ssa.Function) []ssa.Instruction {
	var out []ssa.Instruction
	allInstrs(f, func(i ssa.Instruction) {
		phi, ok := i.(*ssa.Phi)
		if !ok {
			return
		}
		bt, isB := phi.Type().Underlying().(*types.Basic)
		if !isB || bt.Info()&types.IsInteger == 0 {
			return
		}
		seeded, looped := false, false
		for _, e := range phi.Edges {
			if k, isC := constOf(e); isC && k.Kind() == constant.Int {
				s := k.ExactString()
				if s == "-9223372036854775808" || s == "9223372036854775807" || s == "-2147483648" || s == "2147483647" {
					continue
				}
				seeded = true
				continue
			}
			looped = true
		}
		if !seeded || !looped || phi.Referrers() == nil {
			return
		}
		// the phi must be fed (directly or through another phi) by a map-range key or slice element: a running extreme
		fedByRange := false
		var walk func(v ssa.Value, d int)
		seen := map[ssa.Value]bool{}
		walk = func(v ssa.Value, d int) {
			if seen[v] || d > 4 {
				return
			}
			seen[v] = true
			switch x := v.(type) {
			case *ssa.Phi:
				for _, e := range x.Edges {
					walk(e, d+1)
				}
			case *ssa.Extract:
				if _, isNext := x.Tuple.(*ssa.Next); isNext {
					fedByRange = true
				}
			case *ssa.UnOp:
				if _, isIA := x.X.(*ssa.IndexAddr); isIA {
					fedByRange = true
				}
			}
		}
		walk(phi, 0)
		if !fedByRange {
			return
		}
		for _, r := range *phi.Referrers() {
			bo, isBO := r.(*ssa.BinOp)
			if !isBO {
				continue
			}
			switch bo.Op {
			case token.LSS, token.LEQ, token.GTR, token.GEQ:
			default:
				continue
			}
			guarded := false
			for _, fct := range factsAt(bo.Block()) {
				if p, isP := strip(fct.V).(*ssa.Phi); isP {
					if b2, ok := p.Type().Underlying().(*types.Basic); ok && b2.Kind() == types.Bool {
						guarded = true
					}
				}
			}
			if !guarded {
				out = append(out, bo)
			}
		}
	})
	return out
}

// ruleC13LatestNotSeededByConstant: the in-memory LoadLatest picks the greatest creation key of an id. A running maximum
// that starts at a constant (0) instead of at an element is wrong for ids all of whose keys lie below it: the look-up of
// the "maximum" misses and the id is reported as having no key although Load finds every record.
func ruleC13LatestNotSeededByConstant(c *Ctx) {
	u := c.U1
	c.rule("C13.latest-not-seeded-by-a-constant", "in MemoryMetastore.LoadLatest (and the package helpers it calls) no running maximum / minimum over the creation keys is seeded with a numeric constant other than the type's own extreme, unless the comparison is guarded by a first-iteration flag — expected count on the pinned tree: none; positive example in the self-test fixtures", 0)
	n := u.Named(pkgPersist, "MemoryMetastore")
	var f *ssa.Function
	if n != nil {
		f = u.MethodOf(n, "LoadLatest")
	}
	if f == nil || f.Blocks == nil {
		c.unresolved("MemoryMetastore.LoadLatest", "method")
		return
	}
	fs := []*ssa.Function{f}
	allInstrs(f, func(i ssa.Instruction) {
		if h := staticCallee(i); h != nil && h.Blocks != nil && h.Pkg == f.Pkg && h != f {
			fs = append(fs, h)
		}
	})
	for _, g := range fs {
		c.FuncsAnalysed[shortName(g)] = true
		for _, i := range constantSeededExtremes(g) {
			c.CallSites++
			c.bad(trimPkgDirs(shortName(g))+"/running-extreme", u.ipos(i), "the latest creation time is computed as a running maximum that starts at a constant: for an id whose stored creation times all lie below it (e.g. negative, pre-epoch timestamps with a seed of 0) the computed \"latest\" is the seed itself, its look-up misses, and LoadLatest reports that the id has no key although Load returns each of its records")
		}
	}
	c.ok("MemoryMetastore.LoadLatest/seed", "", "no constant-seeded running extreme")
}

// knownNilReturnedOverCandidate: returns of f (a function returning one pointer) that, on some way in, hand back a value
// that a branch has just established to be nil while another value of the same type is established non-nil there.
func knownNilReturnedOverCandidate(f *ssa.Function) []ssa.Instruction {
	var out []ssa.Instruction
	if f.Blocks == nil || f.Signature.Results().Len() != 1 {
		return nil
	}
	if _, isPtr := f.Signature.Results().At(0).Type().Underlying().(*types.Pointer); !isPtr {
		return nil
	}
	for _, r := range returnsOf(f) {
		v := strip(returnedValue(r, 0))
		if isNilValue(v) {
			continue
		}
		var entries [][]Fact
		b := r.Block()
		if len(b.Preds) <= 1 {
			entries = append(entries, factsAt(b))
		} else {
			for _, p := range b.Preds {
				entries = append(entries, append(append([]Fact{}, factsAt(p)...), edgeFacts(p, b)...))
			}
		}
		// the value returned per entry (a phi returns the edge's value)
		for k, facts := range entries {
			rv := v
			if phi, isPhi := v.(*ssa.Phi); isPhi && phi.Block() == b && k < len(phi.Edges) {
				rv = strip(phi.Edges[k])
			}
			nilHere, other := false, false
			for _, fct := range facts {
				x, isNil, ok := nilTest(fct)
				if !ok || fct.Sub != nil {
					continue
				}
				x = strip(x)
				if x == rv && isNil {
					nilHere = true
				}
				if x != rv && !isNil && types.Identical(x.Type(), rv.Type()) {
					other = true
				}
			}
			if nilHere && other {
				out = append(out, r)
				break
			}
		}
	}
	return out
}

// ruleC15VictimNotEmptyHanded: a policy's Victim() must name an entry whenever the policy holds one — evict() and the
// Close drain dereference what it returns. A Victim that merges its segments must not answer with the segment that has
// just been found empty while the other one has a candidate.
func ruleC15VictimNotEmptyHanded(c *Ctx) {
	u := c.U1
	c.rule("C15.victim-not-empty-handed", "no Victim() method of a cache policy returns, on any way into the return, a value a branch has established to be nil while another candidate of the same type is established non-nil there", 3)
	n := 0
	for _, f := range u.RepoFuncs {
		if f.Pkg == nil || f.Pkg.Pkg.Path() != pkgCache || f.Blocks == nil || f.Name() != "Victim" || f.Signature.Recv() == nil {
			continue
		}
		n++
		c.CallSites++
		c.FuncsAnalysed[shortName(f)] = true
		bad := knownNilReturnedOverCandidate(f)
		if len(bad) == 0 {
			c.ok(trimPkgDirs(shortName(f))+"/returns", u.pos(f.Pos()), "no empty-handed return while a candidate is at hand")
			continue
		}
		for _, r := range bad {
			c.bad(trimPkgDirs(shortName(f))+"/returns", u.ipos(r), "Victim returns a value known to be nil here although the other segment has a candidate: with entries only in that segment (e.g. the admission window of a closing TinyLFU cache) evict() receives nil and panics — the remaining entries never get their eviction callback")
		}
	}
	if n == 0 {
		c.unresolved("cache/Victim", "no Victim method found")
	}
}

// ruleC15UnlinkBeforeNotify: an entry is taken out of the index, the size and the policy before its eviction is announced
// (synchronous callback or event send): the callback may panic or block, and whatever happens next must not find the
// entry still registered — it would be evicted, and announced, a second time.
func ruleC15UnlinkBeforeNotify(c *Ctx) {
	u := c.U1
	c.rule("C15.unlink-before-notify", "in cache.evictItem every notification (callback call, evict event send) is dominated by the removal of the item from byKey, by the size decrement and by policy.Remove (inline or in a same-type helper that performs them on all of its paths)", 2)
	f := u.Method(pkgCache, "cache", "evictItem")
	if f == nil || f.Blocks == nil {
		c.unresolved("cache.evictItem", "method")
		return
	}
	c.FuncsAnalysed[shortName(f)] = true
	isUnlink := func(i ssa.Instruction, what string) bool {
		switch what {
		case "byKey":
			if cc := callOf(i); cc != nil {
				if b, ok := cc.Value.(*ssa.Builtin); ok && b.Name() == "delete" && len(cc.Args) > 0 {
					_, fld, isF := fieldAccess(strip(cc.Args[0]))
					return isF && fld == "byKey"
				}
			}
		case "size":
			for _, d := range fieldDecrements(i.Parent()) {
				if d.Instr == i && d.Field == "size" {
					return true
				}
			}
		case "policy":
			if cc := callOf(i); cc != nil && cc.IsInvoke() && cc.Method.Name() == "Remove" {
				_, fld, isF := fieldAccess(strip(cc.Value))
				return isF && fld == "policy"
			}
		}
		return false
	}
	steps := func(i ssa.Instruction, what string) bool {
		if isUnlink(i, what) {
			return true
		}
		if _, isCall := i.(*ssa.Call); isCall {
			if h := staticCallee(i); h != nil && h.Blocks != nil && h != f && h.Signature.Recv() != nil && typeIsNamed(h.Signature.Recv().Type(), pkgCache, "cache") {
				ok, _ := mustPass(h.Blocks[0], 0, func(j ssa.Instruction) bool { return isUnlink(j, what) }, nil)
				return ok
			}
		}
		return false
	}
	n := 0
	allInstrs(f, func(i ssa.Instruction) {
		notify := false
		if cc := callOf(i); cc != nil && !cc.IsInvoke() && cc.StaticCallee() == nil {
			if _, fld, ok := fieldAccess(strip(cc.Value)); ok && fld == "onEvictCallback" {
				notify = true
			}
		}
		if s, ok := i.(*ssa.Send); ok {
			if _, fld, isF := fieldAccess(strip(s.Chan)); isF && fld == "events" {
				notify = true
			}
		}
		if !notify {
			return
		}
		n++
		c.CallSites++
		missing := ""
		for _, what := range []string{"byKey", "size", "policy"} {
			done := false
			allInstrs(f, func(j ssa.Instruction) {
				if steps(j, what) && instrDominates(j, i) {
					done = true
				}
			})
			if !done {
				missing = what
			}
		}
		c.check(missing == "", "cache.evictItem/notify", u.ipos(i), "unlinked before announced", "the eviction is announced before the item is taken out of "+missing+": a callback that panics (or an event send that never returns) leaves the entry registered — it stays retrievable, is counted, and is evicted and announced again later")
	})
	if n == 0 {
		c.bad("cache.evictItem/notify", u.pos(f.Pos()), "no notification found in evictItem")
	}
}

// ruleC14LoadedRecordsNotModified: a key record that came out of the metastore is evidence, not working storage. The
// in-memory metastore hands out the very records it stores, so a field written by the SDK (a Revoked flag "derived" from
// the parent key) changes what the metastore holds — a persisted record is modified without a Store.
func ruleC14LoadedRecordsNotModified(c *Ctx) {
	u := c.U1
	c.rule("C14.loaded-records-not-modified", "no function of package appencryption assigns a field of an EnvelopeKeyRecord (or of its parent KeyMeta) that it did not allocate itself: records received from the metastore, the caches or a caller are read-only — expected count on the pinned tree: none", 0)
	for _, f := range u.RepoFuncs {
		root := rootFunc(f)
		if root.Pkg == nil || root.Pkg.Pkg.Path() != pkgApp || f.Blocks == nil {
			continue
		}
		for _, st := range storesToForeignStructs(f, func(n *types.Named) bool {
			return n.Obj().Pkg() != nil && n.Obj().Pkg().Path() == pkgApp && n.Obj().Name() == "EnvelopeKeyRecord"
		}) {
			c.CallSites++
			_, fld, _ := fieldAccess(st.Addr)
			c.bad(trimPkgDirs(shortName(f))+"/record."+fld+"=", u.ipos(st), "a field of a key record this function did not create is overwritten: with a metastore that hands out its stored records (the in-memory one) the persisted record itself changes — LoadLatest then reports a key as revoked that nobody revoked, and racing creators no longer converge on what was stored")
		}
	}
	c.ok("appencryption/loaded-records", "", "no received key record is written to")
}

// ---------------------------------------------------------------------------------------------
// string templates: what a string-valued expression looks like as "constant text with %s holes"

// stringTemplate renders v as a format with one %s per non-constant operand: constants, `+` concatenations, fmt.Sprintf
// with a constant format, strings.Join of a literal / variadic list with a constant separator, and same-package helpers
// that return such an expression of their parameters (bound to the arguments of the call being looked at).
func stringTemplate(v ssa.Value, bind map[*ssa.Parameter]ssa.Value, depth int) (string, []ssa.Value, bool) {
	if depth > 4 {
		return "", nil, false
	}
	v = resolve(v)
	if p, ok := v.(*ssa.Parameter); ok {
		if a, has := bind[p]; has {
			return stringTemplate(a, nil, depth+1)
		}
		return "%s", []ssa.Value{v}, true
	}
	if k, isC := constOf(v); isC && k.Kind() == constant.String {
		return strings.ReplaceAll(constant.StringVal(k), "%", "%%"), nil, true
	}
	switch x := v.(type) {
	case *ssa.BinOp:
		if x.Op == token.ADD {
			f1, p1, ok1 := stringTemplate(x.X, bind, depth+1)
			f2, p2, ok2 := stringTemplate(x.Y, bind, depth+1)
			if ok1 && ok2 {
				return f1 + f2, append(p1, p2...), true
			}
		}
	case *ssa.Call:
		if staticIs(x, "fmt.Sprintf") && len(x.Call.Args) == 2 {
			if k, isC := constOf(resolve(x.Call.Args[0])); isC && k.Kind() == constant.String {
				var parts []ssa.Value
				for _, a := range varargValues(x.Call.Args[1]) {
					if mi, isMI := a.(*ssa.MakeInterface); isMI {
						a = mi.X
					}
					if p, isP := resolve(a).(*ssa.Parameter); isP {
						if b, has := bind[p]; has {
							a = b
						}
					}
					parts = append(parts, a)
				}
				return constant.StringVal(k), parts, true
			}
			return "", nil, false
		}
		if staticIs(x, "strings.Join") && len(x.Call.Args) == 2 {
			sep, isC := constOf(resolve(x.Call.Args[1]))
			if !isC || sep.Kind() != constant.String {
				return "", nil, false
			}
			var elems []ssa.Value
			list := resolve(x.Call.Args[0])
			if p, isP := list.(*ssa.Parameter); isP {
				if b, has := bind[p]; has {
					elems = varargValues(b)
					if elems == nil {
						return "", nil, false
					}
				} else {
					return "", nil, false
				}
			} else {
				elems = varargValues(x.Call.Args[0])
				if elems == nil {
					return "", nil, false
				}
			}
			var fs []string
			var parts []ssa.Value
			for _, e := range elems {
				f, p, ok := stringTemplate(e, nil, depth+1)
				if !ok {
					return "", nil, false
				}
				fs = append(fs, f)
				parts = append(parts, p...)
			}
			return strings.Join(fs, strings.ReplaceAll(constant.StringVal(sep), "%", "%%")), parts, true
		}
		if h := staticCallee(x); h != nil && h.Blocks != nil && x.Parent() != nil && h.Pkg == x.Parent().Pkg && h.Signature.Results().Len() == 1 {
			rets := returnsOf(h)
			if len(rets) != 1 {
				return "", nil, false
			}
			nb := map[*ssa.Parameter]ssa.Value{}
			for k, p := range h.Params {
				if k < len(x.Call.Args) {
					a := x.Call.Args[k]
					if ap, isP := resolve(a).(*ssa.Parameter); isP {
						if b, has := bind[ap]; has {
							a = b
						}
					}
					nb[p] = a
				}
			}
			return stringTemplate(rets[0].Results[0], nb, depth+1)
		}
	}
	if b, isB := v.Type().Underlying().(*types.Basic); isB && b.Info()&types.IsString != 0 {
		return "%s", []ssa.Value{v}, true
	}
	return "", nil, false
}

// ---------------------------------------------------------------------------------------------
// the in-memory metastore's per-id sub-map obtained through a helper

// subMapHelper: h is a function of the persistence package that does nothing but look its parameter up in the Envelopes
// map and hand back the sub-map (and, optionally, the comma-ok flag of that very look-up). It returns the index of the
// parameter that is the id.
func subMapHelper(h *ssa.Function) (int, bool) {
	if h == nil || h.Blocks == nil {
		return 0, false
	}
	res := h.Signature.Results()
	if res.Len() < 1 || res.Len() > 2 {
		return 0, false
	}
	if _, isMap := res.At(0).Type().Underlying().(*types.Map); !isMap {
		return 0, false
	}
	idx := -1
	for _, r := range returnsOf(h) {
		v := resolve(returnedValue(r, 0))
		var lk *ssa.Lookup
		switch x := v.(type) {
		case *ssa.Lookup:
			lk = x
		case *ssa.Extract:
			lk, _ = x.Tuple.(*ssa.Lookup)
			if x.Index != 0 {
				return 0, false
			}
		}
		if lk == nil || !strings.HasSuffix(accessPath(lk.X), ".Envelopes") {
			return 0, false
		}
		p, isP := resolve(lk.Index).(*ssa.Parameter)
		if !isP {
			return 0, false
		}
		k := -1
		for j, q := range h.Params {
			if q == p {
				k = j
			}
		}
		if k < 0 || (idx >= 0 && idx != k) {
			return 0, false
		}
		idx = k
		if len(r.Results) == 2 {
			ok2, isE := resolve(returnedValue(r, 1)).(*ssa.Extract)
			if !isE || ok2.Tuple != ssa.Value(lk) || ok2.Index != 1 {
				return 0, false
			}
		}
	}
	return idx, idx >= 0
}

// subMapFromHelper: v is the sub-map (result 0) of a call to a subMapHelper; returns the id argument of that call.
func subMapFromHelper(v ssa.Value) (ssa.Value, *ssa.Call, bool) {
	v = resolve(v)
	if ex, ok := v.(*ssa.Extract); ok {
		if ex.Index != 0 {
			return nil, nil, false
		}
		v = ex.Tuple
	}
	cv, ok := v.(*ssa.Call)
	if !ok {
		return nil, nil, false
	}
	h := staticCallee(cv)
	k, isH := subMapHelper(h)
	if !isH || k >= len(cv.Call.Args) {
		return nil, nil, false
	}
	return cv.Call.Args[k], cv, true
}
