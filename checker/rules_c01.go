package main

// C01 — anything encrypted decrypts back (DESIGN §3 C01). Writer/reader provenance agreement, no validity gate on
// read, old keys addressable, caller buffers immutable.

import (
	"fmt"
	"go/token"
	"go/types"
	"strings"

	"golang.org/x/tools/go/ssa"
)

func init() {
	register(&propSpec{
		ID:            "C01",
		UsesCallGraph: true,
		Title:         "Anything encrypted decrypts back, across time, rotation, caches and processes",
		Explanation: "Structural necessary conditions of C01 (the code's own writer/reader pairing is the oracle): (provenance-encrypt) the record built by EncryptPayload names, as parent, Created() of the very key value whose bytes " +
			"wrapped the DRK and the id the cache was asked for, Data is the payload under the DRK and Key.EncryptedKey the DRK under that IK; (provenance-decrypt) decryptRow unwraps Key.EncryptedKey with the IK bytes and decrypts " +
			"Data with exactly that result; the loaders pass the requested (ID, Created) unmodified to Metastore.Load and fetch the parent by the stored ParentKeyMeta; (no-validity-gate-on-read) no expiry/revocation predicate is " +
			"reachable from DecryptDataRowRecord; (old-keys-addressable) the cache key of a non-latest lookup derives from both ID and Created and nothing ever deletes cache entries or the latest map; (caller-buffers-immutable) the " +
			"caller's payload and record bytes are never written: no store/copy/Seal-Open destination/wipe on them; (shared with C02/C08) a record only names keys whose store succeeded, and cached keys are not destroyed while cached. Byte-level round-trip equality is not decided.",
		NotDecided:  []string{"equality of decrypted bytes with the original for all payloads/histories/configurations", "what AES-GCM computes", "cross-process behaviour, eviction/rotation interleavings"},
		Assumptions: []string{"AEAD implementations are inverse pairs (Decrypt(Encrypt(p,k),k)=p)", "Metastore.Load returns what Store stored (C13)"},
		Tech:        "static analysis: value provenance over SSA (writer/reader agreement), closure-binding call-graph reachability, no-write-through may-flow on caller buffers",
		NeedU1:      true,
		Rules:       []func(*Ctx){ruleC01ProvenanceEncrypt, ruleC01ProvenanceDecrypt, ruleC01NoValidityGateOnRead, ruleC01NoExtraGateOnRead, ruleC01OldKeysAddressable, ruleC01CallerBuffersImmutable, ruleC08RefcountProtocol, ruleC08EveryHandoutCounted, ruleC16TeardownWaits, ruleC16GetAtomic, lostUpdateRule("C16", "github.com/godaddy/asherah/go/appencryption"), ruleC17EntryPerSuccess, ruleC17WorkerContextLives, ruleC18GCMLayout, ruleC07LengthGuard, ruleC02FreshKeyOnlyIfStored, ruleC02SuccessIsStoreBool, ruleC13InsertOnly, ruleC13StoreResult, ruleC13KeyFidelity, ruleC10WipedBuffersAreOwned, ruleC01DependenciesNotClosed, ruleC01LatestLookupUsesMarker, ruleC10WipeNotEarly, ruleC13FieldFidelity, ruleC01LatestFetchedUnderOwnID, ruleC08SharedCacheCreatedOnlyWhenFlagged, ruleC18RegionSuffixResolvedOnEveryPath, ruleC13KMSInputNotModified, ruleC08SessionCloseOnlyClosesEncryption, ruleC18KeyIDOperands},
	})
}

// accessorOn: v is result #0 of an accessor call (WithKeyFunc / WithBytesFunc) on key `key`; returns the action func.
func accessorOn(v ssa.Value) (key ssa.Value, action *ssa.Function, ok bool) {
	ex, isEx := resolve(v).(*ssa.Extract)
	if !isEx || ex.Index != 0 {
		return nil, nil, false
	}
	call, isC := ex.Tuple.(*ssa.Call)
	if !isC {
		return nil, nil, false
	}
	act, isAcc := accessorAction(call)
	if !isAcc {
		return nil, nil, false
	}
	af := actionFunc(act)
	if af == nil {
		return nil, nil, false
	}
	args := callArgs(&call.Call)
	return resolve(args[0]), af, true
}

// soleAEADCall: the single AEAD.<meth> invoke in fn (nil if none or several).
func soleAEADCall(fn *ssa.Function, meth string) *ssa.Call {
	var out *ssa.Call
	n := 0
	allInstrs(fn, func(i ssa.Instruction) {
		if invokeIs(i, pkgApp, "AEAD", meth) {
			n++
			out, _ = i.(*ssa.Call)
		}
	})
	if n != 1 {
		return nil
	}
	return out
}

func ruleC01ProvenanceEncrypt(c *Ctx) {
	u := c.U1
	c.rule("C01.provenance-encrypt", "in every Encryption.EncryptPayload that builds a DataRowRecord: ParentKeyMeta.Created is Created() of the same key value whose bytes wrap the DRK, ParentKeyMeta.ID is the id the IK cache was asked for, Data = AEAD.Encrypt(payload, DRK bytes), Key.EncryptedKey = AEAD.Encrypt(DRK bytes, IK bytes), Key.Created = DRK.Created()", 5)
	f := u.Method(pkgApp, "envelopeEncryption", "EncryptPayload")
	if f == nil {
		c.unresolved("EncryptPayload", "(*envelopeEncryption).EncryptPayload")
		return
	}
	c.FuncsAnalysed[shortName(f)] = true
	var drr *ssa.Alloc
	allInstrs(f, func(i ssa.Instruction) {
		if a, ok := i.(*ssa.Alloc); ok && a.Comment == "complit" && typeIsNamed(a.Type(), pkgApp, "DataRowRecord") {
			drr = a
		}
	})
	name := shortName(f)
	if drr == nil {
		c.bad(name+"/record", u.pos(f.Pos()), "EncryptPayload builds no DataRowRecord literal")
		return
	}
	top := litFields(drr)
	key := litFields(resolve(top["Key"]))
	pkm := litFields(resolve(key["ParentKeyMeta"]))
	// the IK: result of ikCache.GetOrLoadLatest(partition.IntermediateKeyID(), loader)
	var ikCall *ssa.Call
	allInstrs(f, func(i ssa.Instruction) {
		if invokeIs(i, pkgApp, "keyCacher", "GetOrLoadLatest") {
			ikCall, _ = i.(*ssa.Call)
		}
	})
	if ikCall == nil {
		c.bad(name+"/ik", u.pos(f.Pos()), "no keyCacher.GetOrLoadLatest call for the intermediate key")
		return
	}
	var ik ssa.Value
	for _, pr := range resultsOfType(ikCall, isCachedKeyPtr) {
		ik = pr[0]
	}
	isIKID := func(v ssa.Value) bool {
		cv, ok := resolve(v).(*ssa.Call)
		return ok && cv.Call.IsInvoke() && cv.Call.Method.Name() == "IntermediateKeyID" && typeIsNamed(cv.Call.Value.Type(), pkgApp, "partition")
	}
	_, fld, _ := fieldAccess(ikCall.Call.Value)
	c.check(isIKID(ikCall.Call.Args[0]) && fld == "ikCache", name+"/ik-lookup", u.ipos(ikCall), "IK obtained from ikCache.GetOrLoadLatest(partition.IntermediateKeyID())", "the key used to wrap DRKs is not looked up in the IK cache under the partition's IntermediateKeyID()")
	pkmID, pkmKey, _ := keyMetaParts(key["ParentKeyMeta"])
	_ = pkm
	c.check(pkmID != nil && isIKID(pkmID), name+"/parent-id", u.ipos(drr), "ParentKeyMeta.ID = partition.IntermediateKeyID()", "the record's ParentKeyMeta.ID is not the id the IK was looked up under: decrypt will look for another key")
	// symbolic values of the two ciphertext fields (independent of whether the AEAD calls are inline closures or helpers)
	root := &symEnv{fn: f, params: map[*ssa.Parameter]*term{}}
	tKey := symEval(key["EncryptedKey"], root, 0)
	tData := symEval(top["Data"], root, 0)
	c.note("C01.provenance-encrypt: Key.EncryptedKey = %s ; Data = %s", tKey, tData)
	// Key.EncryptedKey = enc(bytes(DRK), bytes(IK)) with IK the key obtained above
	var drkFromWrap ssa.Value
	wrapOK := tKey.Kind == "enc" && tKey.A.keyValue() != nil && tKey.B.keyValue() != nil
	if wrapOK {
		drkFromWrap = tKey.A.keyValue()
		wrapOK = ik != nil && cachedKeyBase(tKey.B.keyValue()) == ik
	}
	c.check(wrapOK, name+"/wrapped-drk", u.ipos(drr), "Key.EncryptedKey = "+tKey.String(), "Key.EncryptedKey is not the DRK's bytes encrypted under the bytes of the intermediate key the record names as parent: "+tKey.String())
	// ParentKeyMeta.Created = Created() of that same key value
	pcOK := false
	if pkmKey != nil {
		pcOK = cachedKeyBase(pkmKey) == ik || pkmKey == ik
	}
	c.check(pcOK, name+"/parent-created", u.ipos(drr), "ParentKeyMeta.Created = Created() of the key whose bytes wrapped the DRK", "ParentKeyMeta.Created is not taken from the intermediate key that wrapped the DRK (e.g. the DRK's or another key's stamp): the record points at a key version that cannot unwrap it")
	// Data = enc(val(payload), bytes(DRK))
	var drk ssa.Value
	dataOK := tData.Kind == "enc" && tData.A.Kind == "val" && isParamOrCaptured(tData.A.V, f, 2) && tData.B.keyValue() != nil
	if dataOK {
		drk = tData.B.keyValue()
	}
	c.check(dataOK, name+"/data", u.ipos(drr), "Data = "+tData.String(), "Data is not the caller's payload encrypted under a data row key's bytes: "+tData.String())
	c.check(drk != nil && drkFromWrap != nil && drk == drkFromWrap, name+"/same-drk", u.ipos(drr), "the key that encrypted Data is the key stored (wrapped) in Key.EncryptedKey", "the key that encrypted the payload is not the one wrapped into the record: the record cannot be decrypted")
	kcOK := false
	if cv, ok := resolve(key["Created"]).(*ssa.Call); ok && methodNameOf(&cv.Call) == "Created" {
		kcOK = resolve(receiverOf(&cv.Call)) == drk
	}
	c.check(kcOK, name+"/drk-created", u.ipos(drr), "Key.Created = DRK.Created()", "Key.Created is not the data row key's stamp")
}

// resolveCaptured resolves v through closure captures up to the defining function's value.
func resolveCaptured(v ssa.Value) ssa.Value {
	for n := 0; n < 8; n++ {
		v = resolve(v)
		var fv *ssa.FreeVar
		switch x := v.(type) {
		case *ssa.FreeVar:
			fv = x
		case *ssa.UnOp:
			if x.Op == token.MUL {
				fv, _ = x.X.(*ssa.FreeVar)
			}
		}
		if fv == nil {
			return v
		}
		fn := fv.Parent()
		idx := -1
		for i, y := range fn.FreeVars {
			if y == fv {
				idx = i
			}
		}
		mcs := makeClosuresOf(fn)
		if idx < 0 || len(mcs) != 1 {
			return v
		}
		b := mcs[0].Bindings[idx]
		if a, ok := b.(*ssa.Alloc); ok {
			st := localStores(a)
			if len(st) != 1 {
				return v
			}
			v = st[0]
		} else {
			v = b
		}
	}
	return v
}

func ruleC01ProvenanceDecrypt(c *Ctx) {
	u := c.U1
	c.rule("C01.provenance-decrypt", "decryptRow: DRK = AEAD.Decrypt(drr.Key.EncryptedKey, IK bytes), payload = AEAD.Decrypt(drr.Data, DRK); loadIntermediateKey/loadSystemKey pass meta.ID, meta.Created unmodified to Metastore.Load; the parent SK is fetched by the stored ParentKeyMeta; key records are unwrapped with the key so fetched", 6)
	dr := u.Func(pkgApp, "decryptRow")
	if dr == nil {
		c.unresolved("decryptRow", "appencryption.decryptRow")
	} else {
		c.FuncsAnalysed[shortName(dr)] = true
		good := false
		why := "decryptRow does not unwrap Key.EncryptedKey with the IK bytes and decrypt Data with the result"
		for _, af0 := range dr.AnonFuncs {
			// the closure itself, or the helper it hands the IK bytes to
			af, ikIdx := af0, 0
			if !containsInstr(af0, func(i ssa.Instruction) bool { return invokeIs(i, pkgApp, "AEAD", "Decrypt") }) {
				allInstrs(af0, func(i ssa.Instruction) {
					cv, ok := i.(*ssa.Call)
					if !ok {
						return
					}
					h := staticCallee(cv)
					if h == nil || h.Blocks == nil || h.Pkg == nil || h.Pkg.Pkg.Path() != pkgApp {
						return
					}
					for k, a := range cv.Call.Args {
						if isParamNamed(a, af0, 0) && k < len(h.Params) && containsInstr(h, func(j ssa.Instruction) bool { return invokeIs(j, pkgApp, "AEAD", "Decrypt") }) {
							af, ikIdx = h, k
							c.FuncsAnalysed[shortName(h)] = true
						}
					}
				})
			}
			var unwrap, dec *ssa.Call
			direct := ""
			allInstrs(af, func(i ssa.Instruction) {
				if !invokeIs(i, pkgApp, "AEAD", "Decrypt") {
					return
				}
				cv := i.(*ssa.Call)
				switch classifyDecrypt(i) {
				case "key":
					unwrap = cv
				case "payload":
					// a second way to open the payload: directly with the IK bytes (no data row key in between)
					if isParamNamed(cv.Call.Args[1], af, ikIdx) {
						direct = u.ipos(i)
						return
					}
					dec = cv
				}
			})
			if direct != "" {
				c.bad(shortName(dr)+"/payload-only-under-the-DRK", direct, "the record's Data is also opened directly with the intermediate key's bytes: everything the IK has sealed — every wrapped data row key of the partition — then passes as a payload (a forged record with an empty Key and a genuine record's wrapped key as Data decrypts to that record's plaintext DRK)")
			}
			if unwrap == nil || dec == nil {
				continue
			}
			var drkV ssa.Value
			for _, pr := range resultsOfType(unwrap, isByteSlice) {
				drkV = pr[0]
			}
			okIK := isParamNamed(unwrap.Call.Args[1], af, ikIdx)
			okData := drkV != nil && strip(dec.Call.Args[1]) == drkV
			// accessor is on the ik parameter
			okAcc := false
			allInstrs(dr, func(i ssa.Instruction) {
				if cv, isCall := i.(*ssa.Call); isCall {
					if act, isAcc := accessorAction(cv); isAcc && actionFunc(act) == af0 && isParamNamed(callArgs(&cv.Call)[0], dr, 0) {
						okAcc = true
					}
				}
			})
			pk := accessPath(unwrap.Call.Args[0])
			pd := accessPath(dec.Call.Args[0])
			sameRec := strings.TrimSuffix(pk, ".Key.EncryptedKey") == strings.TrimSuffix(pd, ".Data")
			if okIK && okData && okAcc && sameRec {
				good = true
			} else {
				why = fmt.Sprintf("unwrap key operand is IK bytes: %v; payload decrypted with the unwrapped DRK: %v; accessor on the ik parameter: %v; same record: %v", okIK, okData, okAcc, sameRec)
			}
		}
		c.check(good, shortName(dr)+"/chain", u.pos(dr.Pos()), "DRK = Decrypt(drr.Key.EncryptedKey, ikBytes); payload = Decrypt(drr.Data, DRK)", why)
	}
	// loaders
	for _, m := range []string{"loadIntermediateKey", "loadSystemKey"} {
		f := u.Method(pkgApp, "envelopeEncryption", m)
		if f == nil {
			c.unresolved(m, "(*envelopeEncryption)."+m)
			continue
		}
		c.FuncsAnalysed[shortName(f)] = true
		_, good := loadedRecord(f, 2, 0)
		c.check(good, shortName(f)+"/load-args", u.pos(f.Pos()), "Metastore.Load(ctx, meta.ID, meta.Created)", "the key record is not loaded under exactly the requested (ID, Created)")
	}
	if f := u.Method(pkgApp, "envelopeEncryption", "loadIntermediateKey"); f != nil {
		// parent by stored ParentKeyMeta, unwrap with it
		rec, _ := loadedRecord(f, 2, 0)
		okParent, okUnwrap := false, false
		var sk ssa.Value
		allInstrs(f, func(i ssa.Instruction) {
			g := staticCallee(i)
			if g == nil {
				return
			}
			switch g.Name() {
			case "getOrLoadSystemKey":
				if rec != nil && strings.TrimPrefix(accessPath(callOf(i).Args[2]), "*") == accessPath(rec)+".ParentKeyMeta" {
					okParent = true
					for _, pr := range resultsOfType(i, isCachedKeyPtr) {
						sk = pr[0]
					}
				}
			case "intermediateKeyFromEKR":
				cc := callOf(i)
				if sk != nil && resolve(cc.Args[1]) == sk && rec != nil && resolve(cc.Args[2]) == rec {
					okUnwrap = true
				}
			}
		})
		c.check(okParent && okUnwrap, shortName(f)+"/parent", u.pos(f.Pos()), "parent SK fetched by the record's ParentKeyMeta and used to unwrap that record", "the intermediate key record is not unwrapped with the system key its own ParentKeyMeta names")
	}
	// intermediateKeyFromEKR / systemKeyFromEKR: unwrap the record's EncryptedKey and carry its Created/Revoked
	for _, m := range []string{"intermediateKeyFromEKR", "systemKeyFromEKR"} {
		f := u.Method(pkgApp, "envelopeEncryption", m)
		if f == nil {
			c.unresolved(m, "(*envelopeEncryption)."+m)
			continue
		}
		c.FuncsAnalysed[shortName(f)] = true
		good := false
		allInstrs(f, func(i ssa.Instruction) {
			if staticIs(i, pkgInt+".NewCryptoKey") {
				cc := callOf(i)
				if strings.HasSuffix(accessPath(cc.Args[1]), "P:ekr.Created") && strings.HasSuffix(accessPath(cc.Args[2]), "P:ekr.Revoked") {
					good = true
				}
			}
		})
		unwrapOK := false
		var ekrParam *ssa.Parameter
		for _, p := range f.Params {
			if p.Name() == "ekr" {
				ekrParam = p
			}
		}
		for _, fr := range paramFrames(f, ekrParam, 0) {
			for _, g := range withAnon(fr.f) {
				allInstrs(g, func(i ssa.Instruction) {
					if invokeIs(i, pkgApp, "AEAD", "Decrypt") || invokeIs(i, pkgApp, "KeyManagementService", "DecryptKey") {
						cc := callOf(i)
						arg := cc.Args[0]
						if invokeIs(i, pkgApp, "KeyManagementService", "DecryptKey") {
							arg = cc.Args[1]
						}
						if strings.HasSuffix(accessPath(arg), "P:"+fr.p.Name()+".EncryptedKey") {
							unwrapOK = true
						}
					}
				})
			}
		}
		c.check(good && unwrapOK, shortName(f)+"/record-to-key", u.pos(f.Pos()), "key = unwrap(ekr.EncryptedKey) with ekr.Created / ekr.Revoked", "the key built from a record does not carry that record's EncryptedKey/Created/Revoked")
	}
}

func ruleC01OldKeysAddressable(c *Ctx) {
	u := c.U1
	c.rule("C01.old-keys-addressable", "keyCache.read derives the cache key from both meta.ID and meta.Created (cacheKey uses both operands); no keyCache method deletes entries (keys.Delete) or removes from the latest map", 3)
	rd := u.Method(pkgApp, "keyCache", "read")
	ck := u.Func(pkgApp, "cacheKey")
	if rd == nil || ck == nil {
		c.unresolved("read/cacheKey", "(*keyCache).read, cacheKey")
		return
	}
	c.FuncsAnalysed[shortName(rd)] = true
	c.FuncsAnalysed[shortName(ck)] = true
	// in read itself, or in a helper that read hands its meta parameter to
	var usesBoth func(f *ssa.Function, metaIdx, depth int) bool
	usesBoth = func(f *ssa.Function, metaIdx, depth int) bool {
		if f == nil || f.Blocks == nil || metaIdx >= len(f.Params) || depth > 2 {
			return false
		}
		mp := "P:" + f.Params[metaIdx].Name()
		hit := false
		allInstrs(f, func(i ssa.Instruction) {
			if staticCallee(i) == ck {
				cc := callOf(i)
				if strings.HasSuffix(accessPath(cc.Args[0]), mp+".ID") && strings.HasSuffix(accessPath(cc.Args[1]), mp+".Created") {
					hit = true
				}
				// both fields of ONE KeyMeta variable into which the meta parameter is stored (possibly replaced by the
				// mapped latest meta on the IsLatest edge)
				base := func(v ssa.Value, fld string) *ssa.Alloc {
					ld, ok := v.(*ssa.UnOp)
					if !ok || ld.Op != token.MUL {
						return nil
					}
					fa, ok := ld.X.(*ssa.FieldAddr)
					if !ok || fieldName(fa.X.Type(), fa.Field) != fld {
						return nil
					}
					a, _ := fa.X.(*ssa.Alloc)
					return a
				}
				if b0, b1 := base(cc.Args[0], "ID"), base(cc.Args[1], "Created"); b0 != nil && b0 == b1 {
					for _, r := range *b0.Referrers() {
						if st, isS := r.(*ssa.Store); isS && st.Addr == ssa.Value(b0) && accessPath(st.Val) == mp {
							hit = true
						}
					}
				}
				return
			}
			if h := staticCallee(i); h != nil && h.Pkg != nil && h.Pkg.Pkg.Path() == pkgApp && h != f {
				for k, a := range callOf(i).Args {
					if accessPath(a) == mp && usesBoth(h, k, depth+1) {
						hit = true
					}
				}
			}
		})
		return hit
	}
	good := usesBoth(rd, 1, 0)
	c.check(good, shortName(rd)+"/cache-key", u.pos(rd.Pos()), "cacheKey(meta.ID, meta.Created)", "a specific key version is no longer looked up under (ID, Created): older keys referenced by existing records cannot be found once a newer one is cached")
	// cacheKey uses both parameters in its result
	uses := [2]bool{}
	for _, r := range returnsOf(ck) {
		seen := map[ssa.Value]bool{}
		var walk func(v ssa.Value)
		walk = func(v ssa.Value) {
			if v == nil || seen[v] {
				return
			}
			seen[v] = true
			for k := 0; k < 2; k++ {
				if isParamNamed(v, ck, k) {
					uses[k] = true
				}
			}
			if in, ok := v.(ssa.Instruction); ok {
				for _, op := range in.Operands(nil) {
					if *op != nil {
						walk(*op)
					}
				}
			}
		}
		walk(r.Results[0])
	}
	c.check(uses[0] && uses[1], shortName(ck)+"/both-operands", u.pos(ck.Pos()), "result depends on id and create", "cacheKey ignores one of its operands: different key versions collide in the cache")
	// no deletions
	bad := ""
	for _, f := range u.RepoFuncs {
		root := rootFunc(f)
		if root.Pkg == nil || root.Pkg.Pkg.Path() != pkgApp {
			continue
		}
		isKC := root.Signature.Recv() != nil && namedTypeName(root.Signature.Recv().Type()) == "keyCache"
		if !isKC {
			// anywhere else in the package (the eviction callback built by newKeyCache, a session): the latest index
			allInstrs(f, func(i ssa.Instruction) {
				if cc := callOf(i); cc != nil {
					if b, ok := cc.Value.(*ssa.Builtin); ok && (b.Name() == "delete" || b.Name() == "clear") && len(cc.Args) > 0 {
						if _, fld, isF := fieldAccess(strip(cc.Args[0])); isF && fld == "latest" {
							bad = u.ipos(i) + " " + b.Name() + " on the key cache's latest index"
						}
					}
				}
			})
			continue
		}
		allInstrs(f, func(i ssa.Instruction) {
			if isKeysCall(i, "Delete") {
				bad = u.ipos(i) + " keys.Delete"
			}
			if cc := callOf(i); cc != nil {
				if b, ok := cc.Value.(*ssa.Builtin); ok && (b.Name() == "delete" || b.Name() == "clear") {
					bad = u.ipos(i) + " " + b.Name() + " on a keyCache map"
				}
			}
			// the latest index is replaced wholesale (a "start over" when it grows): every id's latest mapping is forgotten
			if st, ok := i.(*ssa.Store); ok {
				if base, fld, isF := fieldAccess(st.Addr); isF && fld == "latest" && namedTypeName(derefType(base.Type())) == "keyCache" {
					bad = u.ipos(i) + " the latest map is replaced after construction"
				}
			}
		})
	}
	c.check(bad == "", "keyCache/no-deletes", "", "keyCache never deletes entries or latest mappings (eviction is the cache policy's job)", "keyCache removes entries: "+bad)
}

// writerArgs: for known writer functions, the argument positions they write through.
func writerArgs(i ssa.Instruction) []int {
	cc := callOf(i)
	if cc == nil {
		return nil
	}
	if b, ok := cc.Value.(*ssa.Builtin); ok {
		switch b.Name() {
		case "copy", "clear":
			return []int{0}
		}
		return nil
	}
	if cc.IsInvoke() {
		if typeIsNamed(cc.Value.Type(), "crypto/cipher", "AEAD") && (cc.Method.Name() == "Seal" || cc.Method.Name() == "Open") {
			return []int{0} // dst
		}
		if cc.Method.Name() == "Read" {
			return []int{0}
		}
		return nil
	}
	f := staticCallee(i)
	if f == nil {
		return nil
	}
	switch funcFullName(f) {
	case fnMemClr, fnCoreWipe, pkgInt + ".FillRandom", pkgInt + ".fillRandom", "crypto/rand.Read":
		return []int{0}
	case "crypto/subtle.ConstantTimeCopy":
		return []int{1}
	case "io.ReadFull":
		return []int{1}
	case "github.com/awnumar/memguard.NewBufferFromBytes", "github.com/awnumar/memguard/core.Copy", "github.com/awnumar/memguard/core.Scramble":
		return []int{0}
	case pkgInt + ".NewCryptoKey":
		return []int{3} // wipes its key argument
	}
	return nil
}

// writesThrough reports a write through any alias of the byte buffers reachable from root (the value itself, its
// re-slices, []byte fields loaded from it), following static calls and closures into the repo (bounded).
func writesThrough(u *Universe, root ssa.Value, depth int, seenFn map[string]bool) string {
	if depth > 5 {
		return ""
	}
	taint := valueSet{root: true}
	work := []ssa.Value{root}
	push := func(v ssa.Value) {
		if v != nil && !taint[v] {
			taint[v] = true
			work = append(work, v)
		}
	}
	var found string
	for len(work) > 0 && found == "" {
		x := work[len(work)-1]
		work = work[:len(work)-1]
		refs := x.Referrers()
		if refs == nil {
			continue
		}
		for _, r := range *refs {
			switch y := r.(type) {
			case *ssa.Slice:
				if y.X == x {
					push(y)
				}
			case *ssa.Phi, *ssa.ChangeType, *ssa.MakeInterface, *ssa.ChangeInterface:
				push(y.(ssa.Value))
			case *ssa.FieldAddr:
				if y.X == x {
					push(y) // address of a field of the record
				}
			case *ssa.Field:
				if y.X == x {
					push(y)
				}
			case *ssa.UnOp:
				if y.Op == token.MUL && y.X == x {
					push(y) // load through a tainted pointer (record pointer → field values)
				}
			case *ssa.IndexAddr:
				if y.X == x {
					// element address: a store through it is a write
					if yr := y.Referrers(); yr != nil {
						for _, s := range *yr {
							if st, ok := s.(*ssa.Store); ok && st.Addr == y {
								found = u.ipos(st) + " element store"
							}
						}
					}
				}
			case *ssa.Store:
				if y.Val == x {
					// stored into a local slot (spill / captured variable): loads are aliases
					if a, ok := y.Addr.(*ssa.Alloc); ok {
						push(a)
					}
				} else if y.Addr == x {
					if _, isA := x.(*ssa.Alloc); !isA {
						if isByteSliceOrRecordField(x) {
							found = u.ipos(y) + " store through the caller's record"
						}
					}
				}
			case *ssa.MakeClosure:
				fn := y.Fn.(*ssa.Function)
				for bi, b := range y.Bindings {
					if b == x && bi < len(fn.FreeVars) && !seenFn[fn.String()+fmt.Sprint(bi)] {
						seenFn[fn.String()+fmt.Sprint(bi)] = true
						if w := writesThrough(u, fn.FreeVars[bi], depth+1, seenFn); w != "" {
							found = w
						}
					}
				}
			case ssa.CallInstruction:
				cc := y.Common()
				args := cc.Args
				for _, wi := range writerArgs(y) {
					if wi < len(args) && args[wi] == x && isSliceLike(x) {
						found = u.ipos(y) + " " + instrText(y)
					}
				}
				// follow into repo callees
				var targets []*ssa.Function
				if cc.IsInvoke() {
					if typeIsNamed(cc.Value.Type(), pkgApp, "AEAD") {
						if n := u.Named(pkgAead, "cryptoFunc"); n != nil {
							if m := u.MethodOf(n, cc.Method.Name()); m != nil {
								targets = append(targets, m)
							}
						}
					}
				} else if g := staticCallee(y); g != nil && g.Blocks != nil {
					targets = append(targets, g)
				}
				for _, t := range targets {
					all := callArgs(cc)
					for k, a := range all {
						if a == x && k < len(t.Params) && !seenFn[t.String()+fmt.Sprint(k)] {
							seenFn[t.String()+fmt.Sprint(k)] = true
							if w := writesThrough(u, t.Params[k], depth+1, seenFn); w != "" {
								found = w
							}
						}
					}
				}
			}
		}
	}
	return found
}

func isSliceLike(v ssa.Value) bool {
	_, ok := types.Unalias(v.Type()).Underlying().(*types.Slice)
	return ok
}

func isByteSliceOrRecordField(v ssa.Value) bool {
	_, isFA := v.(*ssa.FieldAddr)
	return isFA
}

func ruleC01CallerBuffersImmutable(c *Ctx) {
	u := c.U1
	c.rule("C01.caller-buffers-immutable", "the payload parameter of EncryptPayload / cryptoFunc.Encrypt and everything reachable from the record parameter of DecryptDataRowRecord / the data parameter of cryptoFunc.Decrypt is never a store target, copy/Seal/Open destination or wipe argument; Seal's dst is a buffer made in the call; Open's dst is nil or fresh", 6)
	check := func(f *ssa.Function, idx int, what string) {
		if f == nil || idx >= len(f.Params) {
			c.unresolved(what, "function/parameter")
			return
		}
		c.FuncsAnalysed[shortName(f)] = true
		w := writesThrough(u, f.Params[idx], 0, map[string]bool{})
		c.check(w == "", trimPkgDirs(shortName(f))+"/"+f.Params[idx].Name(), u.pos(f.Pos()), "never written through (followed into callees and closures)", "the caller's "+what+" is written: "+w)
	}
	check(u.Method(pkgApp, "envelopeEncryption", "EncryptPayload"), 2, "payload")
	check(u.Method(pkgApp, "envelopeEncryption", "DecryptDataRowRecord"), 2, "record")
	check(u.Method(pkgAead, "cryptoFunc", "Encrypt"), 1, "plaintext")
	check(u.Method(pkgAead, "cryptoFunc", "Decrypt"), 1, "ciphertext")
	// Seal dst made in the call; Open dst nil/fresh
	for _, m := range []struct{ fn, meth string }{{"Encrypt", "Seal"}, {"Decrypt", "Open"}} {
		f := u.Method(pkgAead, "cryptoFunc", m.fn)
		if f == nil {
			continue
		}
		if host, _, _ := aeadStepHost(f, m.meth); host != nil {
			f = host // the cipher step sits in a helper of the package
			c.FuncsAnalysed[shortName(f)] = true
		}
		n := 0
		allInstrs(f, func(i ssa.Instruction) {
			cc := callOf(i)
			if cc == nil || !cc.IsInvoke() || cc.Method.Name() != m.meth || !typeIsNamed(cc.Value.Type(), "crypto/cipher", "AEAD") {
				return
			}
			n++
			dst := cc.Args[0]
			ok := isNilConst(strip(dst))
			base := dst
			for k := 0; k < 4; k++ {
				if sl, isS := strip(base).(*ssa.Slice); isS {
					base = sl.X
				}
			}
			if _, isMake := resolve(base).(*ssa.MakeSlice); isMake {
				ok = true
			}
			c.check(ok, trimPkgDirs(shortName(f))+"/"+m.meth+"-dst", u.ipos(i), "destination is nil or a buffer allocated in this call", m.meth+" writes into storage that is not allocated by this call (the caller's buffer would be overwritten / aliased)")
		})
		if n == 0 {
			c.unresolved(trimPkgDirs(shortName(f))+"/"+m.meth, "cipher.AEAD."+m.meth+" call")
		}
	}
}

// loadedRecord: the *EnvelopeKeyRecord that f obtains from Metastore.Load for its KeyMeta parameter #metaIdx — loaded
// directly (Load(ctx, meta.ID, meta.Created)) or through a repo helper that is given that parameter, loads the record for
// it in the same way and returns it. ok reports that the Load arguments are exactly the parameter's ID and Created.
func loadedRecord(f *ssa.Function, metaIdx int, depth int) (rec ssa.Value, ok bool) {
	if f == nil || f.Blocks == nil || metaIdx >= len(f.Params) || depth > 2 {
		return nil, false
	}
	mp := "P:" + f.Params[metaIdx].Name()
	isRec := func(t types.Type) bool { return isPtr(t) && typeIsNamed(t, pkgApp, "EnvelopeKeyRecord") }
	allInstrs(f, func(i ssa.Instruction) {
		if rec != nil {
			return
		}
		if invokeIs(i, pkgApp, "Metastore", "Load") {
			cc := callOf(i)
			for _, pr := range resultsOfType(i, isRec) {
				rec = pr[0]
			}
			ok = accessPath(cc.Args[1]) == mp+".ID" && accessPath(cc.Args[2]) == mp+".Created"
			return
		}
		cv, isCall := i.(*ssa.Call)
		if !isCall {
			return
		}
		h := staticCallee(cv)
		if h == nil || h.Blocks == nil || h.Pkg == nil || h.Pkg.Pkg.Path() != pkgApp || h == f {
			return
		}
		for k, a := range cv.Call.Args {
			if accessPath(a) != mp || k >= len(h.Params) {
				continue
			}
			hr, hok := loadedRecord(h, k, depth+1)
			if hr == nil {
				continue
			}
			// the helper returns that record on every non-error return
			all := true
			for _, r := range returnsOf(h) {
				if len(r.Results) == 2 && isNilValue(returnedValue(r, 1)) && resolve(returnedValue(r, 0)) != resolve(hr) {
					all = false
				}
			}
			if !all {
				continue
			}
			for _, pr := range resultsOfType(cv, isRec) {
				rec = pr[0]
			}
			ok = hok
		}
	})
	return rec, ok
}

// ruleC01NoExtraGateOnRead: DecryptDataRowRecord refuses a record, before any key is looked up, only for the documented
// structural reasons: Key missing, ParentKeyMeta missing, or a parent key id that is not this partition's. Every error it
// creates itself (errors.New / fmt.Errorf — as opposed to errors handed back by the key cache or the AEAD) must sit on an
// edge of one of those three tests. Any further plausibility check (timestamps, sizes, ages, flags) refuses records that
// the documented format allows — records written by another SDK, under clock skew, or long ago.
func ruleC01NoExtraGateOnRead(c *Ctx) {
	u := c.U1
	c.rule("C01.no-extra-gate-on-read", "every error that DecryptDataRowRecord (or a validation helper it calls) creates itself is guarded only by: drr.Key == nil, drr.Key.ParentKeyMeta == nil, !partition.IsValidIntermediateKeyID(ParentKeyMeta.ID), or a propagated error test", 3)
	root := u.Method(pkgApp, "envelopeEncryption", "DecryptDataRowRecord")
	if root == nil {
		c.unresolved("DecryptDataRowRecord", "method")
		return
	}
	isOwnError := func(v ssa.Value) bool {
		switch x := resolve(v).(type) {
		case *ssa.Call:
			if g := staticCallee(x); g != nil && g.Pkg != nil {
				switch g.Pkg.Pkg.Path() {
				case "errors", "fmt", "github.com/pkg/errors":
					return g.Name() == "New" || g.Name() == "Errorf"
				}
			}
		case *ssa.UnOp:
			if _, isG := x.X.(*ssa.Global); isG {
				return true
			}
		}
		return false
	}
	allowed := func(fct Fact) bool {
		if x, _, ok := nilTest(fct); ok {
			if isErrorType(x.Type()) {
				return true
			}
			ap := trimAddr(fct.pathOf(x))
			return strings.HasSuffix(ap, ".Key") || strings.HasSuffix(ap, ".ParentKeyMeta")
		}
		if cv, ok := strip(fct.V).(*ssa.Call); ok {
			return methodNameOf(&cv.Call) == "IsValidIntermediateKeyID"
		}
		return false
	}
	n := 0
	var scan func(f *ssa.Function, depth int)
	seen := map[*ssa.Function]bool{}
	scan = func(f *ssa.Function, depth int) {
		if f == nil || f.Blocks == nil || seen[f] || depth > 1 {
			return
		}
		seen[f] = true
		c.FuncsAnalysed[shortName(f)] = true
		for _, r := range returnsOf(f) {
			if len(r.Results) == 0 {
				continue
			}
			ev := returnedValue(r, len(r.Results)-1)
			if !isErrorType(ev.Type()) || !isOwnError(ev) {
				continue
			}
			n++
			bad := ""
			for _, fct := range baseFactsAt(r.Block()) {
				if !allowed(fct) {
					bad = describeLeaf(fct.V)
				}
			}
			c.check(bad == "", trimPkgDirs(shortName(f))+"/own-error-return", u.ipos(r), "refusal only for a missing Key / ParentKeyMeta or a foreign parent key id", "a record is refused on a condition other than the documented structural checks ("+bad+"): records that follow the documented format — written by another implementation, under clock skew between writers, or long ago — no longer decrypt")
		}
		// validation helpers: static callees in the package that return only an error / bool and take the record
		allInstrs(f, func(i ssa.Instruction) {
			if h := staticCallee(i); h != nil && h.Pkg != nil && h.Pkg.Pkg.Path() == pkgApp && h != f {
				res := h.Signature.Results()
				if res.Len() == 1 && isErrorType(res.At(0).Type()) {
					scan(h, depth+1)
				}
			}
		})
	}
	scan(root, 0)
	if n < 3 {
		c.bad("DecryptDataRowRecord/own-errors", "", fmt.Sprintf("expected at least 3 structural refusals (Key, ParentKeyMeta, partition), found %d", n))
	}
	// the rest of the read path: the key loaders refuse only a missing record / missing parent meta, and AEAD Decrypt
	// only an input shorter than nonce + tag — what authenticates is handed back as it is (also when it is empty)
	lenOfParam := func(v ssa.Value, f *ssa.Function) bool {
		cv, ok := strip(v).(*ssa.Call)
		if !ok {
			return false
		}
		if b, isB := cv.Call.Value.(*ssa.Builtin); !isB || b.Name() != "len" || len(cv.Call.Args) != 1 {
			return false
		}
		p, isP := resolve(cv.Call.Args[0]).(*ssa.Parameter)
		return isP && p.Parent() == f
	}
	var extra []*ssa.Function
	for _, m := range []string{"loadIntermediateKey", "loadSystemKey"} {
		if f := u.Method(pkgApp, "envelopeEncryption", m); f != nil {
			extra = append(extra, f)
		}
	}
	if f := u.Method(pkgAead, "cryptoFunc", "Decrypt"); f != nil {
		extra = append(extra, f)
	}
	for _, f := range extra {
		if f.Blocks == nil {
			continue
		}
		c.FuncsAnalysed[shortName(f)] = true
		for _, r := range returnsOf(f) {
			if len(r.Results) == 0 {
				continue
			}
			ev := returnedValue(r, len(r.Results)-1)
			if !isErrorType(ev.Type()) || !isOwnError(ev) {
				continue
			}
			bad := ""
			for _, fct := range baseFactsAt(r.Block()) {
				if _, _, ok := nilTest(fct); ok {
					continue
				}
				if bo, ok := fct.V.(*ssa.BinOp); ok && (lenOfParam(bo.X, f) || lenOfParam(bo.Y, f)) {
					continue
				}
				bad = describeLeaf(fct.V)
			}
			c.check(bad == "", trimPkgDirs(shortName(f))+"/own-error-return", u.ipos(r), "refusal only for a missing record / parent meta or a too-short input", "the read path refuses data on a condition beyond the documented structural checks ("+bad+"): records and keys that follow the documented format — an empty payload, a key hierarchy whose timestamps were truncated differently by different writers — no longer decrypt")
		}
	}
}

// paramFrame: a function together with the parameter through which it receives a given value of the analysed
// function: the function itself with its own parameter, and every same-package helper that is handed that parameter
// unchanged (transitively, depth ≤ 2).
type paramFrame struct {
	f *ssa.Function
	p *ssa.Parameter
}

func paramFrames(f *ssa.Function, p *ssa.Parameter, depth int) []paramFrame {
	if f == nil || p == nil {
		return nil
	}
	out := []paramFrame{{f, p}}
	if depth >= 2 {
		return out
	}
	seen := map[*ssa.Function]bool{f: true}
	for _, g := range withAnon(f) {
		allInstrs(g, func(i ssa.Instruction) {
			cv, ok := i.(*ssa.Call)
			if !ok {
				return
			}
			h := staticCallee(cv)
			if h == nil || h.Blocks == nil || h.Pkg == nil || rootFunc(f).Pkg == nil || h.Pkg != rootFunc(f).Pkg || seen[h] {
				return
			}
			for k, a := range cv.Call.Args {
				if k < len(h.Params) && (resolve(a) == ssa.Value(p) || trimAddr(accessPath(a)) == "P:"+p.Name()) {
					seen[h] = true
					out = append(out, paramFrames(h, h.Params[k], depth+1)...)
				}
			}
		})
	}
	return out
}

// keyMetaParts: v is a *KeyMeta / KeyMeta value built as a literal {ID: <id>, Created: <k>.Created()} — here, or by a
// same-package helper handed the id and the key. Returns the id value and the key whose Created() is used, both in the
// frame of v.
func keyMetaParts(v ssa.Value) (id ssa.Value, createdOfKey ssa.Value, ok bool) {
	unbox := func(x ssa.Value) ssa.Value {
		for k := 0; k < 3; k++ {
			switch y := x.(type) {
			case *ssa.MakeInterface:
				x = y.X
			case *ssa.ChangeInterface:
				x = y.X
			case *ssa.ChangeType:
				x = y.X
			}
		}
		return resolve(x)
	}
	fromLit := func(fl map[string]ssa.Value) (ssa.Value, ssa.Value, bool) {
		if fl == nil || fl["ID"] == nil || fl["Created"] == nil {
			return nil, nil, false
		}
		cv, isC := resolve(fl["Created"]).(*ssa.Call)
		if !isC || methodNameOf(&cv.Call) != "Created" {
			return fl["ID"], nil, true
		}
		return fl["ID"], unbox(receiverOf(&cv.Call)), true
	}
	if i, k, good := fromLit(litFields(resolve(v))); good {
		return i, k, true
	}
	cv, isC := resolve(v).(*ssa.Call)
	if !isC {
		return nil, nil, false
	}
	h := staticCallee(cv)
	if h == nil || h.Blocks == nil || h.Pkg == nil || cv.Parent() == nil || h.Pkg != rootFunc(cv.Parent()).Pkg {
		return nil, nil, false
	}
	rets := returnsOf(h)
	if len(rets) != 1 || len(rets[0].Results) != 1 {
		return nil, nil, false
	}
	hi, hk, good := fromLit(litFields(resolve(returnedValue(rets[0], 0))))
	if !good || hk == nil {
		return nil, nil, false
	}
	for a, p := range h.Params {
		if a >= len(cv.Call.Args) {
			continue
		}
		if resolve(hi) == ssa.Value(p) {
			id = cv.Call.Args[a]
		}
		if hk == ssa.Value(p) {
			createdOfKey = unbox(cv.Call.Args[a])
		}
	}
	return id, createdOfKey, id != nil && createdOfKey != nil
}
