package main

// C17 — AWS KMS plugins (DESIGN §3 C17). v1 and v2 as siblings. E-DOM + E-LIT + E-OWN.

import (
	"fmt"
	"go/token"
	"go/types"
	"reflect"
	"strings"

	"golang.org/x/tools/go/ssa"
)

func init() {
	register(&propSpec{
		ID:    "C17",
		Title: "AWS KMS plugins: any surviving region can unwrap; preferred region tried first",
		Explanation: "Structural necessary conditions of C17 for BOTH AWS KMS plugins (aws-v1, aws-v2): (try-all-regions) inside the per-region loops of DecryptKey and generateDataKey no failing step returns — every failure edge " +
			"leads back to the loop head, and the only error return is after the loop; (client-order) the loops walk the configured client slice itself, which is written only by the constructors; (entry-per-success) in " +
			"encryptAllRegions every successful regional response and the generating region's own ciphertext are sent on the result channel, which is closed only after WaitGroup.Wait, and EncryptKey drains it before marshalling; " +
			"(wipe) the plaintext data key is wiped on every path (C10.wipe / C10.wipe-not-early); (sibling-envelope) the v1 and v2 envelope structs have identical JSON tags and field types, so envelopes are exchangeable. " +
			"(preferred-first) the v1 comparator is false for (other, preferred) and true for (preferred, other) — a finite case analysis over its two region tests — and v2 Build prepends exactly on the region == preferredRegion edge; " +
			"(no-loop-variable-alias) no pointer to a per-loop variable is stored per region (the module builds with go 1.21 loop semantics). Which regions fail is a run-time matter and not decided.",
		NotDecided:  []string{"which subset of regions fails at run time", "the order among the non-preferred regions", "byte identity of unwrapped keys", "AWS SDK behaviour"},
		Assumptions: []string{"range over a slice visits indices in ascending order", "the AWS SDK clients are opaque"},
		Tech:        "static analysis: loop-structure path rules (failure edges return to the loop head), must-release wipe dataflow, struct-tag sibling agreement between the two plugins",
		NeedU1:      true,
		NeedU2:      true,
		Rules:       []func(*Ctx){ruleC17TryAllRegions, ruleC17ClientOrder, ruleC17EntryPerSuccess, ruleC10Wipe, ruleC10WipeNotEarly, ruleC17SiblingEnvelope, ruleC17PreferredFirst, ruleC17NoLoopVarAlias, ruleC17WorkerContextLives, ruleC17ClientPerRegion, ruleC17KEKMatchedByRegion, ruleC17KEKFieldsFromNamesakes, ruleC17RequestsNameTheConfiguredKey, ruleC17KMSResponsesNotRewritten, ruleC17EveryEnvelopeEntryConsidered, ruleC17WorkersDoNotShareMutatedRequest, ruleC17EveryClientAsked, ruleC10WipedBuffersAreOwned, ruleC07SuccessCarriesData, ruleC03NoPlaintextEscape, errorsPropagateRule("C17", 10, c17ErrExempt, pkgKmsV1, pkgKmsV2), ruleC10NoUnwipedCopies, ruleC17PreferredRegionIsTheCallers, ruleC17WipesAreTheOwners, ruleC17ClientListIsThisInstances, ruleC01CallerBuffersImmutable, ruleC17SidecarKMSWiringVerbatim, ruleC17KEKLookedUpForTheAskingClient},
	})
}

// loopHeadOf: the innermost loop header whose body region contains b. The body region is everything dominated by a
// successor of the header from which the header can be reached again (so blocks that leave the loop early — e.g. a
// `return` added inside the body — still count as inside the loop, while the loop's normal exit does not).
func loopHeadOf(b *ssa.BasicBlock) *ssa.BasicBlock {
	for d := b; d != nil; d = d.Idom() {
		isHead := false
		for _, p := range d.Preds {
			if d.Dominates(p) {
				isHead = true
			}
		}
		if !isHead {
			continue
		}
		for _, s := range d.Succs {
			if blockReaches(s, d) && s.Dominates(b) {
				return d
			}
		}
	}
	return nil
}

func ruleC17TryAllRegions(c *Ctx) {
	u := c.U1
	c.rule("C17.try-all-regions", "in DecryptKey and generateDataKey of both plugins every error edge of a per-region step (KMS call, AEAD.Decrypt) inside the client loop leads back to the loop head without returning; the loop is followed by the only error return", 8)
	type target struct {
		pkg, recv, name string
	}
	for _, t := range []target{{pkgKmsV1, "AWSKMS", "DecryptKey"}, {pkgKmsV2, "AWSKMS", "DecryptKey"}, {pkgKmsV1, "", "generateDataKey"}, {pkgKmsV2, "AWSKMS", "generateDataKey"}} {
		var f *ssa.Function
		if t.recv == "" {
			f = u.Func(t.pkg, t.name)
		} else {
			f = u.Method(t.pkg, t.recv, t.name)
		}
		name := pluginName(t.pkg) + "." + t.name
		if f == nil {
			c.unresolved(name, "function")
			continue
		}
		c.FuncsAnalysed[shortName(f)] = true
		n := 0
		heads := map[*ssa.BasicBlock]bool{}
		allInstrs(f, func(i ssa.Instruction) {
			if _, ok := i.(*ssa.Call); !ok {
				return
			}
			head := loopHeadOf(i.Block())
			if head == nil {
				return
			}
			e := errOfCall(i)
			// only per-region steps: calls on the client / crypto — or a helper of the plugin that contains such steps
			// and reports failure through an error or a bool result
			cc := callOf(i)
			var okFlag ssa.Value
			if !cc.IsInvoke() {
				g := staticCallee(i)
				isClientMethod := g != nil && g.Signature.Recv() != nil && strings.Contains(strings.ToLower(namedTypeName(g.Signature.Recv().Type())), "client")
				if !isClientMethod {
					if g == nil || g.Blocks == nil || g.Pkg == nil || g.Pkg != f.Pkg || !regionStepHelper(c, u, g, name) {
						return
					}
					if e == nil {
						for _, pr := range resultsOfType(i, func(t types.Type) bool {
							b, isB := t.Underlying().(*types.Basic)
							return isB && b.Kind() == types.Bool
						}) {
							okFlag = pr[0]
						}
					}
				}
			}
			if e == nil && okFlag == nil {
				return
			}
			n++
			heads[head] = true
			c.CallSites++
			construct := name + "/" + calleeLabel(i)
			tested := false
			bad := false
			var tr []ssa.Instruction
			for _, b := range f.Blocks {
				for _, s := range b.Succs {
					for _, fct := range edgeFacts(b, s) {
						failure := false
						if x, isNil, ok := nilTest(fct); ok && !isNil && e != nil && strip(x) == e {
							failure = true
						}
						if okFlag != nil && fct.Sub == nil && strip(fct.V) == strip(okFlag) && !fct.True {
							failure = true
						}
						if failure {
							tested = true
							found, t2 := pathSearchAt(s, 0, func(j ssa.Instruction) pathAction {
								if j.Block() == head && indexOf(j) == 0 {
									return pathStop // next iteration
								}
								if isReturn(j) {
									return pathFound
								}
								return pathContinue
							}, nil)
							if found {
								bad = true
								tr = t2
							}
						}
					}
				}
			}
			switch {
			case !tested:
				c.bad(construct, u.ipos(i), "the error of a per-region step is not tested")
			case bad:
				c.bad(construct, u.ipos(i), "a failing region makes the function return instead of trying the next region: unwrap/generate fails although another region could serve it", u.tracePositions(tr)...)
			default:
				c.ok(construct, u.ipos(i), "failure → next iteration of the client loop")
			}
		})
		if n == 0 {
			c.bad(name+"/loop", u.pos(f.Pos()), "no per-region step inside a loop found")
		}
		// the region loop is left early only with a success: every edge from a block of the loop body to a block outside
		// the loop (break, return) leads only to returns with a nil error
		for head := range heads {
			inLoop := func(b *ssa.BasicBlock) bool { return head.Dominates(b) && blockReaches(b, head) }
			for _, b := range f.Blocks {
				if b == head || !inLoop(b) {
					continue
				}
				for _, s := range b.Succs {
					if inLoop(s) {
						continue
					}
					c.CallSites++
					found, tr := pathSearchAt(s, 0, func(j ssa.Instruction) pathAction {
						if r, isR := j.(*ssa.Return); isR {
							if !isNilValue(returnedValue(r, len(r.Results)-1)) {
								return pathFound
							}
							return pathStop
						}
						return pathContinue
					}, func(from, to *ssa.BasicBlock) bool { return !inLoop(to) })
					pos := ""
					if len(b.Instrs) > 0 {
						pos = u.ipos(b.Instrs[len(b.Instrs)-1])
					}
					if found {
						c.bad(name+"/early-exit", pos, "the region loop is left from inside its body on a path that ends in an error return (a break, or a return of an error): the remaining regions are never tried although one of them could serve the request", u.tracePositions(tr)...)
					} else {
						c.ok(name+"/early-exit", pos, "the loop body is left early only with a success")
					}
				}
			}
		}
		// the success return carries the step's result; error return only after the loop
		for _, r := range returnsOf(f) {
			if isNilValue(returnedValue(r, len(r.Results)-1)) {
				continue
			}
			inLoop := loopHeadOf(r.Block()) != nil
			// unmarshal error before the loop is fine: it is not inside a loop
			c.check(!inLoop, name+"/error-return", u.ipos(r), "error return outside the region loop", "an error is returned from inside the region loop")
		}
	}
}

// regionStepHelper: g (a function of the plugin) contains per-region steps (KMS / AEAD calls with an error result) and
// every error edge of such a step inside g leads only to returns that report failure (false / a non-nil error).
// The obligations inside g are recorded under the caller's name.
func regionStepHelper(c *Ctx, u *Universe, g *ssa.Function, name string) bool {
	steps := 0
	okAll := true
	allInstrs(g, func(i ssa.Instruction) {
		if _, ok := i.(*ssa.Call); !ok {
			return
		}
		e := errOfCall(i)
		if e == nil {
			return
		}
		cc := callOf(i)
		if !cc.IsInvoke() {
			if h := staticCallee(i); h == nil || h.Signature.Recv() == nil || !strings.Contains(strings.ToLower(namedTypeName(h.Signature.Recv().Type())), "client") {
				return
			}
		}
		steps++
		for _, b := range g.Blocks {
			for _, s := range b.Succs {
				for _, fct := range edgeFacts(b, s) {
					x, isNil, ok := nilTest(fct)
					if !ok || isNil || strip(x) != e {
						continue
					}
					found, _ := pathSearchAt(s, 0, func(j ssa.Instruction) pathAction {
						r, isR := j.(*ssa.Return)
						if !isR {
							return pathContinue
						}
						last := returnedValue(r, len(r.Results)-1)
						if isErrorType(last.Type()) {
							if isNilValue(last) {
								return pathFound
							}
							return pathStop
						}
						if k, isC := constOf(last); isC && k.ExactString() == "false" {
							return pathStop
						}
						return pathFound
					}, nil)
					if found {
						okAll = false
					}
				}
			}
		}
	})
	if steps == 0 {
		return false
	}
	// and it never reports success without having made a step: every path from entry to a success return passes a step
	isStep := func(i ssa.Instruction) bool {
		if _, ok := i.(*ssa.Call); !ok || errOfCall(i) == nil {
			return false
		}
		cc := callOf(i)
		if cc.IsInvoke() {
			return true
		}
		h := staticCallee(i)
		return h != nil && h.Signature.Recv() != nil && strings.Contains(strings.ToLower(namedTypeName(h.Signature.Recv().Type())), "client")
	}
	idle, _ := pathSearchAt(g.Blocks[0], 0, func(j ssa.Instruction) pathAction {
		if isStep(j) {
			return pathStop
		}
		r, isR := j.(*ssa.Return)
		if !isR || len(r.Results) == 0 {
			return pathContinue
		}
		last := returnedValue(r, len(r.Results)-1)
		if isErrorType(last.Type()) {
			if isNilValue(last) {
				return pathFound
			}
			return pathStop
		}
		if k, isC := constOf(last); isC && k.ExactString() == "false" {
			return pathStop
		}
		return pathFound
	}, nil)
	if idle {
		okAll = false
	}
	c.FuncsAnalysed[shortName(g)] = true
	c.check(okAll, name+"/helper "+g.Name(), u.pos(g.Pos()), "every failing step in the helper reports failure to the loop", "a failing per-region step inside "+g.Name()+" can return success to the region loop, or "+g.Name()+" reports success on a path that made no per-region step at all (e.g. no entry for the region): the loop then stops with no key although a later region could unwrap it")
	return true
}

// drainsChannel: g receives from a channel until it is closed: it contains a comma-ok receive and every return of g is
// taken on the not-ok edge of such a receive.
func drainsChannel(g *ssa.Function) bool {
	if g == nil || g.Blocks == nil {
		return false
	}
	isRecvOk := func(v ssa.Value) bool {
		ex, ok := v.(*ssa.Extract)
		if !ok || ex.Index != 1 {
			return false
		}
		un, isRecv := ex.Tuple.(*ssa.UnOp)
		return isRecv && un.Op == token.ARROW
	}
	has := false
	allInstrs(g, func(i ssa.Instruction) {
		if un, ok := i.(*ssa.UnOp); ok && un.Op == token.ARROW && un.CommaOk {
			has = true
		}
	})
	if !has {
		return false
	}
	for _, r := range returnsOf(g) {
		if !guardedBy(r, false, isRecvOk) {
			return false
		}
	}
	return true
}

func ruleC17ClientOrder(c *Ctx) {
	u := c.U1
	c.rule("C17.client-order", "the region loops index the configured client slice field directly; that field is written only by the constructors (newAWS / Builder.Build literals)", 6)
	for _, spec := range []struct {
		pkg, field string
		ctors      []string
	}{{pkgKmsV1, "Clients", []string{"newAWS"}}, {pkgKmsV2, "clients", []string{"Build"}}} {
		// writers
		bad := ""
		nw := 0
		for _, f := range u.RepoFuncs {
			if f.Pkg == nil || f.Pkg.Pkg.Path() != spec.pkg {
				continue
			}
			allInstrs(f, func(i ssa.Instruction) {
				st, ok := i.(*ssa.Store)
				if !ok {
					return
				}
				base, fld, isF := fieldAccess(st.Addr)
				if !isF || fld != spec.field || !typeIsNamed(base.Type(), spec.pkg, "AWSKMS") {
					return
				}
				nw++
				okc := false
				for _, ct := range spec.ctors {
					if rootFunc(f).Name() == ct {
						okc = true
					}
				}
				if _, fresh := base.(*ssa.Alloc); !fresh || !okc {
					bad = u.ipos(i)
				}
			})
			// element writes (swaps, rotations) into the configured slice outside the constructors
			allInstrs(f, func(i ssa.Instruction) {
				st, ok := i.(*ssa.Store)
				if !ok {
					return
				}
				ia, isIA := st.Addr.(*ssa.IndexAddr)
				if !isIA {
					// field of an element: &m.Clients[i].X = … (changing which region an entry denotes)
					if fa, isFA := st.Addr.(*ssa.FieldAddr); isFA {
						ia, isIA = fa.X.(*ssa.IndexAddr)
					}
					if !isIA {
						return
					}
				}
				ap := trimAddr(accessPath(ia.X))
				if !strings.HasSuffix(ap, "."+spec.field) {
					return
				}
				okc := false
				for _, ct := range append(spec.ctors, "sortClients") {
					if rootFunc(f).Name() == ct {
						okc = true
					}
				}
				if !okc {
					bad = u.ipos(i) + " (an element of the configured client list is overwritten in " + trimPkgDirs(shortName(f)) + ": the preferred-first order established at construction is lost for all later calls)"
				}
			})
			// in-place reordering of the slice elsewhere
			allInstrs(f, func(i ssa.Instruction) {
				if g := staticCallee(i); g != nil && g.Pkg != nil && g.Pkg.Pkg.Path() == "sort" && g.Name() != "init" {
					okc := false
					for _, ct := range append(spec.ctors, "sortClients") {
						if rootFunc(f).Name() == ct {
							okc = true
						}
					}
					if !okc {
						bad = u.ipos(i) + " (sort outside the constructor, in " + shortName(f) + ": " + instrText(i) + ")"
					}
				}
			})
		}
		c.check(bad == "" && nw >= 1, pluginName(spec.pkg)+".AWSKMS."+spec.field+"/writers", "", "written only by the constructor literal", "the ordered client list is modified after construction: "+bad)
		// loops iterate the field
		for _, fn := range []string{"DecryptKey", "generateDataKey", "encryptAllRegions"} {
			var f *ssa.Function
			if f = u.Method(spec.pkg, "AWSKMS", fn); f == nil {
				f = u.Func(spec.pkg, fn)
			}
			if f == nil {
				continue
			}
			uses := false
			allInstrs(f, func(i ssa.Instruction) {
				var base ssa.Value
				switch x := i.(type) {
				case *ssa.IndexAddr:
					base = x.X
				case *ssa.Index:
					base = x.X
				default:
					return
				}
				ap := accessPath(base)
				if strings.HasSuffix(ap, "."+spec.field) || ap == "P:clients" {
					if loopHeadOf(i.Block()) != nil {
						uses = true
					}
				}
			})
			c.check(uses, pluginName(spec.pkg)+"."+fn+"/iterates-clients", u.pos(f.Pos()), "loop indexes the configured client slice", fn+" does not iterate the configured client slice in place (order may differ from preferred-first)")
		}
		// v1: the free functions receive m.Clients
		if spec.pkg == pkgKmsV1 {
			for _, m := range []string{"EncryptKey"} {
				f := u.Method(spec.pkg, "AWSKMS", m)
				if f == nil {
					continue
				}
				okArg := true
				allInstrs(f, func(i ssa.Instruction) {
					cc := callOf(i)
					if cc == nil || cc.IsInvoke() || cc.StaticCallee() != nil {
						return
					}
					for _, a := range cc.Args {
						if t, ok := a.Type().Underlying().(*types.Slice); ok && typeIsNamed(t.Elem(), pkgKmsV1, "AWSKMSClient") {
							if !strings.HasSuffix(accessPath(a), ".Clients") {
								okArg = false
							}
						}
					}
				})
				c.check(okArg, "kms(v1).EncryptKey/passes-clients", u.pos(f.Pos()), "helpers receive m.Clients", "EncryptKey passes something other than m.Clients to the region helpers")
			}
		}
	}
}

func ruleC17EntryPerSuccess(c *Ctx) {
	u := c.U1
	c.rule("C17.entry-per-success", "encryptAllRegions (v1, v2): the generating region's ciphertext is sent directly; each worker sends its result on every path where the regional Encrypt succeeded, after wg.Add(1) and with a deferred wg.Done; EncryptKey marshals only after draining the channel", 6)
	for _, pkg := range []string{pkgKmsV1, pkgKmsV2} {
		var f *ssa.Function
		if f = u.Method(pkg, "AWSKMS", "encryptAllRegions"); f == nil {
			f = u.Func(pkg, "encryptAllRegions")
		}
		name := pluginName(pkg) + ".encryptAllRegions"
		if f == nil {
			c.unresolved(name, "function")
			continue
		}
		c.FuncsAnalysed[shortName(f)] = true
		// direct send for the generating region: a Send in f guarded by ARN == *KeyId
		direct := false
		allInstrs(f, func(i ssa.Instruction) {
			if s, ok := i.(*ssa.Send); ok {
				_ = s
				if guardedBy(i, true, func(v ssa.Value) bool {
					b, isB := v.(*ssa.BinOp)
					return isB && (strings.HasSuffix(accessPath(b.X), "ARN") || strings.HasSuffix(accessPath(b.Y), "ARN"))
				}) {
					direct = true
				}
			}
		})
		c.check(direct, name+"/generating-region", u.pos(f.Pos()), "the region that generated the data key contributes CiphertextBlob directly", "the generating region's entry is not added to the envelope")
		// workers
		nw := 0
		allInstrs(f, func(i ssa.Instruction) {
			g, ok := i.(*ssa.Go)
			if !ok {
				return
			}
			mc, isMC := g.Call.Value.(*ssa.MakeClosure)
			var w *ssa.Function
			if isMC {
				w = mc.Fn.(*ssa.Function)
			} else if fn, isFn := g.Call.Value.(*ssa.Function); isFn {
				w = fn
			}
			if w == nil {
				return
			}
			// the worker body: the closure itself plus the package functions it calls (the body may live in a named helper)
			bodies := []*ssa.Function{w}
			allInstrs(w, func(j ssa.Instruction) {
				if h := staticCallee(j); h != nil && h.Blocks != nil && h.Pkg != nil && h.Pkg.Pkg.Path() == pkg && h != w {
					bodies = append(bodies, h)
				}
			})
			encName := func(cc *ssa.CallCommon) string {
				if n := methodNameOf(cc); n != "" {
					return strings.ToLower(n)
				}
				if g := cc.StaticCallee(); g != nil {
					return strings.ToLower(g.Name())
				}
				return ""
			}
			hasEncrypt := false
			for _, bf := range bodies {
				allInstrs(bf, func(j ssa.Instruction) {
					if cc := callOf(j); cc != nil && strings.HasPrefix(encName(cc), "encrypt") {
						hasEncrypt = true
					}
				})
			}
			if !hasEncrypt {
				return
			}
			nw++
			c.FuncsAnalysed[shortName(w)] = true
			// wg.Add before go
			added := false
			allInstrs(f, func(j ssa.Instruction) {
				if staticIs(j, "(*sync.WaitGroup).Add") && instrDominates(j, i) && j.Block() == i.Block() {
					added = true
				}
			})
			// deferred Done in the worker entry block
			done := false
			for _, j := range w.Blocks[0].Instrs {
				if d, isD := j.(*ssa.Defer); isD && staticCallee(d) != nil && funcFullName(staticCallee(d)) == "(*sync.WaitGroup).Done" {
					done = true
				}
			}
			// success → send on every path
			sendOK := false
			for _, bf := range bodies {
				bf := bf
				allInstrs(bf, func(j ssa.Instruction) {
					cc := callOf(j)
					if cc == nil || !strings.HasPrefix(encName(cc), "encrypt") {
						return
					}
					if _, isCall := j.(*ssa.Call); !isCall {
						return
					}
					e := errOfCall(j)
					if e == nil {
						return
					}
					for _, b := range bf.Blocks {
						for _, s := range b.Succs {
							for _, fct := range edgeFacts(b, s) {
								if x, isNil, ok := nilTest(fct); ok && isNil && strip(x) == e {
									okp, _ := mustPass(s, 0, func(k ssa.Instruction) bool { _, isS := k.(*ssa.Send); return isS }, nil)
									if okp {
										sendOK = true
									}
								}
							}
						}
					}
				})
			}
			c.check(added && done && sendOK, name+"/worker", u.ipos(i), "wg.Add before go, deferred Done, success → send", fmt.Sprintf("regional worker protocol broken (wg.Add before go: %v, deferred Done: %v, result sent on every success path: %v): entries are lost or the drain never finishes", added, done, sendOK))
		})
		if nw == 0 {
			c.bad(name+"/worker", u.pos(f.Pos()), "no regional worker goroutine found")
		}
		// EncryptKey: json.Marshal dominated by the drain (receive ok == false edge) in the function that drains
		ek := u.Method(pkg, "AWSKMS", "EncryptKey")
		if ek != nil {
			okm := false
			allInstrs(ek, func(i ssa.Instruction) {
				if !staticIs(i, "encoding/json.Marshal") {
					return
				}
				// v1: drain in EncryptKey itself; v2: KEKs come from encryptRegionalKEKs (drain checked by C10.wipe-not-early)
				drained := guardedBy(i, false, func(v ssa.Value) bool {
					ex, ok := v.(*ssa.Extract)
					if !ok || ex.Index != 1 {
						return false
					}
					_, isRecv := ex.Tuple.(*ssa.UnOp)
					return isRecv
				})
				viaHelper := false
				allInstrs(ek, func(j ssa.Instruction) {
					if g := staticCallee(j); g != nil && instrDominates(j, i) && (g.Name() == "encryptRegionalKEKs" || (g.Pkg == ek.Pkg && drainsChannel(g))) {
						viaHelper = true
					}
				})
				okm = drained || viaHelper
			})
			c.check(okm, pluginName(pkg)+".EncryptKey/marshal-after-drain", u.pos(ek.Pos()), "envelope marshalled only after all regional results were collected", "the envelope is marshalled before the regional results were drained: entries of successful regions are missing")
		}
	}
}

func ruleC17SiblingEnvelope(c *Ctx) {
	u := c.U1
	c.rule("C17.sibling-envelope", "the envelope structs of the v1 and v2 KMS plugins have the same JSON tags and field types (encryptedKey, kmsKeks[region, arn, encryptedKek])", 2)
	shape := func(pkg, name string) []string {
		n := u.Named(pkg, name)
		if n == nil {
			return nil
		}
		st, ok := n.Underlying().(*types.Struct)
		if !ok {
			return nil
		}
		var out []string
		for i := 0; i < st.NumFields(); i++ {
			tag := reflect.StructTag(st.Tag(i)).Get("json")
			t := st.Field(i).Type()
			ts := types.TypeString(t, func(p *types.Package) string { return "" })
			// element struct types are compared separately
			if sl, isS := t.Underlying().(*types.Slice); isS {
				if _, isStruct := sl.Elem().Underlying().(*types.Struct); isStruct {
					ts = "[]struct"
				}
			}
			out = append(out, tag+":"+ts)
		}
		return out
	}
	e1, e2 := shape(pkgKmsV1, "envelope"), shape(pkgKmsV2, "envelope")
	k1, k2 := shape(pkgKmsV1, "encryptionKey"), shape(pkgKmsV2, "regionalKEK")
	want := []string{"encryptedKey:[]byte", "kmsKeks:[]struct"}
	wantK := []string{"region:string", "arn:string", "encryptedKek:[]byte"}
	c.check(e1 != nil && reflect.DeepEqual(e1, e2) && reflect.DeepEqual(e1, want), "kms.envelope/v1-v2", "", fmt.Sprintf("%v", e1), fmt.Sprintf("v1 %v vs v2 %v (documented: %v): envelopes written by one plugin cannot be read by the other / by other languages", e1, e2, want))
	c.check(k1 != nil && reflect.DeepEqual(k1, k2) && reflect.DeepEqual(k1, wantK), "kms.regional-entry/v1-v2", "", fmt.Sprintf("%v", k1), fmt.Sprintf("v1 %v vs v2 %v (documented: %v)", k1, k2, wantK))
}

// pluginName distinguishes the two sibling plugins in construct names.
func pluginName(pkg string) string {
	switch pkg {
	case pkgKmsV1:
		return "kms(v1)"
	case pkgKmsV2:
		return "kms(v2)"
	}
	return trimPkgDirs(pkg)
}

// exemptions of C17.errors-propagate (function → callee → reason)
var c17ErrExempt = map[string]map[string]string{}
