package main

import (
	"fmt"
	"go/constant"
	"go/token"
	"go/types"
	"strings"

	"golang.org/x/tools/go/ssa"
)

// Rules added during seeding round 6.

// ruleC06CachedSessionForRequestedID: the session cache hands out, for partition id, only a session that was looked up
// under that id or loaded for that id in this very call. A session carried from one call to another in a field of the
// wrapper ("the load in flight", "the last one loaded") is handed to whoever waits for it — a session for another
// partition, which decrypts that partition's records.
func ruleC06CachedSessionForRequestedID(c *Ctx) {
	u := c.U1
	c.rule("C06.cached-session-is-for-requested-id", "every non-nil *Session returned by cacheWrapper.Get (through the cacheWrapper methods it calls) is the result of cache.Get(id) or of loader(id) with this call's own id parameter — never a value read from a field or any other place that outlives the call", 1)
	get := u.Method(pkgApp, "cacheWrapper", "Get")
	if get == nil {
		c.unresolved("cacheWrapper.Get", "(*cacheWrapper).Get")
		return
	}
	type frame struct {
		f  *ssa.Function
		id ssa.Value
	}
	seen := map[*ssa.Function]bool{}
	var checkFn func(fr frame, depth int)
	var provenance func(v ssa.Value, fr frame, depth int) string
	provenance = func(v ssa.Value, fr frame, depth int) string {
		v = resolve(v)
		if depth > 8 {
			return "too deep"
		}
		if isNilConst(v) {
			return ""
		}
		switch x := v.(type) {
		case *ssa.Phi:
			for _, e := range x.Edges {
				if why := provenance(e, fr, depth+1); why != "" {
					return why
				}
			}
			return ""
		case *ssa.Extract:
			call, ok := x.Tuple.(*ssa.Call)
			if !ok || x.Index != 0 {
				return "not a call result: " + describeOperand(v)
			}
			sameID := func(a ssa.Value) bool { return resolve(a) == resolve(fr.id) }
			if call.Call.IsInvoke() {
				if call.Call.Method.Name() == "Get" && strings.HasSuffix(trimAddr(accessPath(call.Call.Value)), ".cache") {
					if len(call.Call.Args) == 1 && sameID(call.Call.Args[0]) {
						return ""
					}
					return "cache.Get is asked for something other than this call's id"
				}
				return "result of " + call.Call.Method.Name()
			}
			if g := staticCallee(call); g != nil {
				if g.Signature.Recv() != nil && typeIsNamed(g.Signature.Recv().Type(), pkgApp, "cacheWrapper") && g.Blocks != nil {
					// a helper of the wrapper: which of its parameters receives our id?
					for k, a := range call.Call.Args {
						if sameID(a) && k < len(g.Params) {
							checkFn(frame{g, g.Params[k]}, depth+1)
							return ""
						}
					}
					return "helper " + g.Name() + " is not handed this call's id"
				}
				return "result of " + g.Name()
			}
			// dynamic call: the loader field
			if strings.HasSuffix(trimAddr(accessPath(call.Call.Value)), ".loader") {
				if len(call.Call.Args) == 1 && sameID(call.Call.Args[0]) {
					return ""
				}
				return "the loader is called for something other than this call's id"
			}
			return "result of a dynamic call"
		}
		return "read from " + describeOperand(v)
	}
	checkFn = func(fr frame, depth int) {
		if seen[fr.f] || depth > 4 {
			return
		}
		seen[fr.f] = true
		c.FuncsAnalysed[shortName(fr.f)] = true
		for _, r := range returnsOf(fr.f) {
			if len(r.Results) < 1 {
				continue
			}
			v := returnedValue(r, 0)
			if isNilValue(v) {
				continue
			}
			c.CallSites++
			why := provenance(v, fr, 0)
			c.check(why == "", trimPkgDirs(shortName(fr.f))+"/returned-session", u.ipos(r), "cache.Get(id) / loader(id) of this call", "the session returned for a partition id is not the one looked up or loaded for that id in this call ("+why+"): a caller can be handed the session of another partition and read its records")
		}
	}
	if len(get.Params) < 2 {
		c.unresolved("cacheWrapper.Get", "id parameter")
		return
	}
	checkFn(frame{get, get.Params[1]}, 0)
}

// ---------------------------------------------------------------------------------------------
// C07: **T decode targets

// nilableDecodeTargetDerefs: p is a pointer variable handed to json.Unmarshal as &p (a **T target): a JSON `null`
// leaves p nil. Lists dereferences of p in f that follow the decode without a dominating p != nil.
func nilableDecodeTargetDerefs(f *ssa.Function) []elemDeref {
	var out []elemDeref
	allInstrs(f, func(i ssa.Instruction) {
		g := staticCallee(i)
		if g == nil || funcFullName(g) != "encoding/json.Unmarshal" {
			return
		}
		mi, ok := callOf(i).Args[1].(*ssa.MakeInterface)
		if !ok {
			return
		}
		slot, ok := mi.X.(*ssa.Alloc)
		if !ok {
			return
		}
		pt, ok := slot.Type().Underlying().(*types.Pointer)
		if !ok {
			return
		}
		if _, isPP := pt.Elem().Underlying().(*types.Pointer); !isPP {
			return
		}
		// loads of the slot after the call, and dereferences of what they yield
		for _, r := range *slot.Referrers() {
			ld, isL := r.(*ssa.UnOp)
			if !isL || ld.Op != token.MUL || !reaches(i, ld) {
				continue
			}
			for _, r2 := range *ld.Referrers() {
				switch d := r2.(type) {
				case *ssa.FieldAddr:
					if d.X == ssa.Value(ld) && !knownNonNil(ld, d.Block()) {
						out = append(out, elemDeref{d, ld})
					}
				case *ssa.UnOp:
					if d.Op == token.MUL && d.X == ssa.Value(ld) && !knownNonNil(ld, d.Block()) {
						out = append(out, elemDeref{d, ld})
					}
				}
			}
		}
	})
	return out
}

// ---------------------------------------------------------------------------------------------
// no write to a map field that a method of the same type sets to nil

type nilledMapWrite struct {
	Write ssa.Instruction
	Niled ssa.Instruction
	Field string
}

// writesToNilledMaps: for the named struct type nt: map-typed fields that some method assigns nil, and the map writes
// to such a field in its methods that are not dominated by a non-nil test of the field or by a test of a bool field
// of the receiver (a closing/closed flag).
func writesToNilledMaps(u *Universe, nt *types.Named) []nilledMapWrite {
	ms := declMethods(u, nt)
	nilled := map[string]ssa.Instruction{}
	for _, f := range ms {
		for _, g := range withAnon(f) {
			allInstrs(g, func(i ssa.Instruction) {
				st, ok := i.(*ssa.Store)
				if !ok || !isNilConst(st.Val) {
					return
				}
				fa, isF := st.Addr.(*ssa.FieldAddr)
				if !isF {
					return
				}
				if _, isMap := st.Val.Type().Underlying().(*types.Map); !isMap {
					return
				}
				if n, ok := namedOf(derefType(fa.X.Type())); ok && n.Obj() == nt.Obj() {
					nilled[fieldName(fa.X.Type(), fa.Field)] = i
				}
			})
		}
	}
	var out []nilledMapWrite
	if len(nilled) == 0 {
		return nil
	}
	for _, f := range ms {
		for _, g := range withAnon(f) {
			allInstrs(g, func(i ssa.Instruction) {
				mu, ok := i.(*ssa.MapUpdate)
				if !ok {
					return
				}
				ld, isL := mu.Map.(*ssa.UnOp)
				if !isL || ld.Op != token.MUL {
					return
				}
				fa, isF := ld.X.(*ssa.FieldAddr)
				if !isF {
					return
				}
				n, isN := namedOf(derefType(fa.X.Type()))
				if !isN || n.Obj() != nt.Obj() {
					return
				}
				fld := fieldName(fa.X.Type(), fa.Field)
				ni, was := nilled[fld]
				if !was {
					return
				}
				guarded := knownNonNil(ld, i.Block())
				for _, fct := range factsAt(i.Block()) {
					if fct.Sub != nil {
						continue
					}
					if l2, isL2 := resolve(fct.V).(*ssa.UnOp); isL2 && l2.Op == token.MUL {
						if fa2, isF2 := l2.X.(*ssa.FieldAddr); isF2 {
							if b, isB := l2.Type().Underlying().(*types.Basic); isB && b.Kind() == types.Bool {
								if n2, ok2 := namedOf(derefType(fa2.X.Type())); ok2 && n2.Obj() == nt.Obj() {
									guarded = true
								}
							}
						}
					}
				}
				if !guarded {
					out = append(out, nilledMapWrite{i, ni, fld})
				}
			})
		}
	}
	return out
}

func derefType(t types.Type) types.Type {
	if p, ok := types.Unalias(t).Underlying().(*types.Pointer); ok {
		return p.Elem()
	}
	return t
}

// noWriteToNilledMapRule: a method that sets a map field to nil (Close) turns every later unguarded write to that map
// in another method into a panic ("assignment to entry in nil map"): a decrypt on a closed session, or a second
// factory-level load after Close, crashes the process instead of reporting "already closed".
func noWriteToNilledMapRule(prop string, pkgs ...string) func(*Ctx) {
	return func(c *Ctx) {
		u := c.U1
		c.rule(prop+".no-write-to-nilled-map", "for every struct type of the listed packages: a map field that one of the type's methods assigns nil is written (m[k] = v) in its methods only under a dominating non-nil test of the field or a test of one of the receiver's bool flags", 1)
		n := 0
		for _, p := range pkgs {
			pk := u.ByPath[p]
			if pk == nil {
				c.unresolved(p, "package")
				continue
			}
			sc := pk.Types.Scope()
			for _, nm := range sc.Names() {
				tn, ok := sc.Lookup(nm).(*types.TypeName)
				if !ok {
					continue
				}
				nt, ok := tn.Type().(*types.Named)
				if !ok {
					continue
				}
				if _, isS := nt.Underlying().(*types.Struct); !isS {
					continue
				}
				n++
				ws := writesToNilledMaps(u, nt)
				if len(ws) == 0 {
					continue
				}
				for _, w := range ws {
					c.CallSites++
					c.bad(trimPkgDirs(shortName(w.Write.Parent()))+"/write "+w.Field, u.ipos(w.Write), nt.Obj().Name()+"."+w.Field+" is set to nil at "+u.ipos(w.Niled)+" and written here without a guard: after that point (e.g. after Close) this write panics with \"assignment to entry in nil map\" instead of the operation failing with an error")
				}
			}
		}
		c.check(n > 0, prop+"/struct-types", "", fmt.Sprintf("%d struct types scanned", n), "no struct types found in the listed packages")
	}
}

// ---------------------------------------------------------------------------------------------
// C13: no filter on the latest-query; expression builders are per call

func ruleC13QueryUnfilteredAndPerCall(c *Ctx) {
	u := c.U1
	c.rule("C13.query-unfiltered-and-per-call", "in both DynamoDB metastores: no QueryInput/GetItemInput sets FilterExpression and no expression builder gets WithFilter (DynamoDB applies Limit before the filter: a filtered Limit-1 query answers \"nothing\" when the newest row is filtered out); every method call on an expression.Builder has a receiver chain that starts at expression.NewBuilder() in the same function (a builder kept in a field shares its internal map between concurrent calls)", 4)
	for _, m := range metastoreImpls(c) {
		if !strings.HasPrefix(m.Kind, "dynamo") {
			continue
		}
		pkg := m.N.Obj().Pkg().Path()
		for _, pref := range []string{"GetItem", "Query"} {
			for _, r := range clientRequests(u, pkg, pref) {
				c.CallSites++
				construct := trimPkgDirs(shortName(r.F)) + "/" + r.Meth + "/filter"
				if r.Input == nil {
					c.undecided(construct, u.ipos(r.Call), "request input is not a literal built here")
					continue
				}
				fl := litFields(r.Input)
				v, set := fl["FilterExpression"]
				c.check(!set || isNilValue(v), construct, u.ipos(r.Call), "no FilterExpression", "the read carries a FilterExpression: DynamoDB evaluates Limit before the filter, so the descending Limit-1 query of LoadLatest returns no item at all whenever the newest record is filtered out (e.g. revoked) — callers then create a key although usable older records and the revoked newest one exist")
			}
		}
		for _, f := range u.RepoFuncs {
			root := rootFunc(f)
			if root.Pkg == nil || root.Pkg.Pkg.Path() != pkg || f.Blocks == nil {
				continue
			}
			allInstrs(f, func(i ssa.Instruction) {
				cv, ok := i.(*ssa.Call)
				if !ok {
					return
				}
				g := staticCallee(cv)
				if g == nil || g.Signature.Recv() == nil || g.Pkg == nil || !strings.HasSuffix(g.Pkg.Pkg.Path(), "/expression") || namedTypeName(g.Signature.Recv().Type()) != "Builder" {
					return
				}
				c.CallSites++
				c.FuncsAnalysed[shortName(f)] = true
				construct := trimPkgDirs(shortName(f)) + "/Builder." + g.Name()
				if g.Name() == "WithFilter" {
					c.bad(construct, u.ipos(i), "a filter is added to the read's expression: with Limit 1 the filter is applied after the limit and the query can come back empty although matching rows exist")
					return
				}
				// receiver chain
				recv := cv.Call.Args[0]
				fresh := false
				for k := 0; k < 8; k++ {
					rc, isC := resolve(recv).(*ssa.Call)
					if !isC {
						// a helper that extends the builder it is given: every call site must hand it a fresh chain
						if p, isP := resolve(recv).(*ssa.Parameter); isP {
							fresh = builderParamFresh(p, 0)
						}
						break
					}
					h := staticCallee(rc)
					if h == nil {
						break
					}
					if h.Name() == "NewBuilder" && h.Pkg != nil && strings.HasSuffix(h.Pkg.Pkg.Path(), "/expression") {
						fresh = true
						break
					}
					if h.Signature.Recv() != nil && namedTypeName(h.Signature.Recv().Type()) == "Builder" {
						recv = rc.Call.Args[0]
						continue
					}
					break
				}
				c.check(fresh, construct, u.ipos(i), "builder created by NewBuilder() in this call", "the expression builder this call extends was not created in this function (it comes from "+describeOperand(recv)+"): expression.Builder copies share one internal map, so concurrent reads write their conditions into the same state — a query carries another caller's key condition (LoadLatest returns another id's record) or the process dies with \"concurrent map writes\"")
			})
		}
	}
}

// ---------------------------------------------------------------------------------------------
// C09.key-cache-never-deletes

// callsOnFieldMethod: calls in f (and its closures) of method `meth` on the value loaded from field `field`.
func callsOnFieldMethod(f *ssa.Function, field, meth string) []ssa.Instruction {
	var out []ssa.Instruction
	for _, g := range withAnon(f) {
		allInstrs(g, func(i ssa.Instruction) {
			cc := callOf(i)
			if cc == nil {
				return
			}
			name := ""
			var recv ssa.Value
			if cc.IsInvoke() {
				name, recv = cc.Method.Name(), cc.Value
			} else if h := staticCallee(i); h != nil && h.Signature.Recv() != nil && len(cc.Args) > 0 {
				name, recv = h.Name(), cc.Args[0]
			}
			if name == meth && recv != nil && strings.HasSuffix(trimAddr(accessPath(recv)), "."+field) {
				out = append(out, i)
			}
		})
	}
	return out
}

// ruleC09KeyCacheNeverDeletes: entries leave the key cache only by eviction (the callback releases the cache's
// reference) or at Close. keyCache itself never calls keys.Delete: the two storage implementations disagree about what
// Delete does (simpleCache.Delete keeps the entry, the bounded cache removes it WITHOUT the evict callback), so a
// Delete either leaks the removed key's secret or — paired with a Close — releases a reference a second time.
func ruleC09KeyCacheNeverDeletes(c *Ctx) {
	u := c.U1
	c.rule("C09.key-cache-never-deletes", "no method of keyCache calls Delete on its storage (keys): cached keys are released only by the evict callback, by keyCache.write for a displaced entry, and by Close", 5)
	nt := u.Named(pkgApp, "keyCache")
	if nt == nil {
		c.unresolved("keyCache", "type")
		return
	}
	for name, f := range declMethods(u, nt) {
		c.FuncsAnalysed[shortName(f)] = true
		c.CallSites++
		sites := callsOnFieldMethod(f, "keys", "Delete")
		if len(sites) == 0 {
			c.ok("keyCache."+name, u.pos(f.Pos()), "no keys.Delete")
			continue
		}
		c.bad("keyCache."+name, u.ipos(sites[0]), "keyCache."+name+" removes an entry with keys.Delete: the bounded cache drops it without running the evict callback (the secret of the removed key is never released), the simple cache keeps it (a Close next to the Delete leaves a destroyed key in the cache); either way the cache's reference is no longer released exactly once")
	}
}

// ---------------------------------------------------------------------------------------------
// stale read across a lock gap

type staleUse struct {
	Load, Unlock, Use ssa.Instruction
	Field             string
}

// staleAcrossUnlock: a value loaded from one of the guarded fields of the receiver is used (compared, branched on,
// stored, passed on) at an instruction that is reachable from a non-deferred Unlock/RUnlock of the mutex field which is
// itself reachable from the load: the decision is made from a value read in an earlier critical section.
func staleAcrossUnlock(f *ssa.Function, mutexField string, fields map[string]bool) []staleUse {
	var unlocks []ssa.Instruction
	allInstrs(f, func(i ssa.Instruction) {
		if _, isDefer := i.(*ssa.Defer); isDefer {
			return
		}
		g := staticCallee(i)
		if g == nil || (g.Name() != "Unlock" && g.Name() != "RUnlock") {
			return
		}
		cc := callOf(i)
		if len(cc.Args) > 0 && strings.HasSuffix(trimAddr(accessPath(cc.Args[0])), "."+mutexField) {
			unlocks = append(unlocks, i)
		}
	})
	if len(unlocks) == 0 {
		return nil
	}
	var out []staleUse
	allInstrs(f, func(i ssa.Instruction) {
		ld, ok := i.(*ssa.UnOp)
		if !ok || ld.Op != token.MUL {
			return
		}
		fa, isF := ld.X.(*ssa.FieldAddr)
		if !isF || !fields[fieldName(fa.X.Type(), fa.Field)] {
			return
		}
		// transitive users of the loaded value (through arithmetic, comparisons, phis, negation)
		seen := map[ssa.Instruction]bool{}
		var users []ssa.Instruction
		var walk func(v ssa.Value, depth int)
		walk = func(v ssa.Value, depth int) {
			refs := v.Referrers()
			if refs == nil || depth > 6 {
				return
			}
			for _, r := range *refs {
				if seen[r] {
					continue
				}
				seen[r] = true
				users = append(users, r)
				switch x := r.(type) {
				case *ssa.BinOp:
					walk(x, depth+1)
				case *ssa.UnOp:
					walk(x, depth+1)
				case *ssa.Phi:
					walk(x, depth+1)
				case *ssa.Convert:
					walk(x, depth+1)
				}
			}
		}
		walk(ld, 0)
		for _, ul := range unlocks {
			if !reaches(ld, ul) {
				continue
			}
			for _, us := range users {
				if _, isDbg := us.(*ssa.DebugRef); isDbg {
					continue
				}
				if _, isRet := us.(*ssa.Return); isRet {
					continue // handing a snapshot back is not acting on it
				}
				if reaches(ul, us) {
					out = append(out, staleUse{ld, ul, us, fieldName(fa.X.Type(), fa.Field)})
					return
				}
			}
		}
	})
	return out
}

// ruleC11NoStaleCounterDecision: the reader count, closing and closed decide page-state changes; the value a decision
// is based on must be read in the critical section that acts on it. A check under the read lock followed by
// unlock + lock and an action based on the remembered answer lets the last reader's release slip in between: a second
// reader then runs its callback over pages that were just made inaccessible.
func ruleC11NoStaleCounterDecision(c *Ctx) {
	u := c.U1
	c.rule("C11.no-stale-counter-decision", "in the methods of both secrets no value read from accessCounter / closing / closed is used after an explicit Unlock/RUnlock of rw that follows the read (check-then-act stays inside one critical section)", 6)
	fields := map[string]bool{"accessCounter": true, "closing": true, "closed": true}
	n := 0
	for _, f := range u.RepoFuncs {
		if f.Pkg == nil || (f.Pkg.Pkg.Path() != pkgProt && f.Pkg.Pkg.Path() != pkgMemg) || f.Blocks == nil || f.Signature.Recv() == nil {
			continue
		}
		reads := false
		allInstrs(f, func(i ssa.Instruction) {
			if ld, ok := i.(*ssa.UnOp); ok && ld.Op == token.MUL {
				if fa, isF := ld.X.(*ssa.FieldAddr); isF && fields[fieldName(fa.X.Type(), fa.Field)] {
					reads = true
				}
			}
		})
		if !reads {
			continue
		}
		n++
		c.CallSites++
		c.FuncsAnalysed[shortName(f)] = true
		st := staleAcrossUnlock(f, "rw", fields)
		if len(st) == 0 {
			c.ok(trimPkgDirs(shortName(f))+"/decisions", u.pos(f.Pos()), "every use of a guarded value stays in the critical section that read it")
			continue
		}
		s0 := st[0]
		c.bad(trimPkgDirs(shortName(f))+"/decisions", u.ipos(s0.Use), "the value of "+s0.Field+" read at "+u.ipos(s0.Load)+" is still used here after rw was released at "+u.ipos(s0.Unlock)+": another goroutine can change it in the gap (the last reader leaves and the pages become inaccessible, or Close starts) and this method acts on the remembered answer — a reader's callback runs over PROT_NONE pages (SIGSEGV) or on a secret being destroyed")
	}
	if n == 0 {
		c.bad("secrets/guarded-reads", "", "no method reading accessCounter/closing/closed found")
	}
}

// ---------------------------------------------------------------------------------------------
// functional options commute

// optionClosures: for package pkg, the anonymous functions returned by exported With… constructors, grouped by the
// named type their (first) pointer parameter points to.
func optionClosures(u *Universe, pkg string) map[*types.Named][]*ssa.Function {
	out := map[*types.Named][]*ssa.Function{}
	for _, f := range u.RepoFuncs {
		if f.Pkg == nil || f.Pkg.Pkg.Path() != pkg || f.Parent() == nil || f.Parent().Parent() != nil || !strings.HasPrefix(f.Parent().Name(), "With") || len(f.Params) == 0 {
			continue
		}
		pt, ok := f.Params[0].Type().Underlying().(*types.Pointer)
		if !ok {
			continue
		}
		nt, ok := namedOf(pt.Elem())
		if !ok {
			continue
		}
		// the closure must be what the constructor returns
		ret := false
		for _, r := range returnsOf(f.Parent()) {
			for k := range r.Results {
				if mc, isMC := resolve(returnedValue(r, k)).(*ssa.MakeClosure); isMC && mc.Fn == f {
					ret = true
				}
				if cv, isCV := resolve(returnedValue(r, k)).(*ssa.ChangeType); isCV {
					if mc, isMC := resolve(cv.X).(*ssa.MakeClosure); isMC && mc.Fn == f {
						ret = true
					}
				}
			}
		}
		if ret {
			out[nt] = append(out[nt], f)
		}
	}
	return out
}

// fieldEffects: fields of *nt (reached from f's first parameter, or from the receiver in methods of nt it calls) that
// f reads and writes.
func fieldEffects(f *ssa.Function, nt *types.Named, depth int, reads, writes map[string]ssa.Instruction) {
	if f == nil || f.Blocks == nil || depth > 2 {
		return
	}
	isT := func(v ssa.Value) bool {
		n, ok := namedOf(derefType(v.Type()))
		return ok && n.Obj() == nt.Obj()
	}
	allInstrs(f, func(i ssa.Instruction) {
		switch x := i.(type) {
		case *ssa.Store:
			if fa, ok := x.Addr.(*ssa.FieldAddr); ok && isT(fa.X) {
				writes[fieldName(fa.X.Type(), fa.Field)] = i
			}
		case *ssa.UnOp:
			if x.Op == token.MUL {
				if fa, ok := x.X.(*ssa.FieldAddr); ok && isT(fa.X) {
					reads[fieldName(fa.X.Type(), fa.Field)] = i
				}
			}
		case *ssa.Call:
			if g := staticCallee(x); g != nil && g.Signature.Recv() != nil {
				if n, ok := namedOf(derefType(g.Signature.Recv().Type())); ok && n.Obj() == nt.Obj() {
					fieldEffects(g, nt, depth+1, reads, writes)
				}
			}
		}
	})
}

// optionsCommuteRule: what a functional option does must not depend on which other options ran before it: an option
// that reads a field another option writes gives a different object for the two orders — silently (e.g. the region
// suffix stays empty when WithRegionSuffix comes before the option that installs the client).
func optionsCommuteRule(prop string, pkgs ...string) func(*Ctx) {
	return func(c *Ctx) {
		u := c.U1
		c.rule(prop+".options-commute", "for the functional options (closures returned by exported With… constructors) of every configured type in the listed packages: no option reads — directly or through a method of the type it calls — a field that a different option writes", 4)
		n := 0
		for _, p := range pkgs {
			for nt, opts := range optionClosures(u, p) {
				type eff struct{ r, w map[string]ssa.Instruction }
				effs := map[*ssa.Function]eff{}
				for _, o := range opts {
					e := eff{map[string]ssa.Instruction{}, map[string]ssa.Instruction{}}
					fieldEffects(o, nt, 0, e.r, e.w)
					effs[o] = e
				}
				for _, o := range opts {
					n++
					c.CallSites++
					c.FuncsAnalysed[shortName(o)] = true
					bad := ""
					for _, o2 := range opts {
						if o2 == o || o2.Parent() == o.Parent() {
							continue
						}
						for fld, at := range effs[o].r {
							if _, w := effs[o2].w[fld]; w {
								bad = fmt.Sprintf("%s reads %s.%s (%s), which %s writes", o.Parent().Name(), nt.Obj().Name(), fld, u.ipos(at), o2.Parent().Name())
							}
						}
					}
					c.check(bad == "", trimPkgDirs(p)+"."+o.Parent().Name(), u.pos(o.Pos()), "independent of the other options", bad+": the configured object depends on the order in which the options are passed — in one order the setting silently has no effect")
				}
			}
		}
		if n == 0 {
			c.bad(prop+"/options", "", "no functional options found in the listed packages")
		}
	}
}

// ---------------------------------------------------------------------------------------------
// errors of the storage / KMS layer are never dropped

// errorsPropagateRule: in every function of the listed packages each call that yields an error has that error tested or
// returned, and the err != nil edge reaches only returns carrying a non-nil error (worker goroutines without an error
// result: the err != nil edge must not reach the success action — checked by the owning property's own rules).
// Exemptions: one function + callee + reason each.
func errorsPropagateRule(prop string, floor int, exempt map[string]map[string]string, pkgs ...string) func(*Ctx) {
	return func(c *Ctx) {
		u := c.U1
		c.rule(prop+".errors-propagate", "in every function of "+strings.Join(trimAll(pkgs), ", ")+": each call yielding an error has it tested or returned, and its err != nil edge reaches only returns whose error is non-nil (listed exemptions excepted) — a failing backend/SDK/codec call is never continued from with zero values", floor)
		inPkg := map[string]bool{}
		for _, p := range pkgs {
			inPkg[p] = true
		}
		for _, f := range u.RepoFuncs {
			root := rootFunc(f)
			if root.Pkg == nil || !inPkg[root.Pkg.Pkg.Path()] || f.Blocks == nil {
				continue
			}
			sites := errorDiscipline(f, func(i ssa.Instruction) bool {
				// calls that MAKE an error value are not failing calls
				if g := staticCallee(i); g != nil && g.Pkg != nil {
					switch g.Pkg.Pkg.Path() {
					case "errors", "github.com/pkg/errors":
						return false
					case "fmt":
						return g.Name() != "Errorf"
					}
				}
				return true
			}, func(i ssa.Instruction) string {
				if ex, ok := exempt[shortName(f)]; ok {
					if why := ex[calleeLabel(i)]; why != "" {
						return why
					}
				}
				if failureGoesToNextIteration(f, i) {
					return "a step of a try-the-next-one loop: its err != nil edge leads back to the loop head without returning (the loop's own exit carries the error; C17.try-all-regions)"
				}
				if noRowsIsTheOnlySwallowedError(f, i) {
					return "sql.ErrNoRows is the driver's way of saying the row is absent; only that error is turned into (nil, nil) (C13.nothing-only-when-absent)"
				}
				return ""
			})
			if len(sites) > 0 {
				c.FuncsAnalysed[shortName(f)] = true
			}
			for _, s := range sites {
				c.CallSites++
				construct := trimPkgDirs(shortName(f)) + "/" + calleeLabel(s.Call)
				if s.Problem == "" {
					c.ok(construct, u.ipos(s.Call), s.How)
				} else {
					c.bad(construct, u.ipos(s.Call), s.Problem+": the function carries on with zero values after a failed call (an undecoded record, an unbuilt request, an unwrapped key) instead of reporting the failure", u.tracePositions(s.Trace)...)
				}
			}
		}
	}
}

func trimAll(ps []string) []string {
	var out []string
	for _, p := range ps {
		out = append(out, trimPkgDirs(p))
	}
	return out
}

// noRowsIsTheOnlySwallowedError: call i is a Scan whose error reaches a nil-error return only on the edge where it is
// known to be sql.ErrNoRows.
func noRowsIsTheOnlySwallowedError(f *ssa.Function, i ssa.Instruction) bool {
	cc := callOf(i)
	if cc == nil || !cc.IsInvoke() || cc.Method.Name() != "Scan" {
		return false
	}
	e := errOfCall(i)
	if e == nil {
		return false
	}
	isNoRows := func(fct Fact) bool {
		switch x := fct.V.(type) {
		case *ssa.Call:
			return staticIs(x, "errors.Is") && fct.True && len(x.Call.Args) == 2 && trimAddr(accessPath(x.Call.Args[1])) == "G:database/sql.ErrNoRows"
		case *ssa.BinOp:
			if (x.Op == token.EQL) == fct.True && (x.Op == token.EQL || x.Op == token.NEQ) {
				return trimAddr(accessPath(x.X)) == "G:database/sql.ErrNoRows" || trimAddr(accessPath(x.Y)) == "G:database/sql.ErrNoRows"
			}
		}
		return false
	}
	okAll, seen := true, false
	for _, b := range f.Blocks {
		for _, s := range b.Succs {
			for _, fct := range edgeFacts(b, s) {
				x, isNil, isT := nilTest(fct)
				if !isT || isNil || strip(x) != e {
					continue
				}
				seen = true
				// explore the err != nil edge; a nil-error return is fine only behind a NoRows edge
				found, _ := pathSearchAt(s, 0, func(j ssa.Instruction) pathAction {
					if r, ok := j.(*ssa.Return); ok {
						if len(r.Results) > 0 && isNilValue(r.Results[len(r.Results)-1]) {
							return pathFound
						}
						return pathStop
					}
					return pathContinue
				}, func(from, to *ssa.BasicBlock) bool {
					for _, g := range edgeFacts(from, to) {
						if isNoRows(g) {
							return false
						}
					}
					return true
				})
				if found {
					okAll = false
				}
			}
		}
	}
	return seen && okAll
}

// failureGoesToNextIteration: call i sits in a loop and every path from its err != nil edge reaches the loop head
// before any return.
func failureGoesToNextIteration(f *ssa.Function, i ssa.Instruction) bool {
	head := loopHeadOf(i.Block())
	e := errOfCall(i)
	if head == nil || e == nil {
		return false
	}
	seen, ok := false, true
	for _, b := range f.Blocks {
		for _, s := range b.Succs {
			for _, fct := range edgeFacts(b, s) {
				x, isNil, isT := nilTest(fct)
				if !isT || isNil || strip(x) != e {
					continue
				}
				seen = true
				found, _ := pathSearchAt(s, 0, func(j ssa.Instruction) pathAction {
					if j.Block() == head && indexOf(j) == 0 {
						return pathStop
					}
					if isReturn(j) {
						return pathFound
					}
					return pathContinue
				}, nil)
				if found {
					ok = false
				}
			}
		}
	}
	return seen && ok
}

// ---------------------------------------------------------------------------------------------
// C13.row-used-only-when-present

// ruleC13RowUsedOnlyWhenPresent: the other half of C13.nothing-only-when-absent. A DynamoDB read answers "no such
// row" with a nil Item / empty Items; the back end may look into the answer only where it established that a row is
// there. Without the test, Items[0] panics for every id that has no key yet (the first encrypt of every partition), and
// a nil Item decodes — without error — into an all-zero record that is handed to the SDK as if it had been stored.
func ruleC13RowUsedOnlyWhenPresent(c *Ctx) {
	u := c.U1
	c.rule("C13.row-used-only-when-present", "in Load/LoadLatest of both DynamoDB metastores every use of the output's Item (lookup, or handing it to a decoder) is dominated by Item != nil, and every use of Items (indexing, handing an element on) by a test establishing len(Items) > 0", 4)
	for _, m := range metastoreImpls(c) {
		if !strings.HasPrefix(m.Kind, "dynamo") {
			continue
		}
		for _, mn := range []string{"Load", "LoadLatest"} {
			f := u.MethodOf(m.N, mn)
			if f == nil || f.Blocks == nil {
				c.unresolved(m.N.Obj().Name()+"."+mn, "method")
				continue
			}
			c.FuncsAnalysed[shortName(f)] = true
			name := trimPkgDirs(shortName(f))
			n := 0
			for _, fr := range outputFrames(f) {
				fr := fr
				allInstrs(fr.f, func(i ssa.Instruction) {
					// loads of <out>.Item / <out>.Items
					ld, ok := i.(*ssa.UnOp)
					if !ok || ld.Op != token.MUL {
						return
					}
					fa, isF := ld.X.(*ssa.FieldAddr)
					if !isF {
						return
					}
					fld := fieldName(fa.X.Type(), fa.Field)
					if fld != "Item" && fld != "Items" {
						return
					}
					if resolve(rootOfPath(fa.X)) != fr.root {
						return
					}
					for _, r := range *ld.Referrers() {
						use, isI := r.(ssa.Instruction)
						if !isI {
							continue
						}
						switch x := r.(type) {
						case *ssa.BinOp:
							continue // nil comparison
						case *ssa.DebugRef:
							continue
						case *ssa.Call:
							if b, isB := x.Call.Value.(*ssa.Builtin); isB && b.Name() == "len" {
								continue
							}
						}
						n++
						c.CallSites++
						present := false
						if fld == "Item" {
							present = knownNonNil(ld, use.Block())
						} else {
							present = knownNonEmpty(ld, use.Block())
						}
						c.check(present, name+"/use of "+fld, u.ipos(use), "row established present before it is looked into", "the read's "+fld+" is looked into where no test has established that a row came back: for an id without a stored key Items[0] panics (index out of range) and a nil Item decodes without error into an all-zero record — the caller gets a fabricated record instead of \"nothing\"")
					}
				})
			}
			if n == 0 {
				c.bad(name+"/row-use", u.pos(f.Pos()), "no use of the read's Item/Items found")
			}
		}
	}
}

// ---------------------------------------------------------------------------------------------
// C08.shared-cache-not-closed-by-session

// ruleC08SharedCacheNotClosedBySession: with WithSharedIntermediateKeyCache every session of a factory uses the
// factory's one IK cache. A session's Close must leave it alone (the factory closes it): closing it destroys the keys
// that the other sessions — and operations in flight on them — are using.
func ruleC08SharedCacheNotClosedBySession(c *Ctx) {
	u := c.U1
	c.rule("C08.shared-cache-not-closed-by-session", "envelopeEncryption.Close calls ikCache.Close() only where Policy.SharedIntermediateKeyCache is known false (or the policy is nil); the shared cache is closed by SessionFactory.Close", 1)
	f := u.Method(pkgApp, "envelopeEncryption", "Close")
	if f == nil {
		c.unresolved("envelopeEncryption.Close", "method")
		return
	}
	c.FuncsAnalysed[shortName(f)] = true
	n := 0
	for _, site := range callsOnFieldMethod(f, "ikCache", "Close") {
		n++
		c.CallSites++
		notShared := holdsByCases(site.Block(), func(facts []Fact) bool {
			for _, fct := range facts {
				if fct.Sub != nil {
					continue
				}
				if strings.HasSuffix(trimAddr(accessPath(fct.V)), ".SharedIntermediateKeyCache") && !fct.True {
					return true
				}
				if x, isNil, ok := nilTest(fct); ok && isNil && strings.HasSuffix(trimAddr(accessPath(x)), ".Policy") {
					return true
				}
			}
			return false
		})
		c.check(notShared, "envelopeEncryption.Close/ikCache.Close", u.ipos(site), "only on the not-shared edge", "a session's Close closes its intermediate-key cache on a path where the cache may be the factory-wide shared one: the first session to close destroys the keys every other session of the factory (and every operation in flight) is using")
	}
	if n == 0 {
		c.bad("envelopeEncryption.Close/ikCache.Close", u.pos(f.Pos()), "envelopeEncryption.Close no longer closes its own IK cache")
	}
}

// ---------------------------------------------------------------------------------------------
// C15: unlink/move on the segment the item is on; the ordered LFU list

// ruleC15SegmentOpsMatchFlag: an slru item sits on the list its `protected` flag names. container/list silently ignores
// Remove/MoveToFront of an element that belongs to another list, so operating on the wrong segment leaves the element
// where it was: the next push files the item a second time and the cache's bookkeeping (size, victims, notifications)
// drifts from the lists.
func ruleC15SegmentOpsMatchFlag(c *Ctx) {
	u := c.U1
	c.rule("C15.segment-ops-match-flag", "in the methods of slru every Remove/MoveToFront/MoveToBack on probationList (protectedList) of an item's element runs where that item's protected flag is known false (true), or on an element just obtained from Back()/Front() of the same list", 3)
	nt := u.Named(pkgCache, "slru")
	if nt == nil {
		c.unresolved("slru", "type")
		return
	}
	n := 0
	for name, f := range declMethods(u, nt) {
		allInstrs(f, func(i ssa.Instruction) {
			op := listCallName(i)
			if op != "Remove" && op != "MoveToFront" && op != "MoveToBack" {
				return
			}
			fld := listFieldOf(i)
			if fld != "probationList" && fld != "protectedList" {
				return
			}
			n++
			c.CallSites++
			c.FuncsAnalysed[shortName(f)] = true
			want := fld == "protectedList"
			ok := false
			// element taken from the same list's end
			if cc := callOf(i); len(cc.Args) >= 2 {
				if ec, isC := resolve(cc.Args[1]).(*ssa.Call); isC && (listCallName(ec) == "Back" || listCallName(ec) == "Front") && listFieldOf(ec) == fld {
					ok = true
				}
			}
			if !ok {
				ok = holdsOnAllEntries(i.Block(), func(facts []Fact) bool {
					for _, fct := range facts {
						// (a fact that every call site of an unexported helper establishes counts: the test then sits in the caller)
						if ld, isL := resolve(fct.V).(*ssa.UnOp); isL && ld.Op == token.MUL {
							if fa, isF := ld.X.(*ssa.FieldAddr); isF && fieldName(fa.X.Type(), fa.Field) == "protected" && fct.True == want {
								return true
							}
						}
					}
					return false
				})
			}
			c.check(ok, "slru."+name+"/"+fld+"."+op, u.ipos(i), "segment matches the item's protected flag", "an item's element is removed from / moved within "+fld+" on a path where its protected flag does not say it is on that list: container/list ignores the call for a foreign element, the element stays on its real list, and the item is filed twice by the next push (double eviction and notification, entries beyond capacity)")
		})
	}
	if n == 0 {
		c.bad("slru/segment-ops", "", "no Remove/MoveToFront on the slru segments found")
	}
}

// ruleC15LFUOrderedList: the LFU frequency list is ascending because buckets are only ever inserted directly after the
// bucket they exceed by one (InsertAfter(new, current)), or at the front for the first use (PushFront where the item
// has no bucket yet), and the candidate next bucket is current.Next(). Any other way of touching it (PushBack,
// InsertBefore, Prev, Back, MoveTo*) breaks the order Victim relies on.
func ruleC15LFUOrderedList(c *Ctx) {
	u := c.U1
	c.rule("C15.lfu-ordered-list", "lfu.frequencies is touched only by Front(), Remove, InsertAfter(…, <item's current bucket>) and PushFront on an edge where the item's current bucket (a *list.Element) is known nil; buckets are walked with Next() only", 3)
	nt := u.Named(pkgCache, "lfu")
	if nt == nil {
		c.unresolved("lfu", "type")
		return
	}
	n := 0
	for name, f := range declMethods(u, nt) {
		allInstrs(f, func(i ssa.Instruction) {
			op := listCallName(i)
			if op != "" && listFieldOf(i) == "frequencies" {
				n++
				c.CallSites++
				c.FuncsAnalysed[shortName(f)] = true
				ok, why := true, ""
				switch op {
				case "Front", "Remove", "Len", "Init":
				case "InsertAfter":
				case "PushFront":
					// only where the item's current bucket is nil
					ok = holdsOnAllEntries(i.Block(), func(facts []Fact) bool {
						for _, fct := range facts {
							if x, isNil, isT := nilTest(fct); isT && isNil && strings.HasSuffix(x.Type().String(), "container/list.Element") {
								return true
							}
						}
						return false
					})
					why = "PushFront outside the first-use edge (item.parent == nil)"
				default:
					ok, why = false, op+" on the ascending frequency list"
				}
				c.check(ok, "lfu."+name+"/frequencies."+op, u.ipos(i), "order-preserving operation", why+": the frequency list is no longer ascending, so Victim (which takes the first bucket) evicts frequently used entries before rarely used ones")
				return
			}
			// walking elements: (*list.Element).Prev is never needed
			if g := staticCallee(i); g != nil && funcFullName(g) == "(*container/list.Element).Prev" {
				n++
				c.CallSites++
				c.bad("lfu."+name+"/Element.Prev", u.ipos(i), "the bucket list is walked backwards: the candidate for count+1 is the bucket AFTER the current one; taking the previous one files the item under a lower (or a reused) frequency position and breaks the ascending order")
			}
		})
	}
	if n == 0 {
		c.bad("lfu/frequencies", "", "no operation on lfu.frequencies found")
	}
}

// ---------------------------------------------------------------------------------------------
// C12.teardown-once

// ruleC12TeardownOnce: Close may be called again (explicitly, by a second owner, by the finalizer after an explicit
// Close). The teardown — and with it InUseCounter.Dec — runs only where the secret is known not to have been torn down
// yet: protectedmemory on the `closed == false` edge, memguard where buffer.IsAlive() is known true. Otherwise a
// repeated Close decrements the in-use accounting again (and re-runs the page operations on released memory).
func ruleC12TeardownOnce(c *Ctx) {
	u := c.U1
	c.rule("C12.teardown-once", "in Close of both secrets every call that tears the secret down (protectedmemory: close(); memguard: buffer.Destroy() and InUseCounter.Dec) is dominated by the not-yet-closed test (closed known false / buffer.IsAlive() known true)", 2)
	type spec struct{ pkg, typ string }
	for _, sp := range []spec{{pkgProt, "secretInternal"}, {pkgMemg, "secret"}} {
		f := u.Method(sp.pkg, sp.typ, "Close")
		if f == nil || f.Blocks == nil {
			c.unresolved(sp.typ+".Close", "method")
			continue
		}
		c.FuncsAnalysed[shortName(f)] = true
		n := 0
		isTeardownStep := func(i ssa.Instruction) bool {
			cv, ok := i.(*ssa.Call)
			if !ok {
				return false
			}
			if g := staticCallee(cv); g != nil {
				if g.Name() == "close" && g.Signature.Recv() != nil {
					return true
				}
				if g.Name() == "Destroy" || (g.Name() == "Dec" && len(cv.Call.Args) > 0 && strings.HasSuffix(trimAddr(accessPath(cv.Call.Args[0])), "InUseCounter")) {
					return true
				}
			}
			return cv.Call.IsInvoke() && cv.Call.Method.Name() == "Dec" && strings.HasSuffix(trimAddr(accessPath(cv.Call.Value)), "InUseCounter")
		}
		for _, i := range stepSites(f, isTeardownStep) {
			n++
			c.CallSites++
			fresh := holdsOnAllEntries(i.Block(), func(facts []Fact) bool {
				for _, fct := range facts {
					if fct.Sub != nil {
						continue
					}
					if strings.HasSuffix(trimAddr(accessPath(fct.V)), ".closed") && !fct.True {
						return true
					}
					if call, isC := resolve(fct.V).(*ssa.Call); isC && fct.True {
						if g := staticCallee(call); g != nil && g.Name() == "IsAlive" {
							return true
						}
					}
				}
				return false
			})
			c.check(fresh, trimPkgDirs(shortName(f))+"/"+calleeLabel(i), u.ipos(i), "only where not yet torn down", "the teardown step runs on a path where the secret is not known to be still alive: a second Close (another owner, the finalizer after an explicit Close) decrements the in-use accounting again and repeats the page operations on memory that was already released")
		}
		if n == 0 {
			c.bad(trimPkgDirs(shortName(f))+"/teardown", u.pos(f.Pos()), "no teardown step found in Close")
		}
	}
}

// ---------------------------------------------------------------------------------------------
// C17.every-client-asked

// ruleC17EveryClientAsked: wrapping "includes an entry for every region that succeeded" presupposes every configured
// region is asked. The loops over the configured clients index the whole collection — the constructor-built field or
// the parameter it was passed as — never a re-sliced or otherwise narrowed copy (e.g. "the regions after the one that
// generated the data key").
func ruleC17EveryClientAsked(c *Ctx) {
	u := c.U1
	c.rule("C17.every-client-asked", "in both KMS plugins every element access into a slice of regional clients uses, as the slice, the AWSKMS client field or a function parameter itself — not a re-slice, a filtered copy or a variable that may hold one", 4)
	isClientSlice := func(t types.Type) bool {
		sl, ok := t.Underlying().(*types.Slice)
		if !ok {
			return false
		}
		n, ok := namedOf(derefType(sl.Elem()))
		return ok && strings.Contains(strings.ToLower(n.Obj().Name()), "client")
	}
	n := 0
	for _, f := range u.RepoFuncs {
		root := rootFunc(f)
		if root.Pkg == nil || (root.Pkg.Pkg.Path() != pkgKmsV1 && root.Pkg.Pkg.Path() != pkgKmsV2) || f.Blocks == nil {
			continue
		}
		// constructors and sorting may build / reorder the collection
		switch root.Name() {
		case "newAWS", "NewAWS", "sortClients", "Build", "createAWSKMSClients", "newAWSKMSClient":
			continue
		}
		allInstrs(f, func(i ssa.Instruction) {
			var base ssa.Value
			switch x := i.(type) {
			case *ssa.IndexAddr:
				base = x.X
			case *ssa.Index:
				base = x.X
			case *ssa.Range:
				base = x.X
			default:
				return
			}
			if !isClientSlice(base.Type()) {
				return
			}
			n++
			c.CallSites++
			c.FuncsAnalysed[shortName(f)] = true
			whole := false
			switch b := resolve(base).(type) {
			case *ssa.Parameter, *ssa.FreeVar:
				whole = true
			case *ssa.UnOp:
				if b.Op == token.MUL {
					_, isField := b.X.(*ssa.FieldAddr)
					whole = isField
				}
			}
			c.check(whole, trimPkgDirs(shortName(f))+"/clients["+describeOperand(base)+"]", u.ipos(i), "indexes the whole configured client list", "the loop over the regional clients runs over "+describeOperand(base)+", which is not the configured list itself (a re-slice / narrowed copy): some configured regions are never asked, so the envelope lacks their entries and cannot be unwrapped when only those regions are up")
		})
	}
	if n == 0 {
		c.bad("kms/client-loops", "", "no element access into a client slice found in the plugins")
	}
}

// ---------------------------------------------------------------------------------------------
// C18.ids-are-data-not-patterns

// ruleC18IDsAreDataNotPatterns: partition, service and product names are arbitrary caller data that end up inside key
// ids. They may be spliced into an id, but an id (or anything computed at run time) is never used AS a format string or
// AS a regular expression: a `%` or a regex metacharacter in a partition id then changes the id that is emitted, or
// makes the SDK reject ids that an implementation following the documented format wrote.
func ruleC18IDsAreDataNotPatterns(c *Ctx) {
	u := c.U1
	c.rule("C18.ids-are-data-not-patterns", "in package appencryption every fmt.Sprintf/Errorf/Fprintf-style call has a constant format string, and every regexp.Compile/MustCompile/Match*/QuoteMeta-less pattern is a constant: run-time strings (key ids, partition ids) are only ever data; no id is tokenised with strings.Split*/Fields/Cut", 2)
	n := 0
	for _, f := range u.RepoFuncs {
		root := rootFunc(f)
		if root.Pkg == nil || root.Pkg.Pkg.Path() != pkgApp || f.Blocks == nil {
			continue
		}
		allInstrs(f, func(i ssa.Instruction) {
			g := staticCallee(i)
			if g == nil || g.Pkg == nil {
				return
			}
			idx := -1
			what := ""
			// ids are not taken apart at a separator their components may contain
			if g.Pkg.Pkg.Path() == "strings" {
				switch g.Name() {
				case "EqualFold", "ToLower", "ToUpper", "ToTitle", "Title":
					c.CallSites++
					c.bad(trimPkgDirs(shortName(f))+"/strings."+g.Name(), u.ipos(i), "a key id / partition id is compared or indexed case-insensitively (strings."+g.Name()+"): ids are byte strings — two ids that differ in case are different partitions and different keys; folding them lets one partition read another's records, or caches one key under several spellings")
				case "Split", "SplitN", "SplitAfter", "SplitAfterN", "Fields", "FieldsFunc", "Cut":
					c.CallSites++
					c.bad(trimPkgDirs(shortName(f))+"/strings."+g.Name(), u.ipos(i), "a key id / partition id is taken apart with strings."+g.Name()+": partition, service and product names may themselves contain the separator, so ids that follow the documented format are mis-parsed — records written by another region or another implementation are refused")
				}
				return
			}
			switch g.Pkg.Pkg.Path() {
			case "fmt":
				switch g.Name() {
				case "Sprintf", "Errorf", "Printf":
					idx, what = 0, "format string"
				case "Fprintf":
					idx, what = 1, "format string"
				}
			case "regexp":
				switch g.Name() {
				case "Compile", "MustCompile", "MatchString", "Match", "CompilePOSIX", "MustCompilePOSIX":
					idx, what = 0, "regular expression"
				}
			}
			if idx < 0 {
				return
			}
			n++
			c.CallSites++
			c.FuncsAnalysed[shortName(f)] = true
			arg := callOf(i).Args[idx]
			_, isConst := constOf(resolve(arg))
			// a parameter that every call site of this (unexported, never address-taken) helper feeds with a constant
			if p, isP := resolve(arg).(*ssa.Parameter); isP && !isConst && p.Parent() == f {
				pi := -1
				for k, q := range f.Params {
					if q == p {
						pi = k
					}
				}
				buildCallSiteIndex(f)
				sites := callSiteIndex[orig(f)]
				if pi >= 0 && !addressTaken[orig(f)] && len(sites) > 0 && !token.IsExported(f.Name()) {
					all := true
					for _, ci := range sites {
						if pi >= len(ci.Common().Args) {
							all = false
							continue
						}
						if _, isK := constOf(resolve(ci.Common().Args[pi])); !isK {
							all = false
						}
					}
					isConst = all
				}
			}
			c.check(isConst, trimPkgDirs(shortName(f))+"/"+g.Name(), u.ipos(i), "constant "+what, "the "+what+" of this call is computed at run time ("+describeOperand(arg)+"): when it contains a key id or a caller-supplied name, a `%` or a regex metacharacter in a partition/service/product name changes the emitted id or makes valid ids unmatchable — ids no longer follow _SK_service_product / _IK_partition_service_product[_region] for every name")
		})
	}
	if n == 0 {
		c.bad("appencryption/format-calls", "", "no formatting call found")
	}
}

// ---------------------------------------------------------------------------------------------
// C20.stale-only-when-reload-required

// factsContradict: some fact of a is the negation of a fact of b (same SSA value, opposite truth).
func factsContradict(a, b []Fact) bool {
	for _, x := range a {
		for _, y := range b {
			if x.Sub == nil && y.Sub == nil && strip(x.V) == strip(y.V) && x.True != y.True {
				return true
			}
		}
	}
	return false
}

// holdsOnAllFeasibleEntries: cond holds on the facts of block b, or — looking at the nearest dominating merge block —
// on every entry of that merge whose own facts do not contradict what is known at b.
func holdsOnAllFeasibleEntries(b *ssa.BasicBlock, cond func([]Fact) bool) bool {
	known := factsAt(b)
	if cond(known) {
		return true
	}
	for m := b; m != nil; m = m.Idom() {
		if len(m.Preds) < 2 {
			continue
		}
		feasible := 0
		for _, p := range m.Preds {
			facts := append(append([]Fact{}, factsAt(p)...), edgeFacts(p, m)...)
			if factsContradict(facts, known) {
				continue
			}
			feasible++
			if !cond(facts) {
				return false
			}
		}
		return feasible > 0
	}
	return false
}

// ruleC20StaleOnlyWhenReloadRequired: a cached key is re-fetched (one metastore read, for system keys one KMS call
// more) only when its revoke check is due. getFresh reports an existing entry as not fresh only where
// isReloadRequired(entry, policy.RevokeCheckInterval) answered true — no second notion of staleness (age, expiry, cache
// type) sends hits back to the metastore and the KMS on every use.
func ruleC20StaleOnlyWhenReloadRequired(c *Ctx) {
	u := c.U1
	c.rule("C20.stale-only-when-reload-required", "keyCache.getFresh returns (key, false) for an existing entry only where isReloadRequired(entry, RevokeCheckInterval) is known true on every feasible way in (a bool helper counts only if all its true-returns imply it)", 1)
	f := u.Method(pkgApp, "keyCache", "getFresh")
	if f == nil {
		c.unresolved("keyCache.getFresh", "method")
		return
	}
	c.FuncsAnalysed[shortName(f)] = true
	n := 0
	for _, r := range returnsOf(f) {
		if len(r.Results) != 2 || isNilValue(returnedValue(r, 0)) {
			continue
		}
		k, isC := constOf(strip(returnedValue(r, 1)))
		if isC && k.ExactString() == "true" {
			continue
		}
		n++
		c.CallSites++
		due := holdsOnAllFeasibleEntries(r.Block(), func(facts []Fact) bool {
			for _, fct := range facts {
				if cv, ok := strip(fct.V).(*ssa.Call); ok && fct.True {
					if g := staticCallee(cv); g != nil && g.Name() == "isReloadRequired" {
						return true
					}
				}
			}
			return false
		})
		c.check(due, "keyCache.getFresh/stale-return", u.ipos(r), "stale only where isReloadRequired is true", "an existing cache entry is reported stale on a path where isReloadRequired was not (necessarily) true: some other condition sends cache hits back to the loader — every use of such a key costs a metastore read (and a KMS call for system keys) although the key is cached and its revoke check is not due")
	}
	if n == 0 {
		c.bad("keyCache.getFresh/stale-return", u.pos(f.Pos()), "no (key, false) return found in getFresh")
	}
}

// phiCases: for a fact about a boolean phi (the value of `a && b` / `a || b` bound to a variable), the fact sets of the
// incoming edges that are compatible with the known truth value — one set per way the phi can have got that value.
func phiCases(f Fact) [][]Fact {
	v := f.V
	truth := f.True
	for {
		if u, ok := v.(*ssa.UnOp); ok && u.Op == token.NOT {
			v, truth = u.X, !truth
			continue
		}
		break
	}
	phi, ok := v.(*ssa.Phi)
	if !ok {
		return nil
	}
	var out [][]Fact
	for k, e := range phi.Edges {
		if cv, isC := constOf(e); isC && cv.Kind() == constant.Bool && constant.BoolVal(cv) != truth {
			continue
		}
		pred := phi.Block().Preds[k]
		var set []Fact
		if _, isC := constOf(e); !isC {
			set = append(set, normFact(Fact{V: e, True: truth})...)
		}
		set = append(set, edgeFacts(pred, phi.Block())...)
		set = append(set, factsAt(pred)...)
		out = append(out, set)
	}
	return out
}

// holdsByCases: cond holds on the facts known at b, or some known fact is about a boolean phi and cond holds in every
// case that gives the phi its known value.
func holdsByCases(b *ssa.BasicBlock, cond func([]Fact) bool) bool {
	if holdsOnAllEntries(b, cond) {
		return true
	}
	check := func(facts []Fact) bool {
		for _, f := range facts {
			cases := phiCases(f)
			if len(cases) == 0 {
				continue
			}
			all := true
			for _, cs := range cases {
				if !cond(cs) {
					all = false
				}
			}
			if all {
				return true
			}
		}
		return false
	}
	if check(factsAt(b)) {
		return true
	}
	if len(b.Preds) >= 2 {
		for _, p := range b.Preds {
			facts := append(append([]Fact{}, factsAt(p)...), edgeFacts(p, b)...)
			if !cond(facts) && !check(facts) {
				return false
			}
		}
		return true
	}
	return false
}

// outputFrame: a function together with the value that holds a DynamoDB read's output in it: the Extract of the
// GetItem/Query invoke in Load/LoadLatest, or the parameter of a same-package helper that is handed that output.
type outputFrame struct {
	f    *ssa.Function
	root ssa.Value
}

func outputFrames(f *ssa.Function) []outputFrame {
	var out []outputFrame
	seen := map[*ssa.Function]bool{}
	var addFrom func(fr outputFrame, depth int)
	addFrom = func(fr outputFrame, depth int) {
		out = append(out, fr)
		if depth > 2 {
			return
		}
		allInstrs(fr.f, func(i ssa.Instruction) {
			cv, ok := i.(*ssa.Call)
			if !ok {
				return
			}
			g := staticCallee(cv)
			if g == nil || g.Blocks == nil || g.Pkg == nil || g.Pkg != fr.f.Pkg || seen[g] {
				return
			}
			for k, a := range cv.Call.Args {
				if resolve(a) == fr.root && k < len(g.Params) {
					seen[g] = true
					addFrom(outputFrame{g, g.Params[k]}, depth+1)
				}
			}
		})
	}
	scan := func(f *ssa.Function) {
		allInstrs(f, func(i ssa.Instruction) {
			cv, ok := i.(*ssa.Call)
			if !ok || !cv.Call.IsInvoke() {
				return
			}
			n := cv.Call.Method.Name()
			if !strings.HasPrefix(n, "GetItem") && !strings.HasPrefix(n, "Query") {
				return
			}
			if refs := cv.Referrers(); refs != nil {
				for _, r := range *refs {
					if ex, isE := r.(*ssa.Extract); isE && ex.Index == 0 {
						addFrom(outputFrame{f, ex}, 0)
					}
				}
			}
		})
	}
	scan(f)
	// the read delegated to a helper of the package: its output is looked into there
	for _, h := range readHelpersOf(f) {
		scan(h)
	}
	return out
}

// ---------------------------------------------------------------------------------------------
// steps that live in a "…Locked" helper of the same type

// sameTypeHelperCalls: static calls in f to unexported methods of f's own receiver type.
func sameTypeHelperCalls(f *ssa.Function) []*ssa.Call {
	if f == nil || f.Signature.Recv() == nil {
		return nil
	}
	rn, ok := namedOf(derefType(f.Signature.Recv().Type()))
	if !ok {
		return nil
	}
	var out []*ssa.Call
	allInstrs(f, func(i ssa.Instruction) {
		cv, isC := i.(*ssa.Call)
		if !isC {
			return
		}
		g := staticCallee(cv)
		if g == nil || g == f || g.Blocks == nil || g.Signature.Recv() == nil || token.IsExported(g.Name()) {
			return
		}
		if gn, ok2 := namedOf(derefType(g.Signature.Recv().Type())); ok2 && gn.Obj() == rn.Obj() {
			out = append(out, cv)
		}
	})
	return out
}

func containsInstr(f *ssa.Function, pred func(ssa.Instruction) bool) bool {
	hit := false
	allInstrs(f, func(i ssa.Instruction) {
		if pred(i) {
			hit = true
		}
	})
	return hit
}

// bodyWith: f itself if it contains an instruction satisfying pred, else the helper of the same type (called from f,
// directly or through one more helper) that does; f if none does.
func bodyWith(f *ssa.Function, pred func(ssa.Instruction) bool) *ssa.Function {
	if f == nil || containsInstr(f, pred) {
		return f
	}
	for _, cv := range sameTypeHelperCalls(f) {
		g := staticCallee(cv)
		if containsInstr(g, pred) {
			return g
		}
		for _, cv2 := range sameTypeHelperCalls(g) {
			if g2 := staticCallee(cv2); containsInstr(g2, pred) {
				return g2
			}
		}
	}
	return f
}

// stepSites: the instructions of f satisfying pred, or — if there are none — the calls in f of same-type helpers that
// contain one (the step is then judged at the call site, which is where the guarding tests are).
func stepSites(f *ssa.Function, pred func(ssa.Instruction) bool) []ssa.Instruction {
	var out []ssa.Instruction
	allInstrs(f, func(i ssa.Instruction) {
		if pred(i) {
			out = append(out, i)
		}
	})
	if len(out) > 0 {
		return out
	}
	for _, cv := range sameTypeHelperCalls(f) {
		if containsInstr(staticCallee(cv), pred) {
			out = append(out, cv)
		}
	}
	return out
}

// builderFresh: v is a chain of Builder methods that starts at expression.NewBuilder() in its own function, or a
// parameter that every call site feeds with such a chain.
func builderFresh(v ssa.Value, depth int) bool {
	for k := 0; k < 8; k++ {
		rc, isC := resolve(v).(*ssa.Call)
		if !isC {
			if p, isP := resolve(v).(*ssa.Parameter); isP && depth < 2 {
				return builderParamFresh(p, depth+1)
			}
			return false
		}
		h := staticCallee(rc)
		if h == nil {
			return false
		}
		if h.Name() == "NewBuilder" && h.Pkg != nil && strings.HasSuffix(h.Pkg.Pkg.Path(), "/expression") {
			return true
		}
		if h.Signature.Recv() != nil && namedTypeName(h.Signature.Recv().Type()) == "Builder" {
			v = rc.Call.Args[0]
			continue
		}
		return false
	}
	return false
}

func builderParamFresh(p *ssa.Parameter, depth int) bool {
	g := p.Parent()
	idx := -1
	for k, q := range g.Params {
		if q == p {
			idx = k
		}
	}
	buildCallSiteIndex(g)
	sites := callSiteIndex[orig(g)]
	if idx < 0 || len(sites) == 0 || addressTaken[orig(g)] {
		return false
	}
	for _, ci := range sites {
		if idx >= len(ci.Common().Args) || !builderFresh(ci.Common().Args[idx], depth) {
			return false
		}
	}
	return true
}
