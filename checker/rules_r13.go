package main

// Rules added after seeding round 13 ("elsewhere II": small helpers, constructors, the static KMS, the Reader, the
// sidecar's wiring). Each is a structural necessary condition of the property it is listed under.

import (
	"go/token"
	"go/types"
	"strings"

	"golang.org/x/tools/go/ssa"
)

// ---------------------------------------------------------------------------------------------
// KMS implementations do not write into the wrapped key they are asked to unwrap

// ruleC13KMSInputNotModified: the bytes handed to KeyManagementService.DecryptKey are the EncryptedKey of a stored
// record — with a metastore that hands out its records (the in-memory one) they ARE the stored record. No implementation
// wipes, copies into or stores through that parameter.
func ruleC13KMSInputNotModified(c *Ctx) {
	u := c.U1
	c.rule("C13.kms-input-not-modified", "no KeyManagementService implementation (static, aws-v1, aws-v2) passes DecryptKey's []byte parameter to a wiping function, uses it as the destination of copy, or stores through it", 3)
	iface := u.Iface(pkgApp, "KeyManagementService")
	if iface == nil {
		c.unresolved("KeyManagementService", "interface")
		return
	}
	n := 0
	for _, impl := range u.Implementations(iface) {
		f := u.MethodOf(impl, "DecryptKey")
		if f == nil || f.Blocks == nil || len(f.Params) < 3 {
			continue
		}
		n++
		c.CallSites++
		c.FuncsAnalysed[shortName(f)] = true
		p := f.Params[2]
		al := aliasClosure(p, nil)
		// the parameter may be captured by the accessor closure
		var fns []*ssa.Function
		fns = append(fns, withAnon(f)...)
		bad := ""
		for _, g := range fns {
			isP := func(v ssa.Value) bool {
				v = strip(v)
				if al[v] {
					return true
				}
				return resolveCaptured(v) == ssa.Value(p)
			}
			allInstrs(g, func(i ssa.Instruction) {
				if arg, ok := wipeArg(i); ok && isP(arg) {
					bad = u.ipos(i) + " wipes it"
				}
				if cc := callOf(i); cc != nil {
					if b, isB := cc.Value.(*ssa.Builtin); isB && b.Name() == "copy" && len(cc.Args) == 2 && isP(cc.Args[0]) {
						bad = u.ipos(i) + " copies into it"
					}
				}
				if st, ok := i.(*ssa.Store); ok {
					if ia, isIA := st.Addr.(*ssa.IndexAddr); isIA && isP(ia.X) {
						bad = u.ipos(i) + " stores into it"
					}
				}
			})
		}
		c.check(bad == "", trimPkgDirs(shortName(f))+"/input", u.pos(f.Pos()), "the wrapped key is only read", "DecryptKey modifies the wrapped key it was handed ("+bad+"): the caller passes the stored record's EncryptedKey — with a metastore that hands out its records the persisted key record itself is zeroed, and the next process (or the next uncached load) cannot unwrap the key any more")
	}
	if n == 0 {
		c.unresolved("KeyManagementService/DecryptKey", "no implementation found")
	}
}

// ---------------------------------------------------------------------------------------------
// NewCryptoKey

// ruleC02CryptoKeyAsGiven: a CryptoKey is what it was loaded as. NewCryptoKey stores its created / revoked parameters
// unchanged (Created() is the key's identity: records name it, caches index by it), creates no error of its own, and every
// failing exit after the secret was allocated closes the secret.
func ruleC02CryptoKeyAsGiven(c *Ctx) {
	u := c.U1
	c.rule("C02.cryptokey-as-given", "internal.NewCryptoKey: the created field of the key it returns is the `created` parameter itself; every non-nil error it returns is the error of SecretFactory.New; no return with a non-nil error follows a successful SecretFactory.New without the secret being closed", 2)
	f := u.Func(pkgInt, "NewCryptoKey")
	if f == nil || f.Blocks == nil || len(f.Params) != 4 {
		c.unresolved("NewCryptoKey", pkgInt+".NewCryptoKey")
		return
	}
	c.FuncsAnalysed[shortName(f)] = true
	createdP := ssa.Value(f.Params[1])
	// (1) the created field
	n := 0
	allInstrs(f, func(i ssa.Instruction) {
		st, ok := i.(*ssa.Store)
		if !ok {
			return
		}
		base, fld, isF := fieldAccess(st.Addr)
		if !isF || fld != "created" || namedTypeName(derefType(base.Type())) != "CryptoKey" {
			return
		}
		n++
		c.CallSites++
		c.check(resolve(st.Val) == createdP, "internal.NewCryptoKey/created", u.ipos(i), "created as given", "the key's creation time is not the one it was loaded with ("+describeOperand(resolve(st.Val))+"): Created() is the key's identity — records written with the key name an (id, created) that is in no metastore, and the caches index the key under a stamp nobody asks for")
	})
	if n == 0 {
		c.bad("internal.NewCryptoKey/created", u.pos(f.Pos()), "NewCryptoKey does not set the created field")
	}
	// (2) own errors, (3) leaks after a successful New
	var newCall *ssa.Call
	allInstrs(f, func(i ssa.Instruction) {
		if invokeIs(i, pkgSec, "SecretFactory", "New") {
			newCall, _ = i.(*ssa.Call)
		}
	})
	if newCall == nil {
		c.bad("internal.NewCryptoKey/factory", u.pos(f.Pos()), "NewCryptoKey does not call SecretFactory.New")
		return
	}
	var newErr ssa.Value
	for _, pr := range resultsOfType(newCall, isErrorType) {
		newErr = pr[0]
	}
	for _, r := range returnsOf(f) {
		ev := slotValueAt(returnedValue(r, 1))
		if isNilValue(ev) {
			continue
		}
		c.CallSites++
		own := resolve(ev) != resolve(newErr) && strip(ev) != strip(newErr)
		if own {
			c.bad("internal.NewCryptoKey/own-error", u.ipos(r), "NewCryptoKey returns an error other than SecretFactory.New's ("+describeOperand(resolve(ev))+"): a key the metastore and the KMS delivered intact is refused on a condition of this function's own (a creation time ahead of this host's clock, a length this build does not expect) — and on that exit nothing is wiped or closed: after a successful New the allocated secret is left behind")
			continue
		}
		c.ok("internal.NewCryptoKey/own-error", u.ipos(r), "propagates the factory's error")
	}
}

// ---------------------------------------------------------------------------------------------
// Session.Close

// ruleC08SessionCloseOnlyClosesEncryption: a Session closes its encryption and nothing else. The intermediate-key cache
// belongs to the encryption (which knows whether it is shared), and a cached Session is handed to many holders: what its
// Close does is done once per holder.
func ruleC08SessionCloseOnlyClosesEncryption(c *Ctx) {
	u := c.U1
	c.rule("C08.session-close-only-closes-encryption", "(*Session).Close invokes Close on its encryption field, on every path and exactly there: no other Close call (the key cache, a once-guarded wrapper) appears in it", 1)
	f := u.Method(pkgApp, "Session", "Close")
	if f == nil || f.Blocks == nil {
		c.unresolved("Session.Close", "method")
		return
	}
	c.FuncsAnalysed[shortName(f)] = true
	c.CallSites++
	isEncClose := func(i ssa.Instruction) bool {
		cc := callOf(i)
		if cc == nil || methodNameOf(cc) != "Close" {
			return false
		}
		rv := receiverOf(cc)
		if rv == nil {
			return false
		}
		_, fld, ok := fieldAccess(strip(rv))
		return ok && fld == "encryption"
	}
	ok, tr := mustPass(f.Blocks[0], 0, isEncClose, nil)
	other := ""
	for _, g := range withAnon(f) {
		allInstrs(g, func(i ssa.Instruction) {
			cc := callOf(i)
			if cc == nil {
				return
			}
			if g != f && isEncClose(i) {
				other = u.ipos(i) + " (inside a closure: a once / deferred wrapper)"
			}
			if methodNameOf(cc) == "Close" && !isEncClose(i) {
				other = u.ipos(i)
			}
			if h := cc.StaticCallee(); h != nil && funcFullName(h) == "(*sync.Once).Do" {
				other = u.ipos(i) + " (sync.Once)"
			}
		})
	}
	switch {
	case !ok:
		c.bad("Session.Close/encryption", u.pos(f.Pos()), "a path through Session.Close does not close the session's encryption: with session caching each holder's Close is what gives its usage back — a Close that does nothing (already closed once) leaves the count above zero and the evicted session is never torn down", u.tracePositions(tr)...)
	case other != "":
		c.bad("Session.Close/encryption", other, "Session.Close closes something besides its encryption: the intermediate-key cache may be the factory-wide one (or the one of a cached session other holders are using) — its keys are destroyed under them")
	default:
		c.ok("Session.Close/encryption", u.pos(f.Pos()), "closes its encryption, on every path, and nothing else")
	}
}

// ---------------------------------------------------------------------------------------------
// newIKCache

// ruleC20IKCachingFollowsTheFlag: whether a session caches intermediate keys is decided by Policy.CacheIntermediateKeys
// alone (the size fields are ignored by the default policy and legitimately zero in hand-written policies).
func ruleC20IKCachingFollowsTheFlag(c *Ctx) {
	u := c.U1
	c.rule("C20.ik-caching-follows-the-flag", "(*SessionFactory).newIKCache returns the never-cache only where Policy.CacheIntermediateKeys is known false, and no other condition guards either return", 1)
	f := u.Method(pkgApp, "SessionFactory", "newIKCache")
	if f == nil || f.Blocks == nil {
		c.unresolved("SessionFactory.newIKCache", "method")
		return
	}
	c.FuncsAnalysed[shortName(f)] = true
	for _, r := range returnsOf(f) {
		c.CallSites++
		never := false
		v := resolve(returnedValue(r, 0))
		if mi, ok := v.(*ssa.MakeInterface); ok {
			v = resolve(mi.X)
		}
		if a, ok := v.(*ssa.Alloc); ok && namedTypeName(derefType(a.Type())) == "neverCache" {
			never = true
		}
		extra := ""
		flagFalse := false
		for _, fct := range baseFactsAt(r.Block()) {
			if strings.HasSuffix(trimAddr(accessPath(fct.V)), ".CacheIntermediateKeys") {
				if !fct.True {
					flagFalse = true
				}
				continue
			}
			extra = describeLeaf(fct.V)
		}
		switch {
		case extra != "":
			c.bad("SessionFactory.newIKCache/return", u.ipos(r), "the choice between a key cache and the never-cache also depends on "+extra+": a policy that enables caching (e.g. a hand-written one whose size fields are zero — the default policy ignores them) silently gets no intermediate-key cache, and every operation goes to the metastore")
		case never && !flagFalse:
			c.bad("SessionFactory.newIKCache/return", u.ipos(r), "the never-cache is returned where Policy.CacheIntermediateKeys is not known to be false")
		default:
			c.ok("SessionFactory.newIKCache/return", u.ipos(r), "decided by Policy.CacheIntermediateKeys alone")
		}
	}
}

// ---------------------------------------------------------------------------------------------
// cache entries are stamped with the present

// ruleC04EntryStampedNow: a cache entry's loadedAt is the instant it was loaded — not that instant plus or minus
// something (a jitter added instead of subtracted lets a key be used longer than the check interval).
func ruleC04EntryStampedNow(c *Ctx) {
	u := c.U1
	c.rule("C04.entry-stamped-now", "every value stored into cacheEntry.loadedAt is the result of time.Now() itself (no Add / Sub / rounding applied)", 2)
	n := 0
	for _, f := range u.RepoFuncs {
		root := rootFunc(f)
		if root.Pkg == nil || root.Pkg.Pkg.Path() != pkgApp || f.Blocks == nil {
			continue
		}
		allInstrs(f, func(i ssa.Instruction) {
			st, ok := i.(*ssa.Store)
			if !ok {
				return
			}
			base, fld, isF := fieldAccess(st.Addr)
			if !isF || fld != "loadedAt" || namedTypeName(derefType(base.Type())) != "cacheEntry" {
				return
			}
			n++
			c.CallSites++
			c.FuncsAnalysed[shortName(f)] = true
			cv, isCall := resolve(st.Val).(*ssa.Call)
			now := isCall && staticCallee(cv) != nil && funcFullName(staticCallee(cv)) == "time.Now"
			c.check(now, trimPkgDirs(shortName(f))+"/loadedAt=", u.ipos(i), "time.Now()", "a cache entry is stamped with "+describeOperand(resolve(st.Val))+" instead of the present: an entry stamped in the future stays fresh for longer than the revoke-check interval — a key whose parent has expired (or that was revoked) keeps protecting new data beyond the promised bound")
		})
	}
	if n == 0 {
		c.unresolved("cacheEntry.loadedAt", "no store to loadedAt found")
	}
}

// ---------------------------------------------------------------------------------------------
// generic cache: GetOrPanic is Get

// ruleC15GetOrPanicGoesThroughGet: GetOrPanic is Get that panics on a miss: it calls Get (expiry check, expiry eviction
// with its callback, policy.Access) — it does not read the index itself.
func ruleC15GetOrPanicGoesThroughGet(c *Ctx) {
	u := c.U1
	c.rule("C15.get-or-panic-goes-through-get", "(*cache).GetOrPanic obtains the value from a call to (*cache).Get and never reads byKey directly", 1)
	f := u.Method(pkgCache, "cache", "GetOrPanic")
	get := u.Method(pkgCache, "cache", "Get")
	if f == nil || get == nil || f.Blocks == nil {
		c.unresolved("cache.GetOrPanic", "method")
		return
	}
	c.FuncsAnalysed[shortName(f)] = true
	c.CallSites++
	calls, reads := false, ""
	allInstrs(f, func(i ssa.Instruction) {
		if g := staticCallee(i); g != nil && orig(g) == orig(get) {
			calls = true
		}
		if lk, ok := i.(*ssa.Lookup); ok {
			if _, fld, isF := fieldAccess(strip(lk.X)); isF && fld == "byKey" {
				reads = u.ipos(i)
			}
		}
	})
	switch {
	case reads != "":
		c.bad("cache.GetOrPanic/via-Get", reads, "GetOrPanic reads the index itself: the look-up skips the expiry check (an expired entry is still returned and never evicted, its callback never fires) and policy.Access (the entry's recency / frequency is not refreshed, so a later Set evicts the wrong entry)")
	case !calls:
		c.bad("cache.GetOrPanic/via-Get", u.pos(f.Pos()), "GetOrPanic does not call Get")
	default:
		c.ok("cache.GetOrPanic/via-Get", u.pos(f.Pos()), "value obtained from Get")
	}
}

// ruleC15LFUAdmitStartsAtOne: a new entry starts with frequency 1: lfu.Admit files it through increment from "no
// bucket" (which finds or creates the frequency-1 bucket) — never straight into whatever bucket is at the front.
func ruleC15LFUAdmitStartsAtOne(c *Ctx) {
	u := c.U1
	c.rule("C15.lfu-admit-starts-at-one", "lfu.Admit does not write into a frequency bucket's entries / byAccess itself (no map update or list push on a bucket obtained from frequencies.Front()): admission goes through increment", 1)
	f := u.Method(pkgCache, "lfu", "Admit")
	if f == nil || f.Blocks == nil {
		c.unresolved("lfu.Admit", "method")
		return
	}
	c.FuncsAnalysed[shortName(f)] = true
	c.CallSites++
	bad := ""
	inc := false
	allInstrs(f, func(i ssa.Instruction) {
		if g := staticCallee(i); g != nil && g.Name() == "increment" {
			inc = true
		}
		if mu, ok := i.(*ssa.MapUpdate); ok {
			if _, fld, isF := fieldAccess(strip(mu.Map)); isF && fld == "entries" {
				bad = u.ipos(i)
			}
		}
		if cc := callOf(i); cc != nil && cc.StaticCallee() != nil && strings.HasPrefix(funcFullName(cc.StaticCallee()), "(*container/list.List).Push") && len(cc.Args) > 0 {
			if _, fld, isF := fieldAccess(strip(cc.Args[0])); isF && fld == "byAccess" {
				bad = u.ipos(i)
			}
		}
	})
	switch {
	case bad != "":
		c.bad("lfu.Admit/through-increment", bad, "Admit files the new entry into a bucket itself: the bucket at the front of the frequency list is not necessarily frequency 1 (when every resident has been used more than once it is not) — the newcomer is counted as often-used and a longer-used entry is evicted in its place")
	case !inc:
		c.bad("lfu.Admit/through-increment", u.pos(f.Pos()), "Admit does not go through increment")
	default:
		c.ok("lfu.Admit/through-increment", u.pos(f.Pos()), "admission goes through increment")
	}
}

// ---------------------------------------------------------------------------------------------
// the sidecar (U2), continued

// ruleC18SidecarNamesVerbatim: the service and product names reach the SDK as they were configured: they are part of
// every key id.
func ruleC18SidecarNamesVerbatim(c *Ctx) {
	u := c.U2
	c.rule("C18.sidecar-names-verbatim", "every appencryption.Config literal of the server package takes Service from a path ending in .ServiceName and Product from one ending in .ProductID — the option values themselves, not a function of them", 1)
	n := 0
	for _, f := range u.RepoFuncs {
		if f.Pkg == nil || f.Pkg.Pkg.Path() != pkgServer || f.Blocks == nil {
			continue
		}
		allInstrs(f, func(i ssa.Instruction) {
			a, ok := i.(*ssa.Alloc)
			if !ok || namedTypeName(derefType(a.Type())) != "Config" {
				return
			}
			n2, isN := namedOf(derefType(a.Type()))
			if !isN || n2.Obj().Pkg() == nil || !strings.HasSuffix(n2.Obj().Pkg().Path(), "/appencryption") {
				return
			}
			fl := litFields(a)
			for fld, want := range map[string]string{"Service": ".ServiceName", "Product": ".ProductID"} {
				v, set := fl[fld]
				if !set {
					continue
				}
				n++
				c.CallSites++
				c.FuncsAnalysed[shortName(f)] = true
				ap := trimAddr(accessPath(v))
				if ap == "" {
					ap = trimAddr(accessPath(resolve(v)))
				}
				c.check(strings.HasSuffix(ap, want), trimPkgDirs(shortName(f))+"/Config."+fld, u.ipos(i), "the configured name", "the "+strings.ToLower(fld)+" name handed to the SDK is "+describeOperand(resolve(v))+", not the configured value itself: key ids are built from it — a sidecar that folds case or trims writes and looks for `_SK_…` / `_IK_…` ids that no other implementation (and no earlier version) uses")
			}
		})
	}
	if n == 0 {
		c.unresolved("server/Config", "no appencryption.Config literal with Service / Product found")
	}
}

// ruleC14StaticKeyIsStable: every sidecar process that is started with --kms static must wrap with the same master key,
// or no process can load what another one stored.
func ruleC14StaticKeyIsStable(c *Ctx) {
	u := c.U2
	c.rule("C14.static-master-key-is-stable", "the key handed to kms.NewStatic in the server package is a constant or an option value — not something computed per process (random bytes, time, pid)", 1)
	n := 0
	for _, f := range u.RepoFuncs {
		if f.Pkg == nil || f.Pkg.Pkg.Path() != pkgServer || f.Blocks == nil {
			continue
		}
		allInstrs(f, func(i ssa.Instruction) {
			g := staticCallee(i)
			if g == nil || g.Name() != "NewStatic" || len(callOf(i).Args) < 1 {
				return
			}
			n++
			c.CallSites++
			c.FuncsAnalysed[shortName(f)] = true
			v := resolve(callOf(i).Args[0])
			_, isC := constOf(v)
			ap := trimAddr(accessPath(v))
			fromOpts := strings.HasPrefix(ap, "P:") && !strings.Contains(ap, "(")
			c.check(isC || fromOpts, trimPkgDirs(shortName(f))+"/NewStatic(key)", u.ipos(i), "a constant / configured key", "the static KMS's master key is "+describeOperand(v)+": each process wraps system keys under a key of its own — the loser of an insert race reloads the winner's record and cannot unwrap it, and after a restart nothing stored before can be read")
		})
	}
	if n == 0 {
		c.unresolved("server/NewStatic", "no kms.NewStatic call found")
	}
}

// ruleC19NilableResultsChecked: a function of the server package that can return a nil pointer (a literal `return nil`)
// has its result tested before it is dereferenced.
func ruleC19NilableResultsChecked(c *Ctx) {
	u := c.U2
	c.rule("C19.nilable-results-checked", "in the server package, the pointer result of a function that has a `return nil` path is dereferenced (load, field access) only where it is known non-nil — expected count on the pinned tree: none", 0)
	nilable := map[*ssa.Function]bool{}
	for _, f := range u.RepoFuncs {
		if f.Pkg == nil || f.Pkg.Pkg.Path() != pkgServer || f.Blocks == nil || f.Signature.Results().Len() != 1 {
			continue
		}
		if _, isPtr := f.Signature.Results().At(0).Type().Underlying().(*types.Pointer); !isPtr {
			continue
		}
		hasNil, hasVal := false, false
		for _, r := range returnsOf(f) {
			if isNilValue(returnedValue(r, 0)) {
				hasNil = true
			} else {
				hasVal = true
			}
		}
		if hasNil && hasVal {
			nilable[f] = true
		}
	}
	for _, f := range u.RepoFuncs {
		if f.Pkg == nil || f.Pkg.Pkg.Path() != pkgServer || f.Blocks == nil {
			continue
		}
		allInstrs(f, func(i ssa.Instruction) {
			cv, ok := i.(*ssa.Call)
			if !ok || !nilable[staticCallee(cv)] || cv.Referrers() == nil {
				return
			}
			for _, r := range *cv.Referrers() {
				deref := false
				switch x := r.(type) {
				case *ssa.UnOp:
					deref = x.Op == token.MUL && x.X == ssa.Value(cv)
				case *ssa.FieldAddr:
					deref = x.X == ssa.Value(cv)
				}
				if !deref {
					continue
				}
				use := r.(ssa.Instruction)
				c.CallSites++
				if !knownNonNil(cv, use.Block()) {
					c.bad(trimPkgDirs(shortName(f))+"/"+staticCallee(cv).Name()+"-result", u.ipos(use), "the result of "+staticCallee(cv).Name()+" — which returns nil on one of its paths — is dereferenced without a nil test: a request that takes that path (e.g. a decrypt without a data row record) panics the stream's goroutine, and gRPC does not recover it: the sidecar process dies")
				}
			}
		})
	}
	c.ok("server/nilable-results", "", "no unchecked dereference of a nilable result")
}

// ---------------------------------------------------------------------------------------------
// more of round 13

// ruleC17WipesAreTheOwners: in the KMS plugins a buffer is wiped by the function that obtained it, never by a helper
// that merely received it: the regional Encrypt helpers run concurrently on one plaintext data key — the first one to
// return would zero what the others are still sending.
func ruleC17WipesAreTheOwners(c *Ctx) {
	u := c.U1
	c.rule("C17.wipes-are-the-owners", "in both KMS plugins no wipe (MemClr / a wiping helper, immediate or deferred) targets a parameter of the function it sits in — expected count on the pinned tree: none", 0)
	for _, f := range u.RepoFuncs {
		root := rootFunc(f)
		if root.Pkg == nil || f.Blocks == nil {
			continue
		}
		if p := root.Pkg.Pkg.Path(); p != pkgKmsV1 && p != pkgKmsV2 {
			continue
		}
		allInstrs(f, func(i ssa.Instruction) {
			var arg ssa.Value
			if d, isD := i.(*ssa.Defer); isD {
				if g := d.Call.StaticCallee(); g != nil && (funcFullName(g) == fnMemClr || funcFullName(g) == fnCoreWipe) && len(d.Call.Args) > 0 {
					arg = d.Call.Args[0]
				}
			} else if a, ok := wipeArg(i); ok {
				arg = a
			}
			if arg == nil {
				return
			}
			if p, isP := resolveCaptured(resolve(arg)).(*ssa.Parameter); isP {
				c.CallSites++
				if wipeHelperOwnedByCallers(u, f, p) {
					return
				}
				c.bad(trimPkgDirs(shortName(f))+"/wipes-parameter", u.ipos(i), "a buffer the function merely received ("+p.Name()+") is wiped here: the per-region workers share one plaintext data key — the first Encrypt to return zeroes it while the other regions are still sending it, and their envelope entries wrap 32 zero bytes")
			}
		})
	}
	c.ok("kms/wipes", "", "wipes only where the buffer was obtained")
}

// slotValueAt follows loads of a local slot (a named result captured by a deferred closure is one) to the store that
// dominates the load and is the last such store, repeatedly; it stops at the first value that is not such a load.
func slotValueAt(v ssa.Value) ssa.Value {
	for n := 0; n < 8; n++ {
		ld, ok := strip(v).(*ssa.UnOp)
		if !ok || ld.Op != token.MUL {
			return v
		}
		a, isA := ld.X.(*ssa.Alloc)
		if !isA {
			return v
		}
		st := lastDominatingStore(a, ld)
		if st == nil {
			return v
		}
		// a store that does not dominate the load but can reach it makes the slot's content path-dependent
		for _, ref := range *a.Referrers() {
			if o, isSt := ref.(*ssa.Store); isSt && o != st && o.Addr == ssa.Value(a) && !instrDominates(o, st) {
				past, _ := pathSearch(o, func(j ssa.Instruction) pathAction {
					if j == ssa.Instruction(st) {
						return pathStop
					}
					if j == ssa.Instruction(ld) {
						return pathFound
					}
					return pathContinue
				}, nil)
				if past {
					return v
				}
			}
		}
		v = st.Val
	}
	return v
}

// wipeHelperOwnedByCallers: f is an unexported helper that wipes its parameter p, and every caller hands it a buffer the
// caller itself obtained, fresh for that call: the call sits in a named function (not a goroutine / closure body, not a
// `go` statement), the argument is a (field of a) call result of the caller, and the call cannot be reached again without
// passing the call that produced the buffer. Then the wipe is the caller's own wipe, moved into the helper.
func wipeHelperOwnedByCallers(u *Universe, f *ssa.Function, p *ssa.Parameter) bool {
	if f.Parent() != nil || f.Object() == nil || f.Object().Exported() {
		return false
	}
	idx := -1
	for k, q := range f.Params {
		if q == p {
			idx = k
		}
	}
	if idx < 0 {
		return false
	}
	sites := 0
	for _, g := range u.RepoFuncs {
		if g.Blocks == nil {
			continue
		}
		bad := false
		allInstrs(g, func(i ssa.Instruction) {
			cc := callOf(i)
			if cc == nil || cc.StaticCallee() != f {
				// a method value / function value of f escapes the static view
				for _, op := range i.Operands(nil) {
					if op != nil && *op == ssa.Value(f) {
						bad = true
					}
				}
				return
			}
			sites++
			if _, isGo := i.(*ssa.Go); isGo || g.Parent() != nil {
				bad = true
				return
			}
			args := cc.Args
			if idx >= len(args) {
				bad = true
				return
			}
			root := resolve(args[idx])
			for n := 0; n < 8; n++ {
				b, _, ok := fieldAccess(root)
				if !ok {
					break
				}
				root = resolve(b)
			}
			if ex, isEx := root.(*ssa.Extract); isEx {
				root = ex.Tuple
			}
			src, isCall := root.(*ssa.Call)
			if !isCall {
				bad = true
				return
			}
			again, _ := pathSearch(i, func(j ssa.Instruction) pathAction {
				if j == ssa.Instruction(src) {
					return pathStop
				}
				if j == i {
					return pathFound
				}
				return pathContinue
			}, nil)
			if again {
				bad = true
			}
		})
		if bad {
			return false
		}
	}
	return sites > 0
}

// ruleC12ReaderReportsAccessErrors: secrets.Reader.Read returns the error of the secret's WithBytes whenever there is one:
// an `io.EOF` (or nil) of its own is returned only where that error is known nil.
func ruleC12ReaderReportsAccessErrors(c *Ctx) {
	u := c.U1
	c.rule("C12.reader-reports-access-errors", "in secrets.Reader.Read every return whose error is not the WithBytes error itself is reached only where the WithBytes error is known to be nil", 1)
	f := u.Method(pkgSecrets, "Reader", "Read")
	if f == nil || f.Blocks == nil {
		c.unresolved("secrets.Reader.Read", "method")
		return
	}
	c.FuncsAnalysed[shortName(f)] = true
	var accErr ssa.Value
	allInstrs(f, func(i ssa.Instruction) {
		cc := callOf(i)
		if cc != nil && methodNameOf(cc) == "WithBytes" {
			if cv, ok := i.(*ssa.Call); ok {
				if isErrorType(cv.Type()) {
					accErr = cv
				}
				for _, pr := range resultsOfType(cv, isErrorType) {
					accErr = pr[0]
				}
			}
		}
	})
	if accErr == nil {
		c.unresolved("secrets.Reader.Read/WithBytes", "no WithBytes call with an error result")
		return
	}
	for _, r := range returnsOf(f) {
		if len(r.Results) != 2 {
			continue
		}
		c.CallSites++
		ev := returnedValue(r, 1)
		same := strip(ev) == strip(accErr) || resolve(ev) == resolve(accErr)
		if ld, ok := strip(ev).(*ssa.UnOp); ok && ld.Op == token.MUL && !same {
			if a, isA := ld.X.(*ssa.Alloc); isA {
				if st := lastDominatingStore(a, r); st != nil && strip(st.Val) == strip(accErr) {
					same = true
				}
			}
		}
		okNil := same || knownNil(accErr, r.Block())
		if !okNil && !reaches(accErr.(ssa.Instruction), r) {
			okNil = true // before the access
		}
		c.check(okNil, "secrets.Reader.Read/error", u.ipos(r), "the access error, or another result only where the access succeeded", "Read can return "+describeOperand(resolve(ev))+" although the secret's access reported an error: a failure to re-protect the pages after the read is swallowed — the caller sees a clean end of stream while the secret's pages were left readable")
	}
}

// ruleC05SidecarPolicyVerbatim: the durations and sizes configured on the sidecar's command line reach the policy as they
// are.
func ruleC05SidecarPolicyVerbatim(c *Ctx) {
	u := c.U2
	c.rule("C05.sidecar-policy-verbatim", "server.NewCryptoPolicy hands WithExpireAfterDuration, WithRevokeCheckInterval, WithSessionCacheMaxSize and WithSessionCacheDuration the corresponding option fields themselves", 2)
	f := u.Func(pkgServer, "NewCryptoPolicy")
	if f == nil || f.Blocks == nil {
		c.unresolved("server.NewCryptoPolicy", "function")
		return
	}
	c.FuncsAnalysed[shortName(f)] = true
	want := map[string]string{"WithExpireAfterDuration": ".ExpireAfter", "WithRevokeCheckInterval": ".CheckInterval", "WithSessionCacheMaxSize": ".SessionCacheMaxSize", "WithSessionCacheDuration": ".SessionCacheDuration"}
	n := 0
	// the option list may be assembled by a helper of the package: every call of these SDK options in the package counts
	var hosts []*ssa.Function
	for _, g := range u.RepoFuncs {
		if rootFunc(g).Pkg != nil && rootFunc(g).Pkg == f.Pkg && g.Blocks != nil {
			hosts = append(hosts, g)
		}
	}
	for _, host := range hosts {
		allInstrs(host, func(i ssa.Instruction) {
			g := staticCallee(i)
			if g == nil || g.Pkg == nil || g.Pkg.Pkg.Path() != pkgApp {
				return
			}
			w, ok := want[g.Name()]
			if !ok || len(callOf(i).Args) != 1 {
				return
			}
			n++
			c.CallSites++
			ap := trimAddr(accessPath(callOf(i).Args[0]))
			if ap == "" {
				ap = trimAddr(accessPath(resolve(callOf(i).Args[0])))
			}
			c.check(strings.HasSuffix(ap, w), "server.NewCryptoPolicy/"+g.Name(), u.ipos(i), "the configured value", "the policy receives "+describeOperand(resolve(callOf(i).Args[0]))+" instead of the configured value: keys are then used beyond (or rotated before) the lifetime the operator asked for")
		})
	}
	if n == 0 {
		c.unresolved("server.NewCryptoPolicy/options", "no policy option call found")
	}
}

// ruleC11ProtectionAliasesAreNamesakes: the memcall package re-exports the protection flags under the same names; each
// alias returns its namesake (ReadOnly that returns ReadWrite makes the pages writable while a reader is inside).
func ruleC11ProtectionAliasesAreNamesakes(c *Ctx) {
	u := c.U1
	c.rule("C11.protection-aliases-are-namesakes", "memcall.NoAccess / ReadOnly / ReadWrite of the securememory wrapper each return the result of the library function of the same name", 3)
	for _, name := range []string{"NoAccess", "ReadOnly", "ReadWrite"} {
		f := u.Func(pkgMemcall, name)
		if f == nil || f.Blocks == nil {
			c.unresolved("memcall."+name, "function")
			continue
		}
		c.FuncsAnalysed[shortName(f)] = true
		c.CallSites++
		ok := len(returnsOf(f)) > 0
		got := ""
		for _, r := range returnsOf(f) {
			cv, isCall := resolve(returnedValue(r, 0)).(*ssa.Call)
			if !isCall || staticCallee(cv) == nil || staticCallee(cv).Name() != name {
				ok = false
				if isCall && staticCallee(cv) != nil {
					got = staticCallee(cv).Name()
				}
			}
		}
		c.check(ok, "memcall."+name+"/namesake", u.pos(f.Pos()), "returns the library's "+name+"()", "memcall."+name+"() returns the library's "+got+"(): every Protect call of both back ends that asks for "+name+" gets another protection — e.g. pages that are writable while readers are inside their callbacks")
	}
}

// ruleC11CleanUnlocksBeforeFreeing: memcall.Clean releases locked pages in the order munlock, then wipe-and-munmap. The
// other order unmaps first: the address can be handed to another secret before the late munlock runs — which then
// unlocks that other, live secret's pages.
func ruleC11CleanUnlocksBeforeFreeing(c *Ctx) {
	u := c.U1
	c.rule("C11.clean-unlocks-before-freeing", "in memcall.Clean the Unlock of the region dominates its Free", 1)
	f := u.Func(pkgMemcall, "Clean")
	if f == nil || f.Blocks == nil {
		c.unresolved("memcall.Clean", "function")
		return
	}
	c.FuncsAnalysed[shortName(f)] = true
	var unlocks, frees []ssa.Instruction
	allInstrs(f, func(i ssa.Instruction) {
		cc := callOf(i)
		if cc == nil || !cc.IsInvoke() {
			return
		}
		switch cc.Method.Name() {
		case "Unlock":
			unlocks = append(unlocks, i)
		case "Free":
			frees = append(frees, i)
		}
	})
	if len(frees) == 0 || len(unlocks) == 0 {
		c.bad("memcall.Clean/order", u.pos(f.Pos()), "Clean does not call both Unlock and Free")
		return
	}
	for _, fr := range frees {
		c.CallSites++
		ok := false
		for _, ul := range unlocks {
			if instrDominates(ul, fr) {
				ok = true
			}
		}
		c.check(ok, "memcall.Clean/order", u.ipos(fr), "Unlock before Free", "the pages are unmapped before they are unlocked: between the two calls the address can be given to a secret created concurrently — the late munlock then unlocks that live secret's pages, which can be swapped out")
	}
}

// ruleC17ClientListIsThisInstances: the ordered client list of a KMS plugin instance is built for that instance. A list
// taken from package-level state (a memo keyed by the region map) is shared with every other instance built from the
// same map — and sorted in place for each one's preferred region.
func ruleC17ClientListIsThisInstances(c *Ctx) {
	u := c.U1
	c.rule("C17.client-list-is-this-instances", "what is stored into the Clients / clients field of an AWSKMS value is a list built in that constructor call (ownership provenance: not read from a package-level map, sync.Map, pool or memoised function)", 1)
	n := 0
	for _, f := range u.RepoFuncs {
		root := rootFunc(f)
		if root.Pkg == nil || f.Blocks == nil {
			continue
		}
		if p := root.Pkg.Pkg.Path(); p != pkgKmsV1 && p != pkgKmsV2 {
			continue
		}
		allInstrs(f, func(i ssa.Instruction) {
			st, ok := i.(*ssa.Store)
			if !ok {
				return
			}
			base, fld, isF := fieldAccess(st.Addr)
			if !isF || !strings.EqualFold(fld, "clients") || namedTypeName(derefType(base.Type())) != "AWSKMS" {
				return
			}
			n++
			c.CallSites++
			c.FuncsAnalysed[shortName(f)] = true
			why := notOwnedWhy(st.Val, 0, map[ssa.Value]bool{})
			c.check(why == "", trimPkgDirs(shortName(f))+"/clients=", u.ipos(i), "a list built for this instance", "the instance's client list is "+why+": two instances built from the same region map with different preferred regions share one list, and each construction re-sorts it in place — the first instance then starts with the other one's preferred region")
		})
	}
	// and the functions that produce such lists return lists they built
	for _, f := range u.RepoFuncs {
		if f.Pkg == nil || f.Blocks == nil || (f.Pkg.Pkg.Path() != pkgKmsV1 && f.Pkg.Pkg.Path() != pkgKmsV2) {
			continue
		}
		res := f.Signature.Results()
		for k := 0; k < res.Len(); k++ {
			sl, isSl := res.At(k).Type().Underlying().(*types.Slice)
			if !isSl {
				continue
			}
			en, isN := namedOf(derefType(sl.Elem()))
			if !isN || !strings.Contains(strings.ToLower(en.Obj().Name()), "client") {
				continue
			}
			for _, r := range returnsOf(f) {
				if k >= len(r.Results) || isNilValue(returnedValue(r, k)) {
					continue
				}
				n++
				c.CallSites++
				c.FuncsAnalysed[shortName(f)] = true
				why := notOwnedWhy(returnedValue(r, k), 0, map[ssa.Value]bool{})
				if _, isP := resolve(returnedValue(r, k)).(*ssa.Parameter); isP {
					why = "" // sorting / filtering helpers hand back the list they were given
				}
				c.check(why == "", trimPkgDirs(shortName(f))+"/returned-clients", u.ipos(r), "a list built in this call", "the client list handed back is "+why+": every plugin instance built from the same region map receives the same slice, and each constructor re-sorts it in place for its own preferred region — an earlier instance then starts with another instance's preferred region")
			}
		}
	}
	if n == 0 {
		c.unresolved("kms/clients", "no store to an AWSKMS client list found")
	}
}
