module fixtures

go 1.21
