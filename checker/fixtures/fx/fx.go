// Package fx holds one conforming and one violating instance per engine of asherah-verif. It is not asherah code.
// `asherah-verif selftest` (run at the start of every check) fails if an engine stops firing on the Bad* functions
// or starts firing on the Ok* functions.
package fx

import (
	"reflect"
	"sync/atomic"
	"encoding/json"
	"context"
	"errors"
	"fmt"
	"sync"
	"time"
)

// ---- ownership (E-OWN) ----

type Res struct{ open bool }

func (r *Res) Close() { r.open = false }

func newRes(fail bool) (*Res, error) {
	if fail {
		return nil, errors.New("no")
	}
	return &Res{open: true}, nil
}

func use(*Res) error { return nil }

func OwnOkDefer(fail bool) error {
	r, err := newRes(fail)
	if err != nil {
		return err
	}
	defer r.Close()
	return use(r)
}

func OwnOkReturn(fail bool) (*Res, error) {
	r, err := newRes(fail)
	if err != nil {
		return nil, err
	}
	if err := use(r); err != nil {
		r.Close()
		return nil, err
	}
	return r, nil
}

func OwnBadErrorPath(fail bool) error {
	r, err := newRes(fail)
	if err != nil {
		return err
	}
	if err := use(r); err != nil {
		return err // leak on this path
	}
	r.Close()
	return nil
}

func OwnBadSpill(fail bool) (res *Res, err error) {
	defer func() { _ = recover() }()
	r, err := newRes(fail)
	if err != nil {
		return nil, err
	}
	if err := use(r); err != nil {
		return nil, err // leak; results are spilled around rundefers
	}
	return r, nil
}

// ---- locks (E-LOCK) ----

type Guarded struct {
	mu sync.RWMutex
	n  int
}

func (g *Guarded) OkInc() {
	g.mu.Lock()
	defer g.mu.Unlock()
	g.inc()
}

func (g *Guarded) inc() { g.n++ } // helper: entry state inferred from its call sites

func (g *Guarded) OkRead() int {
	g.mu.RLock()
	defer g.mu.RUnlock()
	return g.n
}

func (g *Guarded) BadWriteUnderRLock() {
	g.mu.RLock()
	g.n = 7
	g.mu.RUnlock()
}

func (g *Guarded) BadAfterUnlock() int {
	g.mu.Lock()
	g.mu.Unlock()
	return g.n
}

// ---- facts / nil guard (E-DOM, E-NIL) ----

type Rec struct {
	Parent *Rec
	V      int
}

func load(i int) (*Rec, error) {
	if i == 0 {
		return nil, nil
	}
	return &Rec{}, nil
}

func NilOk(i int) (int, error) {
	r, err := load(i)
	if err != nil {
		return 0, err
	}
	if r == nil || r.Parent == nil {
		return 0, errors.New("missing")
	}
	return helper(r), nil
}

func helper(r *Rec) int { return r.Parent.V }

func NilBad(i int) (int, error) {
	r, err := load(i)
	if err != nil {
		return 0, err
	}
	return r.V, nil // r may be nil
}

func NilBadAnd(i int) int {
	r, _ := load(i)
	switch {
	case i > 3 && r != nil:
		return r.V
	default:
		return r.V // not guarded on this arm
	}
}

// ---- call graph with closure binding (E-CALL) ----

func runLoader(loader func() int) int { return inner(loader) }
func inner(loader func() int) int     { return loader() }

func secretA() int { return 1 }
func secretB() int { return 2 }

func EntryA() int { return runLoader(func() int { return secretA() }) }
func EntryB() int { return runLoader(func() int { return secretB() }) }

// ---- taint (E-FLOW) ----

func with(key []byte, action func([]byte) ([]byte, error)) ([]byte, error) { return action(key) }

func seal(plain, key []byte) ([]byte, error) { return append([]byte{}, plain...), nil }

func FlowOk(k []byte, p []byte) ([]byte, error) {
	return with(k, func(b []byte) ([]byte, error) { return seal(p, b) })
}

func FlowBad(k []byte, p []byte) ([]byte, error) {
	return with(k, func(b []byte) ([]byte, error) {
		c := b[:4]
		return nil, fmt.Errorf("bad key %x", c)
	})
}

func FlowBadReturn(k []byte) ([]byte, error) {
	return with(k, func(b []byte) ([]byte, error) { return b, nil })
}

// ---- lock balance ----

func (g *Guarded) BalOk() int {
	g.mu.RLock()
	defer g.mu.RUnlock()
	return g.n
}

func (g *Guarded) BalBadLeak(x int) int {
	g.mu.Lock()
	if x > 0 {
		return g.n // lock leaked on this path
	}
	g.mu.Unlock()
	return 0
}

func (g *Guarded) BalBadMismatch() {
	g.mu.RLock()
	g.mu.Unlock()
}

// ---- contradiction: dereference of a value known nil ----

func ContraOk(err error) string {
	if err != nil {
		return err.Error()
	}
	return ""
}

func ContraBad(err error) string {
	if !(err != nil) {
		return err.Error()
	}
	return ""
}

// ---- loop variable alias (this module is go 1.21: one variable per loop) ----

type ent struct{ Region string }

func LoopAliasOk(es []ent) map[string]ent {
	m := map[string]ent{}
	for _, e := range es {
		m[e.Region] = e
	}
	return m
}

func LoopAliasBad(es []ent) map[string]*ent {
	m := map[string]*ent{}
	for _, e := range es {
		m[e.Region] = &e
	}
	return m
}

// ---- copies of plaintext ----

type dataKey struct{ Plaintext []byte }

func CopyOk(d *dataKey, use func([]byte)) { use(d.Plaintext) }

func CopyBad(d *dataKey, use func([]byte)) {
	c := append([]byte(nil), d.Plaintext...)
	use(c)
}

// ---- lost update through a value receiver ----

type counter struct {
	mu *sync.Mutex
	n  int
}

func (c *counter) IncOk() { c.mu.Lock(); c.n++; c.mu.Unlock() }

func (c counter) IncBad() { c.mu.Lock(); c.n++; c.mu.Unlock() }

// ---- goroutine using a context cancelled by its starter ----

func CtxOk(ctx context.Context, work func(context.Context)) {
	go work(ctx)
}

func CtxBad(ctx context.Context, work func(context.Context)) {
	ctx, cancel := context.WithTimeout(ctx, time.Second)
	defer cancel()
	go func() { work(ctx) }()
}

// ---- pointer elements of a decoded list ----

type kekDoc struct{ Region string }

type envDoc struct{ KEKs []*kekDoc }

func ElemOk(e *envDoc) map[string]*kekDoc {
	m := map[string]*kekDoc{}
	for _, k := range e.KEKs {
		if k == nil {
			continue
		}
		m[k.Region] = k
	}
	return m
}

func ElemBad(e *envDoc) map[string]*kekDoc {
	m := map[string]*kekDoc{}
	for _, k := range e.KEKs {
		m[k.Region] = k
	}
	return m
}

// ---- **T decode target ----

func DecodeOk(b []byte) (string, error) {
	var d *kekDoc
	if err := json.Unmarshal(b, &d); err != nil {
		return "", err
	}
	if d == nil {
		return "", nil
	}
	return d.Region, nil
}

func DecodeBad(b []byte) (string, error) {
	var d *kekDoc
	if err := json.Unmarshal(b, &d); err != nil {
		return "", err
	}
	return d.Region, nil
}

// ---- map field set to nil by Close ----

type store struct {
	m      map[string]int
	closed bool
}

type storeBad struct{ m map[string]int }

func (s *store) Set(k string, v int) {
	if s.closed {
		return
	}
	s.m[k] = v
}
func (s *store) Close()                 { s.closed = true; s.m = nil }
func (s *storeBad) Set(k string, v int) { s.m[k] = v }
func (s *storeBad) Close()              { s.m = nil }

// ---- Delete on a storage field ----

type storage interface{ Delete(k string) bool }
type kc struct{ keys storage }

func (c *kc) DelOk(k string) bool  { return c.keys != nil }
func (c *kc) DelBad(k string) bool { return c.keys.Delete(k) }

// ---- acquire / release pairing ----

type limiter struct{ slots chan struct{} }

func (l *limiter) acquireSlot() { l.slots <- struct{}{} }
func (l *limiter) releaseSlot() { <-l.slots }

func PairOk(l *limiter, work func() error) error {
	l.acquireSlot()
	defer l.releaseSlot()
	return work()
}

func PairBad(l *limiter, work func() error) error {
	l.acquireSlot()
	if err := work(); err != nil {
		return err
	}
	l.releaseSlot()
	return nil
}

// ---- atomic.Value with an interface-typed operand ----

var lastErr atomic.Value

func AtomicOk(n int)      { lastErr.Store(n) }
func AtomicBad(err error) { lastErr.Store(err) }

// ---- pre-sized with a length, then appended ----

func PresizeOk(m map[int64]bool) []int64 {
	out := make([]int64, 0, len(m))
	for k := range m {
		out = append(out, k)
	}
	return out
}

func PresizeBad(m map[int64]bool) []int64 {
	out := make([]int64, len(m))
	for k := range m {
		out = append(out, k)
	}
	return out
}

// ---- decorator hiding an optional interface ----

type Metastore interface{ Load(id string) string }

type wrapOk struct{ Metastore }

func (w wrapOk) GetRegionSuffix() string { return "" }

type wrapBad struct{ Metastore }

func UseOptional(m Metastore) string {
	if s, ok := m.(interface{ GetRegionSuffix() string }); ok {
		return s.GetRegionSuffix()
	}
	return ""
}

// ---- pointer looked up in a map ----

type attr struct{ M map[string]int }

func LookupOk(item map[string]*attr) int {
	a := item["rec"]
	if a == nil {
		return 0
	}
	return len(a.M)
}

func LookupBad(item map[string]*attr) int { return len(item["rec"].M) }

// ---- request hoisted out of a loop that starts goroutines ----

type req struct{ Key string }

func GoLoopOk(keys []string, send func(*req)) {
	for _, k := range keys {
		r := &req{Key: k}
		go func() { send(r) }()
	}
}

func GoLoopBad(keys []string, send func(*req)) {
	r := &req{}
	for _, k := range keys {
		r.Key = k
		go func() { send(r) }()
	}
}

// ---- kind-restricted reflect accessors ----

func ReflectOk(k interface{}) uint64 {
	v := reflect.ValueOf(k)
	switch v.Kind() {
	case reflect.Int8, reflect.Int16:
		return uint64(v.Int())
	case reflect.Uint8, reflect.Uint16:
		return v.Uint()
	case reflect.Ptr, reflect.Map:
		return uint64(v.Pointer())
	}
	if v.Kind() == reflect.Float64 {
		return uint64(v.Float())
	}
	return 0
}

func ReflectBad(k interface{}) uint64 {
	v := reflect.ValueOf(k)
	switch v.Kind() {
	case reflect.Uint8, reflect.Uint16:
		return uint64(v.Int())
	}
	return 0
}

func ReflectUnguarded(k interface{}) uint64 { return reflect.ValueOf(k).Uint() }

// ---- recover() must report the failure ----

func RecoverOk(act func() ([]byte, error)) (ret []byte, err error) {
	defer func() {
		if r := recover(); r != nil {
			ret, err = nil, fmt.Errorf("panicked: %v", r)
		}
	}()
	return act()
}

func RecoverBad(act func() ([]byte, error)) ([]byte, error) {
	var (
		ret []byte
		err error
	)
	defer func() {
		if r := recover(); r != nil {
			err = fmt.Errorf("panicked: %v", r)
		}
	}()
	ret, err = act()
	return ret, err
}

func RecoverRepanics(act func() ([]byte, error)) ([]byte, error) {
	defer func() {
		if r := recover(); r != nil {
			panic(r)
		}
	}()
	return act()
}

// ---- a deferred closure must not close what the return hands out ----

type closable struct{ closed bool }

func (c *closable) Close() { c.closed = true }

func DeferCloseOk(mk func() (*closable, error), try func(*closable) bool, adopt func() (*closable, error)) (k *closable, err error) {
	k, err = mk()
	if err != nil {
		return nil, err
	}
	stored := false
	defer func() {
		if !stored && k != nil {
			k.Close()
		}
	}()
	if try(k) {
		stored = true
		return k, nil
	}
	k.Close()
	stored = true
	return adopt()
}

func DeferCloseErrOk(mk func() (*closable, error), adopt func() (*closable, error)) (k *closable, err error) {
	defer func() {
		if err != nil && k != nil {
			k.Close()
		}
	}()
	k, err = mk()
	if err != nil {
		return nil, err
	}
	return adopt()
}

func DeferCloseBad(mk func() (*closable, error), try func(*closable) bool, adopt func() (*closable, error)) (k *closable, err error) {
	k, err = mk()
	if err != nil {
		return nil, err
	}
	stored := false
	defer func() {
		if !stored && k != nil {
			k.Close()
		}
	}()
	if try(k) {
		stored = true
		return k, nil
	}
	k.Close()
	return adopt()
}

// ---- responses received from elsewhere are not rewritten ----

type answerOutput struct{ KeyId *string }

func RewriteOk(ask func() (*answerOutput, error), name string) (*answerOutput, error) {
	own := &answerOutput{}
	own.KeyId = &name
	_ = own
	return ask()
}

func RewriteBad(ask func() (*answerOutput, error), name string) (*answerOutput, error) {
	resp, err := ask()
	if err == nil && resp != nil {
		resp.KeyId = &name
	}
	return resp, err
}

// ---- SDK wire logging ----

type sdkConfig struct {
	ClientLogMode uint64
	Region        string
}

func SdkLogOk(cfg sdkConfig) sdkConfig { cfg.Region = "r"; return cfg }

func SdkLogBad(cfg sdkConfig, debug bool) sdkConfig {
	if debug {
		cfg.ClientLogMode |= 3
	}
	return cfg
}

// ---- running maximum seeded by a constant ----

func RunMaxBad(m map[int64]string) string {
	var latest int64
	for k := range m {
		if k > latest {
			latest = k
		}
	}
	return m[latest]
}

func RunMaxFlagOk(m map[int64]string) string {
	var latest int64
	first := true
	for k := range m {
		if first || k > latest {
			latest = k
			first = false
		}
	}
	return m[latest]
}

func RunMaxMinOk(m map[int64]string) string {
	latest := int64(-9223372036854775808)
	for k := range m {
		if k > latest {
			latest = k
		}
	}
	return m[latest]
}
