package main

// E-DOM helpers: guarded-by-condition queries, composite-literal field values, boolean disjunct structure and the
// error-discipline rule (every error is tested and its non-nil edge reaches a non-nil error return).

import (
	"go/token"
	"go/types"
	"strings"

	"golang.org/x/tools/go/ssa"
)

// factTrue / factFalse: at entry of block b a value satisfying pred is known true / false.
func factWhere(b *ssa.BasicBlock, want bool, pred func(ssa.Value) bool) bool {
	for _, f := range factsAt(b) {
		if f.True == want && pred(f.V) {
			return true
		}
	}
	return false
}

// factsAtInstr: facts at the block of instruction i.
func guardedBy(i ssa.Instruction, want bool, pred func(ssa.Value) bool) bool {
	return factWhere(i.Block(), want, pred)
}

// isCallTo returns a predicate matching call values whose static callee is fn.
func callToPred(fn *ssa.Function) func(ssa.Value) bool {
	return func(v ssa.Value) bool {
		c, ok := strip(v).(*ssa.Call)
		return ok && staticCallee(c) == fn
	}
}

// litFields collects the values stored into the fields of the struct that `addr` points to (composite literal or
// later field stores), within the function of addr. Nested struct pointers are followed by the caller.
func litFields(addr ssa.Value) map[string]ssa.Value {
	out := map[string]ssa.Value{}
	addr = strip(addr)
	refs := addr.Referrers()
	if refs == nil {
		return out
	}
	for _, r := range *refs {
		fa, ok := r.(*ssa.FieldAddr)
		if !ok || fa.X != addr {
			continue
		}
		name := fieldName(fa.X.Type(), fa.Field)
		if fr := fa.Referrers(); fr != nil {
			for _, s := range *fr {
				if st, ok := s.(*ssa.Store); ok && st.Addr == fa {
					out[name] = st.Val
				}
			}
		}
	}
	// whole-struct store: *addr = *complit
	for _, r := range *refs {
		if st, ok := r.(*ssa.Store); ok && st.Addr == addr {
			if ld, ok := st.Val.(*ssa.UnOp); ok && ld.Op == token.MUL {
				for k, v := range litFields(ld.X) {
					if _, has := out[k]; !has {
						out[k] = v
					}
				}
			}
		}
	}
	return out
}

// allocOf finds the Alloc behind a pointer-to-struct value (through MakeInterface etc. and local slots).
func allocOf(v ssa.Value) *ssa.Alloc {
	v = resolve(v)
	a, _ := v.(*ssa.Alloc)
	return a
}

// boolResultTrueWhen: boolean function f returns true on every return reached with a value satisfying pred known
// true (phi-aware: `a || b || c` lowers to a phi of constants), and at least one such return edge exists.
// The last disjunct may be returned as a value (the phi edge carries the value itself).
func boolResultTrueWhen(f *ssa.Function, pred func(ssa.Value) bool) (holds bool, seen bool) {
	holds = true
	for _, r := range returnsOf(f) {
		if len(r.Results) == 0 {
			continue
		}
		res := r.Results[0]
		if phi, ok := res.(*ssa.Phi); ok && phi.Block() == r.Block() {
			for k, e := range phi.Edges {
				p := phi.Block().Preds[k]
				known := false
				for _, fct := range append(edgeFacts(p, phi.Block()), factsAt(p)...) {
					if fct.True && pred(fct.V) {
						known = true
					}
				}
				if known {
					seen = true
					if cv, isC := constOf(e); !isC || cv.ExactString() != "true" {
						holds = false
					}
				} else if pred(strip(e)) {
					seen = true // returned as the value of the disjunct itself
				}
			}
			continue
		}
		if factWhere(r.Block(), true, pred) {
			seen = true
			if cv, isC := constOf(res); !isC || cv.ExactString() != "true" {
				holds = false
			}
		} else if pred(strip(res)) {
			seen = true
		}
	}
	return holds, seen
}

// ---------------------------------------------------------------------------------------------
// error discipline

type errSite struct {
	Call    ssa.Instruction
	Problem string // "" = fine
	Trace   []ssa.Instruction
	How     string
}

// errorDiscipline checks every call in f that yields an error: the error must be extracted, and either returned
// as is, or tested against nil with the non-nil edge reaching only returns whose error result is not the nil
// constant. `exempt` may waive a call (returns a reason).
func errorDiscipline(f *ssa.Function, relevant func(ssa.Instruction) bool, exempt func(ssa.Instruction) string) []errSite {
	var out []errSite
	errIdx := -1
	if res := f.Signature.Results(); res.Len() > 0 && isErrorType(res.At(res.Len()-1).Type()) {
		errIdx = res.Len() - 1
	}
	allInstrs(f, func(i ssa.Instruction) {
		cv, ok := i.(*ssa.Call)
		if !ok || (relevant != nil && !relevant(i)) {
			return
		}
		var errV ssa.Value
		hasErr := false
		if tup, isTup := cv.Type().(*types.Tuple); isTup {
			for k := 0; k < tup.Len(); k++ {
				if isErrorType(tup.At(k).Type()) {
					hasErr = true
					if refs := cv.Referrers(); refs != nil {
						for _, r := range *refs {
							if ex, ok := r.(*ssa.Extract); ok && ex.Index == k {
								errV = ex
							}
						}
					}
				}
			}
		} else if isErrorType(cv.Type()) {
			hasErr = true
			errV = cv
		}
		if !hasErr {
			return
		}
		if exempt != nil {
			if why := exempt(i); why != "" {
				out = append(out, errSite{Call: i, How: "exempt: " + why})
				return
			}
		}
		if errV == nil || errV.Referrers() == nil || len(*errV.Referrers()) == 0 {
			out = append(out, errSite{Call: i, Problem: "the error result is discarded"})
			return
		}
		al := aliasClosure(errV, nil)
		// (a) returned as is?
		returned := false
		for _, r := range returnsOf(f) {
			for _, res := range r.Results {
				if al[res] || al[strip(res)] {
					returned = true
				}
			}
		}
		// (b) tested against nil
		tested := false
		var problem string
		var trace []ssa.Instruction
		for _, b := range f.Blocks {
			for _, s := range b.Succs {
				for _, fct := range edgeFacts(b, s) {
					x, isNil, isT := nilTest(fct)
					if !isT || isNil || !(al[x] || al[strip(x)]) {
						continue
					}
					tested = true
					if errIdx < 0 {
						continue
					}
					// on the err != nil edge every reachable return must carry a non-constant-nil error
					found, tr := pathSearchAt(s, 0, func(j ssa.Instruction) pathAction {
						if r, ok := j.(*ssa.Return); ok {
							if errIdx < len(r.Results) && isNilValue(r.Results[errIdx]) {
								return pathFound
							}
							return pathStop
						}
						if _, ok := j.(*ssa.Panic); ok {
							return pathStop
						}
						return pathContinue
					}, nil)
					if found {
						problem = "on the err != nil edge a return with a nil error is reachable (the failure is swallowed)"
						trace = tr
					}
				}
			}
		}
		// (c) merged into the error being returned: passed to a function whose error result is returned / stored into
		// the (captured) named result, or stored there directly
		merged := false
		for v := range al {
			refs := v.Referrers()
			if refs == nil {
				continue
			}
			for _, r := range *refs {
				switch y := r.(type) {
				case *ssa.Store:
					if y.Val == v {
						if _, isFV := y.Addr.(*ssa.FreeVar); isFV {
							merged = true // *err = … on the enclosing function's named result
						}
					}
				case *ssa.Call:
					if isErrorType(y.Type()) {
						for _, a := range y.Call.Args {
							if a == v {
								// the combined error must itself go somewhere
								if yr := y.Referrers(); yr != nil {
									for _, u2 := range *yr {
										switch z := u2.(type) {
										case *ssa.Return:
											merged = true
										case *ssa.Store:
											if z.Val == ssa.Value(y) {
												merged = true
											}
										}
									}
								}
							}
						}
					}
				}
			}
		}
		switch {
		case problem == "" && !tested && !returned && merged:
			out = append(out, errSite{Call: i, How: "merged into the error being returned (helper / named result)"})
			return
		}
		switch {
		case problem != "":
			out = append(out, errSite{Call: i, Problem: problem, Trace: trace})
		case tested:
			out = append(out, errSite{Call: i, How: "tested; non-nil edge reaches only non-nil error returns"})
		case returned:
			out = append(out, errSite{Call: i, How: "returned to the caller as is"})
		default:
			out = append(out, errSite{Call: i, Problem: "the error is neither tested against nil nor returned"})
		}
	})
	return out
}

// fieldLoadPred: v is a load of field `field` of a value of named type pkg.typ.
func fieldLoadPred(pkg, typ, field string) func(ssa.Value) bool {
	return func(v ssa.Value) bool {
		base, fld, ok := fieldAccess(strip(v))
		return ok && fld == field && typeIsNamed(base.Type(), pkg, typ)
	}
}

func hasSuffixPath(v ssa.Value, suffix string) bool { return strings.HasSuffix(accessPath(v), suffix) }

// dynamicCallOfParam: i is a call through the function-typed parameter (or free variable) named name.
func dynamicCallOfParam(i ssa.Instruction, name string) bool {
	cc := callOf(i)
	if cc == nil || cc.IsInvoke() || cc.StaticCallee() != nil {
		return false
	}
	switch v := cc.Value.(type) {
	case *ssa.Parameter:
		return v.Name() == name
	case *ssa.FreeVar:
		return v.Name() == name
	}
	// a parameter captured by reference and called from a closure: *freevar
	if _, isFn := cc.Value.Type().Underlying().(*types.Signature); isFn {
		return accessPath(cc.Value) == "P:"+name
	}
	return false
}

// isParamOrCaptured: v is parameter #idx of fn, either directly or read through a closure capture of it
// (nested accessor closures capture the outer closure's byte-slice parameter by reference).
func isParamOrCaptured(v ssa.Value, fn *ssa.Function, idx int) bool {
	if idx >= len(fn.Params) {
		return false
	}
	if isParamNamed(v, fn, idx) || resolve(v) == ssa.Value(fn.Params[idx]) {
		return true
	}
	// through free variables: the access path names the parameter of the enclosing function
	in, ok := v.(ssa.Instruction)
	if !ok || in.Parent() == nil {
		return false
	}
	inner := false
	for p := in.Parent().Parent(); p != nil; p = p.Parent() {
		if p == fn {
			inner = true
		}
	}
	return inner && accessPath(v) == "P:"+fn.Params[idx].Name()
}

// litOf resolves v to the composite literal (Alloc) that builds it: directly, or through a static call to a repo helper
// whose single composite literal of that type is what it returns (a constructor). For the latter the substitution maps
// the helper's parameter paths to the argument paths of the call.
func litOf(v ssa.Value) (*ssa.Alloc, *factSub) {
	if a := allocOf(v); a != nil {
		return a, nil
	}
	cv, ok := resolve(v).(*ssa.Call)
	if !ok {
		if ex, isEx := resolve(v).(*ssa.Extract); isEx {
			cv, _ = ex.Tuple.(*ssa.Call)
		}
	}
	if cv == nil {
		return nil, nil
	}
	h := staticCallee(cv)
	if h == nil || h.Blocks == nil || h.Pkg == nil || !strings.HasPrefix(h.Pkg.Pkg.Path(), "github.com/godaddy/asherah/") {
		return nil, nil
	}
	var lit *ssa.Alloc
	n := 0
	for _, r := range returnsOf(h) {
		if len(r.Results) == 0 {
			continue
		}
		rv := resolve(returnedValue(r, 0))
		if ld, isLd := rv.(*ssa.UnOp); isLd { // struct returned by value: *complit
			rv = ld.X
		}
		if a, isA := rv.(*ssa.Alloc); isA {
			lit = a
			n++
		} else if !isNilConst(strip(rv)) {
			return nil, nil
		}
	}
	if n != 1 {
		return nil, nil
	}
	return lit, callSub(h, &cv.Call)
}

// pathIn: access path of v (a value of the literal's frame) translated by sub into the caller's frame.
func pathIn(sub *factSub, v ssa.Value) string { return trimAddr(sub.apply(accessPath(v))) }

// holdsOnAllEntries: cond holds for the facts known at b, or — when b is a join of several branches (a disjunction such
// as `!ok || a < b`) — for the facts of every incoming edge.
func holdsOnAllEntries(b *ssa.BasicBlock, cond func([]Fact) bool) bool {
	if cond(factsAt(b)) {
		return true
	}
	if len(b.Preds) < 2 {
		return false
	}
	for _, p := range b.Preds {
		facts := append(append([]Fact{}, factsAt(p)...), edgeFacts(p, b)...)
		if !cond(facts) {
			// a pass-through block (e.g. an empty else) inherits its own single predecessor's edge
			if len(p.Preds) == 1 && len(p.Instrs) <= 1 {
				pp := p.Preds[0]
				facts = append(facts, edgeFacts(pp, p)...)
				facts = append(facts, factsAt(pp)...)
				if cond(facts) {
					continue
				}
			}
			return false
		}
	}
	return true
}
