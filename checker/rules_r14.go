package main

// Rules added after seeding round 14 ("the right code applied to the wrong value": a same-typed sibling value, swapped
// arguments, a copy-pasted twin). DESIGN §6.5, round 14.

import (
	"go/types"
	"regexp"
	"strings"

	"golang.org/x/tools/go/ssa"
)

// ---------------------------------------------------------------------------------------------
// C15.list-handle-belongs-to-its-item

// ruleC15ListHandleBelongsToItsItem: the eviction policies keep, per cached item, the handle (*list.Element) of the list
// node that carries the item. The handle a push returns is recorded for the item that was pushed — in its `parent` field,
// or under its key in an index map — never for another item. Recorded for another item, the pushed item keeps a stale
// handle: removing it is a no-op, it is chosen as victim again and again (its eviction callback runs twice: a key in
// use is closed), and the other item can no longer be unlinked (the cache holds more than its capacity).
func ruleC15ListHandleBelongsToItsItem(c *Ctx) {
	u := c.U1
	c.rule("C15.list-handle-belongs-to-its-item", "in pkg/cache every *list.Element returned by PushFront / PushBack / InsertAfter / InsertBefore that is stored into an item's `parent` field, or as a map value, is stored for the item that was pushed (the item itself, the item embedded in the pushed wrapper, or the wrapper found under the item's own handle)", 3)
	pushes := map[string]bool{"(*container/list.List).PushFront": true, "(*container/list.List).PushBack": true, "(*container/list.List).InsertAfter": true, "(*container/list.List).InsertBefore": true}
	label := ""
	pushed := func(v ssa.Value) (ssa.Value, bool) {
		cv, ok := resolve(v).(*ssa.Call)
		if !ok || cv.Call.StaticCallee() == nil || !pushes[funcFullName(cv.Call.StaticCallee())] || len(cv.Call.Args) < 2 {
			return nil, false
		}
		it := cv.Call.Args[1]
		if mi, isMI := it.(*ssa.MakeInterface); isMI {
			it = mi.X
		}
		label = cv.Call.StaticCallee().Name()
		if _, lf, isF := fieldAccess(cv.Call.Args[0]); isF {
			label = lf + "." + label
		}
		return it, true
	}
	// same: owner (the item the handle is recorded for) is the item that travels in pushed value v
	var same func(owner, v ssa.Value) bool
	same = func(owner, v ssa.Value) bool {
		// both are parameters of an unexported helper: the relation is the callers' to establish, at every call site
		if po, ok1 := resolve(owner).(*ssa.Parameter); ok1 {
			if pv, ok2 := resolve(v).(*ssa.Parameter); ok2 && po != pv && po.Parent() == pv.Parent() {
				h := po.Parent()
				if h.Parent() == nil && h.Object() != nil && !h.Object().Exported() {
					oi, vi := -1, -1
					for k, q := range h.Params {
						if q == po {
							oi = k
						}
						if q == pv {
							vi = k
						}
					}
					buildCallSiteIndex(h)
					sites := callSiteIndex[orig(h)]
					if len(sites) > 0 && !addressTaken[orig(h)] {
						all := true
						for _, site := range sites {
							args := site.Common().Args
							if oi >= len(args) || vi >= len(args) || !same(args[oi], args[vi]) {
								all = false
							}
						}
						if all {
							return true
						}
					}
				}
			}
		}
		if resolve(owner) == resolve(v) || (accessPath(owner) == accessPath(v) && !strings.HasPrefix(accessPath(v), "V:")) {
			return true
		}
		// owner is the item embedded in the pushed wrapper: owner = v.cacheItem
		if b, fld, ok := fieldAccess(strip(owner)); ok && fld == "cacheItem" && (resolve(b) == resolve(v) || accessPath(b) == accessPath(v)) {
			return true
		}
		// the pushed wrapper is a literal around owner
		if a := allocOf(v); a != nil {
			if fv, has := litFields(a)["cacheItem"]; has && (resolve(fv) == resolve(owner) || accessPath(fv) == accessPath(owner)) {
				return true
			}
		}
		// the pushed wrapper is the one found under owner's own handle: v = owner.parent.Value.(*wrapper)
		op := trimAddr(accessPath(owner))
		if vp := trimAddr(accessPath(v)); op != "" && !strings.HasPrefix(op, "V:") && strings.HasPrefix(vp, op+".parent") {
			return true
		}
		return false
	}
	n := 0
	for _, f := range u.RepoFuncs {
		root := rootFunc(f)
		if root.Pkg == nil || root.Pkg.Pkg.Path() != pkgCache || f.Blocks == nil {
			continue
		}
		allInstrs(f, func(i ssa.Instruction) {
			switch x := i.(type) {
			case *ssa.Store:
				base, fld, isF := fieldAccess(x.Addr)
				if !isF || fld != "parent" {
					return
				}
				v, ok := pushed(x.Val)
				if !ok {
					return
				}
				n++
				c.CallSites++
				c.FuncsAnalysed[shortName(f)] = true
				c.check(same(base, v), trimPkgDirs(shortName(f))+"/parent="+label, u.ipos(i), "the handle is recorded for the item that was pushed", "the list node created for "+describeOperand(v)+" is recorded as the handle of another item ("+describeOperand(base)+"): the pushed item keeps a stale handle — its removal is a no-op, it is returned as victim repeatedly (its eviction callback closes a key twice while the key is in use), and the other item can never be unlinked again (the cache outgrows its capacity)")
			case *ssa.MapUpdate:
				v, ok := pushed(x.Value)
				if !ok {
					return
				}
				n++
				c.CallSites++
				c.FuncsAnalysed[shortName(f)] = true
				c.check(same(x.Key, v), trimPkgDirs(shortName(f))+"/index="+label, u.ipos(i), "the handle is indexed under the item that was pushed", "the list node created for "+describeOperand(v)+" is indexed under another item ("+describeOperand(x.Key)+"): deleting either item later unlinks the wrong node")
			}
		})
	}
	if n == 0 {
		c.unresolved("pkg/cache list handles", "no recorded push result found")
	}
}

// ---------------------------------------------------------------------------------------------
// C13.requests-name-the-configured-table

// ruleC13RequestsNameTheConfiguredTable: every DynamoDB request of the two metastores names the table the metastore was
// configured with (its tableName field) — Load, LoadLatest and Store alike. A request that names the default table reads
// (or writes) another table than its siblings whenever a table name is configured: LoadLatest finds nothing, or somebody
// else's keys, right after a successful Store.
func ruleC13RequestsNameTheConfiguredTable(c *Ctx) {
	u := c.U1
	c.rule("C13.requests-name-the-configured-table", "in both DynamoDB metastores every store to a TableName field of a request takes its value from the receiver's tableName field", 6)
	n := 0
	for _, f := range u.RepoFuncs {
		root := rootFunc(f)
		if root.Pkg == nil || f.Blocks == nil {
			continue
		}
		if p := root.Pkg.Pkg.Path(); p != pkgDynV1 && p != pkgDynV2 {
			continue
		}
		allInstrs(f, func(i ssa.Instruction) {
			st, ok := i.(*ssa.Store)
			if !ok {
				return
			}
			_, fld, isF := fieldAccess(st.Addr)
			if !isF || fld != "TableName" {
				return
			}
			n++
			c.CallSites++
			c.FuncsAnalysed[shortName(f)] = true
			// configured: v is (a pointer made by aws.String from) the tableName field — here, or as the result of a helper
			// of the package that returns just that on every path
			var configured func(v ssa.Value, depth int) (bool, ssa.Value)
			configured = func(v ssa.Value, depth int) (bool, ssa.Value) {
				v = resolve(v)
				if cv, isCall := v.(*ssa.Call); isCall {
					g := staticCallee(cv)
					if g != nil && g.Name() == "String" && len(cv.Call.Args) == 1 {
						return configured(cv.Call.Args[0], depth)
					}
					if g != nil && g.Blocks != nil && g.Pkg == root.Pkg && depth < 2 {
						rets := returnsOf(g)
						for _, r := range rets {
							if len(r.Results) != 1 {
								return false, v
							}
							if ok, _ := configured(returnedValue(r, 0), depth+1); !ok {
								return false, v
							}
						}
						return len(rets) > 0, v
					}
				}
				ap := trimAddr(accessPath(resolveCaptured(v)))
				if ap == "" || strings.HasPrefix(ap, "V:") {
					ap = trimAddr(accessPath(v))
				}
				return strings.HasSuffix(ap, ".tableName"), v
			}
			isConfigured, src := configured(st.Val, 0)
			c.check(isConfigured, trimPkgDirs(shortName(f))+"/TableName", u.ipos(i), "the configured table", "the request names "+describeOperand(resolve(src))+" instead of the metastore's configured table: with a table name configured this operation goes to another table than its siblings — what Store wrote is not what Load / LoadLatest reads")
		})
	}
	if n == 0 {
		c.unresolved("dynamodb/TableName", "no request TableName found")
	}
}

// ---------------------------------------------------------------------------------------------
// C17.sidecar-kms-wiring-verbatim (U2)

// ruleC17SidecarKMSWiringVerbatim: the sidecar builds its AWS KMS from the options of the same name: the preferred region
// is --preferred-region and the region → ARN map is --region-map.
func ruleC17SidecarKMSWiringVerbatim(c *Ctx) {
	u := c.U2
	c.rule("C17.sidecar-kms-wiring-verbatim", "in the sidecar every call of the KMS plugin's constructor (NewAWS / NewBuilder) is handed Options.PreferredRegion as preferred region and Options.RegionMap as region map", 2)
	n := 0
	for _, f := range u.RepoFuncs {
		root := rootFunc(f)
		if root.Pkg == nil || root.Pkg.Pkg.Path() != pkgServer || f.Blocks == nil {
			continue
		}
		allInstrs(f, func(i ssa.Instruction) {
			g := staticCallee(i)
			if g == nil || g.Pkg == nil || !strings.HasSuffix(g.Pkg.Pkg.Path(), "/kms") || !strings.HasPrefix(g.Pkg.Pkg.Path(), modApp+"/") {
				return
			}
			if g.Name() != "NewAWS" && g.Name() != "NewBuilder" {
				return
			}
			c.FuncsAnalysed[shortName(f)] = true
			args := callOf(i).Args
			for k := 0; k < g.Signature.Params().Len() && k < len(args); k++ {
				p := g.Signature.Params().At(k)
				want := ""
				switch {
				case strings.EqualFold(p.Name(), "preferredRegion"):
					want = ".PreferredRegion"
				case strings.Contains(strings.ToLower(p.Name()), "arnmap") || strings.Contains(strings.ToLower(p.Name()), "regionmap"):
					want = ".RegionMap"
				}
				if want == "" {
					continue
				}
				n++
				c.CallSites++
				ap := trimAddr(accessPath(args[k]))
				if cv, isConv := resolve(args[k]).(*ssa.ChangeType); isConv {
					ap = trimAddr(accessPath(cv.X))
				}
				c.check(strings.HasSuffix(ap, want), trimPkgDirs(shortName(f))+"/"+g.Name()+"("+p.Name()+")", u.ipos(i), "Options"+want, "the KMS plugin's "+p.Name()+" is "+describeOperand(resolve(args[k]))+", not the sidecar's "+want[1:]+" option: key generation and unwrapping start in a region the operator did not choose (the configured preferred region is silently ignored)")
			}
		})
	}
	if n == 0 {
		c.unresolved("server/NewAWS", "no KMS plugin constructor call with a preferred-region / region-map parameter found")
	}
}

// ---------------------------------------------------------------------------------------------
// C19.option-compared-to-its-own-choices (U2)

var choiceTag = regexp.MustCompile(`choice:"([^"]*)"`)

// ruleC19OptionComparedToItsOwnChoices: the sidecar's string options that select a back end declare their legal values
// (`choice:"…"` struct tags). Wherever such an option is compared with a constant — the cases of a switch, an if — the
// constant is one of that option's own choices. A selector that tests the sibling option (the metastore switch reading
// --kms) compares against values its operand can never take: no case matches and the default branch — the in-memory
// metastore — is what every configuration silently gets.
func ruleC19OptionComparedToItsOwnChoices(c *Ctx) {
	u := c.U2
	c.rule("C19.option-compared-to-its-own-choices", "in the sidecar every ==/!= (and switch case) comparison of an Options field that carries `choice` tags with a string constant uses a constant among that field's choices, and each selector function (NewMetastore, NewKMS) compares the option it is named after", 3)
	n := 0
	for _, f := range u.RepoFuncs {
		root := rootFunc(f)
		if root.Pkg == nil || root.Pkg.Pkg.Path() != pkgServer || f.Blocks == nil {
			continue
		}
		allInstrs(f, func(i ssa.Instruction) {
			b, ok := i.(*ssa.BinOp)
			if !ok || (b.Op.String() != "==" && b.Op.String() != "!=") {
				return
			}
			for _, pr := range [][2]ssa.Value{{b.X, b.Y}, {b.Y, b.X}} {
				k, isC := constOf(pr[1])
				if !isC || k.Kind().String() != "String" {
					continue
				}
				base, fld, isF := fieldAccess(resolve(pr[0]))
				if !isF || !typeIsNamed(derefType(base.Type()), pkgServer, "Options") {
					continue
				}
				st, isS := derefType(base.Type()).Underlying().(interface {
					NumFields() int
					Tag(int) string
				})
				if !isS {
					continue
				}
				var choices []string
				for j := 0; j < st.NumFields(); j++ {
					if fieldName(base.Type(), j) == fld {
						for _, m := range choiceTag.FindAllStringSubmatch(st.Tag(j), -1) {
							choices = append(choices, m[1])
						}
					}
				}
				if len(choices) == 0 {
					continue
				}
				n++
				c.CallSites++
				c.FuncsAnalysed[shortName(f)] = true
				val := strings.Trim(k.ExactString(), `"`)
				if val == "" {
					continue // "is the option set at all" — not a choice being tested
				}
				among := false
				for _, ch := range choices {
					if ch == val {
						among = true
					}
				}
				c.check(among, trimPkgDirs(shortName(f))+"/"+fld+"=="+val, u.ipos(i), "one of the option's declared choices", "Options."+fld+" (choices: "+strings.Join(choices, ", ")+") is compared with \""+val+"\", a value it can never hold: the branch is dead and the fall-through — for the metastore selector the in-memory store — is taken for every configuration: keys are not persisted, and a restarted or second sidecar cannot read what this one wrote")
			}
		})
	}
	if n == 0 {
		c.unresolved("server/option comparisons", "no comparison of a choice-tagged option found")
	}
}

// ---------------------------------------------------------------------------------------------
// C17.kek-looked-up-for-the-asking-client

// ruleC17KEKLookedUpForTheAskingClient: in DecryptKey of both KMS plugins the envelope entry handed to a regional client
// is the entry looked up under that same client's Region. Looked up under another client's region (the preferred one,
// the first one), every region is asked to open the preferred region's ciphertext: when that region is down, or its
// entry is missing, no surviving region can unwrap although the envelope holds an entry for it.
func ruleC17KEKLookedUpForTheAskingClient(c *Ctx) {
	u := c.U1
	c.rule("C17.kek-looked-up-for-the-asking-client", "in DecryptKey of both KMS plugins the EncryptedKEK sent to a regional client comes from the envelope entry looked up under that client's own Region field", 2)
	n := 0
	// lookupKey: the region key under which the KEK value x was looked up
	lookupKey := func(x ssa.Value) ssa.Value {
		x = resolve(x)
		if a, isA := x.(*ssa.Alloc); isA {
			// a struct-valued local (kek, ok := keks[region]): what the slot was filled with
			if st := localStores(a); len(st) == 1 {
				x = resolve(st[0])
			}
		}
		if ex, ok := x.(*ssa.Extract); ok {
			x = ex.Tuple
		}
		switch y := x.(type) {
		case *ssa.Lookup:
			return y.Index
		case *ssa.Call:
			if g := staticCallee(y); g != nil && len(y.Call.Args) >= 2 {
				for _, a := range y.Call.Args[1:] {
					if bt, isB := a.Type().Underlying().(*types.Basic); isB && bt.Info()&types.IsString != 0 {
						return a
					}
				}
			}
		}
		return nil
	}
	// canon: what a value is, looking through single-store slots (a by-value client or entry spilled because its address
	// is taken)
	canon := func(v ssa.Value) ssa.Value {
		for k := 0; k < 4; k++ {
			v = resolve(v)
			a, isA := v.(*ssa.Alloc)
			if !isA {
				return v
			}
			st := localStores(a)
			if len(st) != 1 {
				return v
			}
			v = st[0]
		}
		return v
	}
	samePlace := func(a, b ssa.Value) bool {
		if resolve(a) == resolve(b) || strip(a) == strip(b) || canon(a) == canon(b) {
			return true
		}
		pa, pb := trimAddr(accessPath(a)), trimAddr(accessPath(b))
		return pa != "" && pa == pb
	}
	for _, f := range u.RepoFuncs {
		root := rootFunc(f)
		if root.Pkg == nil || f.Blocks == nil {
			continue
		}
		if p := root.Pkg.Pkg.Path(); p != pkgKmsV1 && p != pkgKmsV2 {
			continue
		}
		allInstrs(f, func(i ssa.Instruction) {
			cc := callOf(i)
			if cc == nil {
				return
			}
			var client, blob ssa.Value
			switch {
			case cc.IsInvoke() && strings.HasPrefix(cc.Method.Name(), "Decrypt"):
				// v1: c.KMS.DecryptWithContext(ctx, &kms.DecryptInput{CiphertextBlob: key.EncryptedKEK})
				b, fld, ok := fieldAccess(resolve(cc.Value))
				if !ok || fld != "KMS" {
					return
				}
				client = b
				for _, a := range cc.Args {
					if al := allocOf(a); al != nil {
						if v, has := litFields(al)["CiphertextBlob"]; has {
							blob = v
						}
					}
				}
			case cc.StaticCallee() != nil && cc.StaticCallee().Name() == "DecryptKey" && cc.StaticCallee().Signature.Recv() != nil && namedTypeName(derefType(cc.StaticCallee().Signature.Recv().Type())) == "regionalClient":
				// v2: c.DecryptKey(ctx, kek.EncryptedKEK)
				client = cc.Args[0]
				for _, a := range cc.Args[1:] {
					if isByteSlice(a.Type()) {
						blob = a
					}
				}
			default:
				return
			}
			if blob == nil {
				return
			}
			// judge decides one (client, blob) pair; a pair made of the enclosing helper's parameters is judged at every
			// call site of the helper (depth ≤ 3). resolved=false: the shape is not one this rule understands.
			var judge func(g *ssa.Function, client, blob ssa.Value, viaKEK bool, depth int) (good, resolved bool, key ssa.Value)
			paramIdx := func(g *ssa.Function, v ssa.Value) int {
				pv, isP := canon(v).(*ssa.Parameter)
				if !isP {
					return -1
				}
				for k, q := range g.Params {
					if q == pv {
						return k
					}
				}
				return -1
			}
			atCallSites := func(g *ssa.Function, client, other ssa.Value, viaKEK bool, depth int) (bool, bool, ssa.Value) {
				if depth > 3 || g.Parent() != nil {
					return false, false, nil
				}
				ci, oi := paramIdx(g, client), paramIdx(g, other)
				if ci < 0 || oi < 0 {
					return false, false, nil
				}
				buildCallSiteIndex(g)
				sites := callSiteIndex[orig(g)]
				if len(sites) == 0 || addressTaken[orig(g)] {
					return false, false, nil
				}
				var lastKey ssa.Value
				for _, site := range sites {
					args := site.Common().Args
					if ci >= len(args) || oi >= len(args) {
						return false, false, nil
					}
					gd, rs, k := judge(site.Parent(), args[ci], args[oi], viaKEK, depth+1)
					if !rs {
						return false, false, nil
					}
					if !gd {
						return false, true, k
					}
					lastKey = k
				}
				return true, true, lastKey
			}
			judge = func(g *ssa.Function, client, v ssa.Value, viaKEK bool, depth int) (bool, bool, ssa.Value) {
				kb := v
				if !viaKEK {
					// v is the blob: a field EncryptedKEK of the entry, or a parameter fed with one
					b2, fld, ok := fieldAccess(resolve(v))
					if !ok || fld != "EncryptedKEK" {
						return atCallSites(g, client, v, false, depth)
					}
					kb = b2
				}
				key := lookupKey(kb)
				if key == nil {
					if a, isA := resolve(kb).(*ssa.Alloc); isA {
						if st := localStores(a); len(st) == 1 {
							kb = st[0]
						}
					}
					return atCallSites(g, client, kb, true, depth)
				}
				rb, rf, isF := fieldAccess(resolve(key))
				if !isF || rf != "Region" {
					// a local `region := c.Region` resolves through; anything else is not a region of a client
					return false, true, key
				}
				good := samePlace(rb, client)
				if !good {
					// the client may have been spilled to a slot (value receiver / address taken): compare what the slots hold
					if la, ok1 := loadOf(resolve(client)); ok1 {
						good = samePlace(rb, la)
					}
					if lb, ok2 := loadOf(resolve(rb)); ok2 && !good {
						good = samePlace(lb, client)
					}
				}
				return good, true, key
			}
			good, resolved, key := judge(f, client, blob, false, 0)
			if !resolved {
				return
			}
			n++
			c.CallSites++
			c.FuncsAnalysed[shortName(f)] = true
			ver := "aws-v1"
			if root.Pkg.Pkg.Path() == pkgKmsV2 {
				ver = "aws-v2"
			}
			under := "another value"
			if key != nil {
				under = describeOperand(resolve(key))
			}
			c.check(good, ver+" DecryptKey/kek-for-client", u.ipos(i), "the entry of the client's own region", "the regional client is sent the envelope entry looked up under "+under+", not under its own region: every region is asked to open another region's ciphertext — with that region down (or absent from the envelope) no surviving region can unwrap the key")
		})
	}
	if n < 2 {
		c.note("C17.kek-looked-up-for-the-asking-client: %d regional decrypt call(s) resolved", n)
	}
}

// ---------------------------------------------------------------------------------------------
// Round 15 ("a call replaced by its near-synonym")

// ruleC18CreatedIsEpochSeconds: every Created stamp the SDK produces is in seconds since the epoch, as the documented
// formats say: the creation time handed to internal.GenerateKey comes from (time.Time).Unix() — directly or through
// newKeyTimestamp, whose own result is a Unix() — never from UnixMilli / UnixMicro / UnixNano. Nothing in the Go SDK reads
// a data row key's Created, so a record stamped in milliseconds round-trips here and breaks only the other readers.
func ruleC18CreatedIsEpochSeconds(c *Ctx) {
	u := c.U1
	c.rule("C18.created-is-epoch-seconds", "in package appencryption every creation time handed to internal.GenerateKey is the result of (time.Time).Unix() or of newKeyTimestamp, and newKeyTimestamp returns a (time.Time).Unix()", 3)
	var unixSeconds func(v ssa.Value, depth int) (bool, string)
	unixSeconds = func(v ssa.Value, depth int) (bool, string) {
		if p, isP := resolve(v).(*ssa.Parameter); isP && depth < 2 {
			// a parameter of an unexported helper: what every call site passes
			h := p.Parent()
			if h != nil && h.Parent() == nil && h.Object() != nil && !h.Object().Exported() {
				idx := -1
				for k, q := range h.Params {
					if q == p {
						idx = k
					}
				}
				buildCallSiteIndex(h)
				sites := callSiteIndex[orig(h)]
				if idx >= 0 && len(sites) > 0 && !addressTaken[orig(h)] {
					for _, site := range sites {
						if idx >= len(site.Common().Args) {
							return false, describeOperand(p)
						}
						if ok2, got := unixSeconds(site.Common().Args[idx], depth+1); !ok2 {
							return false, got
						}
					}
					return true, "parameter fed with seconds at every call site"
				}
			}
		}
		cv, ok := resolve(v).(*ssa.Call)
		if !ok || staticCallee(cv) == nil {
			return false, describeOperand(resolve(v))
		}
		g := staticCallee(cv)
		fn := funcFullName(g)
		if fn == "(time.Time).Unix" {
			return true, fn
		}
		// a helper of the SDK that returns such a value on every path (nowUnix(), newKeyTimestamp(…))
		if g.Blocks != nil && g.Pkg != nil && strings.HasPrefix(g.Pkg.Pkg.Path(), modApp) && depth < 2 {
			rets := returnsOf(g)
			for _, r := range rets {
				if len(r.Results) != 1 {
					return false, fn
				}
				if ok2, got := unixSeconds(returnedValue(r, 0), depth+1); !ok2 {
					return false, got
				}
			}
			return len(rets) > 0, fn
		}
		return false, fn
	}
	isUnixSeconds := func(v ssa.Value) (bool, string) { return unixSeconds(v, 0) }
	nkt := u.Func(pkgApp, "newKeyTimestamp")
	if nkt == nil || nkt.Blocks == nil {
		c.unresolved("newKeyTimestamp", "appencryption.newKeyTimestamp")
	} else {
		c.FuncsAnalysed[shortName(nkt)] = true
		for _, r := range returnsOf(nkt) {
			c.CallSites++
			ok, got := isUnixSeconds(returnedValue(r, 0))
			c.check(ok, "appencryption.newKeyTimestamp/unit", u.ipos(r), "seconds since the epoch", "newKeyTimestamp returns "+got+" — not seconds since the epoch: every system and intermediate key is stamped in another unit than the documented one (and than the expiry arithmetic, which reads Created as seconds)")
		}
	}
	n := 0
	for _, f := range u.RepoFuncs {
		root := rootFunc(f)
		if root.Pkg == nil || root.Pkg.Pkg.Path() != pkgApp || f.Blocks == nil {
			continue
		}
		allInstrs(f, func(i ssa.Instruction) {
			if !staticIs(i, pkgInt+".GenerateKey") {
				return
			}
			n++
			c.CallSites++
			c.FuncsAnalysed[shortName(f)] = true
			arg := callOf(i).Args[1]
			ok, got := isUnixSeconds(arg)
			if cv, isCall := resolve(arg).(*ssa.Call); isCall && staticCallee(cv) == nkt && nkt != nil {
				ok = true
			}
			c.check(ok, trimPkgDirs(shortName(f))+"/GenerateKey(created)", u.ipos(i), "seconds since the epoch", "the new key's Created is "+got+", not seconds since the epoch: the record written carries a timestamp in another unit than the documented format — the other SDKs reject it or read a date tens of thousands of years away")
		})
	}
	if n == 0 {
		c.unresolved("GenerateKey calls", "no internal.GenerateKey call in package appencryption")
	}
}

// ruleC19ShutdownIsGraceful: on SIGINT / SIGTERM the sidecar stops accepting new streams but lets the open ones finish:
// the only way it stops its gRPC server is GracefulStop. Stop() closes every open stream at once: requests already sent on
// a session stream are never answered.
func ruleC19ShutdownIsGraceful(c *Ctx) {
	u := c.U2
	c.rule("C19.shutdown-is-graceful", "the sidecar calls (*grpc.Server).GracefulStop and never (*grpc.Server).Stop", 1)
	graceful := 0
	for _, f := range u.RepoFuncs {
		root := rootFunc(f)
		if f.Blocks == nil || root.Pkg == nil || !strings.Contains(root.Pkg.Pkg.Path(), "/asherah/server/go") {
			continue
		}
		allInstrs(f, func(i ssa.Instruction) {
			g := staticCallee(i)
			if g == nil {
				return
			}
			switch funcFullName(g) {
			case "(*google.golang.org/grpc.Server).GracefulStop":
				graceful++
				c.CallSites++
				c.FuncsAnalysed[shortName(f)] = true
				c.ok(trimPkgDirs(shortName(f))+"/GracefulStop", u.ipos(i), "open streams are served to their end")
			case "(*google.golang.org/grpc.Server).Stop":
				c.CallSites++
				c.bad(trimPkgDirs(shortName(f))+"/Stop", u.ipos(i), "the server is stopped with Stop(): every open session stream is closed at once — a request the client has already sent is never answered (and its session is torn down mid-operation); GracefulStop lets open streams finish")
			}
		})
	}
	if graceful == 0 {
		c.bad("server/shutdown", "", "no GracefulStop call found: the sidecar has no orderly shutdown (a terminated process drops the requests in flight)")
	}
}

// ruleC04CallersContextReachesTheStore: a function of the SDK that was given a context hands that context (or one derived
// from it) to whatever it calls with a context — never a fresh context.Background() / TODO(). The fall-back read after a
// refused Store is the case in point: Store fails because the caller's context has ended, the SDK takes that for "another
// process was first" and reads the latest key back; under the caller's context that read fails too and the operation
// returns the error; under a fresh context it succeeds and hands back the very key — expired or revoked — that the
// operation was replacing, unvalidated.
func ruleC04CallersContextReachesTheStore(c *Ctx) {
	u := c.U1
	c.rule("C04.callers-context-reaches-the-store", "in package appencryption and pkg/persistence every function that has a context.Context parameter (or captures one) passes no context.Background() / context.TODO() to a callee, and calls no context-less variant (Query / QueryRow / Exec) of a database/sql method", 8)
	isCtx := func(t types.Type) bool { return typeIsNamed(t, "context", "Context") }
	n := 0
	for _, f := range u.RepoFuncs {
		root := rootFunc(f)
		if root.Pkg == nil || f.Blocks == nil {
			continue
		}
		if p := root.Pkg.Pkg.Path(); p != pkgApp && p != pkgPersist {
			continue
		}
		has := false
		for _, p := range root.Params {
			if isCtx(p.Type()) {
				has = true
			}
		}
		if !has {
			continue
		}
		allInstrs(f, func(i ssa.Instruction) {
			cc := callOf(i)
			if cc == nil {
				return
			}
			if g := cc.StaticCallee(); g != nil && g.Pkg != nil && g.Pkg.Pkg.Path() == "database/sql" {
				switch g.Name() {
				case "Query", "QueryRow", "Exec", "Prepare", "Begin":
					n++
					c.CallSites++
					c.bad(trimPkgDirs(shortName(f))+"/sql."+g.Name(), u.ipos(i), "the statement is run without the caller's context ("+g.Name()+" instead of "+g.Name()+"Context): it no longer ends when the caller's context does — after a Store refused by an ended context the fall-back read succeeds and returns the key that was being replaced")
					return
				}
			}
			for _, a := range cc.Args {
				if !isCtx(a.Type()) {
					continue
				}
				n++
				c.CallSites++
				c.FuncsAnalysed[shortName(f)] = true
				fresh := ""
				if cv, ok := resolve(a).(*ssa.Call); ok {
					if g := staticCallee(cv); g != nil && g.Pkg != nil && g.Pkg.Pkg.Path() == "context" && (g.Name() == "Background" || g.Name() == "TODO") {
						fresh = "context." + g.Name() + "()"
					}
				}
				c.check(fresh == "", trimPkgDirs(shortName(f))+"/ctx→"+calleeLabel(i), u.ipos(i), "the caller's context", "a function that was given a context calls "+calleeLabel(i)+" under "+fresh+": the call no longer ends when the caller's context does — after a Store refused by an ended context the fall-back read succeeds and returns the (expired or revoked) key that was being replaced, which is then used for the write")
			}
		})
	}
	if n == 0 {
		c.unresolved("context flow", "no call with a context argument found")
	}
}
