package main

// Obligations, verdicts, evidence and known-findings handling (DESIGN §1.4–§1.6).

import (
	"bufio"
	"crypto/sha1"
	"encoding/hex"
	"encoding/json"
	"fmt"
	"go/token"
	"os"
	"path/filepath"
	"sort"
	"strings"
	"time"
)

type Verdict string

const (
	Discharged   Verdict = "discharged"
	Violation    Verdict = "violation"
	Undecided    Verdict = "undecided"
	Unresolved   Verdict = "unresolved-anchor"
	KnownFinding Verdict = "known-finding"
	BelowFloor   Verdict = "below-floor"
)

// Obligation is one filled rule slot. Key = Rule + "/" + Construct (never a line number).
type Obligation struct {
	Rule      string   `json:"rule"`
	Construct string   `json:"construct"`
	Pos       string   `json:"pos,omitempty"`
	Verdict   Verdict  `json:"verdict"`
	Fact      string   `json:"fact,omitempty"` // discharging fact or what fails
	Path      []string `json:"path,omitempty"` // offending path (positions) for path rules
}

func (o *Obligation) Key() string { return o.Rule + "/" + o.Construct }

// Ctx is the state of one property check.
type Ctx struct {
	Prop  string
	Tier  string
	U1    *Universe
	U2    *Universe
	Obs   []*Obligation
	seen  map[string]int
	Rules map[string]*ruleStat
	// analysed function / call-site counters (for evidence)
	FuncsAnalysed map[string]bool
	CallSites     int
	curRule       string
	Notes         []string
}

type ruleStat struct {
	Rule       string `json:"rule"`
	Instances  int    `json:"instances"`
	Floor      int    `json:"floor"`
	Discharged int    `json:"discharged"`
	Text       string `json:"text"`
}

func newCtx(prop, tier string) *Ctx {
	return &Ctx{Prop: prop, Tier: tier, seen: map[string]int{}, Rules: map[string]*ruleStat{}, FuncsAnalysed: map[string]bool{}}
}

// rule declares the rule being evaluated, with its statement and the instance floor confirmed by hand.
func (c *Ctx) rule(id, text string, floor int) {
	c.curRule = id
	if _, ok := c.Rules[id]; !ok {
		c.Rules[id] = &ruleStat{Rule: id, Floor: floor, Text: text}
	}
}

func (c *Ctx) add(construct, pos string, v Verdict, fact string, path ...string) *Obligation {
	key := c.curRule + "/" + construct
	c.seen[key]++
	if n := c.seen[key]; n > 1 {
		construct = fmt.Sprintf("%s#%d", construct, n)
	}
	o := &Obligation{Rule: c.curRule, Construct: construct, Pos: pos, Verdict: v, Fact: fact, Path: path}
	c.Obs = append(c.Obs, o)
	st := c.Rules[c.curRule]
	st.Instances++
	if v == Discharged {
		st.Discharged++
	}
	return o
}

// ok / bad / undecided are the three ways a rule reports on one instance.
func (c *Ctx) ok(construct, pos, fact string) { c.add(construct, pos, Discharged, fact) }
func (c *Ctx) bad(construct, pos, fact string, path ...string) {
	c.add(construct, pos, Violation, fact, path...)
}
func (c *Ctx) undecided(construct, pos, fact string) { c.add(construct, pos, Undecided, fact) }
func (c *Ctx) unresolved(construct, what string) {
	c.add(construct, "", Unresolved, "anchor not found: "+what)
}

// check reports ok when cond holds, otherwise a violation.
func (c *Ctx) check(cond bool, construct, pos, okFact, badFact string) {
	if cond {
		c.ok(construct, pos, okFact)
	} else {
		c.bad(construct, pos, badFact)
	}
}

func (c *Ctx) note(format string, a ...any) { c.Notes = append(c.Notes, fmt.Sprintf(format, a...)) }

// ---------------------------------------------------------------------------------------------
// known findings

type knownEntry struct {
	Kind      string // "finding" | "fixed"
	Prop      string
	Rule      string
	Construct string
	Text      string
}

func loadKnownFindings() ([]knownEntry, error) {
	f, err := os.Open(filepath.Join(verifRoot(), "known_findings.txt"))
	if err != nil {
		if os.IsNotExist(err) {
			return nil, nil
		}
		return nil, err
	}
	defer f.Close()
	var out []knownEntry
	sc := bufio.NewScanner(f)
	sc.Buffer(make([]byte, 1<<20), 1<<20)
	for sc.Scan() {
		l := strings.TrimSpace(sc.Text())
		if l == "" || strings.HasPrefix(l, "#") {
			continue
		}
		var e knownEntry
		switch {
		case strings.HasPrefix(l, "finding:"):
			e.Kind = "finding"
			l = strings.TrimSpace(strings.TrimPrefix(l, "finding:"))
		case strings.HasPrefix(l, "fixed:"):
			e.Kind = "fixed"
			l = strings.TrimSpace(strings.TrimPrefix(l, "fixed:"))
		default:
			return nil, fmt.Errorf("known_findings.txt: unrecognised line %q", l)
		}
		for _, tok := range strings.Fields(l) {
			switch {
			case strings.HasPrefix(tok, "property="):
				e.Prop = strings.TrimPrefix(tok, "property=")
			case strings.HasPrefix(tok, "rule="):
				e.Rule = strings.TrimPrefix(tok, "rule=")
			case strings.HasPrefix(tok, "construct="):
				e.Construct = strings.TrimPrefix(tok, "construct=")
			}
		}
		e.Text = l
		if e.Kind == "finding" && (e.Rule == "" || e.Construct == "") {
			return nil, fmt.Errorf("known_findings.txt: finding without rule=/construct=: %q", l)
		}
		out = append(out, e)
	}
	return out, sc.Err()
}

// ---------------------------------------------------------------------------------------------
// finishing: floors, known findings, evidence, exit code

type evidence struct {
	PropertyID  string         `json:"property_id"`
	Tier        string         `json:"tier"`
	Seed        int            `json:"seed"`
	Level       string         `json:"level"`
	Coverage    map[string]any `json:"coverage"`
	Assumptions []string       `json:"assumptions"`
	WallS       float64        `json:"wall_s"`
	Violations  int            `json:"violations"`
}

func posString(fset *token.FileSet, p token.Pos) string {
	if !p.IsValid() || fset == nil {
		return ""
	}
	pp := fset.Position(p)
	return fmt.Sprintf("%s:%d", strings.TrimPrefix(pp.Filename, repoRoot+"/"), pp.Line)
}

func (c *Ctx) finish(spec *propSpec, start time.Time, extra map[string]any) int {
	// floors
	var ruleIDs []string
	for id := range c.Rules {
		ruleIDs = append(ruleIDs, id)
	}
	sort.Strings(ruleIDs)
	for _, id := range ruleIDs {
		st := c.Rules[id]
		if st.Instances < st.Floor {
			c.curRule = id
			c.add("instance-count", "", BelowFloor, fmt.Sprintf("rule matched %d instances, fewer than the %d confirmed by hand on the pinned tree (a rule that matches nothing passes vacuously)", st.Instances, st.Floor))
			st.Instances-- // the synthetic obligation is not an instance
		}
	}
	known, kerr := loadKnownFindings()
	if kerr != nil {
		fmt.Println("ERROR:", kerr)
		return 2
	}
	matched := map[int]bool{}
	for _, o := range c.Obs {
		if o.Verdict != Violation {
			continue
		}
		for i, k := range known {
			if k.Kind == "finding" && k.Rule == o.Rule && k.Construct == strings.ReplaceAll(o.Construct, " ", "") {
				o.Verdict = KnownFinding
				matched[i] = true
			}
		}
	}
	// report
	sort.SliceStable(c.Obs, func(i, j int) bool { return c.Obs[i].Key() < c.Obs[j].Key() })
	nviol := 0
	var knownOut []string
	disc := 0
	replayDir := filepath.Join(verifRoot(), "replays")
	for _, o := range c.Obs {
		switch o.Verdict {
		case Discharged:
			disc++
		case KnownFinding:
			line := fmt.Sprintf("KNOWN-FINDING: property=%s %s %s (%s) %s", c.Prop, o.Rule, o.Construct, o.Pos, o.Fact)
			fmt.Println(line)
			knownOut = append(knownOut, line)
		default:
			nviol++
			h := sha1.Sum([]byte(o.Key()))
			name := fmt.Sprintf("%s-%s.json", c.Prop, hex.EncodeToString(h[:6]))
			_ = os.MkdirAll(replayDir, 0o755)
			rp := filepath.Join(replayDir, name)
			b, _ := json.MarshalIndent(map[string]any{"property": c.Prop, "obligation": o, "rule_text": c.Rules[o.Rule].Text,
				"how_to_replay": "asherah-verif explain " + rp}, "", " ")
			_ = os.WriteFile(rp, b, 0o644)
			fmt.Printf("%s: [%s] %s %s — %s\n", o.Pos, o.Verdict, o.Rule, o.Construct, o.Fact)
			for _, p := range o.Path {
				fmt.Printf("    path: %s\n", p)
			}
			fmt.Printf("VIOLATION property=%s replay=%s\n", c.Prop, rp)
		}
	}
	// evidence
	var stats []*ruleStat
	for _, id := range ruleIDs {
		stats = append(stats, c.Rules[id])
	}
	var samples []any
	perRule := map[string]int{}
	for _, o := range c.Obs {
		if perRule[o.Rule] < 3 || o.Verdict != Discharged {
			perRule[o.Rule]++
			samples = append(samples, o)
		}
	}
	var funcs []string
	for f := range c.FuncsAnalysed {
		funcs = append(funcs, f)
	}
	sort.Strings(funcs)
	cov := map[string]any{
		"explanation":        spec.Explanation,
		"obligations":        len(c.Obs),
		"discharged":         disc,
		"known_findings":     knownOut,
		"rules":              stats,
		"samples":            samples,
		"functions_analysed": len(funcs),
		"functions":          funcs,
		"call_sites":         c.CallSites,
		"checker_cmd":        fmt.Sprintf("bin/asherah-verif check %s --tier %s", c.Prop, c.Tier),
		"trusted_base":       []string{"go/types, go/ssa, go/packages (golang.org/x/tools v0.29.0)", goVersion(), "the rule tables in /verif/checker (anchors, exemptions, floors)"},
		"not_decided":        spec.NotDecided,
		"notes":              c.Notes,
	}
	if c.U1 != nil {
		var ps []string
		for _, p := range c.U1.Pkgs {
			ps = append(ps, p.PkgPath)
		}
		cov["packages_U1"] = ps
		if len(c.U1.Renames) > 0 {
			cov["names_normalised_U1"] = c.U1.Renames
		}
	}
	if c.U2 != nil && len(c.U2.Renames) > 0 {
		cov["names_normalised_U2"] = c.U2.Renames
	}
	if c.U2 != nil {
		var ps []string
		for _, p := range c.U2.Pkgs {
			ps = append(ps, p.PkgPath)
		}
		cov["packages_U2"] = ps
	}
	for k, v := range extra {
		cov[k] = v
	}
	seed := 0
	fmt.Sscanf(os.Getenv("VERIF_SEED"), "%d", &seed)
	ev := evidence{PropertyID: c.Prop, Tier: c.Tier, Seed: seed, Level: "other", Coverage: cov,
		Assumptions: spec.Assumptions, WallS: time.Since(start).Seconds(), Violations: nviol}
	b, _ := json.MarshalIndent(ev, "", " ")
	evDir := filepath.Join(verifRoot(), "evidence")
	_ = os.MkdirAll(evDir, 0o755)
	if err := os.WriteFile(filepath.Join(evDir, c.Prop+".json"), b, 0o644); err != nil {
		fmt.Println("ERROR writing evidence:", err)
		return 2
	}
	for _, u := range []*Universe{c.U1, c.U2} {
		if u != nil {
			for _, n := range u.Renames {
				fmt.Printf("NOTE: %s names: %s\n", c.Prop, n)
			}
		}
	}
	fmt.Printf("%s %s: %d obligations, %d discharged, %d known findings, %d failing; %d rules; %.1fs\n",
		c.Prop, c.Tier, len(c.Obs), disc, len(knownOut), nviol, len(ruleIDs), time.Since(start).Seconds())
	if nviol > 0 {
		return 1
	}
	return 0
}
