package main

// C15 — list-structure rules of the eviction policies (added after the systematic mutation sweep, DESIGN §6.5):
// the policies keep every cached item on exactly one container/list, with item.parent (or an index map) naming the
// item's current element. The rules below are the per-method preservation conditions of that invariant.

import (
	"fmt"
	"go/constant"
	"go/token"
	"go/types"
	"strings"

	"golang.org/x/tools/go/ssa"
)

// policyImpls: named (generic) types of pkg/cache that implement the policy interface by method names.
func policyImpls(u *Universe) []*types.Named {
	p := u.ByPath[pkgCache]
	pol := u.Iface(pkgCache, "policy")
	if p == nil || pol == nil {
		return nil
	}
	var out []*types.Named
	sc := p.Types.Scope()
	for _, nm := range sc.Names() {
		tn, ok := sc.Lookup(nm).(*types.TypeName)
		if !ok {
			continue
		}
		nt, ok := tn.Type().(*types.Named)
		if !ok || !implementsByName(nt, pol) {
			continue
		}
		if _, isI := nt.Underlying().(*types.Interface); isI {
			continue
		}
		out = append(out, nt)
	}
	return out
}

// declMethods: the declared methods (generic origins) of nt, by name.
func declMethods(u *Universe, nt *types.Named) map[string]*ssa.Function {
	out := map[string]*ssa.Function{}
	for k := 0; k < nt.NumMethods(); k++ {
		if f := u.Prog.FuncValue(nt.Method(k)); f != nil && f.Blocks != nil {
			out[nt.Method(k).Name()] = f
		}
	}
	return out
}

func listCallName(i ssa.Instruction) string {
	if _, ok := i.(*ssa.Call); !ok {
		return ""
	}
	g := staticCallee(i)
	if g == nil {
		return ""
	}
	n := funcFullName(g)
	if strings.HasPrefix(n, "(*container/list.List).") {
		return strings.TrimPrefix(n, "(*container/list.List).")
	}
	return ""
}

func isListPush(i ssa.Instruction) bool {
	switch listCallName(i) {
	case "PushFront", "PushBack", "InsertAfter", "InsertBefore":
		return true
	}
	return false
}

func isListMutation(i ssa.Instruction) bool {
	switch listCallName(i) {
	case "PushFront", "PushBack", "InsertAfter", "InsertBefore", "Remove", "MoveToFront", "MoveToBack", "MoveBefore", "MoveAfter", "Init":
		return true
	}
	return false
}

// unwrapIface: the concrete value boxed into an interface (make any <- T (v)).
func unwrapIface(v ssa.Value) ssa.Value {
	for {
		switch x := v.(type) {
		case *ssa.MakeInterface:
			v = x.X
		case *ssa.ChangeInterface:
			v = x.X
		default:
			return v
		}
	}
}

// elemValueSource: v is `e.Value.(T)` for a list element e: returns e.
func elemValueSource(v ssa.Value) ssa.Value {
	ta, ok := v.(*ssa.TypeAssert)
	if !ok {
		// a helper's parameter that every call site feeds with <other argument>.parent.Value.(T): the element is the
		// helper's own view of that other parameter's parent
		if p, isP := v.(*ssa.Parameter); isP {
			return elemOfParam(p)
		}
		return nil
	}
	ld, ok := ta.X.(*ssa.UnOp)
	if !ok || ld.Op != token.MUL {
		return nil
	}
	fa, ok := ld.X.(*ssa.FieldAddr)
	if !ok || fieldName(fa.X.Type(), fa.Field) != "Value" {
		return nil
	}
	return fa.X
}

// elemOfParam: p is a parameter of an unexported pkg/cache helper h, and at every call site of h the argument for p is
// e.Value.(T) with e = <argument k>.parent for one and the same k: returns a load of <parameter k>.parent found in h.
func elemOfParam(p *ssa.Parameter) ssa.Value {
	h := p.Parent()
	if h == nil || h.Parent() != nil || h.Object() == nil || h.Object().Exported() {
		return nil
	}
	idx := -1
	for k, q := range h.Params {
		if q == p {
			idx = k
		}
	}
	buildCallSiteIndex(h)
	sites := callSiteIndex[orig(h)]
	if idx < 0 || len(sites) == 0 || addressTaken[orig(h)] {
		return nil
	}
	owner := -1
	for _, site := range sites {
		args := site.Common().Args
		if idx >= len(args) {
			return nil
		}
		ta, ok := args[idx].(*ssa.TypeAssert) // (resolve would look through the assertion)
		if !ok {
			return nil
		}
		e := elemValueSource(ta)
		if e == nil {
			return nil
		}
		it := parentLoadOf(resolve(e))
		if it == nil {
			return nil
		}
		k := -1
		for j, a := range args {
			if j != idx && (resolve(a) == resolve(it) || sameValueOrPath(a, it)) {
				k = j
			}
		}
		if k < 0 || (owner >= 0 && owner != k) {
			return nil
		}
		owner = k
	}
	if owner < 0 || owner >= len(h.Params) {
		return nil
	}
	var found ssa.Value
	allInstrs(h, func(j ssa.Instruction) {
		if ld, ok := j.(*ssa.UnOp); ok && found == nil {
			if it := parentLoadOf(ld); it != nil && resolve(it) == ssa.Value(h.Params[owner]) {
				found = ld
			}
		}
	})
	return found
}

// isParentLoadOf: v is a load of <item>.parent; returns the item value.
func parentLoadOf(v ssa.Value) ssa.Value {
	ld, ok := v.(*ssa.UnOp)
	if !ok || ld.Op != token.MUL {
		return nil
	}
	fa, ok := ld.X.(*ssa.FieldAddr)
	if !ok || fieldName(fa.X.Type(), fa.Field) != "parent" {
		return nil
	}
	return fa.X
}

func sameValueOrPath(a, b ssa.Value) bool {
	if a == b {
		return true
	}
	pa, pb := accessPath(a), accessPath(b)
	return pa == pb && !strings.HasPrefix(pa, "V:") && !strings.HasPrefix(pa, "X:")
}

// unlinksItem: instruction i removes the list element that currently holds `item` (an SSA value of the enclosing
// function): list.Remove(item.parent) / list.Remove(m[item]); another policy's Remove(item); a same-package helper that
// receives the item and unlinks it on every path.
func unlinksItem(i ssa.Instruction, item ssa.Value, depth int) bool {
	if _, ok := i.(*ssa.Call); !ok {
		return false
	}
	cc := callOf(i)
	if listCallName(i) == "Remove" {
		e := cc.Args[1]
		if it := parentLoadOf(e); it != nil && sameValueOrPath(it, item) {
			return true
		}
		if lk, ok := e.(*ssa.Lookup); ok && sameValueOrPath(lk.Index, item) {
			return true
		}
		return false
	}
	args := callArgs(cc)
	for k, a := range args {
		if !sameValueOrPath(a, item) {
			continue
		}
		if cc.IsInvoke() {
			return cc.Method.Name() == "Remove" && typeIsNamed(cc.Value.Type(), pkgCache, "policy")
		}
		h := staticCallee(i)
		if h == nil || h.Blocks == nil || h.Pkg == nil || h.Pkg.Pkg.Path() != pkgCache || depth > 4 {
			return false
		}
		if h.Name() == "Remove" && h.Signature.Recv() != nil {
			return true // another policy's Remove (checked by this same rule)
		}
		if k < len(h.Params) {
			ok, _ := mustPass(h.Blocks[0], 0, func(j ssa.Instruction) bool { return unlinksItem(j, h.Params[k], depth+1) }, nil)
			return ok
		}
	}
	return false
}

func ruleC15RemoveUnlinks(c *Ctx) {
	u := c.U1
	c.rule("C15.remove-unlinks", "for every eviction policy implementation, Remove(item) unlinks the item's current list element on every path (list.Remove(item.parent) / list.Remove(index[item]), a delegate policy's Remove(item), or a helper that does): a removed entry can never be chosen as a victim again", 4)
	n := 0
	for _, nt := range policyImpls(u) {
		rm := declMethods(u, nt)["Remove"]
		name := "cache." + nt.Obj().Name()
		if rm == nil || len(rm.Params) < 2 {
			c.unresolved(name+".Remove", "method")
			continue
		}
		n++
		c.FuncsAnalysed[shortName(rm)] = true
		ok, tr := mustPass(rm.Blocks[0], 0, func(i ssa.Instruction) bool { return unlinksItem(i, rm.Params[1], 0) }, nil)
		if ok {
			c.ok(name+".Remove/unlinks", u.pos(rm.Pos()), "the item's element is unlinked on every path")
		} else {
			c.bad(name+".Remove/unlinks", u.pos(rm.Pos()), "Remove has a path that leaves the item's element on its list: the cache forgets the entry but the policy keeps offering it as a victim (an entry is notified twice, or an eviction evicts nothing and the cache outgrows its capacity)", u.tracePositions(tr)...)
		}
	}
	if n < 4 {
		c.bad("cache/policies", "", fmt.Sprintf("expected at least 4 policy implementations, found %d", n))
	}
}

// policyFuncs: all methods (and their helpers) of the policy implementations.
func policyFuncs(u *Universe) []*ssa.Function {
	var out []*ssa.Function
	for _, nt := range policyImpls(u) {
		for _, f := range declMethods(u, nt) {
			out = append(out, f)
		}
	}
	sortFuncs(out)
	return out
}

func sortFuncs(fs []*ssa.Function) {
	for i := 1; i < len(fs); i++ {
		for j := i; j > 0 && fs[j-1].String() > fs[j].String(); j-- {
			fs[j-1], fs[j] = fs[j], fs[j-1]
		}
	}
}

// pushSite: a list push judged where the pushed value is known. A push inside an unexported policy helper that pushes its
// own parameter (pushProbation(sitem)) is judged at each call of the helper, with the argument as the pushed value.
type pushSite struct {
	at   ssa.Instruction // the push itself, or the helper call standing for it
	fn   *ssa.Function   // the function `at` sits in
	v    ssa.Value       // the pushed value in fn's frame (interface wrapper removed)
	push ssa.Instruction // the list push
	alts []pushSite      // where the push can be judged instead when it cannot be judged in the helper: the helper's call sites
}

func policyPushSites(u *Universe) []pushSite {
	var out []pushSite
	for _, f := range policyFuncs(u) {
		f := f
		allInstrs(f, func(i ssa.Instruction) {
			if !isListPush(i) {
				return
			}
			v := unwrapIface(callOf(i).Args[1])
			if p, isP := v.(*ssa.Parameter); isP && f.Parent() == nil && f.Object() != nil && !f.Object().Exported() {
				switch f.Name() {
				case "Admit", "Access", "Remove", "Victim", "Init", "Close":
				default:
					idx := -1
					for k, q := range f.Params {
						if q == p {
							idx = k
						}
					}
					buildCallSiteIndex(f)
					sites := callSiteIndex[orig(f)]
					if idx >= 0 && len(sites) > 0 && !addressTaken[orig(f)] {
						own := pushSite{at: i, fn: f, v: v, push: i}
						for _, site := range sites {
							if _, isCall := site.(*ssa.Call); !isCall || idx >= len(site.Common().Args) {
								out = append(out, pushSite{at: i, fn: f, v: v, push: i})
								return
							}
						}
						for _, site := range sites {
							own.alts = append(own.alts, pushSite{at: site, fn: site.Parent(), v: unwrapIface(site.Common().Args[idx]), push: i})
						}
						out = append(out, own)
						return
					}
				}
			}
			out = append(out, pushSite{at: i, fn: f, v: v, push: i})
		})
	}
	return out
}

func isFreshAlloc(v ssa.Value) bool {
	switch x := v.(type) {
	case *ssa.Alloc:
		return x.Heap
	}
	return false
}

func ruleC15RelinkIsAMove(c *Ctx) {
	u := c.U1
	c.rule("C15.relink-is-a-move", "in every policy method each list push of a value that is already on a list (not a fresh wrapper, not the item being admitted) travels with the unlink of the element that held it: before the push on every path, or after it on every path except where the item had no element (item.parent == nil)", 3)
	n := 0
	for _, ps := range policyPushSites(u) {
		ps := ps
		// eval judges the push at one site; applies=false: nothing to show there (fresh wrapper, first admission)
		eval := func(f *ssa.Function, i ssa.Instruction, v ssa.Value) (good, applies bool, name string) {
			name = trimPkgDirs(shortName(f)) + "/" + listCallName(ps.push) + "(" + describePushed(v) + ")"
			if isFreshAlloc(v) {
				return true, false, name
			}
			if f.Name() == "Admit" && len(f.Params) > 1 && v == ssa.Value(f.Params[1]) {
				return true, false, name // first admission of a new item
			}
			c.FuncsAnalysed[shortName(f)] = true
			// which element held v, or which item is v
			held := elemValueSource(v) // v = e.Value.(T)
			isUnlink := func(j ssa.Instruction) bool {
				if listCallName(j) == "Remove" && held != nil && sameValueOrPath(callOf(j).Args[1], held) {
					return true
				}
				return unlinksItem(j, v, 0)
			}
			// (a) every path from entry to the push passes the unlink
			before := true
			found, _ := pathSearchAt(f.Blocks[0], 0, func(j ssa.Instruction) pathAction {
				if isUnlink(j) {
					return pathStop
				}
				if j == i {
					return pathFound
				}
				return pathContinue
			}, nil)
			before = !found
			// (b) every path from the push to exit passes the unlink, except across an edge where <v>.parent (read
			// before the push) is known nil
			after := false
			if !before {
				after, _ = mustPass(i.Block(), indexOf(i)+1, isUnlink, func(from, to *ssa.BasicBlock) bool {
					for _, fct := range edgeFacts(from, to) {
						if x, isNil, ok := nilTest(fct); ok && isNil {
							if it := parentLoadOf(x); it != nil && sameValueOrPath(it, v) {
								return true
							}
						}
					}
					return false
				})
			}
			return before || after, true, name
		}
		report := func(good bool, name string, at ssa.Instruction) {
			n++
			c.check(good, name, u.ipos(at), "the previous element of the value is unlinked on the same paths", "a value that already sits on a list is pushed again without its previous element being removed: the stale element stays on the list and is later offered as a victim for an entry the cache no longer holds")
		}
		good, applies, name := eval(ps.fn, ps.at, ps.v)
		switch {
		case !applies:
		case good || len(ps.alts) == 0:
			report(good, name, ps.at)
		default:
			// a helper that only pushes what it is handed: the unlink is the callers' to do, at every call
			for _, alt := range ps.alts {
				if g2, a2, n2 := eval(alt.fn, alt.at, alt.v); a2 {
					report(g2, n2, alt.at)
				}
			}
		}
	}
	if n < 3 {
		c.bad("cache/relinks", "", fmt.Sprintf("expected at least 3 relinking pushes (slru promotion, slru demotion, lfu frequency move), found %d", n))
	}
}

func describePushed(v ssa.Value) string {
	if e := elemValueSource(v); e != nil {
		return strings.TrimPrefix(accessPath(e), "P:") + ".Value"
	}
	return strings.TrimPrefix(accessPath(v), "P:")
}

// flowsTo: value e reaches v through phis.
func flowsTo(e, v ssa.Value, depth int) bool {
	if e == v {
		return true
	}
	if depth > 6 {
		return false
	}
	if phi, ok := v.(*ssa.Phi); ok {
		for _, x := range phi.Edges {
			if flowsTo(e, x, depth+1) {
				return true
			}
		}
	}
	return false
}

func ruleC15ElementRecorded(c *Ctx) {
	u := c.U1
	c.rule("C15.element-recorded", "in every policy method the element returned by a list push is recorded (stored into an item's parent field or an index map) on every path, before any other list mutation or parent store can intervene", 6)
	n := 0
	for _, f := range policyFuncs(u) {
		allInstrs(f, func(i ssa.Instruction) {
			if !isListPush(i) && !isPushHelperCall(i) {
				return
			}
			e, ok := i.(ssa.Value)
			if !ok {
				return
			}
			n++
			name := trimPkgDirs(shortName(f)) + "/" + trimPkgDirs(calleeLabel(i))
			if isListPush(i) {
				name = trimPkgDirs(shortName(f)) + "/" + listCallName(i) + "(" + describePushed(unwrapIface(callOf(i).Args[1])) + ")"
			}
			isRecord := func(j ssa.Instruction) bool {
				switch x := j.(type) {
				case *ssa.Store:
					if fa, isF := x.Addr.(*ssa.FieldAddr); isF && fieldName(fa.X.Type(), fa.Field) == "parent" && flowsTo(e, x.Val, 0) {
						return true
					}
				case *ssa.MapUpdate:
					return flowsTo(e, x.Value, 0)
				}
				return false
			}
			// a helper that hands the new element back to its caller: the caller's use of the call is checked instead
			if returnsValue(f, e) {
				c.ok(name, u.ipos(i), "returned to the caller (checked at the call sites)")
				return
			}
			recorded, tr := mustPass(i.Block(), indexOf(i)+1, isRecord, nil)
			if !recorded {
				c.bad(name, u.ipos(i), "the element returned by the push is not recorded for its item on every path: the item's parent keeps naming its old (removed) element", u.tracePositions(tr)...)
				return
			}
			// nothing intervenes between the push and the record
			var culprit ssa.Instruction
			found, _ := pathSearchAt(i.Block(), indexOf(i)+1, func(j ssa.Instruction) pathAction {
				if isRecord(j) {
					return pathStop
				}
				if isListMutation(j) {
					culprit = j
					return pathFound
				}
				if st, isS := j.(*ssa.Store); isS {
					if fa, isF := st.Addr.(*ssa.FieldAddr); isF && fieldName(fa.X.Type(), fa.Field) == "parent" {
						culprit = j
						return pathFound
					}
				}
				return pathContinue
			}, nil)
			if found {
				c.bad(name, u.ipos(i), "another list mutation / parent store ("+u.ipos(culprit)+") can run between the push and the store that records its element: when both concern the same item the later store overwrites the newer element with a stale one")
			} else {
				c.ok(name, u.ipos(i), "recorded before any other list mutation")
			}
		})
	}
	if n < 6 {
		c.bad("cache/pushes", "", fmt.Sprintf("expected at least 6 list pushes in the policies, found %d", n))
	}
}

func ruleC15SegmentMoveConserves(c *Ctx) {
	u := c.U1
	c.rule("C15.segment-move-conserves", "in tinyLFU (outside Remove) every item taken off a segment with <segment>.Remove(x) is admitted to a segment again (admitTo(x, …) / Admit(x)) on every path to return: no cached entry is left on no list", 1)
	var tl *types.Named
	for _, nt := range policyImpls(u) {
		if nt.Obj().Name() == "tinyLFU" {
			tl = nt
		}
	}
	if tl == nil {
		c.unresolved("tinyLFU", "type")
		return
	}
	n := 0
	ms := declMethods(u, tl)
	var names []string
	for k := range ms {
		names = append(names, k)
	}
	sortStrings(names)
	for _, mn := range names {
		f := ms[mn]
		if mn == "Remove" {
			continue
		}
		allInstrs(f, func(i ssa.Instruction) {
			g := staticCallee(i)
			if _, isCall := i.(*ssa.Call); !isCall || g == nil || g.Name() != "Remove" || g.Signature.Recv() == nil || g.Pkg == nil || g.Pkg.Pkg.Path() != pkgCache {
				return
			}
			args := callArgs(callOf(i))
			if len(args) < 2 {
				return
			}
			x := args[1]
			n++
			ok, tr := mustPass(i.Block(), indexOf(i)+1, func(j ssa.Instruction) bool {
				if _, isCall := j.(*ssa.Call); !isCall {
					return false
				}
				h := staticCallee(j)
				cc := callOf(j)
				if h != nil && (h.Name() == "admitTo" || h.Name() == "Admit") {
					a := callArgs(cc)
					return len(a) > 1 && sameValueOrPath(a[1], x)
				}
				if cc.IsInvoke() && cc.Method.Name() == "Admit" && len(cc.Args) > 0 {
					return sameValueOrPath(cc.Args[0], x)
				}
				return false
			}, nil)
			c.check(ok, "cache.tinyLFU."+mn+"/"+strings.TrimPrefix(trimPkgDirs(calleeLabel(i.(*ssa.Call))), "cache.")+"("+strings.TrimPrefix(accessPath(x), "V:")+")", u.ipos(i), "re-admitted on every path", "an item is removed from one segment and not admitted to another on some path: it stays in the cache map but on no eviction list, so it can never be evicted (and Victim eventually returns nil with size > 0)"+traceSuffix(u, tr))
		})
	}
	if n < 1 {
		c.bad("tinyLFU/moves", "", fmt.Sprintf("expected at least 1 segment move in tinyLFU (window → main promotion), found %d", n))
	}
}

func traceSuffix(u *Universe, tr []ssa.Instruction) string {
	if len(tr) == 0 {
		return ""
	}
	return " (e.g. via " + strings.Join(u.tracePositions(tr), " → ") + ")"
}

func sortStrings(s []string) {
	for i := 1; i < len(s); i++ {
		for j := i; j > 0 && s[j-1] > s[j]; j-- {
			s[j-1], s[j] = s[j], s[j-1]
		}
	}
}

// ruleC15RemovalNotifies: entries leave byKey only through evictItem (which notifies) or through the explicit Delete.
func ruleC15RemovalNotifies(c *Ctx) {
	u := c.U1
	c.rule("C15.removal-notifies", "entries are deleted from cache.byKey only in evictItem (the single notifying removal, used for eviction, expiry and Close) and in the explicit Delete; byKey is dropped wholesale only in Close after the drain loop", 2)
	n := 0
	for _, f := range u.RepoFuncs {
		if f.Signature.Recv() == nil || !typeIsNamed(f.Signature.Recv().Type(), pkgCache, "cache") {
			continue
		}
		o := collectCacheOps(f)
		for _, d := range o.del {
			n++
			ok := removalOwner(u, f, 0)
			c.check(ok, trimPkgDirs(shortName(f))+"/delete(byKey)", u.ipos(d), "removal in "+f.Name(), "an entry is removed from the map outside evictItem/Delete: it leaves the cache (expiry, replacement, …) without its eviction notification, so whatever the callback releases for it is leaked")
		}
		allInstrs(f, func(i ssa.Instruction) {
			st, ok := i.(*ssa.Store)
			if !ok {
				return
			}
			if _, fld, isF := fieldAccess(st.Addr); isF && fld == "byKey" && rootFunc(f).Name() != "Build" {
				n++
				okc := f.Name() == "Close" && afterDrain(i)
				c.check(okc, trimPkgDirs(shortName(f))+"/byKey=", u.ipos(i), "map dropped only in Close after the drain loop", "the whole map is replaced/dropped outside Close's drained state: the entries in it are never notified")
			}
		})
	}
	if n < 2 {
		c.bad("cache/removals", "", fmt.Sprintf("expected at least 2 removal sites (an entry removal and Close's map drop), found %d", n))
	}
}

// ruleC15VictimNonNil: Victim() returns nil when the policy's lists are empty; every use that dereferences the result
// must therefore be protected by a nil test or sit where emptiness is excluded.
func ruleC15VictimNonNil(c *Ctx) {
	u := c.U1
	c.rule("C15.victim-nonnil", "every Victim() result that is dereferenced or handed to a function (evictItem, Remove, admitTo) is protected: a dominating nil test of the result, a dominating `size > 0` (at the site or at every call site of the enclosing helper), or — for a tinyLFU segment — `!(seg.len() < seg.cap)` together with seg.cap != 0 (capacities assumed non-negative)", 3)
	n := 0
	nonEmpty := func(b *ssa.BasicBlock, seg string) bool {
		facts := factsAt(b)
		var capPath string
		full, capNZ := false, false
		for _, fct := range facts {
			if sizePositive(fct.V) && fct.True {
				return true
			}
			if bo, ok := fct.V.(*ssa.BinOp); ok && (bo.Op == token.LSS && !fct.True || bo.Op == token.GEQ && fct.True) && seg != "" {
				// !(seg.len() < seg.cap)
				if cv, isC := strip(bo.X).(*ssa.Call); isC {
					if g := staticCallee(cv); g != nil && g.Name() == "len" && len(cv.Call.Args) > 0 && trimAddr(fct.pathOf(cv.Call.Args[0])) == seg {
						if p := trimAddr(fct.pathOf(bo.Y)); p == seg+".cap" {
							full, capPath = true, p
						}
					}
				}
			}
		}
		for _, fct := range facts {
			if bo, ok := fct.V.(*ssa.BinOp); ok && capPath != "" {
				if k, isC := constOf(bo.Y); isC && k.ExactString() == "0" && trimAddr(fct.pathOf(bo.X)) == capPath {
					if bo.Op == token.EQL && !fct.True || bo.Op == token.NEQ && fct.True || bo.Op == token.GTR && fct.True {
						capNZ = true
					}
				}
			}
		}
		return full && capNZ
	}
	for _, f := range u.RepoFuncs {
		if f.Pkg == nil || f.Pkg.Pkg.Path() != pkgCache || f.Blocks == nil {
			continue
		}
		allInstrs(f, func(i ssa.Instruction) {
			cv, ok := i.(*ssa.Call)
			if !ok {
				return
			}
			isVictim := false
			seg := ""
			if cv.Call.IsInvoke() {
				isVictim = cv.Call.Method.Name() == "Victim" && typeIsNamed(cv.Call.Value.Type(), pkgCache, "policy")
			} else if g := staticCallee(cv); g != nil && g.Name() == "Victim" && g.Signature.Recv() != nil && g.Pkg != nil && g.Pkg.Pkg.Path() == pkgCache {
				isVictim = true
				seg = trimAddr(accessPath(cv.Call.Args[0]))
			}
			if !isVictim || cv.Referrers() == nil {
				return
			}
			for _, r := range *cv.Referrers() {
				use := ""
				switch x := r.(type) {
				case *ssa.FieldAddr:
					use = "field access"
				case *ssa.Call:
					if x.Call.Value != ssa.Value(cv) {
						use = "argument of " + trimPkgDirs(calleeLabel(x))
					}
				}
				if use == "" {
					continue
				}
				n++
				c.FuncsAnalysed[shortName(f)] = true
				b := r.Block()
				construct := trimPkgDirs(shortName(f)) + "/Victim()→" + strings.ReplaceAll(use, " ", "-")
				if knownNonNilValue(cv, b) || nonEmpty(b, seg) {
					c.ok(construct, u.ipos(r), "protected by a nil test / non-emptiness condition")
					continue
				}
				// unexported helper: emptiness may be excluded at every call site instead
				var sites []ssa.Instruction
				if f.Object() != nil && !f.Object().Exported() {
					for _, g := range u.RepoFuncs {
						allInstrs(g, func(j ssa.Instruction) {
							if _, isCall := j.(*ssa.Call); isCall && staticCallee(j) == f {
								sites = append(sites, j)
							}
						})
					}
				}
				if len(sites) == 0 {
					c.bad(construct, u.ipos(r), "the victim is used ("+use+") without a nil test and without a condition that excludes an empty policy: when nothing is evictable (e.g. capacity 0, or every item moved off the lists) this dereferences nil and panics")
					continue
				}
				for _, s := range sites {
					cons := trimPkgDirs(shortName(s.Parent())) + "/" + f.Name() + "()"
					if nonEmpty(s.Block(), "") {
						c.ok(cons, u.ipos(s), "called only where size > 0")
					} else {
						c.bad(cons, u.ipos(s), f.Name()+"() dereferences policy.Victim() unconditionally ("+u.ipos(r)+") and this call site does not establish size > 0: with nothing to evict (capacity 0: size == Capacity() holds for the empty cache) Victim() returns nil and the process panics")
					}
				}
			}
		})
	}
	if n < 3 {
		c.bad("cache/victim-uses", "", fmt.Sprintf("expected at least 3 dereferencing uses of Victim() results, found %d", n))
	}
}

func knownNonNilValue(v ssa.Value, b *ssa.BasicBlock) bool {
	for _, f := range factsAt(b) {
		if f.Sub != nil {
			continue
		}
		if x, isNil, ok := nilTest(f); ok && !isNil && x == v {
			return true
		}
	}
	return false
}

// ruleC15SetStoresValue: Set really stores what it is given, on the update path as well as on the insert path.
func ruleC15SetStoresValue(c *Ctx) {
	u := c.U1
	c.rule("C15.set-stores-value", "cache.Set: on the path where the key already exists the item's value is overwritten with the value argument on every path to return (no condition such as an expiry setting may skip it); on the insert path the new item is built from the key and value arguments", 2)
	f := u.Method(pkgCache, "cache", "Set")
	if f == nil || len(f.Params) < 3 {
		c.unresolved("cache.Set", "(*cache[K,V]).Set")
		return
	}
	c.FuncsAnalysed[shortName(f)] = true
	keyP, valP := ssa.Value(f.Params[1]), ssa.Value(f.Params[2])
	isValueStore := func(i ssa.Instruction) bool {
		st, ok := i.(*ssa.Store)
		if !ok {
			return false
		}
		fa, isF := st.Addr.(*ssa.FieldAddr)
		return isF && fieldName(fa.X.Type(), fa.Field) == "value" && st.Val == valP
	}
	// update path: found edge of the byKey lookup
	checked := false
	for _, b := range f.Blocks {
		for _, s := range b.Succs {
			for _, fct := range edgeFacts(b, s) {
				ex, ok := fct.V.(*ssa.Extract)
				if !ok || ex.Index != 1 || !fct.True {
					continue
				}
				lk, isL := ex.Tuple.(*ssa.Lookup)
				if !isL || !strings.HasSuffix(accessPath(lk.X), ".byKey") {
					continue
				}
				checked = true
				ok2, tr := mustPass(s, 0, isValueStore, nil)
				if ok2 {
					c.ok("cache.Set/update-stores-value", u.ipos(lk), "item.value = value on every path of the update branch")
				} else {
					c.bad("cache.Set/update-stores-value", u.ipos(lk), "Set on an existing key has a path that does not overwrite the item's value: the cache keeps returning the old value (a refreshed key-cache entry — new loadedAt, new revoked state — is silently dropped, so the entry stays stale and every later use reloads from the metastore/KMS)", u.tracePositions(tr)...)
				}
			}
		}
	}
	if !checked {
		c.bad("cache.Set/update-stores-value", u.pos(f.Pos()), "no `item, ok := c.byKey[key]` update branch found in Set")
	}
	// insert path: the literal stored into byKey carries key and value
	okIns := false
	allInstrs(f, func(i ssa.Instruction) {
		mu, ok := i.(*ssa.MapUpdate)
		if !ok || !strings.HasSuffix(accessPath(mu.Map), ".byKey") {
			return
		}
		if a := allocOf(mu.Value); a != nil {
			fl := litFields(a)
			okIns = fl["key"] == keyP && fl["value"] == valP && mu.Key == keyP
		}
	})
	c.check(okIns, "cache.Set/insert-carries-value", u.pos(f.Pos()), "byKey[key] = &cacheItem{key: key, value: value}", "the item inserted by Set is not built from Set's key and value arguments")
}

// ruleC15ExpiryEvicts: an entry found expired by Get leaves the cache through evictItem (and so is notified) before Get
// reports the miss; otherwise the caller's next Set silently overwrites the still-present item's value and the old
// value is never notified.
func ruleC15ExpiryEvicts(c *Ctx) {
	u := c.U1
	c.rule("C15.expiry-evicts", "cache.Get: on the edge where the looked-up item is found expired (item.expiration.Before(now)), every path to return passes evictItem(item); the value of an expired item is never returned", 1)
	f := u.Method(pkgCache, "cache", "Get")
	if f == nil {
		c.unresolved("cache.Get", "(*cache[K,V]).Get")
		return
	}
	c.FuncsAnalysed[shortName(f)] = true
	var isExpiredTest func(v ssa.Value) bool
	isExpiredTest = func(v ssa.Value) bool {
		cv, ok := strip(v).(*ssa.Call)
		if !ok {
			return false
		}
		if staticIs(cv, "(time.Time).Before") {
			return strings.HasSuffix(accessPath(cv.Call.Args[0]), ".expiration")
		}
		// a predicate helper of the package whose verdict is such a test
		if h := staticCallee(cv); h != nil && h.Blocks != nil && h.Pkg != nil && h.Pkg.Pkg.Path() == pkgCache && h.Signature.Results().Len() == 1 && h.Signature.Results().At(0).Type().String() == "bool" {
			hit := false
			allInstrs(h, func(j ssa.Instruction) {
				if c2, isC := j.(*ssa.Call); isC && staticIs(c2, "(time.Time).Before") && strings.HasSuffix(accessPath(c2.Call.Args[0]), ".expiration") {
					hit = true
				}
			})
			return hit
		}
		return false
	}
	n := 0
	for _, b := range f.Blocks {
		for _, s := range b.Succs {
			for _, fct := range edgeFacts(b, s) {
				if !isExpiredTest(fct.V) || !fct.True {
					continue
				}
				n++
				ok, tr := mustPass(s, 0, func(i ssa.Instruction) bool {
					g := staticCallee(i)
					_, isCall := i.(*ssa.Call)
					return isCall && g != nil && g.Name() == "evictItem"
				}, nil)
				if ok {
					c.ok("cache.Get/expired-edge", u.pos(f.Pos()), "expired ⇒ evictItem(item) before returning the miss")
				} else {
					c.bad("cache.Get/expired-edge", u.pos(f.Pos()), "an expired entry is reported as a miss but stays in the cache un-notified: the caller's following Set takes the update path and overwrites its value, so the old value (an expired cached session) is never handed to the eviction callback and is never torn down", u.tracePositions(tr)...)
				}
			}
		}
	}
	if n == 0 {
		c.bad("cache.Get/expired-edge", u.pos(f.Pos()), "Get no longer tests item.expiration: expired entries are served forever")
	}
}

// returnsValue: every return of f that returns an element returns e (possibly through phis) on the paths through e.
func returnsValue(f *ssa.Function, e ssa.Value) bool {
	found := false
	for _, r := range returnsOf(f) {
		for k := range r.Results {
			if flowsTo(e, returnedValue(r, k), 0) {
				found = true
			}
		}
	}
	return found
}

// isPushHelperCall: a call of a pkg/cache helper whose result is a list element produced by a push inside it.
func isPushHelperCall(i ssa.Instruction) bool {
	cv, ok := i.(*ssa.Call)
	if !ok {
		return false
	}
	h := staticCallee(cv)
	if h == nil || h.Blocks == nil || h.Pkg == nil || h.Pkg.Pkg.Path() != pkgCache {
		return false
	}
	if !strings.HasSuffix(cv.Type().String(), "container/list.Element") {
		return false
	}
	is := false
	allInstrs(h, func(j ssa.Instruction) {
		if isListPush(j) {
			if v, isV := j.(ssa.Value); isV && returnsValue(h, v) {
				is = true
			}
		}
	})
	return is
}

// ruleC15LFUBucket: the frequency bucket an item is filed into carries exactly the item's new use count, and that count
// is 1 for a new item and old+1 otherwise. This is the per-operation invariant behind "LFU evicts the least frequently
// used entry": an item filed into a bucket of another frequency is ranked as if it had been used that often.
func ruleC15LFUBucket(c *Ctx) {
	u := c.U1
	c.rule("C15.lfu-bucket-matches-count", "lfu: wherever an item's parent is set to a frequency element, that element is either freshly inserted with frequency == the item's new count, or its frequency was compared equal to that count on the way; the new count is 1 for an item without a parent and parent.frequency + 1 otherwise", 1)
	var lf *ssa.Function
	for _, nt := range policyImpls(u) {
		if nt.Obj().Name() == "lfu" {
			for _, f := range declMethods(u, nt) {
				// the method that stores item.parent
				allInstrs(f, func(i ssa.Instruction) {
					if st, ok := i.(*ssa.Store); ok {
						if fa, isF := st.Addr.(*ssa.FieldAddr); isF && fieldName(fa.X.Type(), fa.Field) == "parent" {
							lf = f
						}
					}
				})
			}
		}
	}
	if lf == nil {
		c.unresolved("lfu", "the lfu method that assigns item.parent")
		return
	}
	c.FuncsAnalysed[shortName(lf)] = true
	name := trimPkgDirs(shortName(lf))
	freqLoadOf := func(v ssa.Value) ssa.Value { // v = e.Value.(*frequencyParent).frequency → e
		ld, ok := v.(*ssa.UnOp)
		if !ok || ld.Op != token.MUL {
			return nil
		}
		fa, ok := ld.X.(*ssa.FieldAddr)
		if !ok || fieldName(fa.X.Type(), fa.Field) != "frequency" {
			return nil
		}
		return elemValueSource(fa.X)
	}
	// fresh element with frequency literal == count (direct push, or a helper returning such a push with the count as argument)
	var freshFreq func(e ssa.Value, depth int) ssa.Value
	freshFreq = func(e ssa.Value, depth int) ssa.Value {
		cv, ok := e.(*ssa.Call)
		if !ok || depth > 2 {
			return nil
		}
		if isListPush(cv) {
			a := allocOf(unwrapIface(cv.Call.Args[1]))
			if a == nil {
				return nil
			}
			return litFields(a)["frequency"]
		}
		h := staticCallee(cv)
		if h == nil || h.Blocks == nil || h.Pkg == nil || h.Pkg.Pkg.Path() != pkgCache {
			return nil
		}
		var out ssa.Value
		okAll := true
		for _, r := range returnsOf(h) {
			if len(r.Results) != 1 {
				return nil
			}
			fv := freshFreq(returnedValue(r, 0), depth+1)
			p, isP := fv.(*ssa.Parameter)
			if !isP {
				okAll = false
				continue
			}
			for k, q := range h.Params {
				if q == p && k < len(callArgs(&cv.Call)) {
					arg := callArgs(&cv.Call)[k]
					if out == nil {
						out = arg
					} else if out != arg {
						okAll = false
					}
				}
			}
		}
		if !okAll {
			return nil
		}
		return out
	}
	n := 0
	allInstrs(lf, func(i ssa.Instruction) {
		st, ok := i.(*ssa.Store)
		if !ok {
			return
		}
		fa, isF := st.Addr.(*ssa.FieldAddr)
		if !isF || fieldName(fa.X.Type(), fa.Field) != "parent" {
			return
		}
		n++
		// candidates for the count: the value compared / stored as frequency; all must agree
		var count ssa.Value
		bad := ""
		var visit func(e ssa.Value, facts []Fact, depth int)
		visit = func(e ssa.Value, facts []Fact, depth int) {
			if depth > 4 || bad != "" {
				return
			}
			if fv := freshFreq(e, 0); fv != nil {
				if count == nil {
					count = fv
				} else if count != fv {
					bad = "fresh frequency elements are created with different counts"
				}
				return
			}
			// existing element: needs `e.frequency != count` false (or == true) among the facts
			for _, fct := range facts {
				b, isB := fct.V.(*ssa.BinOp)
				if !isB || fct.Sub != nil {
					continue
				}
				if !(b.Op == token.NEQ && !fct.True || b.Op == token.EQL && fct.True) {
					continue
				}
				for _, pr := range [][2]ssa.Value{{b.X, b.Y}, {b.Y, b.X}} {
					if el := freqLoadOf(pr[0]); el != nil && (el == e || sameValueOrPath(el, e)) {
						if count == nil {
							count = pr[1]
						} else if count != pr[1] {
							bad = "the frequency is compared with a different value than the one new buckets are created with"
						}
						return
					}
				}
			}
			if phi, isPhi := e.(*ssa.Phi); isPhi {
				for k, x := range phi.Edges {
					p := phi.Block().Preds[k]
					fs := append(append([]Fact{}, factsAt(p)...), edgeFacts(p, phi.Block())...)
					visit(x, fs, depth+1)
				}
				return
			}
			bad = "an existing frequency element becomes the item's bucket on a path that did not compare its frequency with the item's new count (e.g. a new item joins whatever bucket is at the front): the item is ranked with a use count it does not have and the wrong entry is evicted"
		}
		visit(st.Val, factsAt(st.Block()), 0)
		if bad == "" && count != nil {
			// the count: phi of const 1 (no parent) and parent.frequency + 1
			okCount := false
			if phi, isPhi := count.(*ssa.Phi); isPhi {
				one, inc := false, false
				for k, x := range phi.Edges {
					if kk, isC := constOf(x); isC && kk.ExactString() == "1" {
						// only on the edge where item.parent is nil
						p := phi.Block().Preds[k]
						for _, fct := range append(append([]Fact{}, factsAt(p)...), edgeFacts(p, phi.Block())...) {
							if y, isNil, okN := nilTest(fct); okN && isNil && parentLoadOf(y) != nil {
								one = true
							}
						}
					} else if b, isB := x.(*ssa.BinOp); isB && b.Op == token.ADD {
						if kk, isC := constOf(b.Y); isC && kk.ExactString() == "1" {
							if el := freqLoadOf(b.X); el != nil && parentLoadOf(el) != nil {
								inc = true
							}
						}
					}
				}
				okCount = one && inc && len(phi.Edges) == 2
			}
			if !okCount {
				bad = "the item's new use count is not `1 for an item without a parent, parent.frequency + 1 otherwise`"
			}
		}
		if count == nil && bad == "" {
			bad = "no frequency comparison or fresh bucket found for the assigned parent"
		}
		c.check(bad == "", name+"/bucket", u.ipos(i), "bucket frequency == new use count on every way in", bad)
	})
	if n == 0 {
		c.bad(name+"/bucket", u.pos(lf.Pos()), "no assignment of item.parent found in lfu")
	}
}

// removalOwner: f is evictItem or Delete, or an unexported helper of cache[K,V] every call site of which is in such a function.
func removalOwner(u *Universe, f *ssa.Function, depth int) bool {
	if f.Name() == "evictItem" || f.Name() == "Delete" {
		return true
	}
	if depth > 3 || f.Object() == nil || f.Object().Exported() {
		return false
	}
	sites := 0
	ok := true
	for _, g := range u.RepoFuncs {
		if g.Pkg == nil || g.Pkg.Pkg.Path() != pkgCache {
			continue
		}
		allInstrs(g, func(i ssa.Instruction) {
			if staticCallee(i) == f {
				sites++
				if !removalOwner(u, rootFunc(g), depth+1) {
					ok = false
				}
			}
		})
	}
	return sites > 0 && ok
}

// ruleC15PolicySelection: the builder installs the implementation that the requested policy names.
func ruleC15PolicySelection(c *Ctx) {
	u := c.U1
	c.rule("C15.policy-selection", "builder.WithPolicy stores, on the edge where the requested policy equals the constant \"x\", a new instance of the policy type named x (lru, lfu, slru, tinylfu); every implementation is selectable", 4)
	var wp *ssa.Function
	for _, f := range u.RepoFuncs {
		if f.Pkg != nil && f.Pkg.Pkg.Path() == pkgCache && f.Name() == "WithPolicy" && f.Signature.Recv() != nil && f.Blocks != nil {
			wp = orig(f)
		}
	}
	if wp == nil {
		c.unresolved("builder.WithPolicy", "method")
		return
	}
	c.FuncsAnalysed[shortName(wp)] = true
	seen := map[string]bool{}
	allInstrs(wp, func(i ssa.Instruction) {
		st, ok := i.(*ssa.Store)
		if !ok {
			return
		}
		if _, fld, isF := fieldAccess(st.Addr); !isF || fld != "policy" {
			return
		}
		tn := ""
		if a := allocOf(unwrapIface(st.Val)); a != nil {
			tn = namedTypeName(a.Type())
		}
		if k := strings.Index(tn, "["); k >= 0 {
			tn = tn[:k]
		}
		want := ""
		for _, fct := range factsAt(i.Block()) {
			b, isB := fct.V.(*ssa.BinOp)
			if !isB || b.Op != token.EQL || !fct.True {
				continue
			}
			for _, o := range []ssa.Value{b.X, b.Y} {
				if k, isC := constOf(o); isC && k.Kind() == constant.String {
					want = constant.StringVal(k)
				}
			}
		}
		seen[strings.ToLower(tn)] = true
		c.check(want != "" && strings.ToLower(tn) == strings.ToLower(want), "cache.builder.WithPolicy/"+tn, u.ipos(i), "policy \""+want+"\" → new("+tn+")", "the builder installs "+tn+" where policy \""+want+"\" was requested: the cache evicts by another policy than the configured one")
	})
	for _, nt := range policyImpls(u) {
		n := strings.ToLower(nt.Obj().Name())
		if !seen[n] {
			c.bad("cache.builder.WithPolicy/"+nt.Obj().Name(), u.pos(wp.Pos()), "policy implementation "+nt.Obj().Name()+" is never installed by WithPolicy: requesting it silently leaves the default policy in place")
		}
	}
}

// ruleC15LookupUseAtomic: an item found in byKey is used in the critical section it was found in. If mux is released
// between the lookup and the use, a concurrent Delete/eviction can unlink the item in between and the policy then
// operates on a dead element (nil parent, ghost list entries, callbacks for deleted keys).
func ruleC15LookupUseAtomic(c *Ctx) {
	u := c.U1
	c.rule("C15.lookup-use-atomic", "in every method of cache[K,V] no path from a byKey lookup to a use of the item it returned (a field access, or handing it to the policy / evictItem) passes an Unlock/RUnlock of mux", 3)
	d := newLockDomain(u, pkgCache, "cache", "mux")
	n := 0
	for _, f := range d.funcs {
		if f.Blocks == nil {
			continue
		}
		rp := recvPathOf(f)
		allInstrs(f, func(i ssa.Instruction) {
			lk, ok := i.(*ssa.Lookup)
			if !ok || !strings.HasSuffix(accessPath(lk.X), ".byKey") {
				return
			}
			var item ssa.Value = lk
			if lk.CommaOk {
				item = nil
				for _, r := range *lk.Referrers() {
					if ex, isEx := r.(*ssa.Extract); isEx && ex.Index == 0 {
						item = ex
					}
				}
			}
			if item == nil || item.Referrers() == nil {
				return
			}
			for _, use := range *item.Referrers() {
				switch use.(type) {
				case *ssa.FieldAddr, *ssa.Call, *ssa.Store:
				default:
					continue
				}
				n++
				var culprit ssa.Instruction
				found, _ := pathSearch(lk, func(j ssa.Instruction) pathAction {
					if j == use {
						if culprit != nil {
							return pathFound
						}
						return pathStop
					}
					return pathContinue
				}, nil)
				_ = found
				// simple formulation: search for an unlock strictly between the lookup and the use on some path
				bad, _ := pathSearch(lk, func(j ssa.Instruction) pathAction {
					if j == use {
						return pathStop
					}
					if kind, isOp := d.lockOpKind(j, rp); isOp && (kind == "Unlock" || kind == "RUnlock") {
						if _, isDefer := j.(*ssa.Defer); !isDefer && reaches(j, use) {
							culprit = j
							return pathFound
						}
					}
					return pathContinue
				}, nil)
				construct := trimPkgDirs(shortName(f)) + "/byKey-item-use"
				if bad {
					c.bad(construct, u.ipos(use), "mux is released ("+u.ipos(culprit)+") between looking the item up in byKey and using it: a concurrent Delete or eviction can unlink the item in between, after which the policy is handed a dead item (nil parent → panic, or a ghost list element that is later evicted and notified for a key the cache no longer holds)")
				} else {
					c.ok(construct, u.ipos(use), "same critical section as the lookup")
				}
			}
		})
	}
	if n < 3 {
		c.bad("cache/lookups", "", fmt.Sprintf("expected at least 3 uses of looked-up items, found %d", n))
	}
}

// ruleC15LFUBucketImmutable: a frequency bucket's frequency is fixed when the bucket is created.
func ruleC15LFUBucketImmutable(c *Ctx) {
	u := c.U1
	c.rule("C15.lfu-bucket-immutable", "frequencyParent.frequency is assigned only in the composite literal that creates the bucket: the frequency list stays strictly increasing because buckets are only ever inserted directly after the bucket they were derived from", 1)
	n := 0
	for _, f := range policyFuncs(u) {
		allInstrs(f, func(i ssa.Instruction) {
			st, ok := i.(*ssa.Store)
			if !ok {
				return
			}
			fa, isF := st.Addr.(*ssa.FieldAddr)
			if !isF || fieldName(fa.X.Type(), fa.Field) != "frequency" {
				return
			}
			n++
			a, isA := fa.X.(*ssa.Alloc)
			c.check(isA && a.Comment == "complit", trimPkgDirs(shortName(f))+"/frequency=", u.ipos(i), "set by the creating literal", "an existing bucket's frequency is changed in place: two buckets can end up with the same frequency or out of order, and Victim() (front bucket first) then evicts an entry that was used more often than another")
		})
	}
	if n == 0 {
		c.bad("lfu/frequency-writers", "", "no assignment of frequencyParent.frequency found")
	}
}

// ruleC15EventLoopLockFree: Close holds mux for its whole drain and blocks on the unbuffered events channel until the
// event goroutine receives. If that goroutine ever waits for mux itself (by calling a locking method of the cache such as
// Len or Capacity), Close and the goroutine wait for each other forever.
func ruleC15EventLoopLockFree(c *Ctx) {
	u := c.U1
	c.rule("C15.event-loop-lock-free", "processEvents (the eviction event goroutine) and the package functions it calls never acquire cache.mux nor call a method of the cache that does: Close holds mux while it waits for this goroutine to receive", 1)
	pe := u.Method(pkgCache, "cache", "processEvents")
	if pe == nil {
		c.unresolved("cache.processEvents", "method")
		return
	}
	d := newLockDomain(u, pkgCache, "cache", "mux")
	locks := func(g *ssa.Function) bool {
		hit := false
		rp := recvPathOf(g)
		allInstrs(g, func(i ssa.Instruction) {
			if k, ok := d.lockOpKind(i, rp); ok && (k == "Lock" || k == "RLock") {
				hit = true
			}
		})
		return hit
	}
	bad := ""
	seen := map[*ssa.Function]bool{}
	var walk func(g *ssa.Function, depth int)
	walk = func(g *ssa.Function, depth int) {
		if g == nil || g.Blocks == nil || seen[g] || depth > 3 {
			return
		}
		seen[g] = true
		c.FuncsAnalysed[shortName(g)] = true
		if locks(g) {
			bad = trimPkgDirs(shortName(g))
		}
		for _, a := range withAnon(g) {
			allInstrs(a, func(i ssa.Instruction) {
				if _, isGo := i.(*ssa.Go); isGo {
					return
				}
				if h := staticCallee(i); h != nil && h.Pkg != nil && h.Pkg.Pkg.Path() == pkgCache {
					if d.has(orig(h)) && locks(orig(h)) && bad == "" {
						bad = trimPkgDirs(shortName(orig(h))) + " (called at " + u.ipos(i) + ")"
					}
					walk(orig(h), depth+1)
				}
			})
		}
	}
	walk(pe, 0)
	c.check(bad == "", "cache.processEvents/lock-free", u.pos(pe.Pos()), "the event goroutine never waits for mux", "the event goroutine acquires cache.mux through "+bad+": Close holds mux for the whole drain and blocks sending to this goroutine, which now blocks on mux — Close never returns, no further callback runs, the cache stays locked")
}
