package main

// Rules added after seeding round 12 (changes in rarely-touched places: constructors, option functions, the sidecar's
// wiring, policy code of the generic cache). Each is a structural necessary condition of the property it is listed under.

import (
	"go/constant"
	"go/token"
	"go/types"
	"strings"

	"golang.org/x/tools/go/ssa"
)

// ---------------------------------------------------------------------------------------------
// the sidecar (U2)

// ruleC19HandlerClosedOnlyByStream: the stream's deferred close is the only place in the server package that closes a
// request handler — with session caching a second Close gives away a usage that belongs to another stream.
func ruleC19HandlerClosedOnlyByStream(c *Ctx) {
	u := c.U2
	c.rule("C19.handler-closed-only-by-stream", "every requestHandler.Close() invocation of the server package sits in streamer.Stream, in a closure of it, or in a function whose every call site is a defer in streamer.Stream", 1)
	stream := u.Method(pkgServer, "streamer", "Stream")
	if stream == nil {
		c.unresolved("Stream", "(*streamer).Stream")
		return
	}
	n := 0
	for _, f := range u.RepoFuncs {
		if f.Pkg == nil || f.Pkg.Pkg.Path() != pkgServer || f.Blocks == nil {
			continue
		}
		allInstrs(f, func(i ssa.Instruction) {
			if !isHandlerInvoke(i, "Close") {
				return
			}
			n++
			c.CallSites++
			c.FuncsAnalysed[shortName(f)] = true
			ok := rootFunc(f) == stream
			if !ok {
				buildCallSiteIndex(f)
				sites := callSiteIndex[orig(rootFunc(f))]
				ok = len(sites) > 0 && !addressTaken[orig(rootFunc(f))]
				for _, ci := range sites {
					if _, isDefer := ci.(*ssa.Defer); !isDefer || ci.Parent() != stream {
						ok = false
					}
				}
			}
			c.check(ok, trimPkgDirs(shortName(f))+"/handler.Close", u.ipos(i), "closed by the stream's own deferred close", "the request handler is closed outside the stream's deferred close: the stream closes it again on its way out — the SDK session is closed twice, and with session caching the second Close releases a usage that belongs to another stream sharing the session, which is then torn down under it")
		})
	}
	if n == 0 {
		c.bad("server/handler.Close", "", "no requestHandler.Close() call found in the server package")
	}
}

// ruleC19NoSendLimit: an encrypt reply is larger than its request (record framing, wrapped key, key meta): a send limit
// at or below the receive limit lets a request in that cannot be answered.
func ruleC19NoSendLimit(c *Ctx) {
	u := c.U2
	c.rule("C19.no-send-limit", "no function of the sidecar passes grpc.MaxSendMsgSize to grpc.NewServer (the default is unlimited; replies are larger than the requests they answer) — expected count on the pinned tree: none", 0)
	for _, f := range u.RepoFuncs {
		if f.Blocks == nil || f.Pkg == nil || !strings.Contains(f.Pkg.Pkg.Path(), "/asherah/server/go") {
			continue
		}
		allInstrs(f, func(i ssa.Instruction) {
			if g := staticCallee(i); g != nil && g.Pkg != nil && g.Pkg.Pkg.Path() == "google.golang.org/grpc" && g.Name() == "MaxSendMsgSize" {
				c.CallSites++
				c.bad(trimPkgDirs(shortName(f))+"/grpc.MaxSendMsgSize", u.ipos(i), "the server limits the size of what it may send: an encrypt request just below the receive limit is accepted and processed, but its (larger) reply cannot be sent — the request is never answered and the stream is torn down")
			}
		})
	}
	c.ok("server/grpc-options", "", "no send limit configured")
}

// ruleC13SidecarMetastoreWiring: how the sidecar builds its SQL metastore.
func ruleC13SidecarMetastoreWiring(c *Ctx) {
	u := c.U2
	c.rule("C13.sidecar-metastore-wiring", "server.NewMetastore: the replica-read-consistency statement is issued after the connection was opened (the newMysql call dominates it); no path that has opened the connection returns the in-memory metastore; setRdbmsReplicaReadConsistencyValue returns the error of its Exec; the MySQL DSN's Loc is never set (times are sent in UTC)", 3)
	nm := u.Func(pkgServer, "NewMetastore")
	set := u.Func(pkgServer, "setRdbmsReplicaReadConsistencyValue")
	if nm == nil || set == nil || nm.Blocks == nil || set.Blocks == nil {
		c.unresolved("server.NewMetastore", "NewMetastore / setRdbmsReplicaReadConsistencyValue")
		return
	}
	c.FuncsAnalysed[shortName(nm)] = true
	c.FuncsAnalysed[shortName(set)] = true
	// a branch of NewMetastore may live in a helper of the package: analyse the function that holds the calls
	hostOf := func(callee string) *ssa.Function {
		var host *ssa.Function
		for _, g := range u.RepoFuncs {
			if g.Pkg == nil || g.Pkg.Pkg.Path() != pkgServer || g.Blocks == nil {
				continue
			}
			allInstrs(g, func(i ssa.Instruction) {
				if h := staticCallee(i); h != nil && h.Name() == callee && g.Name() != callee {
					host = g
				}
			})
		}
		return host
	}
	if h := hostOf("newMysql"); h != nil {
		nm = h
		c.FuncsAnalysed[shortName(nm)] = true
	}
	var opens, sets []ssa.Instruction
	allInstrs(nm, func(i ssa.Instruction) {
		if g := staticCallee(i); g != nil && g.Pkg != nil && g.Pkg.Pkg.Path() == pkgServer {
			switch g.Name() {
			case "newMysql":
				opens = append(opens, i)
			case "setRdbmsReplicaReadConsistencyValue":
				sets = append(sets, i)
			}
		}
	})
	for _, s := range sets {
		c.CallSites++
		ok := false
		for _, o := range opens {
			if instrDominates(o, s) {
				ok = true
			}
		}
		c.check(ok, "server.NewMetastore/consistency-after-open", u.ipos(s), "the connection is open when the statement is issued", "the replica-read-consistency statement is issued before the connection is opened: with no connection yet the helper does nothing and reports success — the metastore then reads from a lagging replica, and Load right after a successful Store finds nothing")
	}
	if len(sets) == 0 || len(opens) == 0 {
		c.bad("server.NewMetastore/consistency-after-open", u.pos(nm.Pos()), "NewMetastore does not call newMysql and setRdbmsReplicaReadConsistencyValue")
	}
	// no fall-through to the in-memory store once the connection was opened
	for _, o := range opens {
		c.CallSites++
		found, tr := pathSearch(o, func(i ssa.Instruction) pathAction {
			if r, ok := i.(*ssa.Return); ok && len(r.Results) == 1 {
				v := resolve(returnedValue(r, 0))
				if mi, isMI := v.(*ssa.MakeInterface); isMI {
					v = resolve(mi.X)
				}
				if cv, isCall := v.(*ssa.Call); isCall {
					if g := staticCallee(cv); g != nil && g.Name() == "NewMemoryMetastore" {
						return pathFound
					}
				}
				return pathStop
			}
			return pathContinue
		}, nil)
		if found {
			c.bad("server.NewMetastore/no-fallback-to-memory", u.ipos(o), "a path that has opened the database connection ends up returning the in-memory metastore: the sidecar starts, hands out records, and their keys are in no database — nothing written survives the process", u.tracePositions(tr)...)
		} else {
			c.ok("server.NewMetastore/no-fallback-to-memory", u.ipos(o), "the rdbms branch returns the SQL metastore or panics")
		}
	}
	// the --dynamodb-region / --dynamodb-endpoint overrides end up in the session the metastore (and its region suffix) is
	// built from: some store into a field of the session options (…Config.Region / …Config.Endpoint) takes them
	if h := hostOf("NewDynamoDBMetastore"); h != nil {
		nm = h
		c.FuncsAnalysed[shortName(nm)] = true
	}
	for _, fldOpt := range [][2]string{{"Region", "DynamoDBRegion"}, {"Endpoint", "DynamoDBEndpoint"}} {
		var mk ssa.Instruction
		allInstrs(nm, func(i ssa.Instruction) {
			if g := staticCallee(i); g != nil && g.Name() == "NewDynamoDBMetastore" {
				mk = i
			}
		})
		if mk == nil {
			c.bad("server.NewMetastore/dynamodb", u.pos(nm.Pos()), "no NewDynamoDBMetastore call in NewMetastore")
			break
		}
		// the session argument: Must(NewSessionWithOptions(<options value>))
		var optsAlloc ssa.Value
		v := resolve(callOf(mk).Args[0])
		for k := 0; k < 4; k++ {
			if mi, ok := v.(*ssa.MakeInterface); ok {
				v = resolve(mi.X)
				continue
			}
			cv, ok := v.(*ssa.Call)
			if !ok {
				break
			}
			g := staticCallee(cv)
			if g == nil {
				break
			}
			if g.Name() == "NewSessionWithOptions" && len(cv.Call.Args) == 1 {
				if ld, isL := cv.Call.Args[0].(*ssa.UnOp); isL && ld.Op == token.MUL {
					optsAlloc = ld.X
				}
				break
			}
			if len(cv.Call.Args) == 0 {
				break
			}
			v = resolve(cv.Call.Args[0])
			if ex, isE := v.(*ssa.Extract); isE {
				v = ex.Tuple
			}
		}
		c.CallSites++
		reaches := false
		if optsAlloc != nil {
			allInstrs(nm, func(i ssa.Instruction) {
				st, ok := i.(*ssa.Store)
				if !ok {
					return
				}
				_, fld, isF := fieldAccess(st.Addr)
				if !isF || fld != fldOpt[0] || resolve(rootOfPath(st.Addr)) != resolve(optsAlloc) {
					return
				}
				val := resolve(st.Val)
				if cv, isCall := val.(*ssa.Call); isCall && len(cv.Call.Args) == 1 {
					val = cv.Call.Args[0]
				}
				if strings.HasSuffix(trimAddr(accessPath(val)), "."+fldOpt[1]) {
					reaches = true
				}
			})
		}
		c.check(reaches, "server.NewMetastore/"+fldOpt[1]+"-reaches-the-session", u.ipos(mk), "the override is part of the session the metastore is built from", "the --"+strings.ToLower(fldOpt[1])+" override no longer reaches the session handed to the DynamoDB metastore: the metastore's region suffix (and default client) are derived from the session — sidecars in different regions of a global table then write the same key ids and overwrite each other's keys")
	}
	// the helper returns what Exec reported
	var execErr ssa.Value
	allInstrs(set, func(i ssa.Instruction) {
		if g := staticCallee(i); g != nil && funcFullName(g) == "(*database/sql.DB).Exec" {
			for _, pr := range resultsOfType(i, isErrorType) {
				execErr = pr[0]
			}
		}
	})
	c.CallSites++
	if execErr == nil {
		c.bad("server.setRdbmsReplicaReadConsistencyValue/returns-exec-error", u.pos(set.Pos()), "the error of the SET statement is not extracted")
	} else {
		flows := false
		for _, r := range returnsOf(set) {
			for k := range r.Results {
				v := returnedValue(r, k)
				if strip(v) == strip(execErr) || resolve(v) == resolve(execErr) {
					flows = true
				}
				if ld, ok := strip(v).(*ssa.UnOp); ok && ld.Op == token.MUL {
					if a, isA := ld.X.(*ssa.Alloc); isA {
						for _, s := range localStores(a) {
							if strip(s) == strip(execErr) {
								flows = true
							}
						}
					}
				}
				if phi, ok := strip(v).(*ssa.Phi); ok {
					for _, e := range phi.Edges {
						if strip(e) == strip(execErr) {
							flows = true
						}
					}
				}
			}
		}
		c.check(flows, "server.setRdbmsReplicaReadConsistencyValue/returns-exec-error", u.pos(set.Pos()), "the Exec error is what the helper returns", "the error of the SET statement never reaches the helper's result (e.g. assigned to a shadowing variable): a database that rejects the statement goes unnoticed, the sidecar starts with the wrong read consistency and Load right after Store finds nothing")
	}
	// DSN location
	for _, f := range u.RepoFuncs {
		if f.Pkg == nil || f.Pkg.Pkg.Path() != pkgServer || f.Blocks == nil {
			continue
		}
		allInstrs(f, func(i ssa.Instruction) {
			st, ok := i.(*ssa.Store)
			if !ok {
				return
			}
			base, fld, isF := fieldAccess(st.Addr)
			if !isF || fld != "Loc" || namedTypeName(derefType(base.Type())) != "Config" {
				return
			}
			c.CallSites++
			utc := trimAddr(accessPath(st.Val)) == "G:time.UTC"
			c.check(utc, trimPkgDirs(shortName(f))+"/dsn.Loc", u.ipos(i), "UTC", "the MySQL driver is told to send times in a zone other than UTC: the `created` column then holds host-local wall-clock time — rows written by hosts in other zones (or by the other SDKs, which use UTC) are not found, and two keys created an hour apart in the autumn fall-back hour collide on one primary key")
		})
	}
}

// ---------------------------------------------------------------------------------------------
// region suffix of the aws-v1 DynamoDB metastore

// ruleC18RegionSuffixIsTheConfiguredRegion: the suffix appended to key ids is the region the client was configured with,
// and it is only set when the option says so.
func ruleC18RegionSuffixIsTheConfiguredRegion(c *Ctx) {
	u := c.U1
	c.rule("C18.region-suffix-is-the-configured-region", "in both DynamoDB metastores every store to the regionSuffix field takes its value from a path ending in `.Region` (the client's configured region — not SigningRegion or a resolved endpoint's region), and in the aws-v1 option function it is dominated by the option's boolean parameter being true", 2)
	n := 0
	for _, f := range u.RepoFuncs {
		root := rootFunc(f)
		if root.Pkg == nil || f.Blocks == nil {
			continue
		}
		if p := root.Pkg.Pkg.Path(); p != pkgDynV1 && p != pkgDynV2 {
			continue
		}
		allInstrs(f, func(i ssa.Instruction) {
			st, ok := i.(*ssa.Store)
			if !ok {
				return
			}
			_, fld, isF := fieldAccess(st.Addr)
			if !isF || fld != "regionSuffix" {
				return
			}
			n++
			c.CallSites++
			c.FuncsAnalysed[shortName(f)] = true
			construct := trimPkgDirs(shortName(f)) + "/regionSuffix="
			v := st.Val
			if cv, isCall := resolve(v).(*ssa.Call); isCall {
				if g := staticCallee(cv); g != nil && (g.Name() == "StringValue" || g.Name() == "ToString") && len(cv.Call.Args) == 1 {
					v = cv.Call.Args[0]
				}
			}
			ap := trimAddr(accessPath(v))
			if ap == "" {
				ap = trimAddr(accessPath(resolve(v)))
			}
			fromRegion := strings.HasSuffix(ap, ".Region") || strings.HasSuffix(ap, ".Region()")
			// a helper of the package whose every return is such a value
			if hc, isCall := resolve(v).(*ssa.Call); isCall && !fromRegion {
				if h := staticCallee(hc); h != nil && h.Blocks != nil && h.Pkg == f.Pkg && h.Signature.Results().Len() == 1 {
					all := true
					for _, r := range returnsOf(h) {
						rv := returnedValue(r, 0)
						if cv2, isC2 := resolve(rv).(*ssa.Call); isC2 {
							if g2 := staticCallee(cv2); g2 != nil && (g2.Name() == "StringValue" || g2.Name() == "ToString") && len(cv2.Call.Args) == 1 {
								rv = cv2.Call.Args[0]
							}
						}
						rp := trimAddr(accessPath(rv))
						if rp == "" {
							rp = trimAddr(accessPath(resolve(rv)))
						}
						if !strings.HasSuffix(rp, ".Region") {
							all = false
						}
					}
					fromRegion = all && len(returnsOf(h)) > 0
				}
			}
			if k, isC := constOf(resolve(v)); isC && k.Kind() == constant.String && constant.StringVal(k) == "" {
				fromRegion = true // clearing the suffix
			}
			c.check(fromRegion, construct, u.ipos(i), "the configured region", "the region suffix is taken from "+describeOperand(resolve(v))+" rather than the client's configured region: for pseudo-regions (…-fips, DynamoDB-Local) the two differ, key ids then carry another region's suffix and collide with that region's keys")
			// aws-v1: inside the option closure, only when enabled
			if root.Pkg.Pkg.Path() == pkgDynV1 && f.Parent() != nil {
				var flag *ssa.Parameter
				for _, p := range f.Parent().Params {
					if b, isB := p.Type().Underlying().(*types.Basic); isB && b.Kind() == types.Bool {
						flag = p
					}
				}
				if flag != nil {
					enabled := false
					for _, fct := range factsAt(i.Block()) {
						if resolveCaptured(strip(fct.V)) == ssa.Value(flag) && fct.True {
							enabled = true
						}
					}
					c.check(enabled, construct+"/enabled", u.ipos(i), "only when the option is true", "the region suffix is set although the option was passed as false: the factory silently switches to suffixed key ids (and to the suffixed partition's more permissive validity check)")
				}
			}
		})
	}
	if n == 0 {
		c.unresolved("dynamodb/regionSuffix", "no store to a regionSuffix field found")
	}
}

// ---------------------------------------------------------------------------------------------
// KMS builder: the preferred region is the caller's

// ruleC17PreferredRegionIsTheCallers: "attempted in preferred-region-first order" is about the region the caller named.
// The builder's preferredRegion field is written only from a parameter of the writing function (the option / the
// constructor) — Build does not replace it by something it found elsewhere (the AWS config's region, the environment).
func ruleC17PreferredRegionIsTheCallers(c *Ctx) {
	u := c.U1
	c.rule("C17.preferred-region-is-the-callers", "every store to a preferredRegion field of the KMS plugins stores a parameter of the storing function", 1)
	n := 0
	for _, f := range u.RepoFuncs {
		root := rootFunc(f)
		if root.Pkg == nil || f.Blocks == nil {
			continue
		}
		if p := root.Pkg.Pkg.Path(); p != pkgKmsV1 && p != pkgKmsV2 {
			continue
		}
		allInstrs(f, func(i ssa.Instruction) {
			st, ok := i.(*ssa.Store)
			if !ok {
				return
			}
			_, fld, isF := fieldAccess(st.Addr)
			if !isF || !strings.EqualFold(fld, "preferredRegion") {
				return
			}
			n++
			c.CallSites++
			c.FuncsAnalysed[shortName(f)] = true
			_, isP := resolveCaptured(resolve(st.Val)).(*ssa.Parameter)
			c.check(isP, trimPkgDirs(shortName(f))+"/preferredRegion=", u.ipos(i), "the caller's choice", "the preferred region is overwritten with "+describeOperand(resolve(st.Val))+": an explicitly preferred region is silently replaced (e.g. by the AWS config's region) — key generation and unwrapping then start in another region than the one the caller asked to be tried first")
		})
	}
	if n == 0 {
		c.unresolved("kms/preferredRegion", "no store to a preferredRegion field found")
	}
}

// ---------------------------------------------------------------------------------------------
// the factory-wide IK cache exists exactly when the policy says "shared"

// ruleC08SharedCacheCreatedOnlyWhenFlagged: envelopeEncryption.Close leaves the session's IK cache alone only when
// Policy.SharedIntermediateKeyCache is set (C08.shared-cache-not-closed-by-session). The factory must therefore hand its
// own cache to sessions under exactly that flag: a factory-wide cache created under any other condition is closed by the
// first session that is closed or evicted, under all the others.
func ruleC08SharedCacheCreatedOnlyWhenFlagged(c *Ctx) {
	u := c.U1
	c.rule("C08.shared-cache-created-only-when-flagged", "in NewSessionFactory (and the helpers it calls) every newKeyCache call for intermediate keys is dominated by Policy.SharedIntermediateKeyCache known true", 1)
	f := u.Func(pkgApp, "NewSessionFactory")
	if f == nil || f.Blocks == nil {
		c.unresolved("NewSessionFactory", "function")
		return
	}
	fs := []*ssa.Function{f}
	allInstrs(f, func(i ssa.Instruction) {
		if h := staticCallee(i); h != nil && h.Blocks != nil && h.Pkg == f.Pkg && h.Name() != "newKeyCache" {
			fs = append(fs, h)
		}
	})
	n := 0
	for _, g := range fs {
		allInstrs(g, func(i ssa.Instruction) {
			cv, ok := i.(*ssa.Call)
			if !ok {
				return
			}
			h := staticCallee(cv)
			if h == nil || h.Name() != "newKeyCache" || len(cv.Call.Args) < 1 {
				return
			}
			k, isC := constOf(cv.Call.Args[0])
			if !isC || k.ExactString() == "0" { // CacheTypeSystemKeys
				return
			}
			n++
			c.CallSites++
			c.FuncsAnalysed[shortName(g)] = true
			flagged := holdsByCases(i.Block(), func(facts []Fact) bool {
				for _, fct := range facts {
					if fct.Sub == nil && fct.True && strings.HasSuffix(trimAddr(accessPath(fct.V)), ".SharedIntermediateKeyCache") {
						return true
					}
				}
				return false
			})
			c.check(flagged, trimPkgDirs(shortName(g))+"/shared-ik-cache", u.ipos(i), "created under Policy.SharedIntermediateKeyCache", "the factory-wide intermediate-key cache is also created where Policy.SharedIntermediateKeyCache is not known to be set: sessions then use it, but a session's Close only spares the cache under that flag — the first session closed (or evicted from the session cache) closes the cache all other sessions are using")
		})
	}
	if n == 0 {
		c.unresolved("NewSessionFactory/newKeyCache", "no intermediate-key newKeyCache call found")
	}
}

// ---------------------------------------------------------------------------------------------
// policy code of the generic cache

// ruleC15FilterGeometryFixed: the TinyLFU doorkeeper and sketch index their backing slices with masks computed from the
// size chosen at Init. The slices are (re)allocated only in Init: a Reset that re-slices them makes the next Put / Add
// index out of range — a cache operation panics.
func ruleC15FilterGeometryFixed(c *Ctx) {
	u := c.U1
	c.rule("C15.filter-geometry-fixed", "in pkg/cache/internal the backing slices of the doorkeeper and the frequency sketch (bits, counters) and the sketch's mask are assigned only by the Init methods", 2)
	n := 0
	for _, f := range u.RepoFuncs {
		root := rootFunc(f)
		if root.Pkg == nil || root.Pkg.Pkg.Path() != pkgCache+"/internal" || f.Blocks == nil {
			continue
		}
		allInstrs(f, func(i ssa.Instruction) {
			st, ok := i.(*ssa.Store)
			if !ok {
				return
			}
			base, fld, isF := fieldAccess(st.Addr)
			if !isF || (fld != "bits" && fld != "counters" && fld != "mask") {
				return
			}
			tn := namedTypeName(derefType(base.Type()))
			if tn != "BloomFilter" && tn != "CountMinSketch" {
				return
			}
			n++
			c.CallSites++
			c.FuncsAnalysed[shortName(f)] = true
			c.check(root.Name() == "Init", trimPkgDirs(shortName(f))+"/"+fld+"=", u.ipos(i), "sized by Init", "the "+fld+" of the "+tn+" is reassigned outside Init: the masks and hash positions computed for the original size now index a slice of another length — the next admission panics with an index out of range inside a cache operation")
		})
	}
	if n == 0 {
		c.unresolved("cache/internal", "no assignment of bits / counters / mask found")
	}
}

// conditionsSince: the branch conditions that guard block b, walking up its dominators until one satisfying anchor is
// met (that one excluded); ok is false when no such anchor dominates b.
func conditionsSince(b *ssa.BasicBlock, anchor func(Fact) bool) (out []Fact, ok bool) {
	for d := b.Idom(); d != nil; d = d.Idom() {
		for _, fct := range factsFromIf(d, b) {
			if anchor(fct) {
				return out, true
			}
			out = append(out, fct)
		}
	}
	return out, false
}

// ruleC15LFUNoEmptyBucket: lfu.Victim looks at the front frequency bucket only. A bucket whose last entry leaves must
// leave the list with it — under no further condition — or Victim answers nil while the cache is full.
func ruleC15LFUNoEmptyBucket(c *Ctx) {
	u := c.U1
	c.rule("C15.lfu-no-empty-bucket", "in the lfu policy every removal of a frequency bucket from the list (frequencies.Remove) is guarded by the emptiness of its entries and by nothing else between that test and the removal", 1)
	n := 0
	for _, f := range u.RepoFuncs {
		if f.Pkg == nil || f.Pkg.Pkg.Path() != pkgCache || f.Blocks == nil || f.Signature.Recv() == nil || namedTypeName(derefType(f.Signature.Recv().Type())) != "lfu" {
			continue
		}
		allInstrs(f, func(i ssa.Instruction) {
			cc := callOf(i)
			if cc == nil || cc.StaticCallee() == nil || funcFullName(cc.StaticCallee()) != "(*container/list.List).Remove" || len(cc.Args) < 1 {
				return
			}
			if _, fld, ok := fieldAccess(strip(cc.Args[0])); !ok || fld != "frequencies" {
				return
			}
			n++
			c.CallSites++
			c.FuncsAnalysed[shortName(f)] = true
			isEmptyTest := func(fct Fact) bool {
				b, ok := fct.V.(*ssa.BinOp)
				if !ok {
					return false
				}
				lc, isCall := strip(b.X).(*ssa.Call)
				if !isCall {
					return false
				}
				bi, isB := lc.Call.Value.(*ssa.Builtin)
				if !isB || bi.Name() != "len" || !strings.HasSuffix(trimAddr(accessPath(lc.Call.Args[0])), ".entries") {
					return false
				}
				k, isC := constOf(b.Y)
				return isC && k.ExactString() == "0" && ((b.Op == token.EQL && fct.True) || (b.Op == token.NEQ && !fct.True) || (b.Op == token.GTR && !fct.True))
			}
			extra, anchored := conditionsSince(i.Block(), isEmptyTest)
			why := ""
			if !anchored {
				why = "the bucket is removed without a test that it is empty"
			} else if len(extra) > 0 {
				why = "an emptied bucket is removed only under a further condition (" + describeLeaf(extra[0].V) + ")"
			}
			c.check(why == "", trimPkgDirs(shortName(f))+"/frequencies.Remove", u.ipos(i), "removed exactly when empty", why+": an empty bucket stays at the front of the frequency list, Victim() — which only looks there — returns nil for a full cache, and the eviction dereferences it")
		})
	}
	if n == 0 {
		c.unresolved("lfu/frequencies.Remove", "no bucket removal found in the lfu policy")
	}
}

// ruleC15PromotionFlagBeforeRebalance: slru.Access marks the promoted item protected BEFORE anything is demoted. With a
// protected capacity of 0 the item demoted is the one just promoted; a flag written afterwards overwrites the demotion's
// `protected = false`, the flag and the list disagree, and Remove later unlinks from the wrong list.
func ruleC15PromotionFlagBeforeRebalance(c *Ctx) {
	u := c.U1
	c.rule("C15.promotion-flag-before-rebalance", "in slru.Access every step that demotes (a store of protected = false, inline or in a helper of the policy) is dominated by the store protected = true of the promoted item", 1)
	f := u.Method(pkgCache, "slru", "Access")
	if f == nil || f.Blocks == nil {
		c.unresolved("slru.Access", "method")
		return
	}
	c.FuncsAnalysed[shortName(f)] = true
	flagStore := func(i ssa.Instruction, val bool) bool {
		st, ok := i.(*ssa.Store)
		if !ok {
			return false
		}
		_, fld, isF := fieldAccess(st.Addr)
		k, isC := constOf(st.Val)
		return isF && fld == "protected" && isC && k.Kind() == constant.Bool && constant.BoolVal(k) == val
	}
	var sets, demotes []ssa.Instruction
	allInstrs(f, func(i ssa.Instruction) {
		if flagStore(i, true) {
			sets = append(sets, i)
		}
		if flagStore(i, false) {
			demotes = append(demotes, i)
		}
		if _, isCall := i.(*ssa.Call); isCall {
			if h := staticCallee(i); h != nil && h.Blocks != nil && h != f && h.Signature.Recv() != nil && namedTypeName(derefType(h.Signature.Recv().Type())) == "slru" {
				if containsInstr(h, func(j ssa.Instruction) bool { return flagStore(j, false) }) {
					demotes = append(demotes, i)
				}
				if ok, _ := mustPass(h.Blocks[0], 0, func(j ssa.Instruction) bool { return flagStore(j, true) }, nil); ok {
					sets = append(sets, i)
				}
			}
		}
	})
	if len(demotes) == 0 {
		c.bad("slru.Access/demotion", u.pos(f.Pos()), "no demotion step found in slru.Access")
		return
	}
	for _, d := range demotes {
		c.CallSites++
		ok := false
		for _, s := range sets {
			if instrDominates(s, d) {
				ok = true
			}
		}
		c.check(ok, "slru.Access/flag-before-demotion", u.ipos(d), "promoted item flagged before the demotion", "the demotion runs before the promoted item is flagged protected: when the protected segment has no room (capacity 1) the item demoted is the promoted one itself, and the later `protected = true` leaves it in the probation list flagged as protected — Remove then unlinks it from the wrong list, the entry is evicted (and announced) again and again while the live entries are never evicted")
	}
}

// ruleC13DecodedRecordComplete: the record a DynamoDB decode helper hands back carries the stored Revoked flag on every
// path (a flag copied only on the "has a parent" branch is lost for system keys).
func ruleC13DecodedRecordComplete(c *Ctx) {
	u := c.U1
	c.rule("C13.decoded-record-complete", "in the DynamoDB metastores every return of a non-nil *EnvelopeKeyRecord built field by field in that function has, on every path from its allocation, received Revoked and Created (in the literal or by a later store)", 1)
	n := 0
	for _, f := range u.RepoFuncs {
		root := rootFunc(f)
		if root.Pkg == nil || f.Blocks == nil || !recordReturning(f) {
			continue
		}
		if p := root.Pkg.Pkg.Path(); p != pkgDynV1 && p != pkgDynV2 {
			continue
		}
		for _, r := range returnsOf(f) {
			a, isA := resolve(returnedValue(r, 0)).(*ssa.Alloc)
			if !isA || a.Parent() != f || !typeIsNamed(a.Type(), pkgApp, "EnvelopeKeyRecord") {
				continue
			}
			// filled by a decoder (its address is handed to a call): not assembled here
			decoded := false
			for _, ref := range *a.Referrers() {
				if ci, isCall := ref.(ssa.CallInstruction); isCall {
					for _, arg := range ci.Common().Args {
						if strip(arg) == ssa.Value(a) {
							decoded = true
						}
					}
				}
				if mi, isMI := ref.(*ssa.MakeInterface); isMI && mi.X == ssa.Value(a) {
					decoded = true
				}
			}
			if decoded || len(litFields(a)) == 0 {
				continue // filled by a decoder, or a deliberately empty record
			}
			for _, fld := range []string{"Revoked", "Created"} {
				n++
				c.CallSites++
				c.FuncsAnalysed[shortName(f)] = true
				found, tr := pathSearch(a, func(i ssa.Instruction) pathAction {
					if st, ok := i.(*ssa.Store); ok {
						if base, fl, isF := fieldAccess(st.Addr); isF && fl == fld && resolve(base) == ssa.Value(a) {
							return pathStop
						}
					}
					if i == ssa.Instruction(r) {
						return pathFound
					}
					return pathContinue
				}, nil)
				if found {
					c.bad(trimPkgDirs(shortName(f))+"/"+fld, u.ipos(r), "a record is returned on a path that never set its "+fld+" field: a stored record comes back with the zero value — a revoked system key is reported as not revoked, and revocation never takes effect for it", u.tracePositions(tr)...)
				} else {
					c.ok(trimPkgDirs(shortName(f))+"/"+fld, u.ipos(r), "set on every path to this return")
				}
			}
		}
	}
	if n == 0 {
		c.ok("dynamodb/decoded-records", "", "no record is assembled field by field")
	}
}

// ruleC15PolicyCapacityIsTheConfigured: a policy is as large as it is told to be. Init stores its capacity parameter
// itself into `cap` (Capacity() is what Set compares the size with), and the segmented LRU splits it 80 / 20 with the
// protected share rounded down and the probation segment taking exactly the rest.
func ruleC15PolicyCapacityIsTheConfigured(c *Ctx) {
	u := c.U1
	c.rule("C15.policy-capacity-is-the-configured", "every eviction policy's Init(capacity) stores the parameter itself into its cap field; slru.Init sets protectedCapacity = int(float64(capacity) * 0.8) and probationCapacity = capacity − protectedCapacity", 3)
	n := 0
	for _, f := range u.RepoFuncs {
		if f.Pkg == nil || f.Pkg.Pkg.Path() != pkgCache || f.Blocks == nil || f.Name() != "Init" || f.Signature.Recv() == nil || len(f.Params) != 2 {
			continue
		}
		capP := ssa.Value(f.Params[1])
		recv := namedTypeName(derefType(f.Signature.Recv().Type()))
		c.FuncsAnalysed[shortName(f)] = true
		allInstrs(f, func(i ssa.Instruction) {
			st, ok := i.(*ssa.Store)
			if !ok {
				return
			}
			_, fld, isF := fieldAccess(st.Addr)
			if !isF {
				return
			}
			switch fld {
			case "cap":
				n++
				c.CallSites++
				c.check(resolve(st.Val) == capP, recv+".Init/cap", u.ipos(i), "cap = capacity", "the policy's capacity is not the configured one ("+describeOperand(resolve(st.Val))+"): the cache holds fewer (or more) entries than it was sized for — a working set that fits the configured size thrashes, every miss being an external call")
			case "protectedCapacity":
				n++
				c.CallSites++
				good := false
				if cv, isConv := resolve(st.Val).(*ssa.Convert); isConv {
					if mul, isMul := cv.X.(*ssa.BinOp); isMul && mul.Op == token.MUL {
						x, y := mul.X, mul.Y
						if _, isC := constOf(x); isC {
							x, y = y, x
						}
						k, isC := constOf(y)
						if fc, isF := x.(*ssa.Convert); isF && isC && resolve(fc.X) == capP && k.Kind() == constant.Float {
							if v, _ := constant.Float64Val(k); v > 0.79 && v < 0.81 {
								good = true
							}
						}
					}
				}
				c.check(good, recv+".Init/protectedCapacity", u.ipos(i), "int(float64(capacity) * 0.8)", "the protected segment is not the documented 80% share rounded down: the two segments are sized differently from what the policy's admission and demotion logic assumes, and entries are evicted in another order than segmented LRU prescribes")
			case "probationCapacity":
				n++
				c.CallSites++
				good := false
				if sub, isSub := resolve(st.Val).(*ssa.BinOp); isSub && sub.Op == token.SUB && resolve(sub.X) == capP {
					if _, f2, ok2 := fieldAccess(strip(sub.Y)); ok2 && f2 == "protectedCapacity" {
						good = true
					}
				}
				c.check(good, recv+".Init/probationCapacity", u.ipos(i), "capacity − protectedCapacity", "the probation segment is not exactly the rest of the capacity: the two segments no longer add up to the configured size (or the rounding moved to the other segment)")
			}
		})
	}
	if n == 0 {
		c.unresolved("cache/Init", "no policy Init found")
	}
}

// ruleC19OptionDefaults: the sidecar's command-line defaults are part of its contract: NewCryptoPolicy passes the
// session-cache size and duration on unconditionally, so a missing default is a cache of capacity 0 (the first
// get-session with --enable-session-caching panics in the handler, see G13) or of duration 0.
func ruleC19OptionDefaults(c *Ctx) {
	u := c.U2
	c.rule("C19.option-defaults", "the go-flags struct tags of server.Options keep the documented defaults of the values the SDK cannot work without: session-cache-max-size 1000, session-cache-duration 2h, kms aws", 3)
	n := u.Named(pkgServer, "Options")
	if n == nil {
		c.unresolved("server.Options", "type")
		return
	}
	st, ok := n.Underlying().(*types.Struct)
	if !ok {
		c.unresolved("server.Options", "struct")
		return
	}
	want := map[string]string{"SessionCacheMaxSize": "1000", "SessionCacheDuration": "2h", "KMS": "aws"}
	seen := map[string]bool{}
	for i := 0; i < st.NumFields(); i++ {
		w, has := want[st.Field(i).Name()]
		if !has {
			continue
		}
		seen[st.Field(i).Name()] = true
		c.CallSites++
		got := structTagGet(st.Tag(i), "default")
		c.check(got == w, "server.Options."+st.Field(i).Name()+"/default", u.pos(st.Field(i).Pos()), "default:\""+w+"\"", "the option's default is \""+got+"\" instead of \""+w+"\": started without the flag the sidecar hands the SDK a zero value — with --enable-session-caching a session cache of capacity 0 panics in the handler on the first get-session")
	}
	for f := range want {
		if !seen[f] {
			c.unresolved("server.Options."+f, "field")
		}
	}
}

// structTagGet is reflect.StructTag.Get without importing reflect's conventions elsewhere.
func structTagGet(tag, key string) string {
	for tag != "" {
		i := 0
		for i < len(tag) && tag[i] == ' ' {
			i++
		}
		tag = tag[i:]
		if tag == "" {
			break
		}
		i = 0
		for i < len(tag) && tag[i] > ' ' && tag[i] != ':' && tag[i] != '"' && tag[i] != 0x7f {
			i++
		}
		if i == 0 || i+1 >= len(tag) || tag[i] != ':' || tag[i+1] != '"' {
			break
		}
		name := tag[:i]
		tag = tag[i+1:]
		i = 1
		for i < len(tag) && tag[i] != '"' {
			if tag[i] == '\\' {
				i++
			}
			i++
		}
		if i >= len(tag) {
			break
		}
		val := tag[1:i]
		tag = tag[i+1:]
		if name == key {
			return val
		}
	}
	return ""
}

// ruleC03RandomSecretsFromCSPRNG: the data row key of every encrypt is SecretFactory.CreateRandom; with the memguard back
// end its bytes are memguard.NewBufferRandom's — drawn from the CSPRNG for this very secret — not bytes carved from a
// chunk that other callers share (a refill or a late wipe of the chunk gives two secrets the same, or all-zero, bytes).
func ruleC03RandomSecretsFromCSPRNG(c *Ctx) {
	u := c.U1
	c.rule("C03.random-secrets-come-from-the-csprng", "memguard.SecretFactory.CreateRandom hands newFromBuffer, on every path, the result of memguard.NewBufferRandom(size)", 1)
	f := u.Method(pkgMemg, "SecretFactory", "CreateRandom")
	if f == nil || f.Blocks == nil {
		c.unresolved("memguard.SecretFactory.CreateRandom", "method")
		return
	}
	c.FuncsAnalysed[shortName(f)] = true
	n := 0
	allInstrs(f, func(i ssa.Instruction) {
		g := staticCallee(i)
		if g == nil || g.Name() != "newFromBuffer" || len(callOf(i).Args) < 2 {
			return
		}
		n++
		c.CallSites++
		src, ok := resolve(callOf(i).Args[1]).(*ssa.Call)
		good := ok && staticCallee(src) != nil && staticCallee(src).Name() == "NewBufferRandom" && staticCallee(src).Pkg != nil && strings.HasSuffix(staticCallee(src).Pkg.Pkg.Path(), "/memguard")
		c.check(good, "memguard.SecretFactory.CreateRandom/source", u.ipos(i), "memguard.NewBufferRandom(size)", "a random secret is built from "+describeOperand(resolve(callOf(i).Args[1]))+" instead of a buffer filled from the CSPRNG for this secret: bytes handed out from shared state can be handed out twice or wiped before they are copied — two encryptions then run under the same (or an all-zero) data row key")
	})
	if n == 0 {
		c.bad("memguard.SecretFactory.CreateRandom/source", u.pos(f.Pos()), "CreateRandom does not build its secret through newFromBuffer")
	}
}
