package main

// C18 — stored and wire formats (DESIGN §3 C18). E-LIT over U1 and U2. The documented layout
// (docs/DesignAndArchitecture.md, docs/Metastore.md, the cross-language feature files) is a compatibility contract and
// is frozen here as the oracle: any change to it changes observable behaviour.

import (
	"fmt"
	"go/constant"
	"go/token"
	"go/types"
	"reflect"
	"sort"
	"strings"

	"golang.org/x/tools/go/ssa"
)

func init() {
	register(&propSpec{
		ID:    "C18",
		Title: "Stored and wire formats follow the documented, cross-language layout",
		Explanation: "Structural necessary conditions of C18 against the documented wire contract: (json-tags) the struct tags of KeyMeta, DataRowRecord, EnvelopeKeyRecord, the v1 DynamoDBEnvelope and the v2 DynamoDB item structs equal the " +
			"documented names (Key/Data, Created, Key, ParentKeyMeta{KeyId,Created}, Revoked omitempty, ID not serialised; Id/Created/KeyRecord attributes) and []byte fields stay []byte (base64 in JSON); (gcm-layout) nonce size 12 and tag " +
			"size 16 constants, AES-256 key size 32, Encrypt writes ciphertext‖tag from offset 0 and the random nonce in the last NonceSize bytes, Decrypt reads them back from the same places; (key-ids) the Sprintf formats fold to " +
			"_SK_%s_%s / _IK_%s_%s_%s (+_%s region suffix) with operands in the documented order; (sql-row) the SQL row is the JSON of the envelope (C13.field-fidelity); (proto-mapping, U2) toProtobufDRR/fromProtobufDRR map every " +
			"field to its namesake; (key-id-operands) the partition constructors fill id/service/product/suffix from their namesake parameters and every call passes them in that order. Byte-level interop with the Java/C# implementations is not executed.",
		NotDecided:  []string{"byte-level interoperability with other language implementations", "encoding/json and protobuf encoding details", "what AES-GCM outputs"},
		Assumptions: []string{"the documented layout frozen in this checker is the contract (docs/DesignAndArchitecture.md, docs/Metastore.md)", "encoding/json encodes []byte as base64 and honours struct tags"},
		Tech:        "static analysis: struct tags and constants from go/types, constant-folded format strings, slice-shape agreement of writer and reader on SSA, struct-to-struct field mapping",
		NeedU1:      true,
		NeedU2:      true,
		Rules:       []func(*Ctx){ruleC01LatestFetchedUnderOwnID, ruleC06IDFlowsUnmodified, ruleC18Tags, ruleC18GCMLayout, ruleC18KeyIDs, ruleC18KeyIDOperands, ruleC01ProvenanceEncrypt, ruleC01NoExtraGateOnRead, ruleC13FieldFidelity, ruleC13RecordLiteralsComplete, ruleC13KeyFidelity, ruleC18IDsAreDataNotPatterns, ruleC18WrappersKeepOptionalInterfaces, ruleC18RegionSuffixResolvedOnEveryPath, ruleC18ProtoMapping, ruleC18RegionSuffixIsTheConfiguredRegion, ruleC13SidecarMetastoreWiring, ruleC18SidecarNamesVerbatim, ruleC01ProvenanceDecrypt, ruleC18CreatedIsEpochSeconds},
	})
}

type tagSpec struct {
	pkg, typ, key string
	fields        [][3]string // name, tag value, type string (package-less)
}

var wireContract = []tagSpec{
	{pkgApp, "KeyMeta", "json", [][3]string{{"ID", "KeyId", "string"}, {"Created", "Created", "int64"}}},
	{pkgApp, "DataRowRecord", "json", [][3]string{{"Key", "Key", "*EnvelopeKeyRecord"}, {"Data", "Data", "[]byte"}}},
	{pkgApp, "EnvelopeKeyRecord", "json", [][3]string{{"Revoked", "Revoked,omitempty", "bool"}, {"ID", "-", "string"}, {"Created", "Created", "int64"}, {"EncryptedKey", "Key", "[]byte"}, {"ParentKeyMeta", "ParentKeyMeta,omitempty", "*KeyMeta"}}},
	{pkgDynV1, "DynamoDBEnvelope", "json", [][3]string{{"Revoked", "Revoked,omitempty", "bool"}, {"Created", "Created", "int64"}, {"EncryptedKey", "Key", "string"}, {"ParentKeyMeta", "ParentKeyMeta,omitempty", "*KeyMeta"}}},
	{pkgDynV2, "metastoreItem", "dynamodbav", [][3]string{{"ID", "Id", "string"}, {"Created", "Created", "int64"}, {"KeyRecord", "KeyRecord", "*envelope"}}},
	{pkgDynV2, "envelope", "dynamodbav", [][3]string{{"Revoked", "Revoked,omitempty", "bool"}, {"Created", "Created", "int64"}, {"EncryptedKey", "Key", "string"}, {"ParentKeyMeta", "ParentKeyMeta,omitempty", "*keyMeta"}}},
	{pkgDynV2, "keyMeta", "dynamodbav", [][3]string{{"ID", "KeyId", "string"}, {"Created", "Created", "int64"}}},
}

func ruleC18Tags(c *Ctx) {
	u := c.U1
	c.rule("C18.json-tags", "struct tags and field types of the record / wire structs equal the documented layout", 7)
	for _, ts := range wireContract {
		n := u.Named(ts.pkg, ts.typ)
		construct := trimPkgDirs(ts.pkg) + "." + ts.typ
		if n == nil {
			c.unresolved(construct, "type")
			continue
		}
		st, ok := n.Underlying().(*types.Struct)
		if !ok {
			c.bad(construct, "", "not a struct any more")
			continue
		}
		var problems []string
		if st.NumFields() != len(ts.fields) {
			problems = append(problems, fmt.Sprintf("%d fields, documented %d", st.NumFields(), len(ts.fields)))
		}
		for _, w := range ts.fields {
			found := false
			for i := 0; i < st.NumFields(); i++ {
				if st.Field(i).Name() != w[0] {
					continue
				}
				found = true
				tag := reflect.StructTag(st.Tag(i)).Get(ts.key)
				tstr := types.TypeString(st.Field(i).Type(), func(*types.Package) string { return "" })
				if tag != w[1] {
					problems = append(problems, fmt.Sprintf("%s has %s tag %q, documented %q", w[0], ts.key, tag, w[1]))
				}
				if tstr != w[2] {
					problems = append(problems, fmt.Sprintf("%s has type %s, documented %s", w[0], tstr, w[2]))
				}
			}
			if !found {
				problems = append(problems, "field "+w[0]+" missing")
			}
		}
		c.check(len(problems) == 0, construct, u.pos(n.Obj().Pos()), fmt.Sprintf("%d fields match the documented layout", len(ts.fields)), "serialised shape differs from the documented layout: "+strings.Join(problems, "; "))
	}
	// DynamoDB attribute name constants
	for _, pkg := range []string{pkgDynV1, pkgDynV2} {
		var problems []string
		for name, want := range map[string]string{"partitionKey": "Id", "sortKey": "Created", "keyRecord": "KeyRecord"} {
			got := pkgStringConst(u, pkg, name)
			if got != want {
				problems = append(problems, fmt.Sprintf("%s=%q (documented %q)", name, got, want))
			}
		}
		c.check(len(problems) == 0, trimPkgDirs(pkg)+"/attribute-names", "", "Id / Created / KeyRecord", strings.Join(problems, "; "))
	}
}

func pkgStringConst(u *Universe, pkg, name string) string {
	p := u.ByPath[pkg]
	if p == nil {
		return ""
	}
	o, ok := p.Types.Scope().Lookup(name).(*types.Const)
	if !ok || o.Val().Kind() != constant.String {
		return ""
	}
	return constant.StringVal(o.Val())
}

func pkgIntConst(u *Universe, pkg, name string) (int64, bool) {
	p := u.ByPath[pkg]
	if p == nil {
		return 0, false
	}
	o, ok := p.Types.Scope().Lookup(name).(*types.Const)
	if !ok {
		return 0, false
	}
	return constantInt64(constant.ToInt(o.Val()))
}

func ruleC18GCMLayout(c *Ctx) {
	u := c.U1
	c.rule("C18.gcm-layout", "gcmNonceSize=12, gcmTagSize=16, AES256KeySize=32; Encrypt: buffer = len(data)+tag+nonce, Seal writes from offset 0 with the nonce taken from buf[len-NonceSize:], which was filled by FillRandom; Decrypt: Open(nonce=data[len-NonceSize:], ciphertext=data[:len-NonceSize])", 4)
	ns, ok1 := pkgIntConst(u, pkgAead, "gcmNonceSize")
	tg, ok2 := pkgIntConst(u, pkgAead, "gcmTagSize")
	ks, ok3 := pkgIntConst(u, pkgApp, "AES256KeySize")
	c.check(ok1 && ok2 && ok3 && ns == 12 && tg == 16 && ks == 32, "aead/constants", "", "nonce 12, tag 16, key 32 bytes", fmt.Sprintf("layout constants changed: nonce=%d tag=%d key=%d (documented 12/16/32)", ns, tg, ks))
	enc := u.Method(pkgAead, "cryptoFunc", "Encrypt")
	dec := u.Method(pkgAead, "cryptoFunc", "Decrypt")
	if enc == nil || dec == nil {
		c.unresolved("cryptoFunc", "Encrypt/Decrypt")
		return
	}
	c.FuncsAnalysed[shortName(enc)] = true
	c.FuncsAnalysed[shortName(dec)] = true
	isNonceSize := func(v ssa.Value) bool {
		cv, ok := resolve(v).(*ssa.Call)
		if ok && cv.Call.IsInvoke() && cv.Call.Method.Name() == "NonceSize" {
			return true
		}
		k, isC := constOf(v)
		return isC && k.ExactString() == "12"
	}
	isLenMinusNonce := func(v ssa.Value, of ssa.Value) bool {
		b, ok := resolve(v).(*ssa.BinOp)
		if !ok || b.Op != token.SUB || !isNonceSize(b.Y) {
			return false
		}
		// the buffer's own length: len(buf), or the very value buf was made with
		if mk, isMk := resolve(of).(*ssa.MakeSlice); isMk && resolve(b.X) == resolve(mk.Len) {
			return true
		}
		cv, ok := resolve(b.X).(*ssa.Call)
		if !ok {
			return false
		}
		bi, isB := cv.Call.Value.(*ssa.Builtin)
		return isB && bi.Name() == "len" && resolve(cv.Call.Args[0]) == resolve(of)
	}
	// Encrypt (the seal step may sit in a helper of the package: the layout is judged there, and Encrypt must hand
	// back what the helper returns)
	{
		outer := enc
		enc, encVia, encData := aeadStepHost(outer, "Seal")
		if enc == nil {
			enc, encVia, encData = outer, nil, 1
		}
		c.FuncsAnalysed[shortName(enc)] = true
		var buf *ssa.MakeSlice
		allInstrs(enc, func(i ssa.Instruction) {
			if m, ok := i.(*ssa.MakeSlice); ok {
				buf = m
			}
		})
		var problems []string
		if buf == nil {
			problems = append(problems, "no output buffer allocation")
		} else {
			// size = len(data) + 16 + 12 (constant-folded: len(data) + 28 or chain of adds)
			sum, hasLen := addChain(buf.Len, enc, encData)
			if !hasLen || sum != 28 {
				problems = append(problems, fmt.Sprintf("output buffer is not len(data)+tag+nonce (constant part %d, documented 28)", sum))
			}
			var seal *ssa.Call
			allInstrs(enc, func(i ssa.Instruction) {
				cc := callOf(i)
				if cc != nil && cc.IsInvoke() && cc.Method.Name() == "Seal" {
					seal, _ = i.(*ssa.Call)
				}
			})
			if seal == nil {
				problems = append(problems, "no Seal call")
			} else {
				dst, _ := strip(seal.Call.Args[0]).(*ssa.Slice)
				non, _ := strip(seal.Call.Args[1]).(*ssa.Slice)
				if dst == nil || resolve(dst.X) != ssa.Value(buf) || dst.Low != nil || !isConstInt(dst.High, 0) {
					problems = append(problems, "Seal does not write from offset 0 of the output buffer (buf[:0])")
				}
				if non == nil || resolve(non.X) != ssa.Value(buf) || non.High != nil || !isLenMinusNonce(non.Low, buf) {
					problems = append(problems, "nonce is not the last NonceSize bytes of the output buffer")
				}
				if encData < 0 || !isParamNamed(seal.Call.Args[2], enc, encData) || !isNilConst(strip(seal.Call.Args[3])) {
					problems = append(problems, "Seal plaintext/additional-data operands changed (documented: payload, no AAD)")
				}
				// FillRandom on the same region dominates Seal
				filled := false
				allInstrs(enc, func(i ssa.Instruction) {
					if staticIs(i, pkgInt+".FillRandom") && instrDominates(i, seal) {
						if sl, ok := strip(callOf(i).Args[0]).(*ssa.Slice); ok && resolve(sl.X) == ssa.Value(buf) && sl.High == nil && isLenMinusNonce(sl.Low, buf) {
							filled = true
						}
					}
				})
				if !filled {
					problems = append(problems, "the nonce region is not filled by FillRandom before Seal")
				}
				// the returned value is the buffer
				if encVia == nil {
					for _, r := range returnsOf(enc) {
						if isNilValue(returnedValue(r, 1)) && resolve(returnedValue(r, 0)) != ssa.Value(buf) {
							problems = append(problems, "Encrypt does not return the ciphertext‖tag‖nonce buffer")
						}
					}
				} else {
					for _, r := range returnsOf(enc) {
						if resolve(returnedValue(r, 0)) != ssa.Value(buf) {
							problems = append(problems, "the seal helper does not return the ciphertext‖tag‖nonce buffer")
						}
					}
					for _, r := range returnsOf(outer) {
						if !isNilValue(returnedValue(r, 1)) {
							continue
						}
						got := resolve(returnedValue(r, 0))
						if ex, isEx := got.(*ssa.Extract); isEx && ex.Index == 0 {
							got = ex.Tuple
						}
						if got != ssa.Value(encVia) {
							problems = append(problems, "Encrypt does not return the seal helper's ciphertext‖tag‖nonce buffer")
						}
					}
				}
			}
		}
		c.check(len(problems) == 0, "aead.cryptoFunc.Encrypt/layout", u.pos(outer.Pos()), "ciphertext ‖ 16-byte tag ‖ 12-byte random nonce", strings.Join(problems, "; "))
	}
	// Decrypt
	{
		var problems []string
		var open *ssa.Call
		outerDec := dec
		dec, _, decData := aeadStepHost(outerDec, "Open")
		if dec == nil || decData < 0 {
			dec, decData = outerDec, 1
		}
		c.FuncsAnalysed[shortName(dec)] = true
		allInstrs(dec, func(i ssa.Instruction) {
			cc := callOf(i)
			if cc != nil && cc.IsInvoke() && cc.Method.Name() == "Open" {
				open, _ = i.(*ssa.Call)
			}
		})
		if open == nil {
			problems = append(problems, "no Open call")
		} else {
			data := dec.Params[decData]
			non, _ := strip(open.Call.Args[1]).(*ssa.Slice)
			ct, _ := strip(open.Call.Args[2]).(*ssa.Slice)
			if non == nil || resolve(non.X) != ssa.Value(data) || non.High != nil || !isLenMinusNonce(non.Low, data) {
				problems = append(problems, "nonce is not read from the last NonceSize bytes of the input")
			}
			if ct == nil || resolve(ct.X) != ssa.Value(data) || ct.Low != nil || !isLenMinusNonce(ct.High, data) {
				problems = append(problems, "ciphertext‖tag is not the input up to len-NonceSize")
			}
			if !isNilConst(strip(open.Call.Args[3])) {
				problems = append(problems, "additional data is not nil")
			}
		}
		c.check(len(problems) == 0, "aead.cryptoFunc.Decrypt/layout", u.pos(outerDec.Pos()), "reads nonce from the tail, ciphertext‖tag from the head", strings.Join(problems, "; "))
		dec = outerDec
		// minimum length: the only length-based rejection is `len(data) < NonceSize()` (or < NonceSize()+Overhead()): the
		// ciphertext of an empty payload (tag ‖ nonce, 28 bytes) must be accepted
		data := dec.Params[1]
		isLen := func(v ssa.Value) bool { return isLenOf(v, data) }
		isOverhead := func(v ssa.Value) bool {
			cv, ok := resolve(v).(*ssa.Call)
			if ok && cv.Call.IsInvoke() && cv.Call.Method.Name() == "Overhead" {
				return true
			}
			return isConstInt(v, 16)
		}
		isMin := func(v ssa.Value) bool {
			if isNonceSize(v) {
				return true
			}
			if b, ok := resolve(v).(*ssa.BinOp); ok && b.Op == token.ADD {
				return (isNonceSize(b.X) && isOverhead(b.Y)) || (isNonceSize(b.Y) && isOverhead(b.X))
			}
			return isConstInt(v, 28)
		}
		mentionsLen := func(v ssa.Value) bool {
			seen := map[ssa.Value]bool{}
			var walk func(x ssa.Value) bool
			walk = func(x ssa.Value) bool {
				x = resolve(x)
				if seen[x] {
					return false
				}
				seen[x] = true
				if isLen(x) {
					return true
				}
				if b, ok := x.(*ssa.BinOp); ok {
					return walk(b.X) || walk(b.Y)
				}
				return false
			}
			return walk(v)
		}
		bad := ""
		for _, b := range dec.Blocks {
			if len(b.Instrs) == 0 {
				continue
			}
			iff, ok := b.Instrs[len(b.Instrs)-1].(*ssa.If)
			if !ok {
				continue
			}
			for _, fct := range normFact(Fact{V: iff.Cond, True: true}) {
				bo, isB := fct.V.(*ssa.BinOp)
				if !isB || !(mentionsLen(bo.X) || mentionsLen(bo.Y)) {
					continue
				}
				okForm := (bo.Op == token.LSS && isLen(bo.X) && isMin(bo.Y)) || (bo.Op == token.GTR && isMin(bo.X) && isLen(bo.Y)) ||
					(bo.Op == token.GEQ && isLen(bo.X) && isMin(bo.Y)) || (bo.Op == token.LEQ && isMin(bo.X) && isLen(bo.Y)) ||
					(bo.Op == token.LSS && isLenMinusNonce(bo.X, data) && isOverhead(bo.Y))
				if !okForm {
					bad = u.ipos(iff) + " " + bo.String()
				}
			}
		}
		c.check(bad == "", "aead.cryptoFunc.Decrypt/min-length", u.pos(dec.Pos()), "length precondition is len(data) < NonceSize() [+ Overhead()]", "Decrypt rejects by a length test other than len(data) < NonceSize()[+Overhead()]: ciphertexts an independent implementation emits (e.g. the 28-byte ciphertext of an empty payload) would be refused: "+bad)
	}
	// key size used for generated keys
	gk := u.Method(pkgApp, "envelopeEncryption", "generateKey")
	ep := u.Method(pkgApp, "envelopeEncryption", "EncryptPayload")
	okSize := true
	n := 0
	_, _ = gk, ep
	for _, f := range u.RepoFuncs {
		if f == nil || f.Blocks == nil || rootFunc(f).Pkg == nil || rootFunc(f).Pkg.Pkg.Path() != pkgApp {
			continue
		}
		allInstrs(f, func(i ssa.Instruction) {
			if staticIs(i, pkgInt+".GenerateKey") {
				n++
				if !isConstInt(callOf(i).Args[2], 32) {
					okSize = false
				}
			}
		})
	}
	c.check(okSize && n >= 2, "appencryption/key-size", "", "every generated key is 32 bytes (AES-256)", "a key is generated with a size other than 32 bytes")
}

func isConstInt(v ssa.Value, want int64) bool {
	if v == nil {
		return false
	}
	k, ok := constOf(v)
	if !ok {
		return false
	}
	n, exact := constantInt64(k)
	return exact && n == want
}

// addChain: v = len(data) + c1 + c2 … → (sum of constants, saw len(param #1)).
func addChain(v ssa.Value, f *ssa.Function, dataIdx int) (int64, bool) {
	v = resolve(v)
	if k, ok := constOf(v); ok {
		n, _ := constantInt64(k)
		return n, false
	}
	if cv, ok := v.(*ssa.Call); ok {
		if bi, isB := cv.Call.Value.(*ssa.Builtin); isB && bi.Name() == "len" && dataIdx >= 0 && isParamNamed(cv.Call.Args[0], f, dataIdx) {
			return 0, true
		}
	}
	if b, ok := v.(*ssa.BinOp); ok && b.Op == token.ADD {
		a, la := addChain(b.X, f, dataIdx)
		c2, lb := addChain(b.Y, f, dataIdx)
		return a + c2, la || lb
	}
	if cv, ok := v.(*ssa.Convert); ok {
		return addChain(cv.X, f, dataIdx)
	}
	return -1 << 40, false
}

func ruleC18KeyIDs(c *Ctx) {
	u := c.U1
	c.rule("C18.key-ids", "SystemKeyID / IntermediateKeyID of both partition types are Sprintf of the documented formats with operands in the documented order", 4)
	want := map[string]struct {
		format string
		fields []string
	}{
		"defaultPartition.SystemKeyID":        {"_SK_%s_%s", []string{"service", "product"}},
		"defaultPartition.IntermediateKeyID":  {"_IK_%s_%s_%s", []string{"id", "service", "product"}},
		"suffixedPartition.SystemKeyID":       {"_SK_%s_%s_%s", []string{"service", "product", "suffix"}},
		"suffixedPartition.IntermediateKeyID": {"_IK_%s_%s_%s_%s", []string{"id", "service", "product", "suffix"}},
	}
	for key, w := range want {
		parts := strings.Split(key, ".")
		f := u.Method(pkgApp, parts[0], parts[1])
		if f == nil {
			c.unresolved(key, "method")
			continue
		}
		c.FuncsAnalysed[shortName(f)] = true
		for _, r := range returnsOf(f) {
			format, args, ok := sprintfParts(r.Results[0])
			if !ok {
				c.undecided(key, u.ipos(r), "result is not fmt.Sprintf of a constant format")
				continue
			}
			var fields []string
			for _, a := range args {
				_, fld, isF := fieldAccess(resolve(a))
				if mi, isMI := a.(*ssa.MakeInterface); isMI {
					_, fld, isF = fieldAccess(resolve(mi.X))
				}
				if !isF {
					fld = "?"
				}
				fields = append(fields, fld)
			}
			c.check(format == w.format && reflect.DeepEqual(fields, w.fields), key, u.ipos(r), fmt.Sprintf("%q %v", format, fields),
				fmt.Sprintf("key id is built as %q %v, documented %q %v: existing key tables and other language SDKs use the documented ids", format, fields, w.format, w.fields))
		}
	}
}

// ruleC18KeyIDOperands: the operands really are what their names say — the partition constructors fill id/service/
// product/suffix from their namesake parameters, and the factory passes (partition id, Config.Service, Config.Product
// [, metastore region suffix]) in that order.
func ruleC18KeyIDOperands(c *Ctx) {
	u := c.U1
	c.rule("C18.key-id-operands", "newPartition/newSuffixedPartition store their (partition, service, product[, suffix]) parameters in the namesake fields, and every call passes the session's partition id, Config.Service, Config.Product (and GetRegionSuffix()) in that order", 4)
	for _, ctor := range []string{"newPartition", "newSuffixedPartition"} {
		f := u.Func(pkgApp, ctor)
		if f == nil {
			c.unresolved(ctor, "function")
			continue
		}
		c.FuncsAnalysed[shortName(f)] = true
		// collect stores of parameters into fields (through nested literals)
		got := map[string]string{}
		allInstrs(f, func(i ssa.Instruction) {
			st, ok := i.(*ssa.Store)
			if !ok {
				return
			}
			if p, isP := st.Val.(*ssa.Parameter); isP {
				if _, fld, isF := fieldAccess(st.Addr); isF {
					got[fld] = p.Name()
				}
			}
		})
		// nested constructor call: newSuffixedPartition may build its embedded defaultPartition through newPartition
		allInstrs(f, func(i ssa.Instruction) {
			if g := staticCallee(i); g != nil && g.Name() == "newPartition" && g != f {
				for k, a := range callOf(i).Args {
					if p, isP := a.(*ssa.Parameter); isP && k < len(g.Params) {
						got[map[string]string{"partition": "id"}[g.Params[k].Name()]+map[string]string{"service": "service", "product": "product"}[g.Params[k].Name()]] = p.Name()
					}
				}
			}
		})
		want := map[string]string{"id": "partition", "service": "service", "product": "product"}
		if ctor == "newSuffixedPartition" {
			want["suffix"] = "suffix"
		}
		var probs []string
		for fld, par := range want {
			if got[fld] != par {
				probs = append(probs, fmt.Sprintf("field %s is filled from %q, expected parameter %s", fld, got[fld], par))
			}
		}
		sort.Strings(probs)
		c.check(len(probs) == 0, ctor+"/fields", u.pos(f.Pos()), "fields filled from namesake parameters", strings.Join(probs, "; "))
	}
	// call sites
	n := 0
	for _, f := range u.RepoFuncs {
		if f.Pkg == nil || f.Pkg.Pkg.Path() != pkgApp {
			continue
		}
		allInstrs(f, func(i ssa.Instruction) {
			g := staticCallee(i)
			if g == nil || g.Pkg == nil || g.Pkg.Pkg.Path() != pkgApp || (g.Name() != "newPartition" && g.Name() != "newSuffixedPartition") || g.Signature.Recv() != nil {
				return
			}
			if rootFunc(f).Name() == "newSuffixedPartition" {
				return // nested constructor, checked above
			}
			n++
			var got []string
			for _, a := range callOf(i).Args {
				d := accessPath(a)
				switch {
				case strings.HasSuffix(d, ".Config.Service") || strings.HasSuffix(d, ".Service"):
					d = "service"
				case strings.HasSuffix(d, ".Config.Product") || strings.HasSuffix(d, ".Product"):
					d = "product"
				default:
					if _, isP := a.(*ssa.Parameter); isP {
						d = "id"
					} else if cv, isC := resolve(a).(*ssa.Call); isC && methodNameOf(&cv.Call) == "GetRegionSuffix" {
						d = "suffix"
					}
				}
				got = append(got, d)
			}
			want := "id,service,product"
			if g.Name() == "newSuffixedPartition" {
				want += ",suffix"
			}
			c.check(strings.Join(got, ",") == want, trimPkgDirs(shortName(f))+"/"+g.Name()+"(…)", u.ipos(i), "called with ("+want+")", "called with ("+strings.Join(got, ",")+") instead of ("+want+"): the key ids come out with service and product (or the suffix) in the wrong place — other SDKs and existing key tables use the documented order")
		})
	}
	if n < 2 {
		c.bad("partition/constructor-calls", "", fmt.Sprintf("expected at least 2 partition constructor calls, found %d", n))
	}
}

func ruleC18ProtoMapping(c *Ctx) {
	u := c.U2
	c.rule("C18.proto-mapping", "server/go: toProtobufDRR and fromProtobufDRR map Data↔Data, Key.Created↔Created, Key.EncryptedKey↔Key, ParentKeyMeta.ID↔KeyId, ParentKeyMeta.Created↔Created", 2)
	to := u.Func(pkgServer, "toProtobufDRR")
	from := u.Func(pkgServer, "fromProtobufDRR")
	if to == nil || from == nil {
		c.unresolved("proto mapping", "toProtobufDRR / fromProtobufDRR")
		return
	}
	c.FuncsAnalysed[shortName(to)] = true
	c.FuncsAnalysed[shortName(from)] = true
	// toProtobufDRR
	{
		var lit *ssa.Alloc
		allInstrs(to, func(i ssa.Instruction) {
			if a, ok := i.(*ssa.Alloc); ok && a.Comment == "complit" && typeIsNamed(a.Type(), pkgAPI, "DataRowRecord") {
				lit = a
			}
		})
		var problems []string
		if lit == nil {
			problems = append(problems, "no pb.DataRowRecord literal")
		} else {
			top := litFields(lit)
			key := litFields(resolve(top["Key"]))
			pkm := litFields(resolve(key["ParentKeyMeta"]))
			chk := func(v ssa.Value, want, what string) {
				if v == nil || !strings.HasSuffix(accessPath(v), want) {
					problems = append(problems, fmt.Sprintf("%s comes from %s, expected …%s", what, pathOrNil(v), want))
				}
			}
			chk(top["Data"], "P:drr.Data", "Data")
			chk(key["Created"], "P:drr.Key.Created", "Key.Created")
			chk(key["Key"], "P:drr.Key.EncryptedKey", "Key.Key")
			chk(pkm["Created"], "P:drr.Key.ParentKeyMeta.Created", "ParentKeyMeta.Created")
			chk(pkm["KeyId"], "P:drr.Key.ParentKeyMeta.ID", "ParentKeyMeta.KeyId")
		}
		c.check(len(problems) == 0, "server.toProtobufDRR", u.pos(to.Pos()), "every field from its namesake", strings.Join(problems, "; "))
		// and it is the only place where a wire DataRowRecord is put together: another literal (e.g. a method that reuses
		// parts of the previous record) is a second, unchecked mapping
		for _, g := range u.RepoFuncs {
			root := rootFunc(g)
			if root.Pkg == nil || root.Pkg.Pkg.Path() != pkgServer || g == to || g.Blocks == nil {
				continue
			}
			allInstrs(g, func(i ssa.Instruction) {
				if a, ok := i.(*ssa.Alloc); ok && a.Comment == "complit" && (typeIsNamed(a.Type(), pkgAPI, "DataRowRecord") || typeIsNamed(a.Type(), pkgAPI, "EnvelopeKeyRecord") || typeIsNamed(a.Type(), pkgAPI, "KeyMeta")) {
					c.bad("server/"+g.Name()+"/wire-record-literal", u.ipos(i), "a wire "+namedTypeName(a.Type())+" is assembled outside toProtobufDRR (in "+g.Name()+"): a second mapping whose fields need not come from the record being answered — e.g. parent key metadata remembered from an earlier record, which names the wrong key after a rotation, so the record handed to the client can never be decrypted")
				}
			})
		}
	}
	// fromProtobufDRR: values are getter chains
	{
		var lit *ssa.Alloc
		allInstrs(from, func(i ssa.Instruction) {
			if a, ok := i.(*ssa.Alloc); ok && a.Comment == "complit" && typeIsNamed(a.Type(), modApp, "DataRowRecord") {
				lit = a
			}
		})
		var problems []string
		if lit == nil {
			problems = append(problems, "no appencryption.DataRowRecord literal")
		} else {
			top := litFields(lit)
			key := litFields(resolve(top["Key"]))
			pkm := litFields(resolve(key["ParentKeyMeta"]))
			chk := func(v ssa.Value, want, what string) {
				got := getterChain(v)
				if got != want {
					problems = append(problems, fmt.Sprintf("%s comes from %s, expected %s", what, got, want))
				}
			}
			chk(top["Data"], "GetData", "Data")
			chk(key["EncryptedKey"], "GetKey.GetKey", "Key.EncryptedKey")
			chk(key["Created"], "GetKey.GetCreated", "Key.Created")
			chk(pkm["ID"], "GetKey.GetParentKeyMeta.GetKeyId", "ParentKeyMeta.ID")
			chk(pkm["Created"], "GetKey.GetParentKeyMeta.GetCreated", "ParentKeyMeta.Created")
		}
		c.check(len(problems) == 0, "server.fromProtobufDRR", u.pos(from.Pos()), "every field from its namesake getter", strings.Join(problems, "; "))
	}
}

func pathOrNil(v ssa.Value) string {
	if v == nil {
		return "<unset>"
	}
	return accessPath(v)
}

// getterChain renders drr.GetKey().GetParentKeyMeta().GetKeyId() as "GetKey.GetParentKeyMeta.GetKeyId".
func getterChain(v ssa.Value) string {
	var parts []string
	for n := 0; n < 8 && v != nil; n++ {
		cv, ok := resolve(v).(*ssa.Call)
		if !ok {
			break
		}
		g := staticCallee(cv)
		if g == nil || !strings.HasPrefix(g.Name(), "Get") {
			break
		}
		parts = append([]string{g.Name()}, parts...)
		v = cv.Call.Args[0]
	}
	return strings.Join(parts, ".")
}
