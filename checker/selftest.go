package main

// selftest: engines against built-in fixtures (filled in later).
func selftest(verbose bool) error { return nil }
