package main

// selftest: every engine against the conforming / violating fixtures in checker/fixtures/fx (DESIGN §1.4). Runs at the
// start of every check (≈0.3 s). An engine that stops firing on its violating fixture — or starts firing on the
// conforming one — makes the check abort with exit 2 and no verdict.

import (
	"fmt"
	"go/token"
	"go/types"
	"os"
	"path/filepath"
	"strings"

	"golang.org/x/tools/go/packages"
	"golang.org/x/tools/go/ssa"
	"golang.org/x/tools/go/ssa/ssautil"
)

func fixturesDir() string {
	if v := os.Getenv("VERIF_FIXTURES"); v != "" {
		return v
	}
	// next to the binary (<root>/bin/asherah-verif → <root>/checker/fixtures), independent of VERIF_ROOT
	if exe, err := os.Executable(); err == nil {
		d := filepath.Join(filepath.Dir(filepath.Dir(exe)), "checker", "fixtures")
		if _, err := os.Stat(d); err == nil {
			return d
		}
	}
	return filepath.Join(verifRoot(), "checker", "fixtures")
}

func loadFixtures() (*Universe, error) {
	env := append(baseEnv(), "GOWORK=off", "GOFLAGS=-mod=mod")
	cfg := &packages.Config{Mode: packages.NeedName | packages.NeedFiles | packages.NeedCompiledGoFiles | packages.NeedImports | packages.NeedTypes |
		packages.NeedSyntax | packages.NeedTypesInfo | packages.NeedTypesSizes, Dir: fixturesDir(), Env: env, Fset: token.NewFileSet()}
	pkgs, err := packages.Load(cfg, "./fx")
	if err != nil {
		return nil, err
	}
	if len(pkgs) != 1 || len(pkgs[0].Errors) > 0 {
		return nil, fmt.Errorf("fixtures do not load: %v", pkgs[0].Errors)
	}
	u := &Universe{Name: "fixtures", Fset: cfg.Fset, Pkgs: pkgs, ByPath: map[string]*packages.Package{pkgs[0].PkgPath: pkgs[0]}, SSAPkgs: map[string]*ssa.Package{}}
	prog, sp := ssautil.Packages(pkgs, 0)
	prog.Build()
	u.Prog = prog
	u.SSAPkgs[pkgs[0].PkgPath] = sp[0]
	var add func(f *ssa.Function)
	add = func(f *ssa.Function) {
		if f == nil || f.Blocks == nil {
			return
		}
		u.RepoFuncs = append(u.RepoFuncs, f)
		for _, a := range f.AnonFuncs {
			add(a)
		}
	}
	for _, m := range sp[0].Members {
		switch x := m.(type) {
		case *ssa.Function:
			add(x)
		case *ssa.Type:
			if n, ok := x.Type().(*types.Named); ok {
				for i := 0; i < n.NumMethods(); i++ {
					add(prog.FuncValue(n.Method(i)))
				}
			}
		}
	}
	return u, nil
}

func selftest(verbose bool) error {
	u, err := loadFixtures()
	if err != nil {
		return err
	}
	const fx = "fixtures/fx"
	var fails []string
	expect := func(name string, got, want bool) {
		if verbose {
			fmt.Printf("  %-34s fires=%v want=%v\n", name, got, want)
		}
		if got != want {
			fails = append(fails, fmt.Sprintf("%s: engine fires=%v, expected %v", name, got, want))
		}
	}
	// E-OWN
	r := &ownRules{isRelease: closeRelease}
	for _, tc := range []struct {
		fn   string
		leak bool
	}{{"OwnOkDefer", false}, {"OwnOkReturn", false}, {"OwnBadErrorPath", true}, {"OwnBadSpill", true}} {
		f := u.Func(fx, tc.fn)
		if f == nil {
			return fmt.Errorf("fixture %s missing", tc.fn)
		}
		leak := false
		allInstrs(f, func(i ssa.Instruction) {
			if g := staticCallee(i); g != nil && g.Name() == "newRes" {
				for _, pr := range resultsOfType(i, func(t types.Type) bool { return isPtr(t) && typeIsNamed(t, fx, "Res") }) {
					if !checkOwned(i, pr[0], pr[1], r).OK {
						leak = true
					}
				}
			}
		})
		expect("own/"+tc.fn, leak, tc.leak)
	}
	// E-LOCK
	d := newLockDomain(u, fx, "Guarded", "mu")
	for _, tc := range []struct {
		fn  string
		bad bool
	}{{"OkInc", false}, {"inc", false}, {"OkRead", false}, {"BadWriteUnderRLock", true}, {"BadAfterUnlock", true}} {
		f := u.Method(fx, "Guarded", tc.fn)
		if f == nil {
			return fmt.Errorf("fixture %s missing", tc.fn)
		}
		bad := false
		for _, ga := range guardedAccesses(f, fx, "Guarded", map[string]bool{"n": true}, nil) {
			st := d.stateAt(ga.Instr)
			if (ga.Kind == accWrite && st != lsW) || (ga.Kind == accRead && (st == 0 || st&lsU != 0)) {
				bad = true
			}
		}
		expect("lock/"+tc.fn, bad, tc.bad)
	}
	// E-NIL / facts
	nc := &nilChecker{u: u, cg: newCallGraph(u), visiting: map[string]bool{},
		isSourceCall:  func(c *ssa.Call) bool { g := staticCallee(c); return g != nil && g.Name() == "load" },
		isSourceField: func(base types.Type, field string) bool { return field == "Parent" && typeIsNamed(base, fx, "Rec") }}
	for _, tc := range []struct {
		fn  string
		bad bool
	}{{"NilOk", false}, {"helper", false}, {"NilBad", true}, {"NilBadAnd", true}} {
		f := u.Func(fx, tc.fn)
		if f == nil {
			return fmt.Errorf("fixture %s missing", tc.fn)
		}
		bad := false
		for _, s := range derefSites(f, func(t types.Type) bool { return typeIsNamed(t, fx, "Rec") && !isPtr(t) }) {
			if v := nc.safeAt(s.Ptr, s.Instr.Block(), 0); !v.Safe {
				bad = true
			}
		}
		expect("nil/"+tc.fn, bad, tc.bad)
	}
	// E-CALL closure binding
	cg := newCallGraph(u)
	ra := cg.reachableFrom(u.Func(fx, "EntryA"))
	expect("call/EntryA reaches secretA", ra[u.Func(fx, "secretA")] != nil, true)
	expect("call/EntryA reaches secretB", ra[u.Func(fx, "secretB")] != nil, false)
	// E-FLOW
	for _, tc := range []struct {
		fn  string
		bad bool
	}{{"FlowOk", false}, {"FlowBad", true}, {"FlowBadReturn", true}} {
		f := u.Func(fx, tc.fn)
		if f == nil || len(f.AnonFuncs) == 0 {
			return fmt.Errorf("fixture %s missing", tc.fn)
		}
		t := &taintRun{u: u, notes: map[string]bool{}, seen: map[string]bool{}}
		t.propagate(f.AnonFuncs[0].Params[0], "key bytes", true, 0)
		expect("flow/"+tc.fn, len(t.findings) > 0, tc.bad)
	}
	// lock balance / pairing
	{
		probs, _ := d.balance()
		badFn := map[string]bool{}
		for _, p := range probs {
			badFn[p.Fn.Name()] = true
		}
		for _, tc := range []struct {
			fn  string
			bad bool
		}{{"BalOk", false}, {"OkInc", false}, {"BalBadLeak", true}, {"BalBadMismatch", true}} {
			expect("balance/"+tc.fn, badFn[tc.fn], tc.bad)
		}
	}
	// contradiction (deref of known nil), loop-variable alias
	for _, tc := range []struct {
		fn  string
		bad bool
	}{{"ContraOk", false}, {"ContraBad", true}} {
		f := u.Func(fx, tc.fn)
		if f == nil {
			return fmt.Errorf("fixture %s missing", tc.fn)
		}
		expect("contradiction/"+tc.fn, len(knownNilDerefs(f)) > 0, tc.bad)
	}
	for _, tc := range []struct {
		fn  string
		bad bool
	}{{"LoopAliasOk", false}, {"LoopAliasBad", true}} {
		f := u.Func(fx, tc.fn)
		if f == nil {
			return fmt.Errorf("fixture %s missing", tc.fn)
		}
		expect("loopvar/"+tc.fn, len(loopVarAliasSites(f)) > 0, tc.bad)
	}
	for _, tc := range []struct {
		fn  string
		bad bool
	}{{"CtxOk", false}, {"CtxBad", true}} {
		f := u.Func(fx, tc.fn)
		if f == nil {
			return fmt.Errorf("fixture %s missing", tc.fn)
		}
		expect("goctx/"+tc.fn, len(cancelledContextEscapes(f)) > 0, tc.bad)
	}
	for _, tc := range []struct {
		fn  string
		bad bool
	}{{"IncOk", false}, {"IncBad", true}} {
		f := u.Method(fx, "counter", tc.fn)
		if f == nil {
			return fmt.Errorf("fixture %s missing", tc.fn)
		}
		expect("lostupdate/"+tc.fn, len(lostUpdatesThroughValueReceiver(f)) > 0, tc.bad)
	}
	for _, tc := range []struct {
		fn  string
		bad bool
	}{{"CopyOk", false}, {"CopyBad", true}} {
		f := u.Func(fx, tc.fn)
		if f == nil {
			return fmt.Errorf("fixture %s missing", tc.fn)
		}
		cs := plaintextCopies(f, func(v ssa.Value) bool {
			return isByteSlice(v.Type()) && strings.HasSuffix(trimAddr(accessPath(v)), ".Plaintext")
		})
		expect("plaincopy/"+tc.fn, len(cs) > 0, tc.bad)
	}
	for _, tc := range []struct {
		fn  string
		bad bool
	}{{"ElemOk", false}, {"ElemBad", true}} {
		f := u.Func(fx, tc.fn)
		if f == nil {
			return fmt.Errorf("fixture %s missing", tc.fn)
		}
		dec := map[*types.Named]bool{}
		decodedStructs(u.Named(fx, "envDoc"), dec, 0)
		expect("decoded-elem/"+tc.fn, len(nullableElementDerefs(f, dec)) > 0, tc.bad)
	}
	for _, tc := range []struct {
		fn  string
		bad bool
	}{{"DecodeOk", false}, {"DecodeBad", true}} {
		f := u.Func(fx, tc.fn)
		if f == nil {
			return fmt.Errorf("fixture %s missing", tc.fn)
		}
		expect("decode-target/"+tc.fn, len(nilableDecodeTargetDerefs(f)) > 0, tc.bad)
	}
	for _, tc := range []struct {
		typ string
		bad bool
	}{{"store", false}, {"storeBad", true}} {
		nt := u.Named(fx, tc.typ)
		if nt == nil {
			return fmt.Errorf("fixture %s missing", tc.typ)
		}
		expect("nilled-map/"+tc.typ, len(writesToNilledMaps(u, nt)) > 0, tc.bad)
	}
	for _, tc := range []struct {
		fn  string
		bad bool
	}{{"DelOk", false}, {"DelBad", true}} {
		f := u.Method(fx, "kc", tc.fn)
		if f == nil {
			return fmt.Errorf("fixture %s missing", tc.fn)
		}
		expect("field-method-call/"+tc.fn, len(callsOnFieldMethod(f, "keys", "Delete")) > 0, tc.bad)
	}
	for _, tc := range []struct {
		fn  string
		bad bool
	}{{"PairOk", false}, {"PairBad", true}} {
		f := u.Func(fx, tc.fn)
		if f == nil {
			return fmt.Errorf("fixture %s missing", tc.fn)
		}
		expect("acquire-release/"+tc.fn, len(unreleasedAcquires(f)) > 0, tc.bad)
	}
	for _, tc := range []struct {
		fn  string
		bad bool
	}{{"AtomicOk", false}, {"AtomicBad", true}} {
		f := u.Func(fx, tc.fn)
		if f == nil {
			return fmt.Errorf("fixture %s missing", tc.fn)
		}
		expect("atomic-value/"+tc.fn, len(atomicValueStoresOfInterfaces(f)) > 0, tc.bad)
	}
	for _, tc := range []struct {
		fn  string
		bad bool
	}{{"PresizeOk", false}, {"PresizeBad", true}} {
		f := u.Func(fx, tc.fn)
		if f == nil {
			return fmt.Errorf("fixture %s missing", tc.fn)
		}
		expect("presized-append/"+tc.fn, len(presizedThenAppended(f)) > 0, tc.bad)
	}
	{
		opt := optionalMethodsOf(u, fx, "Metastore")
		hid := hidingWrappers(u, fx, "Metastore", opt)
		names := map[string]bool{}
		for _, h := range hid {
			names[h.Obj().Name()] = true
		}
		expect("hidden-optional/wrapOk", names["wrapOk"], false)
		expect("hidden-optional/wrapBad", names["wrapBad"] && len(opt) == 1, true)
	}
	for _, tc := range []struct {
		fn  string
		bad bool
	}{{"LookupOk", false}, {"LookupBad", true}} {
		f := u.Func(fx, tc.fn)
		if f == nil {
			return fmt.Errorf("fixture %s missing", tc.fn)
		}
		expect("map-lookup-deref/"+tc.fn, len(mapLookupPointerDerefs(f)) > 0, tc.bad)
	}
	for _, tc := range []struct {
		fn  string
		bad bool
	}{{"ReflectOk", false}, {"ReflectBad", true}, {"ReflectUnguarded", true}} {
		f := u.Func(fx, tc.fn)
		if f == nil {
			return fmt.Errorf("fixture %s missing", tc.fn)
		}
		anyBad, n := false, 0
		for _, rc := range kindRestrictedCalls(f) {
			n++
			if rc.Bad != "" {
				anyBad = true
			}
		}
		if n == 0 {
			return fmt.Errorf("fixture %s: no reflect accessor call recognised", tc.fn)
		}
		expect("reflect-accessor/"+tc.fn, anyBad, tc.bad)
	}
	for _, tc := range []struct {
		fn  string
		bad bool
	}{{"RecoverOk", false}, {"RecoverBad", true}, {"RecoverRepanics", false}} {
		f := u.Func(fx, tc.fn)
		if f == nil {
			return fmt.Errorf("fixture %s missing", tc.fn)
		}
		expect("recover-reports-failure/"+tc.fn, len(swallowedPanics(f)) > 0, tc.bad)
	}
	for _, tc := range []struct {
		fn  string
		bad bool
	}{{"DeferCloseOk", false}, {"DeferCloseErrOk", false}, {"DeferCloseBad", true}} {
		f := u.Func(fx, tc.fn)
		if f == nil {
			return fmt.Errorf("fixture %s missing", tc.fn)
		}
		expect("deferred-close-of-returned/"+tc.fn, len(deferredCloseOfReturned(f)) > 0, tc.bad)
	}
	for _, tc := range []struct {
		fn  string
		bad bool
	}{{"RewriteOk", false}, {"RewriteBad", true}} {
		f := u.Func(fx, tc.fn)
		if f == nil {
			return fmt.Errorf("fixture %s missing", tc.fn)
		}
		expect("foreign-struct-store/"+tc.fn, len(storesToForeignStructs(f, func(n *types.Named) bool { return strings.HasSuffix(n.Obj().Name(), "Output") })) > 0, tc.bad)
	}
	for _, tc := range []struct {
		fn  string
		bad bool
	}{{"SdkLogOk", false}, {"SdkLogBad", true}} {
		f := u.Func(fx, tc.fn)
		if f == nil {
			return fmt.Errorf("fixture %s missing", tc.fn)
		}
		expect("sdk-log-switch/"+tc.fn, len(sdkLogSwitches(f)) > 0, tc.bad)
	}
	for _, tc := range []struct {
		fn  string
		bad bool
	}{{"RunMaxBad", true}, {"RunMaxFlagOk", false}, {"RunMaxMinOk", false}} {
		f := u.Func(fx, tc.fn)
		if f == nil {
			return fmt.Errorf("fixture %s missing", tc.fn)
		}
		expect("constant-seeded-extreme/"+tc.fn, len(constantSeededExtremes(f)) > 0, tc.bad)
	}
	for _, tc := range []struct {
		fn  string
		bad bool
	}{{"GoLoopOk", false}, {"GoLoopBad", true}} {
		f := u.Func(fx, tc.fn)
		if f == nil {
			return fmt.Errorf("fixture %s missing", tc.fn)
		}
		expect("go-loop-shared/"+tc.fn, len(sharedMutatedCaptures(f)) > 0, tc.bad)
	}
	if len(fails) > 0 {
		return fmt.Errorf("%s", strings.Join(fails, "; "))
	}
	return nil
}
