package main

// C06 — partition isolation (DESIGN §3 C06). E-DOM + E-LIT.

import (
	"fmt"
	"go/constant"
	"go/token"
	"regexp"
	"sort"
	"strings"

	"golang.org/x/tools/go/ssa"
)

func init() {
	register(&propSpec{
		ID:    "C06",
		Title: "Partition isolation: a session never decrypts another partition's records",
		Explanation: "Structural necessary conditions of C06: (checked-before-use) in DecryptDataRowRecord the partition's IsValidIntermediateKeyID(record's parent key id) guards every key lookup and its false edge " +
			"returns an error; (exact-match) for EVERY implementation of partition.IsValidIntermediateKeyID each acceptance condition is a string equality between the argument and the partition's own " +
			"IntermediateKeyID() — prefix/substring tests accept other partitions' ids; (id-format-injective) every IntermediateKeyID is Sprintf of a constant all-%s format with the partition id as the " +
			"single first operand; (empty-refused) GetSession's id == \"\" test dominates session creation and cache lookup and returns an error; true is returned only on the equal side of the id comparison (a flipped ==/!= is reported even where the prefix finding G10 is known); the partition constructors and their calls keep (id, service, product[, suffix]) in order. Cache states and id collisions across services are not decided.",
		NotDecided:  []string{"all cache states", "ids colliding across different service/product (outside the property)", "behaviour of the region-suffix backwards-compatibility acceptance (recorded as known finding G10)"},
		Assumptions: []string{"string == is exact comparison", "fmt.Sprintf with %s of a string inserts it verbatim"},
		Tech:        "static analysis: guarded-by-condition on SSA, acceptance-condition enumeration for all implementations of the partition interface, constant-folded format strings",
		NeedU1:      true,
		NeedU2:      true,
		Rules:       []func(*Ctx){ruleC06CheckedBeforeUse, ruleC06ExactMatch, ruleC06IDFormat, ruleC06EmptyRefused, ruleC06IDFlowsUnmodified, ruleC18KeyIDOperands, ruleC06KeyCacheIndexExact, ruleC06CachedSessionForRequestedID, ruleC19PartitionVerbatim, ruleC18RegionSuffixIsTheConfiguredRegion},
	})
}

func ruleC06CheckedBeforeUse(c *Ctx) {
	u := c.U1
	c.rule("C06.checked-before-use", "every keyCacher.GetOrLoad / decryptRow in DecryptDataRowRecord is reached only where partition.IsValidIntermediateKeyID(<record>.Key.ParentKeyMeta.ID) is known true for the same record (directly or through a validation helper whose success implies it), and the rejecting edge returns (nil, error)", 2)
	f := u.Method(pkgApp, "envelopeEncryption", "DecryptDataRowRecord")
	if f == nil {
		c.unresolved("DecryptDataRowRecord", "(*envelopeEncryption).DecryptDataRowRecord")
		return
	}
	c.FuncsAnalysed[shortName(f)] = true
	recPath := "P:" + f.Params[2].Name()
	isValidCall := func(v ssa.Value) bool {
		cv, ok := strip(v).(*ssa.Call)
		return ok && invokeIs(cv, pkgApp, "partition", "IsValidIntermediateKeyID")
	}
	// validatedAt: a fact at block b says IsValidIntermediateKeyID(rec.Key.ParentKeyMeta.ID) == true
	validatedAt := func(b *ssa.BasicBlock) (bool, string) {
		why := "no partition validation of the record's parent key id is known to have succeeded here"
		for _, fct := range factsAt(b) {
			if !fct.True || !isValidCall(fct.V) {
				continue
			}
			arg := strip(fct.V).(*ssa.Call).Call.Args[0]
			ap := trimAddr(fct.pathOf(arg))
			if ap == recPath+".Key.ParentKeyMeta.ID" {
				return true, "validated " + ap
			}
			why = "the id being validated (" + ap + ") is not the record's Key.ParentKeyMeta.ID"
		}
		return false, why
	}
	n := 0
	allInstrs(f, func(i ssa.Instruction) {
		if !invokeIs(i, pkgApp, "keyCacher", "GetOrLoad") && !invokeIs(i, pkgApp, "keyCacher", "GetOrLoadLatest") && staticCallee(i) != u.Func(pkgApp, "decryptRow") {
			return
		}
		n++
		construct := shortName(f) + "/" + calleeLabel(i)
		ok, why := validatedAt(i.Block())
		c.check(ok, construct, u.ipos(i), "only where the partition check is known to have passed ("+why+")", "a key lookup / decryption happens on a path that did not pass the partition check for this record ("+why+"): another partition's record would be decrypted")
		if cc := callOf(i); invokeIs(i, pkgApp, "keyCacher", "GetOrLoad") {
			mp := strings.TrimPrefix(accessPath(cc.Args[0]), "*")
			c.check(mp == recPath+".Key.ParentKeyMeta", construct+"/meta", u.ipos(i), "looks up "+mp, "the key looked up ("+mp+") is not the validated record's ParentKeyMeta")
		}
	})
	if n == 0 {
		c.bad(shortName(f)+"/validation", u.pos(f.Pos()), "DecryptDataRowRecord performs no key lookup")
	}
	// every success return (non-nil data possible) must be validated too; equivalently the rejecting paths return errors:
	for _, r := range returnsOf(f) {
		if len(r.Results) < 2 || !isNilValue(returnedValue(r, 1)) {
			// error may be non-nil: fine (reject path or callee's error)
			if k := returnedValue(r, 1); k != nil {
				if _, isC := strip(k).(*ssa.Const); isC && !isNilConst(strip(k)) {
					continue
				}
				if !isNilConst(strip(k)) {
					// error comes from a call (decryptRow / loader): must be on the validated side unless data is nil
					if isNilValue(returnedValue(r, 0)) {
						continue
					}
				}
			}
		}
		if isNilValue(returnedValue(r, 0)) {
			continue
		}
		ok, why := validatedAt(r.Block())
		c.check(ok, shortName(f)+"/data-return", u.ipos(r), "plaintext can be returned only on the validated side", "plaintext can be returned on a path that did not pass the partition check: "+why)
	}
}

// acceptanceLeaves enumerates the boolean leaf conditions that decide f's bool result: If conditions and non-constant
// values flowing into the returned phi / return operand.
func acceptanceLeaves(f *ssa.Function) []ssa.Value {
	seen := map[ssa.Value]bool{}
	var out []ssa.Value
	var add func(v ssa.Value)
	add = func(v ssa.Value) {
		v = strip(v)
		if seen[v] {
			return
		}
		seen[v] = true
		switch x := v.(type) {
		case *ssa.Const:
			return
		case *ssa.Phi:
			for _, e := range x.Edges {
				add(e)
			}
			return
		case *ssa.UnOp:
			if x.Op == token.NOT {
				add(x.X)
				return
			}
		case *ssa.BinOp:
			if (x.Op == token.AND || x.Op == token.OR) && x.X.Type().String() == "bool" {
				add(x.X)
				add(x.Y)
				return
			}
		}
		out = append(out, v)
	}
	for _, b := range f.Blocks {
		if len(b.Instrs) == 0 {
			continue
		}
		if iff, ok := b.Instrs[len(b.Instrs)-1].(*ssa.If); ok {
			add(iff.Cond)
		}
	}
	for _, r := range returnsOf(f) {
		if len(r.Results) > 0 {
			add(returnedValue(r, 0))
		}
	}
	return out
}

func ruleC06ExactMatch(c *Ctx) {
	u := c.U1
	c.rule("C06.exact-match", "for every implementation of partition.IsValidIntermediateKeyID, every acceptance condition is `id == <own or embedded partition>.IntermediateKeyID()`", 2)
	iface := u.Iface(pkgApp, "partition")
	if iface == nil {
		c.unresolved("partition", "appencryption.partition")
		return
	}
	for _, n := range u.Implementations(iface) {
		f := u.MethodOf(n, "IsValidIntermediateKeyID")
		if f == nil || f.Blocks == nil {
			c.unresolved(n.Obj().Name()+".IsValidIntermediateKeyID", "method body")
			continue
		}
		c.FuncsAnalysed[shortName(f)] = true
		leaves := acceptanceLeaves(f)
		if len(leaves) == 0 {
			c.bad(shortName(f), u.pos(f.Pos()), "accepts or rejects unconditionally (no comparison of the id)")
			continue
		}
		okp, whyp := acceptsOnPositiveSide(f)
		c.check(okp, shortName(f)+"/accepts-on-equal-side", u.pos(f.Pos()), "true only on the equal side of the comparisons", whyp+" — records of other partitions pass the partition check")
		for _, l := range leaves {
			construct := shortName(f) + "/condition[" + strings.ReplaceAll(describeLeaf(l), " ", "") + "]"
			if x, isPrefix := prefixTestOf(l, f); isPrefix {
				construct = shortName(f) + "/condition[prefix-of:" + strings.ReplaceAll(x, " ", "") + "]"
			}
			pos := u.pos(f.Pos())
			if in, ok := l.(ssa.Instruction); ok {
				pos = u.ipos(in)
			}
			b, isB := l.(*ssa.BinOp)
			good := false
			if isB && (b.Op == token.EQL || b.Op == token.NEQ) {
				for _, pr := range [][2]ssa.Value{{b.X, b.Y}, {b.Y, b.X}} {
					if isParamNamed(pr[0], f, 1) && isOwnIKIDCall(pr[1], f) {
						good = true
					}
				}
			}
			if good {
				c.ok(construct, pos, "string equality with the partition's own IntermediateKeyID()")
			} else {
				c.bad(construct, pos, "acceptance condition is not an exact comparison with this partition's own IntermediateKeyID(): "+describeLeaf(l)+" — a prefix/substring test accepts the ids of other partitions (e.g. partition `a` accepts `_IK_a_svc_prod_x…`)")
			}
		}
	}
}

// acceptsOnPositiveSide: f returns true only on the "equal" side of its comparisons: a constant true is returned only
// where a dominating (or incoming-edge) comparison fact has acceptance polarity (== taken true, != taken false, a
// boolean call taken true), and a comparison returned as the value is not a != (nor a negated ==).
func acceptsOnPositiveSide(f *ssa.Function) (bool, string) {
	positive := func(facts []Fact) bool {
		for _, fct := range facts {
			if fct.Sub != nil {
				continue
			}
			switch x := fct.V.(type) {
			case *ssa.BinOp:
				if x.Op == token.EQL && fct.True || x.Op == token.NEQ && !fct.True {
					return true
				}
			case *ssa.Call:
				if fct.True {
					return true
				}
			}
		}
		return false
	}
	var eval func(v ssa.Value, at *ssa.BasicBlock, facts []Fact, neg bool, depth int) string
	eval = func(v ssa.Value, at *ssa.BasicBlock, facts []Fact, neg bool, depth int) string {
		if depth > 6 {
			return "result too deeply nested to decide"
		}
		if k, isC := constOf(v); isC {
			if (k.ExactString() == "true") != neg {
				if facts != nil && positive(facts) {
					return ""
				}
				if facts == nil && holdsOnAllEntries(at, positive) {
					return ""
				}
				return "true is returned on a path that is not the equal side of a comparison with the partition's own key id"
			}
			return ""
		}
		switch x := v.(type) {
		case *ssa.UnOp:
			if x.Op == token.NOT {
				return eval(x.X, at, facts, !neg, depth+1)
			}
		case *ssa.BinOp:
			switch x.Op {
			case token.EQL:
				if neg {
					return "the negation of an equality is returned: every id except the partition's own is accepted"
				}
				return ""
			case token.NEQ:
				if !neg {
					return "a != comparison is returned as the verdict: every id except the partition's own is accepted"
				}
				return ""
			}
		case *ssa.Call:
			if neg {
				return "the negation of a test is returned as the verdict"
			}
			return ""
		case *ssa.Phi:
			for k, e := range x.Edges {
				p := x.Block().Preds[k]
				fs := append(append([]Fact{}, factsAt(p)...), edgeFacts(p, x.Block())...)
				if len(p.Preds) == 1 && len(p.Instrs) <= 1 {
					fs = append(fs, edgeFacts(p.Preds[0], p)...)
				}
				if why := eval(e, p, fs, neg, depth+1); why != "" {
					return why
				}
			}
			return ""
		}
		return "verdict value not recognised"
	}
	for _, r := range returnsOf(f) {
		if len(r.Results) == 0 {
			continue
		}
		if why := eval(returnedValue(r, 0), r.Block(), nil, false, 0); why != "" {
			return false, why
		}
	}
	return true, ""
}

// prefixTestOf: the leaf is a prefix test of the id against some string X (strings.HasPrefix(id, X) or
// strings.Index(id, X) == 0); returns a description of X.
func prefixTestOf(v ssa.Value, f *ssa.Function) (string, bool) {
	desc := func(x ssa.Value) string {
		if cv, ok := resolve(x).(*ssa.Call); ok {
			return trimPkgDirs(calleeLabel(cv))
		}
		return accessPath(x)
	}
	if cv, ok := strip(v).(*ssa.Call); ok && staticIs(cv, "strings.HasPrefix") && isParamNamed(cv.Call.Args[0], f, 1) {
		return desc(cv.Call.Args[1]), true
	}
	if b, ok := v.(*ssa.BinOp); ok && b.Op == token.EQL && isConstInt(b.Y, 0) {
		if cv, isC := strip(b.X).(*ssa.Call); isC && staticIs(cv, "strings.Index") && isParamNamed(cv.Call.Args[0], f, 1) {
			return desc(cv.Call.Args[1]), true
		}
	}
	return "", false
}

func describeLeaf(v ssa.Value) string {
	if b, ok := v.(*ssa.BinOp); ok {
		return fmt.Sprintf("%s %s %s", describeOperand(b.X), b.Op, describeOperand(b.Y))
	}
	return describeOperand(v)
}

func describeOperand(v ssa.Value) string {
	v = strip(v)
	if cv, ok := v.(*ssa.Call); ok {
		return trimPkgDirs(calleeLabel(cv)) + "(...)"
	}
	if k, ok := v.(*ssa.Const); ok {
		return k.String()
	}
	return accessPath(v)
}

// isOwnIKIDCall: v is a call of IntermediateKeyID on f's receiver or on an embedded partition of it.
func isOwnIKIDCall(v ssa.Value, f *ssa.Function) bool {
	cv, ok := strip(v).(*ssa.Call)
	if !ok {
		return false
	}
	g := staticCallee(cv)
	if g == nil || g.Name() != "IntermediateKeyID" || g.Signature.Recv() == nil {
		return false
	}
	rp := strings.TrimPrefix(accessPath(cv.Call.Args[0]), "&")
	own := "P:" + f.Params[0].Name()
	return rp == own || strings.HasPrefix(rp, own+".")
}

var ikFormatRe = regexp.MustCompile(`^_IK_%s(_%s)+$`)
var skFormatRe = regexp.MustCompile(`^_SK_%s(_%s)*$`)

// sprintfParts: if v is fmt.Sprintf(constFormat, args...) returns format and the vararg values.
func sprintfParts(v ssa.Value) (string, []ssa.Value, bool) {
	f, parts, ok := sprintfPartsStrict(v)
	if ok {
		return f, parts, true
	}
	// the same string put together with `+`, strings.Join or a helper of the package
	if f2, p2, ok2 := stringTemplate(v, nil, 0); ok2 && strings.Contains(f2, "%s") && f2 != "%s" {
		return f2, p2, true
	}
	return "", nil, false
}

func sprintfPartsStrict(v ssa.Value) (string, []ssa.Value, bool) {
	cv, ok := resolve(v).(*ssa.Call)
	if !ok {
		return "", nil, false
	}
	if !staticIs(cv, "fmt.Sprintf") {
		// a formatting helper of the package: `func h(format string, parts ...any) string { return fmt.Sprintf(format, parts...) }`
		h := staticCallee(cv)
		if h == nil || h.Blocks == nil || h.Pkg == nil || cv.Parent() == nil || cv.Parent().Pkg != h.Pkg {
			return "", nil, false
		}
		rets := returnsOf(h)
		if len(rets) != 1 || len(rets[0].Results) != 1 {
			return "", nil, false
		}
		inner, isC := resolve(returnedValue(rets[0], 0)).(*ssa.Call)
		if !isC || !staticIs(inner, "fmt.Sprintf") {
			return "", nil, false
		}
		fi, vi := -1, -1
		for k, p := range h.Params {
			if resolve(inner.Call.Args[0]) == ssa.Value(p) {
				fi = k
			}
			if resolve(inner.Call.Args[1]) == ssa.Value(p) {
				vi = k
			}
		}
		if fi < 0 || vi < 0 || fi >= len(cv.Call.Args) || vi >= len(cv.Call.Args) {
			return "", nil, false
		}
		k, isK := constOf(cv.Call.Args[fi])
		if !isK || k.Kind() != constant.String {
			return "", nil, false
		}
		return constant.StringVal(k), varargValues(cv.Call.Args[vi]), true
	}
	k, isC := constOf(cv.Call.Args[0])
	if !isC || k.Kind() != constant.String {
		return "", nil, false
	}
	return constant.StringVal(k), varargValues(cv.Call.Args[1]), true
}

// varargValues: the values stored into the backing array of a varargs slice.
func varargValues(v ssa.Value) []ssa.Value {
	sl, ok := v.(*ssa.Slice)
	if !ok {
		return nil
	}
	arr, ok := sl.X.(*ssa.Alloc)
	if !ok {
		return nil
	}
	vals := map[int64]ssa.Value{}
	for _, r := range *arr.Referrers() {
		ia, ok := r.(*ssa.IndexAddr)
		if !ok {
			continue
		}
		k, isC := constOf(ia.Index)
		if !isC {
			continue
		}
		idx, _ := constantInt64(k)
		for _, rr := range *ia.Referrers() {
			if st, ok := rr.(*ssa.Store); ok && st.Addr == ia {
				vals[idx] = st.Val
			}
		}
	}
	var keys []int64
	for k := range vals {
		keys = append(keys, k)
	}
	sort.Slice(keys, func(i, j int) bool { return keys[i] < keys[j] })
	var out []ssa.Value
	for _, k := range keys {
		out = append(out, vals[k])
	}
	return out
}

func ruleC06IDFormat(c *Ctx) {
	u := c.U1
	c.rule("C06.id-format-injective", "every partition implementation's IntermediateKeyID is fmt.Sprintf of a constant format `_IK_%s(_%s)+` whose first operand is the partition id field and whose other operands are other fields of the partition", 2)
	iface := u.Iface(pkgApp, "partition")
	if iface == nil {
		c.unresolved("partition", "appencryption.partition")
		return
	}
	for _, n := range u.Implementations(iface) {
		f := u.MethodOf(n, "IntermediateKeyID")
		if f == nil || f.Blocks == nil {
			c.unresolved(n.Obj().Name()+".IntermediateKeyID", "method body")
			continue
		}
		c.FuncsAnalysed[shortName(f)] = true
		for _, r := range returnsOf(f) {
			construct := shortName(f) + "/format"
			format, args, ok := sprintfParts(r.Results[0])
			if !ok {
				c.undecided(construct, u.ipos(r), "result is not fmt.Sprintf of a constant format")
				continue
			}
			var fields []string
			for _, a := range args {
				_, fld, isF := fieldAccess(resolve(a))
				if !isF {
					fld = "?"
				}
				fields = append(fields, fld)
			}
			okFmt := ikFormatRe.MatchString(format) && strings.Count(format, "%s") == len(args)
			okArgs := len(fields) >= 3 && fields[0] == "id"
			for _, fl := range fields[1:] {
				if fl == "id" || fl == "?" {
					okArgs = false
				}
			}
			c.check(okFmt && okArgs, construct, u.ipos(r), fmt.Sprintf("%q with operands %v", format, fields),
				fmt.Sprintf("IntermediateKeyID format %q with operands %v is not `_IK_<id>_<fields…>` with the partition id exactly once, first", format, fields))
		}
	}
}

func ruleC06EmptyRefused(c *Ctx) {
	u := c.U1
	c.rule("C06.empty-refused", "in SessionFactory.GetSession both sessionCache.Get and newSession are on the false edge of id == \"\", and the true edge returns (nil, error)", 2)
	f := u.Method(pkgApp, "SessionFactory", "GetSession")
	if f == nil {
		c.unresolved("GetSession", "(*SessionFactory).GetSession")
		return
	}
	c.FuncsAnalysed[shortName(f)] = true
	isEmptyTest := func(v ssa.Value) (neg bool, ok bool) {
		b, isB := v.(*ssa.BinOp)
		if !isB {
			return false, false
		}
		isEmptyStr := func(x ssa.Value) bool {
			k, isC := constOf(x)
			return isC && k.Kind() == constant.String && constant.StringVal(k) == ""
		}
		isLen0 := func(x, y ssa.Value) bool {
			cv, isCall := strip(x).(*ssa.Call)
			if !isCall {
				return false
			}
			bi, isBi := cv.Call.Value.(*ssa.Builtin)
			k, isC := constOf(y)
			return isBi && bi.Name() == "len" && isParamNamed(cv.Call.Args[0], f, 1) && isC && k.ExactString() == "0"
		}
		idVsEmpty := (isParamNamed(b.X, f, 1) && isEmptyStr(b.Y)) || (isParamNamed(b.Y, f, 1) && isEmptyStr(b.X)) || isLen0(b.X, b.Y)
		if !idVsEmpty {
			return false, false
		}
		switch b.Op {
		case token.EQL:
			return false, true
		case token.NEQ:
			return true, true
		}
		return false, false
	}
	nonEmptyAt := func(i ssa.Instruction) bool {
		for _, fct := range factsAt(i.Block()) {
			if neg, ok := isEmptyTest(fct.V); ok && (fct.True == neg) {
				return true
			}
		}
		return false
	}
	n := 0
	allInstrs(f, func(i ssa.Instruction) {
		isGet := invokeIs(i, pkgApp, "sessionCache", "Get")
		isNew := staticCallee(i) != nil && staticCallee(i) == u.Func(pkgApp, "newSession")
		if !isGet && !isNew {
			return
		}
		n++
		c.check(nonEmptyAt(i), shortName(f)+"/"+calleeLabel(i), u.ipos(i), "reached only with id != \"\"", "a session can be created or fetched for the empty partition id")
	})
	if n == 0 {
		c.unresolved(shortName(f)+"/creation", "sessionCache.Get / newSession calls")
	}
	// the empty edge returns (nil, err)
	bad := false
	seenEdge := false
	for _, b := range f.Blocks {
		for _, s := range b.Succs {
			for _, fct := range edgeFacts(b, s) {
				if neg, ok := isEmptyTest(fct.V); ok && fct.True != neg {
					seenEdge = true
					found, _ := pathSearchAt(s, 0, func(j ssa.Instruction) pathAction {
						if r, ok := j.(*ssa.Return); ok {
							if isNilValue(returnedValue(r, 1)) || !isNilValue(returnedValue(r, 0)) {
								return pathFound
							}
							return pathStop
						}
						return pathContinue
					}, nil)
					if found {
						bad = true
					}
				}
			}
		}
	}
	c.check(seenEdge && !bad, shortName(f)+"/reject-empty", u.pos(f.Pos()), "id == \"\" → (nil, error)", "the empty partition id is not rejected with (nil, error)")
}

// ruleC06IDFlowsUnmodified: the partition id given to GetSession reaches the session-cache key, the session loader and
// the partition object unmodified at every hop (a normalised/truncated id would hand out another partition's session).
func ruleC06IDFlowsUnmodified(c *Ctx) {
	u := c.U1
	c.rule("C06.id-flows-unmodified", "at every call site in package appencryption of an id sink (sessionCache.Get, newSession, the session cache's key in Get/Set, the session loader, newPartition/newSuffixedPartition) the id argument is a plain string parameter of the enclosing function (or one captured from an enclosing function) — never a computed value; the constructors store it in partition.id", 10)
	invokeArg := func(iface, meth string, idx int) func(ssa.Instruction) (ssa.Value, bool) {
		return func(i ssa.Instruction) (ssa.Value, bool) {
			cc := callOf(i)
			if cc != nil && cc.IsInvoke() && cc.Method.Name() == meth && strings.HasSuffix(namedTypeName(cc.Value.Type()), iface) && idx < len(cc.Args) {
				return cc.Args[idx], true
			}
			return nil, false
		}
	}
	staticArg := func(name string, idx int) func(ssa.Instruction) (ssa.Value, bool) {
		return func(i ssa.Instruction) (ssa.Value, bool) {
			if g := staticCallee(i); g != nil && g.Name() == name && idx < len(callOf(i).Args) {
				return callOf(i).Args[idx], true
			}
			return nil, false
		}
	}
	fieldCallArg := func(field string, idx int) func(ssa.Instruction) (ssa.Value, bool) {
		return func(i ssa.Instruction) (ssa.Value, bool) {
			cc := callOf(i)
			if cc == nil || cc.IsInvoke() || cc.StaticCallee() != nil {
				return nil, false
			}
			if _, fld, ok := fieldAccess(cc.Value); ok && fld == field && idx < len(cc.Args) {
				return cc.Args[idx], true
			}
			if dynamicCallOfParam(i, field) && idx < len(cc.Args) {
				return cc.Args[idx], true
			}
			return nil, false
		}
	}
	_ = fieldCallArg
	// Sink-based formulation (robust against inlining / extraction of the intermediate functions): at EVERY call site
	// in package appencryption of one of the id sinks below, the id argument is a plain string parameter of the
	// enclosing function (or a parameter of an enclosing function captured by a closure) — never a computed value.
	type sink struct {
		name  string
		match func(ssa.Instruction) (ssa.Value, bool)
		min   int
		only  func(*ssa.Function) bool
	}
	inCacheWrapper := func(f *ssa.Function) bool {
		r := rootFunc(f)
		return r.Signature.Recv() != nil && typeIsNamed(r.Signature.Recv().Type(), pkgApp, "cacheWrapper")
	}
	sinks := []sink{
		{"sessionCache.Get(id)", invokeArg("sessionCache", "Get", 0), 1, nil},
		{"newSession(f, id)", staticArg("newSession", 1), 2, nil},
		{"session cache key Get(id)", invokeArg("Interface", "Get", 0), 1, inCacheWrapper},
		{"session cache key Set(id, …)", invokeArg("Interface", "Set", 0), 1, inCacheWrapper},
		{"loader(id)", func(i ssa.Instruction) (ssa.Value, bool) {
			cc := callOf(i)
			if cc == nil || cc.IsInvoke() || cc.StaticCallee() != nil || len(cc.Args) != 1 || cc.Args[0].Type().String() != "string" {
				return nil, false
			}
			if !strings.HasSuffix(cc.Value.Type().String(), "sessionLoaderFunc") && !strings.Contains(cc.Value.Type().String(), "func(id string) (*") {
				return nil, false
			}
			return cc.Args[0], true
		}, 2, nil},
		{"(*SessionFactory).newPartition(id)", func(i ssa.Instruction) (ssa.Value, bool) {
			if g := staticCallee(i); g != nil && g.Name() == "newPartition" && g.Signature.Recv() != nil && len(callOf(i).Args) > 1 {
				return callOf(i).Args[1], true
			}
			return nil, false
		}, 1, nil},
		{"newPartition(id, …)", func(i ssa.Instruction) (ssa.Value, bool) {
			if g := staticCallee(i); g != nil && (g.Name() == "newPartition" || g.Name() == "newSuffixedPartition") && g.Signature.Recv() == nil && len(callOf(i).Args) > 0 {
				if rootFunc(i.Parent()).Name() == "newSuffixedPartition" {
					return nil, false
				}
				return callOf(i).Args[0], true
			}
			return nil, false
		}, 2, nil},
	}
	isRawIDParam := func(v ssa.Value, f *ssa.Function) bool {
		for fn := f; fn != nil; fn = fn.Parent() {
			for k, p := range fn.Params {
				if p.Type().String() == "string" && isParamOrCaptured(v, fn, k) {
					return true
				}
			}
		}
		return false
	}
	for _, sk := range sinks {
		n := 0
		for _, f := range u.RepoFuncs {
			if f.Pkg == nil || f.Pkg.Pkg.Path() != pkgApp || f.Blocks == nil {
				continue
			}
			if sk.only != nil && !sk.only(f) {
				continue
			}
			allInstrs(f, func(i ssa.Instruction) {
				arg, ok := sk.match(i)
				if !ok {
					return
				}
				n++
				c.CallSites++
				c.FuncsAnalysed[shortName(f)] = true
				c.check(isRawIDParam(arg, f), trimPkgDirs(shortName(f))+"→"+sk.name, u.ipos(i), "passes its id parameter itself", "the partition id is transformed on its way ("+accessPath(arg)+" instead of the function's id parameter): two different partition ids can end up sharing a session / key id")
			})
		}
		if n < sk.min {
			c.bad(sk.name, "", fmt.Sprintf("expected at least %d call sites of this id sink in package appencryption, found %d", sk.min, n))
		}
	}
	// constructors store the id parameter into the partition's id field
	for _, ctor := range []string{"newPartition", "newSuffixedPartition"} {
		f := u.Func(pkgApp, ctor)
		if f == nil {
			c.unresolved(ctor, "function")
			continue
		}
		ok := false
		allInstrs(f, func(i ssa.Instruction) {
			if st, isSt := i.(*ssa.Store); isSt {
				if _, fld, isF := fieldAccess(st.Addr); isF && fld == "id" && isParamNamed(st.Val, f, 0) {
					ok = true
				}
				// embedded partition built by another constructor given the id parameter first
				if _, fld, isF := fieldAccess(st.Addr); isF && fld == "defaultPartition" {
					if cv, isC := resolve(st.Val).(*ssa.Call); isC {
						if g := staticCallee(cv); g != nil && (g.Name() == "newPartition") && isParamNamed(cv.Call.Args[0], f, 0) {
							ok = true
						}
					}
				}
			}
		})
		c.check(ok, ctor+"/id-field", u.pos(f.Pos()), "partition.id = the id parameter", "the partition object does not store the id it was created for unchanged")
	}
}

// ruleC06KeyCacheIndexExact: the key cache finds keys by exactly the key id it is asked for. Every index into
// keyCache.latest and every key handed to keyCache.keys.Get/Set/Delete is a cacheKey(id, created) call whose id operand is
// an unmodified id (a string parameter, or the ID field of a KeyMeta), and cacheKey itself concatenates its id parameter,
// unmodified, with the decimal created stamp. A normalised (case-folded, trimmed, truncated) index makes two partitions'
// keys alias each other in a shared cache: one partition's data keys get wrapped under the other's intermediate key.
func ruleC06KeyCacheIndexExact(c *Ctx) {
	u := c.U1
	c.rule("C06.key-cache-index-exact", "every index into keyCache.latest and every key given to keyCache.keys.Get/Set/Delete is cacheKey(<unmodified id>, <created>); cacheKey(id, created) = id + FormatInt(created, 10) with the id parameter itself", 5)
	ck := u.Func(pkgApp, "cacheKey")
	if ck == nil {
		c.unresolved("cacheKey", "appencryption.cacheKey")
		return
	}
	c.FuncsAnalysed[shortName(ck)] = true
	// cacheKey shape
	okShape := false
	for _, r := range returnsOf(ck) {
		if bo, ok := resolve(returnedValue(r, 0)).(*ssa.BinOp); ok && bo.Op == token.ADD {
			if isParamNamed(bo.X, ck, 0) {
				if cv, isC := resolve(bo.Y).(*ssa.Call); isC && (staticIs(cv, "strconv.FormatInt") || staticIs(cv, "strconv.Itoa")) && isParamNamed(cv.Call.Args[0], ck, 1) {
					okShape = true
				}
			}
		}
		if f, args, ok := sprintfParts(returnedValue(r, 0)); ok && len(args) == 2 && (f == "%s%d" || f == "%s-%d" || f == "%s_%d") {
			okShape = isParamNamed(unwrapIface(args[0]), ck, 0) && isParamNamed(unwrapIface(args[1]), ck, 1)
		}
	}
	c.check(okShape, "cacheKey/shape", u.pos(ck.Pos()), "id (unmodified) followed by the decimal created stamp", "cacheKey no longer builds the index from its id parameter unmodified and the decimal created stamp")
	rawID := func(v ssa.Value) bool {
		v = resolve(v)
		if p, ok := v.(*ssa.Parameter); ok {
			return p.Type().String() == "string"
		}
		if _, fld, ok := fieldAccess(v); ok && fld == "ID" {
			return true
		}
		if _, isFV := v.(*ssa.FreeVar); isFV {
			return true
		}
		ap := accessPath(v)
		return strings.HasSuffix(ap, ".ID") || (strings.HasPrefix(ap, "P:") && !strings.Contains(ap, "."))
	}
	var isCacheKeyCall func(v ssa.Value) (bool, string)
	helperDepth := 0
	isCacheKeyCall = func(v ssa.Value) (bool, string) {
		cv, ok := resolve(v).(*ssa.Call)
		if ok && staticCallee(cv) != ck {
			// a helper of this package that returns such an index on every return
			if h := staticCallee(cv); h != nil && h.Blocks != nil && h.Pkg != nil && h.Pkg.Pkg.Path() == pkgApp && helperDepth < 2 && h.Signature.Results().Len() == 1 {
				helperDepth++
				defer func() { helperDepth-- }()
				for _, r := range returnsOf(h) {
					vals := []ssa.Value{returnedValue(r, 0)}
					if phi, isPhi := resolve(vals[0]).(*ssa.Phi); isPhi {
						vals = phi.Edges
					}
					for _, rv := range vals {
						if good, why := isCacheKeyCall(rv); !good {
							return false, why
						}
					}
				}
				return true, ""
			}
		}
		if !ok || staticCallee(cv) != ck {
			return false, "the index is not a cacheKey(...) call: " + describeOperand(v)
		}
		if !rawID(cv.Call.Args[0]) {
			return false, "cacheKey is given a transformed id: " + describeOperand(cv.Call.Args[0])
		}
		return true, ""
	}
	n := 0
	for _, f := range u.RepoFuncs {
		if f.Pkg == nil || f.Pkg.Pkg.Path() != pkgApp || f.Blocks == nil {
			continue
		}
		r := rootFunc(f)
		if r.Signature.Recv() == nil || !typeIsNamed(r.Signature.Recv().Type(), pkgApp, "keyCache") {
			continue
		}
		allInstrs(f, func(i ssa.Instruction) {
			var idx ssa.Value
			what := ""
			switch x := i.(type) {
			case *ssa.Lookup:
				if _, fld, ok := fieldAccess(x.X); ok && fld == "latest" {
					idx, what = x.Index, "latest[…]"
				}
			case *ssa.MapUpdate:
				if _, fld, ok := fieldAccess(x.Map); ok && fld == "latest" {
					idx, what = x.Key, "latest[…]="
				}
			case *ssa.Call:
				if x.Call.IsInvoke() {
					if _, fld, ok := fieldAccess(x.Call.Value); ok && fld == "keys" {
						switch x.Call.Method.Name() {
						case "Get", "Set", "Delete", "GetOrPanic":
							idx, what = x.Call.Args[0], "keys."+x.Call.Method.Name()
						}
					}
				}
			}
			if idx == nil {
				return
			}
			n++
			c.FuncsAnalysed[shortName(f)] = true
			// the index may be a local that is assigned cacheKey(...) on every way in (phi)
			vals := []ssa.Value{idx}
			if phi, isPhi := resolve(idx).(*ssa.Phi); isPhi {
				vals = phi.Edges
			} else if p, isP := resolve(idx).(*ssa.Parameter); isP && p.Type().String() == "string" {
				// helper taking the ready-made index: check its call sites instead
				vals = nil
				for _, g := range u.RepoFuncs {
					allInstrs(g, func(j ssa.Instruction) {
						if staticCallee(j) == f {
							for k, q := range f.Params {
								if q == p && k < len(callOf(j).Args) {
									vals = append(vals, callOf(j).Args[k])
								}
							}
						}
					})
				}
			}
			ok, why := len(vals) > 0, "no value reaches the index"
			for _, v := range vals {
				if good, w := isCacheKeyCall(v); !good {
					ok, why = false, w
				}
			}
			c.check(ok, trimPkgDirs(shortName(f))+"/"+what, u.ipos(i), "indexed by cacheKey(<unmodified id>, created)", why+" — ids that differ only in what the transformation discards share cache entries (one partition's key is handed out for another)")
		})
	}
	if n < 5 {
		c.bad("keyCache/index-sites", "", fmt.Sprintf("expected at least 5 index sites in keyCache (latest lookups/updates, keys.Get/Set), found %d", n))
	}
}
