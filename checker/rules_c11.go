package main

// C11 — secure memory protection states (DESIGN §3 C11). E-LOCK + typestate; both back ends as siblings.

import (
	"fmt"
	"go/constant"
	"go/token"
	"strings"

	"golang.org/x/tools/go/ssa"
)

func init() {
	register(&propSpec{
		ID:    "C11",
		Title: "Secure memory: locked, no-access when idle, readable only in use, gone on Close",
		Explanation: "Structural necessary conditions of C11 for BOTH secure-memory implementations (protectedmemory, memguard): (guarded-fields) accessCounter/closing/closed are read only with rw held and written only " +
			"with the write lock (lock-state dataflow with call-site-derived helper entry states); (bracket) WithBytes/WithBytesFunc hand the bytes to the action only after access() returned nil and with release() already " +
			"deferred (so it also runs when the action panics); (protection-transitions) access passes Protect(ReadOnly) on the 0→1 edge before incrementing, release passes Protect(NoAccess) on the →0 edge, every successful " +
			"creation ends with Protect(NoAccess), newSecret passes Alloc then Lock; (close-waits-and-orders) Close sets closing first, destroys only under accessCounter == 0 with the lock held, otherwise waits on the condition " +
			"variable; every decrement is followed by Broadcast; close() is ordered Protect(ReadWrite) → wipe → Unlock → Free → closed=true; access refuses closing/closed secrets before touching protection; " +
			"(core-dumps) protectedmemory imports memguard/core (whose init disables core dumps); (flags-monotonic) closing/closed only ever become true; (lock-balanced) rw is paired (Lock/Unlock, RLock/RUnlock) and balanced on every path of both back ends. Kernel page state and interleavings are not decided.",
		NotDecided:  []string{"what the kernel's page tables say (mlock/PROT_* as observed in smaps)", "reader/closer interleavings at run time", "memguard and memcall internals", "that readers see the original bytes (value-level)"},
		Assumptions: []string{"memcall.Interface methods perform the named syscalls", "memguard/core's init calls DisableCoreDumps (as its documentation and the source comment in protectedmemory state)", "sync.Cond.Wait keeps the lock held on return"},
		Tech:        "static analysis: lock-state dataflow, must-pass-through and ordering (dominance) rules on SSA, applied to both SecretFactory back ends",
		NeedU1:      true,
		Rules:       []func(*Ctx){ruleC11ProtectedStructNotRendered, countersCannotWrapRule("C11", 2, pkgProt, pkgMemg), ruleC11GuardedFields, ruleC11Bracket, ruleC11ProtectionTransitions, ruleC11NoStaleCounterDecision, ruleC11ReaderCopiesOnlyToCaller, ruleC11CloseWaitsAndOrders, ruleC11CoreDumps, ruleSecretFlagsMonotonic, ruleC11PageStateUnderLock, ruleC11SyscallWrapperDirect, ruleC11AccessorsOnFinalizerOwner, condOnSameLockRule("C11", [4]string{pkgProt, "secretInternal", "rw", "c"}, [4]string{pkgMemg, "secret", "rw", "c"}), lostUpdateRule("C11", "github.com/godaddy/asherah/go/securememory"), lockBalancedRule("C11", 10, lockDomSpec{pkgProt, "secretInternal", "rw"}, lockDomSpec{pkgMemg, "secret", "rw"}), nilContradictionRule("C12", false, "github.com/godaddy/asherah/go/securememory"), ruleC11ProtectionAliasesAreNamesakes, ruleC11CleanUnlocksBeforeFreeing, ruleC12WipeBeforeRelease},
	})
}

type secBackend struct {
	pkg, typ string // type owning rw/accessCounter
	outer    string // type with WithBytes methods
	fields   map[string]bool
}

var secBackends = []secBackend{
	{pkgProt, "secretInternal", "secret", map[string]bool{"accessCounter": true, "closing": true, "closed": true}},
	{pkgMemg, "secret", "secret", map[string]bool{"accessCounter": true, "closing": true}},
}

// mcOp: i is a call of a memcall.Interface-family method; returns its name ("Alloc","Lock","Unlock","Free","Protect").
func mcOp(i ssa.Instruction) string {
	cc := callOf(i)
	if cc == nil || !cc.IsInvoke() {
		return ""
	}
	n, ok := namedOf(cc.Value.Type())
	if !ok || n.Obj().Pkg() == nil || n.Obj().Pkg().Path() != pkgMemcall {
		return ""
	}
	switch cc.Method.Name() {
	case "Alloc", "Lock", "Unlock", "Free", "Protect":
		return cc.Method.Name()
	}
	return ""
}

// protectFlag: for a Protect call, the name of the memcall flag constructor passed ("NoAccess","ReadOnly","ReadWrite").
func protectFlag(i ssa.Instruction) string {
	if mcOp(i) != "Protect" {
		return ""
	}
	cv, ok := resolve(callOf(i).Args[1]).(*ssa.Call)
	if !ok {
		return ""
	}
	g := staticCallee(cv)
	if g == nil || g.Pkg == nil || g.Pkg.Pkg.Path() != pkgMemcall {
		return ""
	}
	return g.Name()
}

func errOfCall(i ssa.Instruction) ssa.Value {
	for _, pr := range resultsOfType(i, isErrorType) {
		return pr[0]
	}
	return nil
}

func ruleC11GuardedFields(c *Ctx) {
	u := c.U1
	c.rule("C11.guarded-fields", "in both back ends accessCounter/closing/closed are read only with rw held and written only with the write lock; `bytes` is written only by the constructor and close()", 20)
	for _, be := range secBackends {
		d := newLockDomain(u, be.pkg, be.typ, "rw")
		if len(d.funcs) == 0 {
			c.unresolved(be.pkg+"."+be.typ, "methods")
			continue
		}
		for _, f := range d.funcs {
			c.FuncsAnalysed[shortName(f)] = true
			for _, ga := range guardedAccesses(f, be.pkg, be.typ, be.fields, nil) {
				construct := fmt.Sprintf("%s/%s", trimPkgDirs(shortName(f)), ga.What)
				st := d.stateAt(ga.Instr)
				switch {
				case st == 0:
					c.ok(construct, u.ipos(ga.Instr), "unreachable inside the lock domain")
				case ga.Kind == accWrite && st != lsW:
					c.bad(construct, u.ipos(ga.Instr), "write of secret state while rw may be "+st.String())
				case ga.Kind == accRead && st&lsU != 0:
					c.bad(construct, u.ipos(ga.Instr), "read of secret state while rw may be "+st.String())
				default:
					c.ok(construct, u.ipos(ga.Instr), "rw is "+st.String())
				}
			}
		}
		var es []string
		for _, f := range d.funcs {
			es = append(es, f.Name()+":"+d.entry[f].String())
		}
		c.note("C11 %s.%s entry lock states: %v", trimPkgDirs(be.pkg), be.typ, es)
	}
	// protectedmemory: writers of secretInternal.bytes
	for _, f := range u.RepoFuncs {
		if f.Pkg == nil || f.Pkg.Pkg.Path() != pkgProt {
			continue
		}
		allInstrs(f, func(i ssa.Instruction) {
			st, ok := i.(*ssa.Store)
			if !ok {
				return
			}
			base, fld, isF := fieldAccess(st.Addr)
			if !isF || fld != "bytes" || !typeIsNamed(base.Type(), pkgProt, "secretInternal") {
				return
			}
			_, fresh := base.(*ssa.Alloc)
			// outside the constructor literal the only legal write drops the buffer for good: nil is stored, and on every
			// path of the same function the secret is marked closed (close() after the teardown, the abandon step of a
			// failed creation) — no reader can be inside the bracket of a closed secret
			okW := fresh
			if !okW && isNilConst(strip(st.Val)) && f.Signature.Recv() != nil {
				okW, _ = mustPass(st.Block(), indexOf(st)+1, func(j ssa.Instruction) bool {
					s2, isS := j.(*ssa.Store)
					if !isS {
						return false
					}
					_, f2, isF2 := fieldAccess(s2.Addr)
					k, isC := constOf(s2.Val)
					return isF2 && f2 == "closed" && isC && k.ExactString() == "true"
				}, nil)
			}
			c.check(okW, trimPkgDirs(shortName(f))+"/bytes-write", u.ipos(i), "bytes written only by the constructor literal, or dropped (nil) together with closed = true", "secretInternal.bytes is reassigned outside the constructor without the secret being marked closed: readers inside the bracket could see another buffer")
		})
	}
}

func ruleC11Bracket(c *Ctx) {
	u := c.U1
	c.rule("C11.bracket", "WithBytes/WithBytesFunc of both back ends: the action is called only on the access() == nil edge, and a deferred call reaching release() is registered before the action runs", 4)
	for _, be := range secBackends {
		for _, m := range []string{"WithBytes", "WithBytesFunc"} {
			f := u.Method(be.pkg, be.outer, m)
			construct := trimPkgDirs(be.pkg) + "." + be.outer + "." + m
			if f == nil {
				c.unresolved(construct, "method")
				continue
			}
			c.FuncsAnalysed[shortName(f)] = true
			var action ssa.Instruction
			allInstrs(f, func(i ssa.Instruction) {
				if dynamicCallOfParam(i, "action") {
					action = i
				}
			})
			if action == nil {
				c.bad(construct, u.pos(f.Pos()), "the action is never invoked")
				continue
			}
			// access() == nil edge
			var acc ssa.Instruction
			allInstrs(f, func(i ssa.Instruction) {
				if g := staticCallee(i); g != nil && g.Name() == "access" && instrDominates(i, action) {
					acc = i
				}
			})
			okAcc := false
			if acc != nil {
				if v, isV := acc.(ssa.Value); isV {
					okAcc = knownNil(v, action.Block())
				}
			}
			// deferred release before action — and only after access() succeeded (a rejected access must not release)
			okRel := false
			relBalanced := true
			allInstrs(f, func(i ssa.Instruction) {
				d, isD := i.(*ssa.Defer)
				if !isD {
					return
				}
				releases := false
				if g := staticCallee(d); g != nil && (g.Name() == "release" || reachesRelease(g, 0)) {
					releases = true
				}
				if mc, isMC := d.Call.Value.(*ssa.MakeClosure); isMC {
					releases = releases || reachesRelease(mc.Fn.(*ssa.Function), 0)
				}
				if releases {
					v, isV := acc.(ssa.Value)
					if acc == nil || !isV || !instrDominates(acc, i) || !knownNil(v, i.Block()) {
						relBalanced = false
					}
				}
				if !instrDominates(i, action) {
					return
				}
				if g := staticCallee(d); g != nil && (g.Name() == "release" || mustRelease(g, 0)) {
					okRel = true
				}
				if mc, isMC := d.Call.Value.(*ssa.MakeClosure); isMC && mustRelease(mc.Fn.(*ssa.Function), 0) {
					okRel = true
				}
			})
			// the bytes handed to the action are the secret's own
			arg := callOf(action).Args[0]
			okBytes := strings.HasSuffix(accessPath(arg), ".bytes") || isBufferBytes(arg)
			switch {
			case !okAcc:
				c.bad(construct, u.ipos(action), "the action runs on a path where access() is not known to have succeeded (bytes are PROT_NONE or the secret is closed: fault instead of an error)")
			case !relBalanced:
				c.bad(construct, u.ipos(action), "release() is deferred on a path where access() has not (yet) succeeded: a rejected access still decrements the reader count — with a reader in flight the pages go PROT_NONE under it and a waiting Close destroys the memory")
			case !okRel:
				c.bad(construct, u.ipos(action), "release() is not deferred before the action runs: a panicking action leaves the pages readable and the reader count raised (Close would wait forever)")
			case !okBytes:
				c.bad(construct, u.ipos(action), "the action does not receive the secret's own bytes")
			default:
				c.ok(construct, u.ipos(action), "access()==nil dominates, release deferred unconditionally, own bytes passed")
			}
		}
	}
}

func isBufferBytes(v ssa.Value) bool {
	cv, ok := resolve(v).(*ssa.Call)
	return ok && staticIs(cv, "(*github.com/awnumar/memguard.LockedBuffer).Bytes")
}

func ruleC11ProtectionTransitions(c *Ctx) {
	u := c.U1
	c.rule("C11.protection-transitions", "access: Protect(ReadOnly) on the accessCounter==0 edge before the increment; release: Protect(NoAccess) on the accessCounter==0 edge after the decrement; creation success returns are dominated by a successful Protect(NoAccess); newSecret success passes Alloc then Lock", 6)
	for _, be := range secBackends {
		acc := u.Method(be.pkg, be.typ, "access")
		rel := u.Method(be.pkg, be.typ, "release")
		name := trimPkgDirs(be.pkg) + "." + be.typ
		if acc == nil || rel == nil {
			c.unresolved(name, "access/release")
			continue
		}
		// the counter step may live in a helper that access/release call with the lock held
		acc = bodyWith(acc, func(i ssa.Instruction) bool { return isCounterStore(i, token.ADD) })
		rel = bodyWith(rel, func(i ssa.Instruction) bool { return isCounterStore(i, token.SUB) })
		c.FuncsAnalysed[shortName(acc)] = true
		c.FuncsAnalysed[shortName(rel)] = true
		// access: every path entry→increment passes Protect(ReadOnly) or the (accessCounter == 0) false edge
		inc := counterStores(acc, token.ADD)
		if len(inc) != 1 {
			c.bad(name+".access/increment", u.pos(acc.Pos()), fmt.Sprintf("expected exactly one accessCounter increment, found %d", len(inc)))
		} else {
			found, tr := pathSearchAt(acc.Blocks[0], 0, func(i ssa.Instruction) pathAction {
				if protectFlag(i) == "ReadOnly" {
					return pathStop
				}
				if i == inc[0] {
					return pathFound
				}
				return pathContinue
			}, func(from, to *ssa.BasicBlock) bool {
				for _, fct := range edgeFacts(from, to) {
					if z, ok := counterZeroFact(fct); ok && !z {
						return false
					}
				}
				return true
			})
			if found {
				c.bad(name+".access/readonly-before-increment", u.ipos(inc[0]), "the first reader can be counted without the pages having been made readable (Protect(ReadOnly) skipped on the 0→1 transition)", u.tracePositions(tr)...)
			} else {
				c.ok(name+".access/readonly-before-increment", u.ipos(inc[0]), "0→1 passes Protect(ReadOnly) before the increment")
			}
		}
		// release: after the decrement every path to return passes Protect(NoAccess) or the ==0 false edge
		dec := counterStores(rel, token.SUB)
		if len(dec) != 1 {
			c.bad(name+".release/decrement", u.pos(rel.Pos()), fmt.Sprintf("expected exactly one accessCounter decrement, found %d", len(dec)))
		} else {
			ok, tr := mustPass(dec[0].Block(), indexOf(dec[0])+1, func(i ssa.Instruction) bool { return protectFlag(i) == "NoAccess" }, func(from, to *ssa.BasicBlock) bool {
				for _, fct := range edgeFacts(from, to) {
					if z, ok := counterZeroFact(fct); ok && !z {
						return true
					}
				}
				return false
			})
			if ok {
				c.ok(name+".release/noaccess-on-last", u.ipos(dec[0]), "→0 passes Protect(NoAccess)")
			} else {
				c.bad(name+".release/noaccess-on-last", u.ipos(dec[0]), "the last reader can leave without the pages being made inaccessible again", u.tracePositions(tr)...)
			}
		}
	}
	// creation success returns dominated by successful Protect(NoAccess)
	for _, spec := range []struct{ pkg, typ, meth string }{
		{pkgProt, "SecretFactory", "New"}, {pkgProt, "SecretFactory", "createRandom"}, {pkgMemg, "SecretFactory", "newFromBuffer"},
	} {
		f := u.Method(spec.pkg, spec.typ, spec.meth)
		name := trimPkgDirs(spec.pkg) + "." + spec.typ + "." + spec.meth
		if f == nil {
			c.unresolved(name, "method")
			continue
		}
		c.FuncsAnalysed[shortName(f)] = true
		for _, r := range returnsOf(f) {
			if !isNilValue(returnedValue(r, len(r.Results)-1)) || isNilValue(returnedValue(r, 0)) {
				continue
			}
			ok := false
			allInstrs(f, func(i ssa.Instruction) {
				if protectFlag(i) == "NoAccess" && instrDominates(i, r) {
					if e := errOfCall(i); e != nil && knownNil(e, r.Block()) {
						ok = true
					}
				}
			})
			c.check(ok, name+"/success-return", u.ipos(r), "a successful Protect(NoAccess) dominates the success return", "a secret is handed out without its pages having been set to no-access")
		}
	}
	if ns := u.Func(pkgProt, "newSecret"); ns == nil {
		c.unresolved("protectedmemory.newSecret", "function")
	} else {
		c.FuncsAnalysed[shortName(ns)] = true
		for _, r := range returnsOf(ns) {
			if !isNilValue(returnedValue(r, 1)) {
				continue
			}
			ok := allocThenLock(ns, r, 0)
			c.check(ok, "protectedmemory.newSecret/alloc-then-lock", u.ipos(r), "success return dominated by successful Alloc then Lock of the same buffer", "a secret is created without its pages being allocated and mlock'd (in that order, both succeeding)")
		}
	}
}

// counterStores: stores to field accessCounter whose value is <load of accessCounter> op 1.
func counterStores(f *ssa.Function, op token.Token) []ssa.Instruction {
	var out []ssa.Instruction
	allInstrs(f, func(i ssa.Instruction) {
		if isCounterStore(i, op) {
			out = append(out, i)
		}
	})
	return out
}

func isCounterStore(i ssa.Instruction, op token.Token) bool {
	// a call of a helper `func (s *T) add(delta int) { s.accessCounter += delta }` with a constant +1 / −1
	if cv, isCall := i.(*ssa.Call); isCall {
		if h := staticCallee(cv); h != nil && h.Blocks != nil && h.Signature.Recv() != nil && i.Parent() != nil && h.Pkg == i.Parent().Pkg {
			if k, ok := counterDeltaParam(h); ok && k < len(cv.Call.Args) {
				if d, isC := constOf(cv.Call.Args[k]); isC && d.Kind() == constant.Int {
					return (op == token.ADD && d.ExactString() == "1") || (op == token.SUB && d.ExactString() == "-1")
				}
			}
		}
		return false
	}
	st, ok := i.(*ssa.Store)
	if !ok {
		return false
	}
	if _, fld, isF := fieldAccess(st.Addr); !isF || fld != "accessCounter" {
		return false
	}
	b, isB := st.Val.(*ssa.BinOp)
	if !isB || b.Op != op {
		return false
	}
	if _, fld, isF := fieldAccess(b.X); !isF || fld != "accessCounter" {
		return false
	}
	k, isC := constOf(b.Y)
	return isC && k.ExactString() == "1"
}

// counterZeroFact: what the fact says about accessCounter being zero (`== 0` / `!= 0` / `> 0` in either polarity).
func counterZeroFact(fct Fact) (zero bool, ok bool) {
	b, isB := fct.V.(*ssa.BinOp)
	if !isB {
		return false, false
	}
	_, fld, isF := fieldAccess(b.X)
	k, isC := constOf(b.Y)
	if !isF || fld != "accessCounter" || !isC || k.ExactString() != "0" {
		return false, false
	}
	switch b.Op {
	case token.EQL:
		return fct.True, true
	case token.NEQ, token.GTR:
		return !fct.True, true
	}
	return false, false
}

func counterKnownZeroAt(b *ssa.BasicBlock) bool {
	for _, fct := range factsAt(b) {
		if z, ok := counterZeroFact(fct); ok && z {
			return true
		}
	}
	return false
}

func isCounterZeroTest(v ssa.Value) bool {
	b, ok := v.(*ssa.BinOp)
	if !ok || b.Op != token.EQL {
		return false
	}
	_, fld, isF := fieldAccess(b.X)
	k, isC := constOf(b.Y)
	return isF && fld == "accessCounter" && isC && k.ExactString() == "0"
}

func ruleC11CloseWaitsAndOrders(c *Ctx) {
	u := c.U1
	c.rule("C11.close-waits-and-orders", "Close sets closing before waiting; destruction only on the accessCounter == 0 edge (lock held), otherwise Cond.Wait; every decrement is followed by Broadcast (Signal could wake the wrong one of several waiters); close() is ordered Protect(ReadWrite) → wipe → Unlock → Free → closed=true; access refuses closing/closed before any Protect", 10)
	for _, be := range secBackends {
		name := trimPkgDirs(be.pkg) + "." + be.typ
		cl := u.Method(be.pkg, be.typ, "Close")
		acc := u.Method(be.pkg, be.typ, "access")
		rel := u.Method(be.pkg, be.typ, "release")
		if cl == nil || acc == nil || rel == nil {
			c.unresolved(name, "Close/access/release")
			continue
		}
		c.FuncsAnalysed[shortName(cl)] = true
		d := newLockDomain(u, be.pkg, be.typ, "rw")
		// closing = true in the entry block
		setFirst := false
		for _, i := range cl.Blocks[0].Instrs {
			if st, ok := i.(*ssa.Store); ok {
				if _, fld, isF := fieldAccess(st.Addr); isF && fld == "closing" {
					if k, isC := constOf(st.Val); isC && k.ExactString() == "true" {
						setFirst = true
					}
				}
			}
		}
		c.check(setFirst, name+".Close/closing-first", u.pos(cl.Pos()), "closing = true before the wait loop", "Close does not mark the secret closing before waiting for readers: new readers keep arriving and Close may never finish")
		// destruction call
		isDestroy := func(i ssa.Instruction) bool {
			if g := staticCallee(i); g != nil {
				if g.Name() == "close" && g.Signature.Recv() != nil {
					return true
				}
				if funcFullName(g) == "(*github.com/awnumar/memguard.LockedBuffer).Destroy" {
					return true
				}
			}
			return false
		}
		nd := 0
		for _, i := range stepSites(cl, isDestroy) {
			nd++
			zero := counterKnownZeroAt(i.Block())
			st := d.stateAt(i)
			c.check(zero && st == lsW, name+".Close/destroy-when-idle", u.ipos(i), "destroyed only where accessCounter == 0 with rw write-locked", "the secret's memory is destroyed while readers may still be inside their callback (not guarded by accessCounter == 0 under the lock)")
		}
		if nd == 0 {
			c.bad(name+".Close/destroy-when-idle", u.pos(cl.Pos()), "Close never destroys the secret")
		}
		// on the accessCounter != 0 edge: Wait before looping
		waitOK := true
		sawEdge := false
		for _, b := range cl.Blocks {
			for _, s := range b.Succs {
				for _, fct := range edgeFacts(b, s) {
					if z, ok := counterZeroFact(fct); ok && !z {
						sawEdge = true
						found, _ := pathSearchAt(s, 0, func(j ssa.Instruction) pathAction {
							if staticIs(j, "(*sync.Cond).Wait") {
								return pathStop
							}
							if j.Block() == b && indexOf(j) == len(b.Instrs)-1 {
								return pathFound // back at the test without waiting: busy loop holding the lock
							}
							if isReturn(j) {
								return pathFound
							}
							return pathContinue
						}, nil)
						if found {
							waitOK = false
						}
					}
				}
			}
		}
		c.check(sawEdge && waitOK, name+".Close/waits", u.pos(cl.Pos()), "readers present → Cond.Wait, then re-test", "with readers present Close does not wait on the condition variable (returns or spins): the memory is freed under a reader or the close is lost")
		// every decrement followed by Broadcast/Signal (deferred before it, or a call after it on every path)
		c.FuncsAnalysed[shortName(rel)] = true
		for _, dec := range stepSites(rel, func(i ssa.Instruction) bool { return isCounterStore(i, token.SUB) }) {
			ok := false
			allInstrs(rel, func(i ssa.Instruction) {
				if df, isD := i.(*ssa.Defer); isD && instrDominates(i, dec) {
					if g := staticCallee(df); g != nil && (funcFullName(g) == "(*sync.Cond).Broadcast") {
						ok = true
					}
				}
			})
			if !ok {
				ok, _ = mustPass(dec.Block(), indexOf(dec)+1, func(j ssa.Instruction) bool {
					return staticIs(j, "(*sync.Cond).Broadcast")
				}, nil)
			}
			c.check(ok, name+".release/wakeup", u.ipos(dec), "decrement is followed by Broadcast on every path", "a reader can leave without waking a waiting Close (lost wake-up: Close blocks forever)")
		}
		// access refuses closing/closed before Protect
		c.FuncsAnalysed[shortName(acc)] = true
		for _, i := range stepSites(acc, func(i ssa.Instruction) bool { return mcOp(i) == "Protect" }) {
			notClosing := guardedBy(i, false, func(v ssa.Value) bool { _, fld, ok := fieldAccess(v); return ok && fld == "closing" })
			var notClosed bool
			if be.pkg == pkgProt {
				notClosed = guardedBy(i, false, func(v ssa.Value) bool { _, fld, ok := fieldAccess(v); return ok && fld == "closed" })
			} else {
				notClosed = guardedBy(i, true, func(v ssa.Value) bool {
					cv, ok := strip(v).(*ssa.Call)
					return ok && staticIs(cv, "(*github.com/awnumar/memguard.LockedBuffer).IsAlive")
				})
			}
			c.check(notClosing && notClosed, name+".access/refuses-closed", u.ipos(i), "Protect only where the secret is neither closing nor closed", "access changes page protection of a secret that is closing or closed (freed pages: fault instead of an error)")
		}
	}
	// protectedmemory close(): ordering
	if f := u.Method(pkgProt, "secretInternal", "close"); f == nil {
		c.unresolved("protectedmemory.secretInternal.close", "method")
	} else {
		c.FuncsAnalysed[shortName(f)] = true
		var steps [5]ssa.Instruction
		allInstrs(f, func(i ssa.Instruction) {
			switch {
			case protectFlag(i) == "ReadWrite":
				steps[0] = i
			case func() bool { a, ok := wipeArg(i); return ok && strings.HasSuffix(accessPath(a), ".bytes") }():
				steps[1] = i
			case mcOp(i) == "Unlock":
				steps[2] = i
			case mcOp(i) == "Free":
				steps[3] = i
			}
			if st, ok := i.(*ssa.Store); ok {
				if _, fld, isF := fieldAccess(st.Addr); isF && fld == "closed" {
					steps[4] = i
				}
			}
		})
		names := []string{"Protect(ReadWrite)", "wipe", "Unlock", "Free", "closed=true"}
		bad := ""
		for k := 0; k < 5; k++ {
			if steps[k] == nil {
				bad = names[k] + " missing"
				break
			}
			if k > 0 && !instrDominates(steps[k-1], steps[k]) {
				bad = names[k-1] + " does not precede " + names[k]
				break
			}
		}
		c.check(bad == "", "protectedmemory.secretInternal.close/order", u.pos(f.Pos()), strings.Join(names, " → "), "close() is not ordered make-writable → wipe → unlock → free → mark closed: "+bad)
	}
}

func ruleC11CoreDumps(c *Ctx) {
	u := c.U1
	c.rule("C11.core-dumps", "package protectedmemory imports github.com/awnumar/memguard/core (its init disables core dumps) or calls memcall.DisableCoreDumps from an init function", 1)
	p := u.ByPath[pkgProt]
	if p == nil {
		c.unresolved("protectedmemory", "package")
		return
	}
	ok := false
	for path := range p.Imports {
		if path == "github.com/awnumar/memguard/core" || path == "github.com/awnumar/memguard" {
			ok = true
		}
	}
	if !ok {
		for _, f := range u.RepoFuncs {
			if f.Pkg != nil && f.Pkg.Pkg.Path() == pkgProt && strings.HasPrefix(f.Name(), "init") {
				allInstrs(f, func(i ssa.Instruction) {
					if g := staticCallee(i); g != nil && g.Name() == "DisableCoreDumps" {
						ok = true
					}
				})
			}
		}
	}
	c.check(ok, "protectedmemory/core-dumps", "", "imports memguard/core (init disables core dumps)", "protectedmemory neither imports memguard/core nor disables core dumps itself: secrets can end up in core files")
}

// allocThenLock: return r of f (a nil-error return) is dominated by a successful Alloc followed by a successful Lock of
// the allocated buffer — in f itself, or inside a helper whose error is known nil at r and whose own nil-error returns
// all satisfy this.
func allocThenLock(f *ssa.Function, r *ssa.Return, depth int) bool {
	var alloc, lock ssa.Instruction
	viaHelper := false
	allInstrs(f, func(i ssa.Instruction) {
		if !instrDominates(i, r) {
			return
		}
		e := errOfCall(i)
		if e == nil || !knownNil(e, r.Block()) {
			return
		}
		switch mcOp(i) {
		case "Alloc":
			alloc = i
		case "Lock":
			lock = i
		default:
			if h := staticCallee(i); h != nil && h.Blocks != nil && h.Pkg != nil && h.Pkg.Pkg.Path() == pkgProt && h != f && depth < 2 {
				all, n := true, 0
				for _, hr := range returnsOf(h) {
					if len(hr.Results) < 2 || !isNilValue(returnedValue(hr, len(hr.Results)-1)) {
						continue
					}
					n++
					if !allocThenLock(h, hr, depth+1) {
						all = false
					}
				}
				if all && n > 0 {
					viaHelper = true
				}
			}
		}
	})
	if viaHelper {
		return true
	}
	ok := alloc != nil && lock != nil && instrDominates(alloc, lock)
	if ok {
		ok = strip(callOf(lock).Args[0]) == strip(resultsOfType(alloc, isByteSlice)[0][0])
	}
	return ok
}

// mustRelease: every path through g calls release() (directly, or through a helper that does) — unconditionally.
func mustRelease(g *ssa.Function, depth int) bool {
	if g == nil || g.Blocks == nil || depth > 2 {
		return false
	}
	ok, _ := mustPass(g.Blocks[0], 0, func(j ssa.Instruction) bool {
		if _, isCall := j.(*ssa.Call); !isCall {
			return false
		}
		h := staticCallee(j)
		if h == nil {
			return false
		}
		return h.Name() == "release" || (h != g && h.Pkg == g.Pkg && mustRelease(h, depth+1))
	}, nil)
	return ok
}

// reachesRelease: some path through g calls release() (used to find every defer that can decrement the reader count).
func reachesRelease(g *ssa.Function, depth int) bool {
	if g == nil || g.Blocks == nil || depth > 2 {
		return false
	}
	hit := false
	allInstrs(g, func(j ssa.Instruction) {
		if h := staticCallee(j); h != nil {
			if h.Name() == "release" || (h != g && h.Pkg == g.Pkg && reachesRelease(h, depth+1)) {
				hit = true
			}
		}
	})
	return hit
}

// counterDeltaParam: h's only effect on accessCounter is `accessCounter = accessCounter + <parameter k>` on every path;
// returns k.
func counterDeltaParam(h *ssa.Function) (int, bool) {
	k := -1
	var step ssa.Instruction
	n := 0
	allInstrs(h, func(i ssa.Instruction) {
		st, ok := i.(*ssa.Store)
		if !ok {
			return
		}
		if _, fld, isF := fieldAccess(st.Addr); !isF || fld != "accessCounter" {
			return
		}
		n++
		b, isB := st.Val.(*ssa.BinOp)
		if !isB || b.Op != token.ADD {
			return
		}
		if _, fld, isF := fieldAccess(b.X); !isF || fld != "accessCounter" {
			return
		}
		p, isP := strip(b.Y).(*ssa.Parameter)
		if !isP {
			return
		}
		for j, q := range h.Params {
			if q == p {
				k = j
				step = i
			}
		}
	})
	if n != 1 || k < 0 {
		return 0, false
	}
	ok, _ := mustPass(h.Blocks[0], 0, func(i ssa.Instruction) bool { return i == step }, nil)
	return k, ok
}
