package main

// E-OWN: must-release (linear ownership) analysis on SSA (DESIGN §1.3).
//
// An obligation is born at a creator call (value v, optionally paired with an error result e). On every CFG
// path from the call to a Return of the enclosing function one of the following must happen:
//   - release: a call or defer of a releasing method on v (or an alias),
//   - return:  v (or an alias) is returned (the caller inherits the obligation),
//   - consume: v is handed to a declared consumer (argument position of a function, or store into a listed field),
// unless the path takes an edge on which the obligation is void (e != nil, or v == nil).
// Panicking paths are not exits. Aliases are computed flow-insensitively (interfaces conversions, phis, local
// slots, identity wrappers), which can only hide a leak, never invent one.

import (
	"go/token"
	"go/types"

	"golang.org/x/tools/go/ssa"
)

type valueSet map[ssa.Value]bool

type ownRules struct {
	// identity functions: result aliases argument #idx  (full name -> arg index)
	identity map[string]int
	// releases: a call/defer for which isRelease returns true discharges the obligation
	isRelease func(i ssa.Instruction, al valueSet) bool
	// consumers: full name of callee -> argument indices that take ownership
	consumers map[string][]int
	// consumeFields: "TypeName.field" stores that take ownership
	consumeFields map[string]bool
	// extra void edges
	voidEdge func(from, to *ssa.BasicBlock, al valueSet) bool
}

// aliasClosure computes values that denote the same object as v.
func aliasClosure(v ssa.Value, r *ownRules) valueSet {
	al := valueSet{v: true}
	work := []ssa.Value{v}
	push := func(x ssa.Value) {
		if x != nil && !al[x] {
			al[x] = true
			work = append(work, x)
		}
	}
	for len(work) > 0 {
		x := work[len(work)-1]
		work = work[:len(work)-1]
		refs := x.Referrers()
		if refs == nil {
			continue
		}
		for _, ref := range *refs {
			switch y := ref.(type) {
			case *ssa.MakeInterface:
				push(y)
			case *ssa.ChangeInterface:
				push(y)
			case *ssa.ChangeType:
				push(y)
			case *ssa.TypeAssert:
				push(y)
			case *ssa.Phi:
				push(y)
			case *ssa.Slice:
				if y.X == x {
					push(y) // re-slicing shares the backing array
				}
			case *ssa.Extract:
				// (v, ok) := x.(T)
				if _, isTA := y.Tuple.(*ssa.TypeAssert); isTA && y.Index == 0 {
					push(y)
				}
			case *ssa.Store:
				if y.Val == x {
					if a, ok := y.Addr.(*ssa.Alloc); ok {
						// local slot (named result, defer spill, captured variable): loads are aliases
						for _, ar := range *a.Referrers() {
							if ld, ok := ar.(*ssa.UnOp); ok && ld.Op == token.MUL && ld.X == a {
								push(ld)
							}
						}
					}
				}
			case ssa.CallInstruction:
				if cv, ok := y.(*ssa.Call); ok && r != nil {
					if f := orig(y.Common().StaticCallee()); f != nil {
						if idx, ok := r.identity[funcFullName(f)]; ok {
							args := y.Common().Args
							if idx < len(args) && args[idx] == x {
								push(cv)
							}
						}
					}
				}
			}
		}
	}
	return al
}

type ownOutcome struct {
	OK    bool
	Trace []ssa.Instruction
	How   map[string]int // release/return/consume/void counts seen while exploring
}

// receiverOf returns the receiver value of a method call (static or invoke), nil for plain functions.
func receiverOf(c *ssa.CallCommon) ssa.Value {
	if c.IsInvoke() {
		return c.Value
	}
	if f := orig(c.StaticCallee()); f != nil && f.Signature.Recv() != nil && len(c.Args) > 0 {
		return c.Args[0]
	}
	// bound method closures etc. are not handled
	return nil
}

func methodNameOf(c *ssa.CallCommon) string {
	if c.IsInvoke() {
		return c.Method.Name()
	}
	if f := orig(c.StaticCallee()); f != nil && f.Signature.Recv() != nil {
		return f.Name()
	}
	return ""
}

// closeRelease: call/defer of a method named Close on an alias.
func closeRelease(i ssa.Instruction, al valueSet) bool {
	c := callOf(i)
	if c == nil {
		return false
	}
	if _, isGo := i.(*ssa.Go); isGo {
		return false
	}
	if methodNameOf(c) != "Close" {
		return false
	}
	rv := receiverOf(c)
	return rv != nil && al[rv]
}

// checkOwned explores all paths from `born` and reports a path that reaches a Return with the obligation open.
func checkOwned(born ssa.Instruction, v ssa.Value, errV ssa.Value, r *ownRules) ownOutcome {
	al := aliasClosure(v, r)
	how := map[string]int{}
	errPath := ""
	if errV != nil {
		errPath = accessPath(errV)
	}
	visit := func(i ssa.Instruction) pathAction {
		switch x := i.(type) {
		case *ssa.Return:
			for k := range x.Results {
				res := returnedValue(x, k)
				if al[res] || al[strip(res)] {
					how["return"]++
					return pathStop
				}
			}
			return pathFound
		case *ssa.Panic:
			how["panic"]++
			return pathStop
		case *ssa.Store:
			if al[x.Val] {
				if base, fld, ok := fieldAccess(x.Addr); ok && r != nil {
					if r.consumeFields[namedTypeName(base.Type())+"."+fld] {
						how["consume-field"]++
						return pathStop
					}
				}
			}
		}
		if c := callOf(i); c != nil {
			if r != nil && r.isRelease != nil && r.isRelease(i, al) {
				how["release"]++
				return pathStop
			}
			// deferred / immediate closure that releases a captured alias
			if mc, ok := c.Value.(*ssa.MakeClosure); ok && r != nil && r.isRelease != nil {
				if closureReleases(mc, al, r) {
					how["release-closure"]++
					return pathStop
				}
			}
			if r != nil && !c.IsInvoke() {
				if f := orig(c.StaticCallee()); f != nil {
					if idxs, ok := r.consumers[funcFullName(f)]; ok {
						for _, idx := range idxs {
							if idx < len(c.Args) && al[c.Args[idx]] {
								how["consume"]++
								return pathStop
							}
						}
					}
				}
			}
		}
		return pathContinue
	}
	okFlag := pairedOkFlag(v)
	edgeOK := func(from, to *ssa.BasicBlock) bool {
		for _, f := range edgeFacts(from, to) {
			if okFlag != nil && f.Sub == nil && strip(f.V) == okFlag && !f.True {
				how["void-not-ok"]++
				return false // the creator reported ok == false: it hands out nothing then (checked in pairedOkFlag)
			}
			if x, isNil, ok := nilTest(f); ok {
				if errPath != "" && !isNil && accessPath(x) == errPath {
					how["void-err"]++
					return false // err != nil: creator failed, nothing owned
				}
				if isNil && (al[x] || al[strip(x)]) {
					how["void-nil"]++
					return false // v == nil
				}
			}
		}
		if r != nil && r.voidEdge != nil && r.voidEdge(from, to, al) {
			how["void"]++
			return false
		}
		return true
	}
	found, tr := pathSearch(born, visit, edgeOK)
	return ownOutcome{OK: !found, Trace: tr, How: how}
}

// closureReleases: the closure captures an alias (or the slot holding it) and its body releases it on some path.
// (Used for `defer func() { ... x.Close() ... }()`; a closure that releases only conditionally is accepted, the
// condition being part of the closure's own logic — stated as an approximation.)
func closureReleases(mc *ssa.MakeClosure, al valueSet, r *ownRules) bool {
	fn, ok := mc.Fn.(*ssa.Function)
	if !ok {
		return false
	}
	for bi, b := range mc.Bindings {
		captured := al[b]
		if a, isA := b.(*ssa.Alloc); isA && !captured {
			for _, s := range localStores(a) {
				if al[s] {
					captured = true
				}
			}
		}
		if !captured || bi >= len(fn.FreeVars) {
			continue
		}
		fv := fn.FreeVars[bi]
		inner := aliasClosure(fv, r)
		// captured by reference: loads of the free variable
		if refs := fv.Referrers(); refs != nil {
			for _, ref := range *refs {
				if ld, ok := ref.(*ssa.UnOp); ok && ld.Op == token.MUL {
					for k := range aliasClosure(ld, r) {
						inner[k] = true
					}
				}
			}
		}
		rel := false
		allInstrs(fn, func(i ssa.Instruction) {
			if r.isRelease(i, inner) {
				rel = true
			}
		})
		if rel {
			return true
		}
	}
	return false
}

func namedTypeName(t types.Type) string {
	t = types.Unalias(t)
	if p, ok := t.Underlying().(*types.Pointer); ok {
		t = types.Unalias(p.Elem())
	}
	if n, ok := t.(*types.Named); ok {
		return n.Origin().Obj().Name()
	}
	return t.String()
}

// pairedError returns the error-typed Extract of the same call tuple as v (for v = extract #k of a call), if any.
// pairedOkFlag: v is result #k of a static call to a repo function that also returns a bool, and every return of that
// function either carries the constant true or carries nil as result #k together with the constant false: then the
// bool is an "ok" flag whose false edge voids the obligation on v. Returns the flag's Extract.
func pairedOkFlag(v ssa.Value) ssa.Value {
	ex, ok := v.(*ssa.Extract)
	if !ok {
		return nil
	}
	call, ok := ex.Tuple.(*ssa.Call)
	if !ok {
		return nil
	}
	g := call.Call.StaticCallee()
	if g == nil || g.Blocks == nil {
		return nil
	}
	res := g.Signature.Results()
	bi := -1
	for k := 0; k < res.Len(); k++ {
		if b, isB := res.At(k).Type().Underlying().(*types.Basic); isB && b.Kind() == types.Bool {
			if bi >= 0 {
				return nil
			}
			bi = k
		}
	}
	if bi < 0 {
		return nil
	}
	for _, r := range returnsOf(g) {
		if len(r.Results) != res.Len() {
			return nil
		}
		k, isC := constOf(strip(returnedValue(r, bi)))
		if !isC {
			return nil
		}
		if k.ExactString() == "false" && !isNilValue(returnedValue(r, ex.Index)) {
			return nil
		}
	}
	refs := call.Referrers()
	if refs == nil {
		return nil
	}
	for _, r := range *refs {
		if e2, isE := r.(*ssa.Extract); isE && e2.Index == bi {
			return e2
		}
	}
	return nil
}

func pairedError(v ssa.Value) ssa.Value {
	ex, ok := v.(*ssa.Extract)
	if !ok {
		return nil
	}
	refs := ex.Tuple.Referrers()
	if refs == nil {
		return nil
	}
	for _, r := range *refs {
		if e2, ok := r.(*ssa.Extract); ok && e2 != ex && isErrorType(e2.Type()) {
			return e2
		}
	}
	return nil
}

func isErrorType(t types.Type) bool {
	n, ok := types.Unalias(t).(*types.Named)
	return ok && n.Obj().Pkg() == nil && n.Obj().Name() == "error"
}

// resultsOfType lists (value, pairedErr) for each result of call i whose type satisfies pred.
func resultsOfType(i ssa.Instruction, pred func(types.Type) bool) [][2]ssa.Value {
	cv, ok := i.(*ssa.Call)
	if !ok {
		return nil
	}
	var out [][2]ssa.Value
	if tup, isTup := cv.Type().(*types.Tuple); isTup {
		refs := cv.Referrers()
		found := map[int]bool{}
		if refs != nil {
			for _, r := range *refs {
				if ex, ok := r.(*ssa.Extract); ok && pred(ex.Type()) {
					out = append(out, [2]ssa.Value{ex, pairedError(ex)})
					found[ex.Index] = true
				}
			}
		}
		// a result that is never extracted is dropped on the floor: report it as an owned value with no uses
		for k := 0; k < tup.Len(); k++ {
			if pred(tup.At(k).Type()) && !found[k] {
				out = append(out, [2]ssa.Value{nil, nil})
			}
		}
		return out
	}
	if pred(cv.Type()) {
		out = append(out, [2]ssa.Value{cv, nil})
	}
	return out
}

// returnedValue: result #k of r, read through the defer-spill slot idiom ("*slot = v; rundefers; t = *slot; return t")
// so that which value is returned is decided per return site, not flow-insensitively.
func returnedValue(r *ssa.Return, k int) ssa.Value {
	res := r.Results[k]
	if ld, ok := res.(*ssa.UnOp); ok && ld.Op == token.MUL {
		if _, isA := ld.X.(*ssa.Alloc); isA {
			if s := reachingStoreInBlock(ld); s != nil {
				return s
			}
		}
	}
	return res
}
